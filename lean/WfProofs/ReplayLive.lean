import WfProofs.ReplayErase
import WfProofs.EngineTerminal
import WfProofs.EngineIds
/-!
Live run versus replay of its persisted log.

For every schedule (action list), every point of a run started fresh from a start event: replaying
the ticks logged so far — at an arbitrary clock, from the (rewound) empty state — never raises and
yields a state that agrees with the live reducer state up to `first_attempt_at` of in-progress
invocations; the exit command replay remembers is the one that ended the live run (none while it
is running).  `TimeFree pol` (decisions do not depend on elapsed time) and "every logged
step-result tick carries at most one outcome" (what the step wrapper produces) are the hypotheses.
-/
set_option linter.unusedVariables false
set_option linter.unusedSimpArgs false

namespace Engine

def ticksOf (log : List (Tick × Int)) : List Tick := log.map (·.1)

/-! ### one more tick at the end of a replay -/

theorem replayFrom_snoc (cfg : Cfg) (pol : Policy) (clk : Nat → Int) (t : Tick) :
    ∀ (l : List Tick) (i : Nat) (acc : Replayed),
      replayFrom cfg pol clk i acc (l ++ [t]) =
        match replayFrom cfg pol clk i acc l with
        | none => none
        | some a =>
          if (reduce cfg pol t a.st (clk (i + l.length))).2.contains .crash then none
          else some { st := (reduce cfg pol t a.st (clk (i + l.length))).1,
                      exit := lastExit a.exit (reduce cfg pol t a.st (clk (i + l.length))).2 }
  | [], i, acc => by simp [replayFrom]
  | x :: xs, i, acc => by
    simp only [List.cons_append, replayFrom]
    split
    · rfl
    · rw [replayFrom_snoc cfg pol clk t xs (i + 1)]
      simp only [List.length_cons]
      have : i + 1 + xs.length = i + (xs.length + 1) := by omega
      rw [this]

/-! ### at most one exit command per tick -/

def exitCount (l : List Cmd) : Nat := (l.filter Cmd.isExit).length

theorem exitCount_append (a b : List Cmd) : exitCount (a ++ b) = exitCount a + exitCount b := by
  simp [exitCount]

theorem exitCount_plain (l : List Cmd) (h : ∀ c ∈ l, plainCmd c = true) : exitCount l = 0 := by
  simp only [exitCount, List.length_eq_zero_iff, List.filter_eq_nil_iff]
  intro c hc
  have := h c hc
  simp only [plainCmd, Bool.and_eq_true, Bool.not_eq_true'] at this
  simp [this.1]

def Res.isOutcome : Res → Bool
  | .result _ => true
  | .failed _ _ => true
  | _ => false

def outcomes (res : List Res) : Nat := (res.filter Res.isOutcome).length

/-- a step-result tick reports at most one outcome (a return value or a failure) — what
`step_function.py` builds: state deltas followed by exactly one result -/
def Tick.oneOutcome : Tick → Bool
  | .stepResult _ _ _ res => outcomes res ≤ 1
  | _ => true

theorem applyRes_exitCount (cfg : Cfg) (pol : Policy) (step : Nat) (tickEv : Ev) (dc : Bool) (acc : ResAcc) (r : Res) :
    exitCount (applyRes cfg pol step tickEv dc acc r).cmds ≤ exitCount acc.cmds + (if r.isOutcome then 1 else 0) := by
  cases r with
  | result r =>
    cases r with
    | none => simp [applyRes, Res.isOutcome]
    | some ev =>
      simp only [applyRes, Res.isOutcome, if_true]
      split
      · rw [exitCount_append]; exact Nat.add_le_add_left (Nat.le_of_eq rfl) _
      · split <;> simp [exitCount_append, exitCount, Cmd.isExit]
  | failed exc failedAt =>
    simp only [applyRes, Res.isOutcome, if_true]
    split
    · omega
    split
    · simp [exitCount_append, exitCount, Cmd.isExit]
    all_goals
      split
      · split
        · simp [exitCount_append, exitCount, Cmd.isExit]
        · rw [exitCount_append]; exact Nat.add_le_add_left (Nat.le_of_eq rfl) _
      · rw [exitCount_append]; exact Nat.add_le_add_left (Nat.le_of_eq rfl) _
  | addCollected buf ev =>
    simp only [applyRes, Res.isOutcome]
    split
    · simp
    split <;> simp [exitCount_append, exitCount, Cmd.isExit]
  | deleteCollected buf => simp only [applyRes, Res.isOutcome]; split <;> simp
  | addWaiter wid waiterEv req timeout ty =>
    simp only [applyRes, Res.isOutcome]
    split
    · simp
    · cases waiterEv <;> cases timeout <;> simp [exitCount_append, exitCount, Cmd.isExit]
  | deleteWaiter wid => simp only [applyRes, Res.isOutcome]; split <;> simp

theorem foldl_applyRes_exitCount (cfg : Cfg) (pol : Policy) (step : Nat) (tickEv : Ev) (dc : Bool) :
    ∀ (res : List Res) (acc : ResAcc),
      exitCount (res.foldl (applyRes cfg pol step tickEv dc) acc).cmds ≤ exitCount acc.cmds + outcomes res
  | [], acc => by simp [outcomes]
  | r :: rs, acc => by
    simp only [List.foldl_cons]
    have h1 := foldl_applyRes_exitCount cfg pol step tickEv dc rs (applyRes cfg pol step tickEv dc acc r)
    have h2 := applyRes_exitCount cfg pol step tickEv dc acc r
    have h3 : outcomes (r :: rs) = (if r.isOutcome then 1 else 0) + outcomes rs := by
      simp only [outcomes, List.filter_cons]
      split <;> simp <;> omega
    omega

theorem processStepResult_exitCount (cfg : Cfg) (pol : Policy) (step worker : Nat) (tickEv : Ev) (res : List Res)
    (st : State) (now : Int) :
    exitCount (processStepResult cfg pol step worker tickEv res st now).2 ≤ outcomes res := by
  unfold processStepResult
  split
  · simp [exitCount, Cmd.isExit]
  · split
    · simp [exitCount, Cmd.isExit]
    · rename_i exec _
      have hf := foldl_applyRes_exitCount cfg pol step tickEv (res.any isResult) res { st := st, exec := exec }
      simp only [exitCount, List.filter_nil, List.length_nil, Nat.zero_add] at hf
      generalize (res.foldl (applyRes cfg pol step tickEv (res.any isResult)) { st := st, exec := exec }) = acc at hf
      have hs : exitCount (settle acc step worker tickEv).2 ≤ outcomes res := by
        unfold settle; simp only; split
        · exact hf
        · simp only [exitCount, List.filter_cons, Cmd.isExit]
          exact hf
      simp only
      split
      · exact hs
      · rw [exitCount_append, exitCount_plain _ (drain_plain _ _ _ _ _)]
        simpa using hs

theorem reduce_exitCount (cfg : Cfg) (pol : Policy) (t : Tick) (st : State) (now : Int) (ht : t.oneOutcome = true) :
    exitCount (reduce cfg pol t st now).2 ≤ 1 := by
  have withIdle : ∀ (r : State × List Cmd), exitCount r.2 ≤ 1 →
      exitCount (if checkIdle cfg r.1 then (r.1, r.2 ++ [Cmd.scheduleIdleCheck]) else r).2 ≤ 1 := by
    intro r hr
    split
    · simpa [exitCount_append, exitCount, Cmd.isExit] using hr
    · exact hr
  unfold reduce
  cases t with
  | stepResult step worker ev res =>
    apply withIdle
    have := processStepResult_exitCount cfg pol step worker ev res st now
    simp only [Tick.oneOutcome, decide_eq_true_eq] at ht
    omega
  | addEvent att target =>
    apply withIdle
    rw [exitCount_plain _ (processAddEvent_plain cfg att target st now)]
    omega
  | cancelRun => apply withIdle; exact Nat.le_of_eq rfl
  | idleRelease => exact Nat.le_of_eq rfl
  | publish ev => apply withIdle; simp [exitCount, Cmd.isExit]
  | timeout t => apply withIdle; exact Nat.le_of_eq rfl
  | waiterTimeout step waiter =>
    apply withIdle
    have : exitCount (processWaiterTimeout cfg step waiter st now).2 = 0 := by
      unfold processWaiterTimeout
      split
      · rfl
      · simp only
        split
        · rfl
        · split
          · rfl
          · exact exitCount_plain _ (addOrEnqueue_plain _ _ _ _ _)
    omega
  | idleCheck =>
    simp only
    split <;> simp [exitCount, Cmd.isExit]

/-! ### what the runner makes of a command list -/

/-- the outcome an exit command gives the run -/
def exitOutcome : Cmd → Option Outcome
  | .halt k => some (.halted k)
  | .completeRun p => some (.completed p)
  | .failWorkflow s x => some (.failed s x)
  | _ => none

theorem execCmd_keeps (r : Runner) (c : Cmd) (hx : c.isExit = false) (hc : c ≠ .crash) :
    (execCmd r c).outcome = r.outcome ∧ (execCmd r c).st = r.st ∧ (execCmd r c).log = r.log := by
  cases c with
  | queueEvent att step delay =>
    cases delay with
    | none => exact ⟨rfl, rfl, rfl⟩
    | some d => simp only [execCmd]; split <;> exact ⟨rfl, rfl, rfl⟩
  | scheduleIdleCheck => simp only [execCmd]; split <;> exact ⟨rfl, rfl, rfl⟩
  | crash => exact absurd rfl hc
  | halt k => simp [Cmd.isExit] at hx
  | completeRun p => simp [Cmd.isExit] at hx
  | failWorkflow s x => simp [Cmd.isExit] at hx
  | _ => exact ⟨rfl, rfl, rfl⟩

theorem execCmd_st_log (r : Runner) (c : Cmd) : (execCmd r c).st = r.st ∧ (execCmd r c).log = r.log := by
  cases c with
  | queueEvent att step delay =>
    cases delay with
    | none => exact ⟨rfl, rfl⟩
    | some d => simp only [execCmd]; split <;> exact ⟨rfl, rfl⟩
  | scheduleIdleCheck => simp only [execCmd]; split <;> exact ⟨rfl, rfl⟩
  | _ => exact ⟨rfl, rfl⟩

theorem execCmds_st_log : ∀ (cmds : List Cmd) (r : Runner),
    (execCmds r cmds).st = r.st ∧ (execCmds r cmds).log = r.log
  | [], r => by simp [execCmds]
  | c :: cs, r => by
    simp only [execCmds]
    split
    · exact execCmd_st_log r c
    · have h1 := execCmd_st_log r c
      have h2 := execCmds_st_log cs (execCmd r c)
      exact ⟨h2.1.trans h1.1, h2.2.trans h1.2⟩

/-- the runner's outcome after a crash-free command list is that of its first exit command -/
theorem execCmds_outcome : ∀ (cmds : List Cmd) (r : Runner), r.outcome = none → Cmd.crash ∉ cmds →
    (execCmds r cmds).outcome = (cmds.find? Cmd.isExit).bind exitOutcome
  | [], r, h, _ => by simp [execCmds, h]
  | c :: cs, r, h, hc => by
    have hc1 : c ≠ .crash := fun e => hc (by simp [e])
    have hc2 : Cmd.crash ∉ cs := fun e => hc (by simp [e])
    simp only [execCmds, List.find?_cons]
    by_cases hx : c.isExit = true
    · simp only [hx]
      cases c with
      | halt k => simp [execCmd, Runner.finish, exitOutcome]
      | completeRun p => simp [execCmd, Runner.finish, exitOutcome]
      | failWorkflow s x => simp [execCmd, Runner.finish, exitOutcome]
      | _ => simp [Cmd.isExit] at hx
    · have hx' : c.isExit = false := by simpa using hx
      have hk := execCmd_keeps r c hx' hc1
      simp only [hx', hk.1, h, Option.isSome_none, Bool.false_eq_true, if_false]
      exact execCmds_outcome cs _ (hk.1.trans h) hc2

theorem lastExit_le_one (l : List Cmd) (h : exitCount l ≤ 1) : lastExit none l = l.find? Cmd.isExit := by
  induction l with
  | nil => rfl
  | cons c cs ih =>
    simp only [lastExit, List.foldl_cons, List.find?_cons]
    by_cases hx : c.isExit = true
    · simp only [hx, if_true]
      have h0 : exitCount cs = 0 := by
        simp only [exitCount, List.filter_cons, hx, if_true, List.length_cons] at h
        simp only [exitCount]; omega
      have : ∀ (p : Option Cmd), List.foldl (fun acc c => if c.isExit = true then some c else acc) p cs = p := by
        intro p
        have hnone : ∀ d ∈ cs, d.isExit = false := by
          intro d hd
          simp only [exitCount, List.length_eq_zero_iff, List.filter_eq_nil_iff] at h0
          simpa using h0 d hd
        clear ih h h0
        induction cs generalizing p with
        | nil => rfl
        | cons d ds ihd =>
          simp only [List.foldl_cons, hnone d (by simp), Bool.false_eq_true, if_false]
          exact ihd p (fun e he => hnone e (by simp [he]))
      exact this _
    · have hx' : c.isExit = false := by simpa using hx
      simp only [hx', Bool.false_eq_true, if_false]
      apply ih
      simpa [exitCount, List.filter_cons, hx'] using h

/-! ### the invariant -/

/-- what replay remembers versus how the live run stands -/
def ExitRel (e : Option Cmd) (o : Option Outcome) : Prop :=
  match e with
  | none => o = none ∨ o = some .crashed
  | some c => c.isExit = true ∧ o = exitOutcome c

theorem ExitRel.none_of_running {e : Option Cmd} (h : ExitRel e none) : e = none := by
  cases e with
  | none => rfl
  | some c =>
    obtain ⟨hx, ho⟩ := h
    cases c <;> simp [Cmd.isExit, exitOutcome] at hx ho

/-- replaying the logged ticks from `s0` succeeds, agrees with the live state up to timestamps,
and remembers the exit command that ended the run -/
def LiveInv (cfg : Cfg) (pol : Policy) (clk : Nat → Int) (s0 : State) (r : Runner) : Prop :=
  (∀ t ∈ ticksOf r.log, t.oneOutcome = true) →
    ∃ rep, replayFrom cfg pol clk 0 { st := s0 } (ticksOf r.log) = some rep ∧ SimSt rep.st r.st ∧
      ExitRel rep.exit r.outcome

theorem liveInv_step (cfg : Cfg) {pol : Policy} (hpol : TimeFree pol) (clk : Nat → Int) (s0 : State)
    (r : Runner) (a : Act) (h : LiveInv cfg pol clk s0 r) : LiveInv cfg pol clk s0 (r.step cfg pol a) := by
  unfold Runner.step
  split
  · exact h
  · rename_i hrun
    have hout : r.outcome = none := by
      cases ho : r.outcome with
      | none => rfl
      | some o => simp [ho] at hrun
    cases a with
    | drain =>
      simp only
      cases hb : r.buf with
      | nil => simpa using h
      | cons t rest =>
        simp only
        split
        · -- the reducer raised: the run dies, nothing is logged
          rename_i hcrash
          intro hone
          obtain ⟨rep, h1, h2, h3⟩ := h (by simpa [Runner.finish] using hone)
          refine ⟨rep, by simpa [Runner.finish] using h1, by simpa [Runner.finish] using h2, ?_⟩
          rw [hout] at h3
          rw [h3.none_of_running]
          simp [ExitRel, Runner.finish]
        · rename_i hcrash
          have hsl := execCmds_st_log (reduce cfg pol t r.st r.now).2
            { r with
              buf := rest
              idlePending := (if t = Tick.idleCheck then false else r.idlePending)
              st := (reduce cfg pol t r.st r.now).1
              log := r.log ++ [(t, r.now)] }
          intro hone
          rw [hsl.2] at hone
          simp only [ticksOf, List.map_append, List.map_cons, List.map_nil, List.mem_append, List.mem_singleton] at hone
          obtain ⟨rep, h1, h2, h3⟩ := h (fun x hx => hone x (Or.inl hx))
          have ht : t.oneOutcome = true := hone t (Or.inr rfl)
          rw [hout] at h3
          have he : rep.exit = none := h3.none_of_running
          have hsim := reduce_simKey cfg hpol t (clk (0 + (ticksOf r.log).length)) r.now h2
          have hnc : (reduce cfg pol t rep.st (clk (0 + (ticksOf r.log).length))).2.contains Cmd.crash = false := by
            rw [contains_crash_key, hsim.2, ← contains_crash_key]
            simpa using hcrash
          refine ⟨{ st := (reduce cfg pol t rep.st (clk (0 + (ticksOf r.log).length))).1,
                    exit := lastExit rep.exit (reduce cfg pol t rep.st (clk (0 + (ticksOf r.log).length))).2 }, ?_, ?_, ?_⟩
          · rw [hsl.2]
            simp only [ticksOf, List.map_append, List.map_cons, List.map_nil]
            have := replayFrom_snoc cfg pol clk t (ticksOf r.log) 0 { st := s0 }
            simp only [ticksOf] at this
            rw [this]
            simp only [ticksOf] at h1
            rw [h1]
            simp only [ticksOf] at hnc
            simp only [hnc, Bool.false_eq_true, if_false]
          · rw [hsl.1]
            exact hsim.1
          · have hcr : Cmd.crash ∉ (reduce cfg pol t r.st r.now).2 := by
              intro hm
              apply hcrash
              simpa using hm
            have hoc := execCmds_outcome (reduce cfg pol t r.st r.now).2
              { r with
                buf := rest
                idlePending := (if t = Tick.idleCheck then false else r.idlePending)
                st := (reduce cfg pol t r.st r.now).1
                log := r.log ++ [(t, r.now)] } hout hcr
            rw [hoc, he, lastExit_key, hsim.2, ← lastExit_key,
              lastExit_le_one _ (reduce_exitCount cfg pol t r.st r.now ht)]
            cases hf : (reduce cfg pol t r.st r.now).2.find? Cmd.isExit with
            | none => simp [ExitRel]
            | some c =>
              have hx := List.find?_some hf
              simp only [ExitRel, Option.bind_some]
              exact ⟨hx, trivial⟩
    | workerDone s w res =>
      simp only
      split
      · exact h
      · split <;> exact h
    | pull =>
      simp only
      split
      · exact h
      · split <;> exact h
    | timer => simp only; split <;> exact h
    | advance dt => exact h
    | external t => simp only; split <;> exact h
    | stepWrite p => exact h

theorem liveInv_run (cfg : Cfg) {pol : Policy} (hpol : TimeFree pol) (clk : Nat → Int) (s0 : State) :
    ∀ (acts : List Act) (r : Runner), LiveInv cfg pol clk s0 r → LiveInv cfg pol clk s0 (Runner.run cfg pol r acts)
  | [], r, h => h
  | a :: as, r, h => by
    simp only [Runner.run, List.foldl_cons]
    exact liveInv_run cfg hpol clk s0 as _ (liveInv_step cfg hpol clk s0 r a h)

end Engine
