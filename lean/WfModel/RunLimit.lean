/-!
# M6b — `num_concurrent_runs`: per-instance counting semaphore of `BasicRuntime`

Transcribes, as a labelled transition system whose actions are the await-free
sections of the code,

* `BasicRuntime.run_workflow` / `run_with_concurrency_limit` and
  `BasicRuntime._maybe_acquire_max_concurrent_runs`
  (`packages/llama-index-workflows/src/workflows/plugins/basic.py`):
  one task per `run()`, which enters `async with sem:` *before* the workflow run
  function (control loop) starts and leaves it on every exit path — normal
  return, failure, time-out, `WorkflowCancelledByUser`, `CancelledError`;
  the semaphore lives in a weak registry keyed by the workflow instance and is
  created lazily with `workflow._num_concurrent_runs` permits; `None` means no
  semaphore at all;
* `asyncio.Semaphore` of CPython 3.12 (`locked`, `acquire`, `release`,
  `_wake_up_next`) including its cancellation handling: a waiter is a future in
  a FIFO deque; the fast path is taken only when the value is positive **and**
  no non-cancelled waiter is queued; `release` hands the permit to the first
  waiter whose future is not done; a woken waiter removes itself when its task
  is stepped and passes a spare permit on; a waiter cancelled after it was woken
  gives the permit back.

Runs are identified by `(instance, run)`; every action names its instance.  The
model is executable; `Sched` adds the FIFO ready queue of the event loop so the
driver can predict the state at the next quiescent point.
-/
namespace RunLimit

/-! ## association lists keyed by `Nat` (first match wins) -/

def aget (k : Nat) : List (Nat × α) → Option α
  | [] => none
  | (q, v) :: l => if q = k then some v else aget k l

/-- replace the value of the first entry with key `k` (no insertion) -/
def aset (k : Nat) (v : α) : List (Nat × α) → List (Nat × α)
  | [] => []
  | (q, u) :: l => if q = k then (q, v) :: l else (q, u) :: aset k v l

/-- remove the first entry with key `k` (`deque.remove`) -/
def adel (k : Nat) : List (Nat × α) → List (Nat × α)
  | [] => []
  | (q, u) :: l => if q = k then l else (q, u) :: adel k l

def keys (l : List (Nat × α)) : List Nat := l.map (·.1)

/-! ## the semaphore -/

/-- State of a waiter's future together with the cancel flag of the task that
awaits it.  `woken` = `set_result(True)` was called (a permit travels with it);
`cancelled` = `fut.cancel()` succeeded; `wokenCancel` = the task was cancelled
after the future got its result (`Task._must_cancel`). -/
inductive Fut where
  | pending | woken | cancelled | wokenCancel
  deriving DecidableEq, Repr

/-- `fut.done()` -/
def Fut.done : Fut → Bool
  | .pending => false
  | _ => true

/-- `fut.cancelled()` -/
def Fut.isCancelled : Fut → Bool
  | .cancelled => true
  | _ => false

/-- a permit has been handed over with this future and is neither taken nor returned yet -/
def Fut.inflight : Fut → Bool
  | .woken => true
  | .wokenCancel => true
  | _ => false

abbrev Waiters := List (Nat × Fut)

structure Sem where
  value : Nat
  waiters : Waiters
  deriving DecidableEq, Repr

/-- `asyncio.Semaphore(n)` -/
def Sem.fresh (n : Nat) : Sem := { value := n, waiters := [] }

/-- `Semaphore.locked()` -/
def Sem.locked (s : Sem) : Bool :=
  s.value == 0 || s.waiters.any (fun w => !w.2.isCancelled)

/-- the loop of `_wake_up_next`: the first future that is not done gets its result -/
def wake : Waiters → Option (Waiters × Nat)
  | [] => none
  | (r, f) :: ws =>
    if f = .pending then some ((r, .woken) :: ws, r)
    else match wake ws with
      | some (ws', q) => some ((r, f) :: ws', q)
      | none => none

/-- `_wake_up_next()`; second component: the task made ready (at most one).
Only ever called with `value > 0` (after an increment or under the guard of `acquire`). -/
def Sem.wakeNext (s : Sem) : Sem × List Nat :=
  match wake s.waiters with
  | some (ws, r) => ({ value := s.value - 1, waiters := ws }, [r])
  | none => (s, [])

/-- `release()` -/
def Sem.release (s : Sem) : Sem × List Nat :=
  Sem.wakeNext { s with value := s.value + 1 }

/-! ## one workflow instance -/

inductive Outcome where
  | completed | failed | cancelled | timedOut
  deriving DecidableEq, Repr

/-- Everything `BasicRuntime` keeps for one workflow instance.
`created`: tasks made by `run()` that were not stepped yet (flag = `cancel()` was
requested); waiting tasks are the entries of `sem.waiters`; `holding`: tasks
inside `async with sem` (for `limit = none`: inside the bare `yield`), i.e. the
runs whose control loop may execute steps; `finished`: done tasks. -/
structure Inst where
  limit : Option Nat
  sem : Option Sem := none
  created : List (Nat × Bool) := []
  holding : List Nat := []
  finished : List (Nat × Outcome) := []
  deriving DecidableEq, Repr

def Inst.waiters (x : Inst) : Waiters :=
  match x.sem with
  | some s => s.waiters
  | none => []

def Inst.ids (x : Inst) : List Nat :=
  keys x.created ++ keys x.waiters ++ x.holding ++ keys x.finished

/-- actions on one instance -/
inductive IAct where
  /-- `workflow.run()`: `asyncio.create_task(run_with_concurrency_limit())` -/
  | start (r : Nat)
  /-- first step of the task: up to the first suspension -/
  | begin (r : Nat)
  /-- `task.cancel()` (`handler.cancel()` → `abort()`) -/
  | cancel (r : Nat)
  /-- the loop steps a task suspended in `acquire` whose future is done -/
  | deliver (r : Nat)
  /-- the run function returned or raised: `async with sem` exits -/
  | finish (r : Nat) (o : Outcome)
  /-- the weak registry drops a semaphore nobody references -/
  | gc
  deriving DecidableEq, Repr

def Inst.start (x : Inst) (r : Nat) : Option (Inst × List Nat) :=
  if r ∈ x.ids then none
  else some ({ x with created := x.created ++ [(r, false)] }, [r])

/-- `async with sem:` entered by a task that is not cancelled (`acquire` up to its first suspension) -/
def Inst.enter (x : Inst) (r : Nat) (n : Nat) : Inst :=
  let s := x.sem.getD (Sem.fresh n)
  if s.locked then
    { x with created := adel r x.created,
             sem := some { s with waiters := s.waiters ++ [(r, .pending)] } }
  else
    { x with created := adel r x.created,
             sem := some { s with value := s.value - 1 },
             holding := x.holding ++ [r] }

def Inst.begin (x : Inst) (r : Nat) : Option (Inst × List Nat) :=
  match aget r x.created with
  | none => none
  | some true =>
    -- cancelled before the first step: the coroutine never runs
    some ({ x with created := adel r x.created, finished := x.finished ++ [(r, .cancelled)] }, [])
  | some false =>
    match x.limit with
    | none => some ({ x with created := adel r x.created, holding := x.holding ++ [r] }, [])
    | some n => some (x.enter r n, [])

def Inst.cancel (x : Inst) (r : Nat) : Option (Inst × List Nat) :=
  match aget r x.created with
  | some _ => some ({ x with created := aset r true x.created }, [])
  | none =>
    match x.sem with
    | some s =>
      match aget r s.waiters with
      | some .pending => some ({ x with sem := some { s with waiters := aset r .cancelled s.waiters } }, [r])
      | some .woken => some ({ x with sem := some { s with waiters := aset r .wokenCancel s.waiters } }, [])
      | some _ => some (x, [])
      | none => if r ∈ x.holding ∨ r ∈ keys x.finished then some (x, []) else none
    | none => if r ∈ x.holding ∨ r ∈ keys x.finished then some (x, []) else none

def Inst.deliver (x : Inst) (r : Nat) : Option (Inst × List Nat) :=
  match x.sem with
  | none => none
  | some s =>
    match aget r s.waiters with
    | none => none
    | some .pending => none
    | some .woken =>
      let s1 : Sem := { s with waiters := adel r s.waiters }
      let (s2, woke) := if s1.value > 0 then s1.wakeNext else (s1, [])
      some ({ x with sem := some s2, holding := x.holding ++ [r] }, woke)
    | some .cancelled =>
      some ({ x with sem := some { s with waiters := adel r s.waiters },
                     finished := x.finished ++ [(r, .cancelled)] }, [])
    | some .wokenCancel =>
      let (s2, woke) := Sem.release { s with waiters := adel r s.waiters }
      some ({ x with sem := some s2, finished := x.finished ++ [(r, .cancelled)] }, woke)

def Inst.finish (x : Inst) (r : Nat) (o : Outcome) : Option (Inst × List Nat) :=
  if r ∈ x.holding then
    match x.limit with
    | none => some ({ x with holding := x.holding.erase r, finished := x.finished ++ [(r, o)] }, [])
    | some _ =>
      match x.sem with
      | none => none
      | some s =>
        let (s2, woke) := s.release
        some ({ x with sem := some s2, holding := x.holding.erase r,
                       finished := x.finished ++ [(r, o)] }, woke)
  else none

/-- The registry holds the semaphore weakly; the strong references are the frames
of the tasks that wait for it or hold it. -/
def Inst.gc (x : Inst) : Option (Inst × List Nat) :=
  match x.sem with
  | none => none
  | some s => if x.holding = [] ∧ s.waiters = [] then some ({ x with sem := none }, []) else none

/-- one action; `none` = not enabled; second component = tasks made ready by it -/
def Inst.step (x : Inst) : IAct → Option (Inst × List Nat)
  | .start r => x.start r
  | .begin r => x.begin r
  | .cancel r => x.cancel r
  | .deliver r => x.deliver r
  | .finish r o => x.finish r o
  | .gc => x.gc

/-! ## the runtime: instances side by side -/

inductive Act where
  /-- `Workflow(num_concurrent_runs=lim)` -/
  | mk (i : Nat) (lim : Option Nat)
  | on (i : Nat) (a : IAct)
  deriving DecidableEq, Repr

structure World where
  insts : List (Nat × Inst) := []
  deriving DecidableEq, Repr

def World.get (w : World) (i : Nat) : Option Inst := aget i w.insts

def World.step (w : World) : Act → Option (World × List (Nat × Nat))
  | .mk i lim =>
    match w.get i with
    | some _ => none
    | none => some ({ insts := w.insts ++ [(i, { limit := lim })] }, [])
  | .on i a =>
    match w.get i with
    | none => none
    | some x =>
      match x.step a with
      | none => none
      | some (x', woke) => some ({ insts := aset i x' w.insts }, woke.map (fun r => (i, r)))

/-- **Nested start**: `wf_i.run()` called by code that runs *inside a step* of run `pr` of
instance `pi` (the step itself, or a task it spawned — asyncio tasks copy their creator's
context).  Such a caller exists only while `(pi, pr)` is inside its limit; `run_workflow`
does `asyncio.create_task(run_with_concurrency_limit())` whoever calls it and
`_maybe_acquire_max_concurrent_runs` looks at nothing but the workflow instance, so the
effect is that of `start` — also when `pi = i`. -/
def World.nstart (w : World) (pi pr i r : Nat) : Option (World × List (Nat × Nat)) :=
  match w.get pi with
  | none => none
  | some p => if pr ∈ p.holding then w.step (.on i (.start r)) else none

/-- total version: an action that is not enabled leaves the state alone -/
def World.stepD (w : World) (a : Act) : World :=
  match w.step a with
  | some (w', _) => w'
  | none => w

/-- the state after an arbitrary action list (= arbitrary schedule and environment) -/
def exec (acts : List Act) : World := acts.foldl World.stepD {}

/-- action lists in which runs are also started from inside steps of running runs -/
inductive NAct where
  | act (a : Act)
  /-- run `pr` of instance `pi`, executing a step, starts run `r` of instance `i` -/
  | nstart (pi pr i r : Nat)
  deriving DecidableEq, Repr

def World.nstepD (w : World) : NAct → World
  | .act a => w.stepD a
  | .nstart pi pr i r =>
    match w.nstart pi pr i r with
    | some (w', _) => w'
    | none => w

def execN (nacts : List NAct) : World := nacts.foldl World.nstepD {}

/-! ## vocabulary of the property statements -/

/-- permits that travel with a woken waiter (handed over, neither taken nor returned) -/
def nInflight : Waiters → Nat
  | [] => 0
  | (_, f) :: ws => (if f.inflight then 1 else 0) + nInflight ws

def hasPending (ws : Waiters) : Bool := ws.any (fun w => decide (w.2 = .pending))

def hasInflight (ws : Waiters) : Bool := ws.any (fun w => w.2.inflight)

/-- number of waiters that are still pending up to and including the (first) entry of `r`:
the FIFO position of `r` among those that can still be served before it -/
def pendAhead (r : Nat) : Waiters → Nat
  | [] => 0
  | (q, f) :: ws =>
    (if f = .pending then 1 else 0) + (if q = r then 0 else pendAhead r ws)

/-- progress measure of a pending waiter `r` -/
def mu (r : Nat) (ws : Waiters) : Nat := 2 * pendAhead r ws + nInflight ws

/-- actions that serve the queue: a holder leaves, or a task whose future is done is stepped.
Fairness is assumed for exactly these. -/
def IAct.helpful (x : Inst) : IAct → Bool
  | .finish r _ => decide (r ∈ x.holding)
  | .deliver r => match aget r x.waiters with
    | some f => f.inflight
    | none => false
  | _ => false

/-- run `r` of instance `i` waits for a permit and was neither woken nor cancelled -/
def World.pendingAt (w : World) (i r : Nat) : Prop :=
  ∃ x, w.get i = some x ∧ aget r x.waiters = some .pending

def World.muAt (w : World) (i r : Nat) : Nat :=
  match w.get i with
  | some x => mu r x.waiters
  | none => 0

def World.isHelpful (w : World) (i : Nat) : Act → Bool
  | .on j a => decide (j = i) && (match w.get i with
    | some x => a.helpful x
    | none => false)
  | .mk _ _ => false

/-- helpful actions of instance `i` executed along `acts`, starting in `w` -/
def helpfulCount (i : Nat) : World → List Act → Nat
  | _, [] => 0
  | w, a :: acts => (if w.isHelpful i a then 1 else 0) + helpfulCount i (w.stepD a) acts

/-- `r` is a pending waiter in every state visited along `acts` -/
def staysPending (i r : Nat) : World → List Act → Prop
  | w, [] => w.pendingAt i r
  | w, a :: acts => w.pendingAt i r ∧ staysPending i r (w.stepD a) acts

/-! ## the event loop's FIFO ready queue (used by the driver to predict quiescent states) -/

structure Sched where
  w : World := {}
  ready : List (Nat × Nat) := []
  deriving DecidableEq, Repr

/-- an action coming from outside the tasks (`run()`, `cancel()`, a run function ending, gc) -/
def Sched.ext (s : Sched) (a : Act) : Option Sched :=
  match s.w.step a with
  | some (w', woke) => some { w := w', ready := s.ready ++ woke }
  | none => none

/-- a nested start seen by the event loop: the new task joins the ready queue like any other -/
def Sched.nstart (s : Sched) (pi pr i r : Nat) : Option Sched :=
  match s.w.nstart pi pr i r with
  | some (w', woke) => some { w := w', ready := s.ready ++ woke }
  | none => none

/-- what a task of the ready queue does when it is stepped -/
def taskAct (w : World) (i r : Nat) : Option Act :=
  match w.get i with
  | none => none
  | some x =>
    if (aget r x.created).isSome then some (.on i (.begin r))
    else if (aget r x.waiters).isSome then some (.on i (.deliver r))
    else none

/-- run the head of the ready queue -/
def Sched.tick (s : Sched) : Option (Sched × (Nat × Nat) × Act) :=
  match s.ready with
  | [] => none
  | (i, r) :: rest =>
    match taskAct s.w i r with
    | none => none
    | some a =>
      match s.w.step a with
      | none => none
      | some (w', woke) => some ({ w := w', ready := rest ++ woke }, (i, r), a)

/-- run until the ready queue is empty (fuel-bounded; a stuck head stops it) -/
def Sched.settle : Nat → Sched → Sched
  | 0, s => s
  | fuel + 1, s =>
    match s.tick with
    | some (s', _, _) => Sched.settle fuel s'
    | none => s

/-- what the driver does between two observations: external actions, single ticks, settling -/
inductive SOp where
  | ext (a : Act)
  | tick
  | settle (fuel : Nat)
  | nstart (pi pr i r : Nat)
  deriving Repr

def Sched.op (s : Sched) : SOp → Sched
  | .ext a => (s.ext a).getD s
  | .tick => match s.tick with
    | some (s', _, _) => s'
    | none => s
  | .settle fuel => s.settle fuel
  | .nstart pi pr i r => (s.nstart pi pr i r).getD s

/-- total version of `Inst.step` -/
def Inst.stepD (x : Inst) (a : IAct) : Inst :=
  match x.step a with
  | some (x', _) => x'
  | none => x

end RunLimit
