import WfModel.Timers
import WfProofs.EngineErase
/-!
Helper lemmas for C14 (3): **the clock of a replay does not matter** (for policies that do not
look at elapsed time).

`replay_ticks_stream` reduces every persisted tick at `time.time()` of the replay, not at the time
the tick was processed live.  The reducer stores its `now` argument in the state as
`first_attempt_at` of a freshly started in-progress entry (`event.first_attempt_at or
now_seconds`); from there the value is copied into the waiter the invocation registers when it
suspends and into the attempt that replays it.  Two states that agree except for
`first_attempt_at` values (`Sim`) are mapped by every tick — at any two clocks — to states that
again agree except for those values, the emitted commands agree except for time-derived payloads
(`cE`), and the serialised forms agree in the same sense (`roundtrip_sim`).
-/
set_option linter.unusedVariables false
namespace Engine

/-! The reducer part (one tick at two clocks, `reduce_sim`; commands up to `cE`; `roundtrip_sim`)
is shared with C11/C13: `WfProofs/EngineErase.lean`.  Names used by the C14 files: -/

abbrev SSim := SimSS
abbrev Sim := SimSt
abbrev TimeIndep := TimeFree

theorem Sim.rfl' (st : State) : Sim st st := SimSt.refl st
theorem SimSt.symm' {a b : State} (h : Sim a b) : Sim b a := h.symm
theorem SimSt.trans' {a b c : State} (h : Sim a b) (g : Sim b c) : Sim a c := h.trans g

/-! ### whole replays, the serialised form -/

theorem lastExitOf_cE (cmds : List Cmd) : lastExitOf cmds = lastExitOf (cmds.map cE) := by
  unfold lastExitOf
  rw [List.filter_map]
  have : (Cmd.isExit ∘ cE) = Cmd.isExit := funext cE_isExit
  rw [this, map_eq_self cE _ (fun c hc => cE_exit_id (List.mem_filter.mp hc).2)]

/-- **a whole replay, two clocks**: both raise or neither does; the rebuilt states agree up to
`first_attempt_at` of in-progress entries and the remembered exit command is the same -/
theorem tmReplayFrom_sim (cfg : Cfg) {pol : Policy} (hp : TimeIndep pol) (now now' : Int) :
    ∀ (l : List Tick) {st st' : State} (ex : Option Cmd), Sim st st' →
      match tmReplayFrom cfg pol now l (st, ex), tmReplayFrom cfg pol now' l (st', ex) with
      | some (a, e), some (b, e') => Sim a b ∧ e = e'
      | none, none => True
      | _, _ => False
  | [], st, st', ex, h => by simpa [tmReplayFrom] using h
  | t :: l, st, st', ex, h => by
    obtain ⟨h1, c1⟩ := reduce_sim cfg hp t now now' h
    simp only [tmReplayFrom]
    rw [contains_crash_cE, c1, ← contains_crash_cE, lastExitOf_cE, c1, ← lastExitOf_cE]
    by_cases hc : (reduce cfg pol t st' now').2.contains Cmd.crash = true
    · simp only [hc, if_true]
    · simp only [hc, if_false]
      exact tmReplayFrom_sim cfg hp now now' l _ h1

theorem rewindLoop_empty (now : Int) :
    ∀ (cs : List StepCfg) (st : State) (cmds : List Cmd), (∀ n, st.workers n = {}) →
      (∀ n, (rewindLoop now cs st cmds).1.workers n = {}) ∧ (rewindLoop now cs st cmds).1.isRunning = st.isRunning
  | [], st, cmds, h => by simpa [rewindLoop] using h
  | c :: cs, st, cmds, h => by
    unfold rewindLoop
    have hstep : rewindStep c (st.workers c.name) now = ({}, []) := by simp [rewindStep, h c.name, drain]
    simp only [hstep]
    have := rewindLoop_empty now cs (st.set c.name {}) (cmds ++ []) (by
      intro n; simp only [State.set]; split <;> simp [h n])
    exact this

/-- the start of every replay (`rewind_in_progress` of `BrokerState.from_workflow`) is the same
state at every clock -/
theorem rewind_init_sim (cfg : Cfg) (now now' : Int) :
    Sim (rewind cfg initState now).1 (rewind cfg initState now').1 := by
  obtain ⟨h1, r1⟩ := rewindLoop_empty now (sortedSteps cfg) initState [] (fun _ => rfl)
  obtain ⟨h2, r2⟩ := rewindLoop_empty now' (sortedSteps cfg) initState [] (fun _ => rfl)
  refine ⟨by simp only [rewind, r1, r2], fun n => ?_⟩
  simp only [rewind, h1 n, h2 n]
  exact SimSS.refl _

theorem tmReplayAt_sim (cfg : Cfg) {pol : Policy} (hp : TimeIndep pol) (ticks : List Tick) (now now' : Int) :
    match tmReplayAt cfg pol ticks now, tmReplayAt cfg pol ticks now' with
    | some (a, e), some (b, e') => Sim a b ∧ e = e'
    | none, none => True
    | _, _ => False :=
  tmReplayFrom_sim cfg hp now now' ticks none (rewind_init_sim cfg now now')

/-! ### the live run against its own log -/

/-- replay with a clock per tick (the live run reduced every tick at the time it was processed) -/
def replayRec (cfg : Cfg) (pol : Policy) : List (Tick × Int) → State × Option Cmd → Option (State × Option Cmd)
  | [], acc => some acc
  | (t, n) :: ts, acc =>
    let r := reduce cfg pol t acc.1 n
    if r.2.contains .crash then none
    else replayRec cfg pol ts (r.1, match lastExitOf r.2 with | some c => some c | none => acc.2)

theorem tmReplayFrom_eq_replayRec (cfg : Cfg) (pol : Policy) (now : Int) :
    ∀ (l : List Tick) (acc : State × Option Cmd),
      tmReplayFrom cfg pol now l acc = replayRec cfg pol (l.map (fun t => (t, now))) acc
  | [], acc => rfl
  | t :: l, acc => by
    simp only [tmReplayFrom, List.map_cons, replayRec]
    split
    · rfl
    · exact tmReplayFrom_eq_replayRec cfg pol now l _

theorem replayRec_sim (cfg : Cfg) {pol : Policy} (hp : TimeIndep pol) :
    ∀ (l l' : List (Tick × Int)) {st st' : State} (ex : Option Cmd), l.map (·.1) = l'.map (·.1) → Sim st st' →
      match replayRec cfg pol l (st, ex), replayRec cfg pol l' (st', ex) with
      | some (a, e), some (b, e') => Sim a b ∧ e = e'
      | none, none => True
      | _, _ => False
  | [], [], st, st', ex, _, h => by simpa [replayRec] using h
  | [], _ :: _, _, _, _, hl, _ => by simp at hl
  | _ :: _, [], _, _, _, hl, _ => by simp at hl
  | (t, n) :: l, (t', n') :: l', st, st', ex, hl, h => by
    simp only [List.map_cons, List.cons.injEq] at hl
    obtain ⟨ht, hl⟩ := hl
    subst ht
    obtain ⟨h1, c1⟩ := reduce_sim cfg hp t n n' h
    simp only [replayRec]
    rw [contains_crash_cE, c1, ← contains_crash_cE, lastExitOf_cE, c1, ← lastExitOf_cE]
    by_cases hc : (reduce cfg pol t st' n').2.contains Cmd.crash = true
    · simp only [hc, if_true]
    · simp only [hc, if_false]
      exact replayRec_sim cfg hp l l' _ hl h1

theorem replayRec_snoc (cfg : Cfg) (pol : Policy) (t : Tick) (n : Int) :
    ∀ (l : List (Tick × Int)) (acc : State × Option Cmd),
      replayRec cfg pol (l ++ [(t, n)]) acc = (replayRec cfg pol l acc).bind (replayRec cfg pol [(t, n)])
  | [], acc => by simp [replayRec]
  | (t', n') :: l, acc => by
    simp only [List.cons_append, replayRec]
    split
    · simp
    · exact replayRec_snoc cfg pol t n l _

theorem execCmd_outcome_some (r : Runner) (c : Cmd) (h : r.outcome.isSome = true) : (execCmd r c).outcome.isSome = true := by
  cases c with
  | queueEvent att step delay =>
    cases delay with
    | none => exact h
    | some d => simp only [execCmd]; split <;> exact h
  | scheduleIdleCheck => simp only [execCmd]; split <;> exact h
  | runWorker _ _ _ => exact h
  | publish _ => exact h
  | scheduleWaiterTimeout _ _ _ => exact h
  | halt _ => rfl
  | completeRun _ => rfl
  | failWorkflow _ _ => rfl
  | crash => rfl

/-- a batch of commands that leaves the run without outcome contained no exit command -/
theorem execCmds_outcome_none : ∀ (cmds : List Cmd) (r : Runner), (execCmds r cmds).outcome = none →
    lastExitOf cmds = none
  | [], r, _ => rfl
  | c :: cs, r, h => by
    simp only [execCmds] at h
    split at h
    · rename_i hs; rw [h] at hs; cases hs
    · rename_i hs
      have hc : c.isExit = false := by
        cases c <;> simp_all [execCmd, Runner.finish, Cmd.isExit]
      have := execCmds_outcome_none cs _ h
      simp only [lastExitOf, List.filter_cons, hc] at this ⊢
      simpa using this

/-- as long as the live run has no outcome, reducing its log tick by tick (each at its recorded
time) from the rewound initial state reproduces its state, never raises and meets no exit command -/
def LogInv (cfg : Cfg) (pol : Policy) (base : State) (r : Runner) : Prop :=
  r.outcome = none → replayRec cfg pol r.log (base, none) = some (r.st, none)

theorem execCmd_st_log' (r : Runner) (c : Cmd) : (execCmd r c).st = r.st ∧ (execCmd r c).log = r.log := by
  cases c with
  | queueEvent att step delay =>
    cases delay with
    | none => exact ⟨rfl, rfl⟩
    | some d => simp only [execCmd]; split <;> exact ⟨rfl, rfl⟩
  | scheduleIdleCheck => simp only [execCmd]; split <;> exact ⟨rfl, rfl⟩
  | _ => exact ⟨rfl, rfl⟩

theorem execCmds_st_log' : ∀ (cmds : List Cmd) (r : Runner),
    (execCmds r cmds).st = r.st ∧ (execCmds r cmds).log = r.log
  | [], r => by simp [execCmds]
  | c :: cs, r => by
    simp only [execCmds]
    split
    · exact execCmd_st_log' r c
    · have h1 := execCmd_st_log' r c
      have h2 := execCmds_st_log' cs (execCmd r c)
      exact ⟨h2.1.trans h1.1, h2.2.trans h1.2⟩

theorem step_logInv (cfg : Cfg) (pol : Policy) (base : State) (r : Runner) (a : Act)
    (h : LogInv cfg pol base r) : LogInv cfg pol base (r.step cfg pol a) := by
  unfold Runner.step
  split
  · exact h
  · rename_i hout
    have hnone : r.outcome = none := by cases ho : r.outcome <;> simp_all
    cases a with
    | drain =>
      simp only
      cases hb : r.buf with
      | nil => simpa using h
      | cons t rest =>
        simp only
        split
        · intro hc; simp [Runner.finish] at hc
        · rename_i hcr
          intro ho
          have hsl := execCmds_st_log' (reduce cfg pol t r.st r.now).2
            { r with buf := rest, idlePending := (if t = Tick.idleCheck then false else r.idlePending),
                     st := (reduce cfg pol t r.st r.now).1, log := r.log ++ [(t, r.now)] }
          have hex := execCmds_outcome_none _ _ ho
          rw [hsl.1, hsl.2]
          simp only
          rw [replayRec_snoc, h hnone]
          simp only [Option.bind_some, replayRec, hex]
          rw [if_neg hcr]
    | workerDone s w res =>
      simp only
      split
      · exact h
      · split <;> exact h
    | pull =>
      simp only
      split
      · exact h
      · split <;> exact h
    | timer => simp only; split <;> exact h
    | advance dt => exact h
    | external t => simp only; split <;> exact h
    | stepWrite p => exact h

theorem init_logInv (cfg : Cfg) (pol : Policy) (st0 : State) (now : Int) (start : Option Ev) (timeout : Option Nat) :
    LogInv cfg pol (rewind cfg st0 now).1 (Runner.init cfg st0 now start timeout) := by
  intro _
  unfold Runner.init
  cases timeout with
  | none =>
    simp only
    rw [(execCmds_st_log' _ _).1, (execCmds_st_log' _ _).2]
    rfl
  | some t =>
    simp only
    rw [(execCmds_st_log' _ _).1, (execCmds_st_log' _ _).2]
    rfl

theorem run_logInv (cfg : Cfg) (pol : Policy) (base : State) : ∀ (acts : List Act) (r : Runner),
    LogInv cfg pol base r → LogInv cfg pol base (Runner.run cfg pol r acts)
  | [], r, h => h
  | a :: as, r, h => by
    simp only [Runner.run, List.foldl_cons]
    exact run_logInv cfg pol base as _ (step_logInv cfg pol base r a h)

end Engine
