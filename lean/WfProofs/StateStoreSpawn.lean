import WfProofs.StateStoreConc
/-! Lemmas for C20, tasks created inside an open `edit_state` block (`SpSys`): a created task is an
ordinary task from its creation on, so every run of the system with spawns is a run of `Sys` in
which the child's sections come after the creating chunk; the serialisation order (the log) lists
the creator's block before the operation of every task it created.  Generic in the backend. -/
namespace StateStore

variable {σ : Type}

/-- what one action concerning task `t` can do to the log, the lock and the other tasks -/
structure StepShape (s s' : Sys σ) (t : Nat) : Prop where
  frame : ∀ t' : Nat, t ≠ t' → s'.pcs[t']? = s.pcs[t']?
  fifo : ∀ x : Nat, x ∈ s'.queue → x ∈ s.queue ∨ x = t
  eff : (s'.log = s.log ∧ (s'.holder = s.holder ∨ (s.holder = none ∧ s'.holder = some t))) ∨
        (s'.log = s.log ++ [t] ∧ s'.holder = none ∧ (s.holder = none ∨ s.holder = some t))

theorem runChunk_shape (B : Backend σ) (s : Sys σ) (t : Nat) (ran c : List Mut) (rest : List (List Mut)) (w : Root) :
    (∀ t' : Nat, t ≠ t' → (runChunk B s t ran c rest w).pcs[t']? = s.pcs[t']?) ∧
    (runChunk B s t ran c rest w).queue = s.queue ∧
    (((runChunk B s t ran c rest w).log = s.log ++ [t] ∧ (runChunk B s t ran c rest w).holder = none) ∨
     ((runChunk B s t ran c rest w).log = s.log ∧ (runChunk B s t ran c rest w).holder = s.holder)) := by
  unfold runChunk
  cases hm : runMuts w c with
  | mk w' e =>
    cases e with
    | some e => exact ⟨fun t' h => List.getElem?_set_ne h, rfl, Or.inl ⟨rfl, rfl⟩⟩
    | none =>
      cases rest with
      | nil => exact ⟨fun t' h => List.getElem?_set_ne h, rfl, Or.inl ⟨rfl, rfl⟩⟩
      | cons c' r => exact ⟨fun t' h => List.getElem?_set_ne h, rfl, Or.inr ⟨rfl, rfl⟩⟩

/-- entering an `edit_state` body: the task holds the lock afterwards, or its block is over already -/
theorem enter_edit_shape (B : Backend σ) (s : Sys σ) (t : Nat) (cs : List (List Mut)) :
    (∀ t' : Nat, t ≠ t' → (enter B s t (.edit cs)).pcs[t']? = s.pcs[t']?) ∧
    (enter B s t (.edit cs)).queue = s.queue ∧
    (((enter B s t (.edit cs)).log = s.log ++ [t] ∧ (enter B s t (.edit cs)).holder = none) ∨
     ((enter B s t (.edit cs)).log = s.log ∧ (enter B s t (.edit cs)).holder = some t)) := by
  simp only [enter]
  exact runChunk_shape B { s with store := (B.begin s.store).1, holder := some t } t [] _ _ _

theorem enter_shape (B : Backend σ) (s : Sys σ) (t : Nat) (op : COp) (q : List Nat) (hfree : s.holder = none)
    (hq : ∀ x : Nat, x ∈ q → x ∈ s.queue) :
    StepShape s (enter B { s with queue := q } t op) t := by
  cases op with
  | edit cs =>
    obtain ⟨h1, h0, h2⟩ := enter_edit_shape B { s with queue := q } t cs
    refine ⟨h1, fun x hx => Or.inl (hq x (by rw [h0] at hx; exact hx)), ?_⟩
    rcases h2 with ⟨a, b⟩ | ⟨a, b⟩
    · exact Or.inr ⟨a, b, Or.inl hfree⟩
    · exact Or.inl ⟨a, Or.inr ⟨hfree, b⟩⟩
  | set p v => exact ⟨fun t' h => List.getElem?_set_ne h, fun x hx => Or.inl (hq x hx), Or.inr ⟨rfl, hfree, Or.inl hfree⟩⟩
  | setState i d => exact ⟨fun t' h => List.getElem?_set_ne h, fun x hx => Or.inl (hq x hx), Or.inr ⟨rfl, hfree, Or.inl hfree⟩⟩
  | clear => exact ⟨fun t' h => List.getElem?_set_ne h, fun x hx => Or.inl (hq x hx), Or.inr ⟨rfl, hfree, Or.inl hfree⟩⟩

theorem step_shape_run (B : Backend σ) (hlock : ∀ op, B.locks op = true) (hscoped : ∀ op, B.scopedLock op = true)
    (prog : List COp) (s s' : Sys σ) (t : Nat) (h : Sys.run B prog s t = some s') : StepShape s s' t := by
  unfold Sys.run at h
  cases hp : prog[t]? with
  | none => rw [hp] at h; simp at h
  | some op =>
    cases hq : s.pcs[t]? with
    | none => rw [hp, hq] at h; simp at h
    | some pc =>
      rw [hp, hq] at h
      cases pc with
      | done => simp at h
      | cancelled => simp at h
      | aborted k => simp at h
      | idle =>
        simp only [hlock op, if_true] at h
        by_cases hf : s.holder = none ∧ s.queue.all (futCancelled s.pcs) = true
        · simp only [hf, and_self, if_true, Option.some.injEq] at h
          subst h
          exact enter_shape B s t op s.queue hf.1 (fun x hx => hx)
        · simp only [hf, if_false, Option.some.injEq] at h
          subst h
          refine ⟨fun t' h => List.getElem?_set_ne h, ?_, Or.inl ⟨rfl, Or.inl rfl⟩⟩
          intro x hx
          simp only [List.mem_append, List.mem_singleton] at hx
          exact hx
      | waiting =>
        by_cases hf : s.holder = none ∧ s.queue.head? = some t
        · simp only [hf, and_self, if_true, Option.some.injEq] at h
          subst h
          have := enter_shape B s t op s.queue.tail hf.1 (fun x hx => List.mem_of_mem_tail hx)
          simpa [hf.1] using this
        · simp only [hf, if_false] at h
          cases h
      | idleC =>
        simp only [Option.some.injEq] at h
        subst h
        exact ⟨fun t' h => List.getElem?_set_ne h, fun x hx => Or.inl hx, Or.inl ⟨rfl, Or.inl rfl⟩⟩
      | waitC fc =>
        simp only [hscoped op, if_true, Option.some.injEq] at h
        subst h
        exact ⟨fun t' h => List.getElem?_set_ne h, fun x hx => Or.inl (List.mem_of_mem_erase hx), Or.inl ⟨rfl, Or.inl rfl⟩⟩
      | body ran chunks w =>
        cases chunks with
        | nil => simp at h
        | cons c rest =>
          simp only [hscoped op, Bool.true_eq_false, or_false] at h
          by_cases hh : s.holder = some t
          · simp only [hh, if_true, Option.some.injEq] at h
            subst h
            obtain ⟨h1, h0, h2⟩ := runChunk_shape B s t ran c rest w
            refine ⟨h1, fun x hx => Or.inl (by rw [h0] at hx; exact hx), ?_⟩
            rcases h2 with ⟨a, b⟩ | ⟨a, b⟩
            · exact Or.inr ⟨a, b, Or.inr hh⟩
            · exact Or.inl ⟨a, Or.inl b⟩
          · simp only [hh, if_false] at h
            cases h
      | bodyC ran chunks w =>
        simp only [hscoped op, Bool.true_eq_false, or_false] at h
        by_cases hh : s.holder = some t
        · simp only [hh, if_true, Option.some.injEq] at h
          subst h
          exact ⟨fun t' h => List.getElem?_set_ne h, fun x hx => Or.inl hx, Or.inr ⟨rfl, rfl, Or.inr hh⟩⟩
        · simp only [hh, if_false] at h
          cases h

theorem step_shape_cancel (s s' : Sys σ) (t : Nat) (h : Sys.cancel s t = some s') : StepShape s s' t := by
  unfold Sys.cancel at h
  cases hq : s.pcs[t]? with
  | none => rw [hq] at h; simp at h
  | some pc =>
    rw [hq] at h
    cases pc <;> first
      | (simp at h; done)
      | (simp only [Option.some.injEq] at h; subst h
         exact ⟨fun t' h => List.getElem?_set_ne h, fun x hx => Or.inl hx, Or.inl ⟨rfl, Or.inl rfl⟩⟩)

/-- the section that starts a chunk of the body of task `t` leaves `t` holding the lock, or ends its block -/
theorem starts_holds (B : Backend σ) (hscoped : ∀ op, B.scopedLock op = true)
    (prog : List COp) (s s' : Sys σ) (t k : Nat) (hs : Sys.starts prog s t = some k)
    (h : Sys.run B prog s t = some s') : s'.holder = some t ∨ s'.log = s.log ++ [t] := by
  unfold Sys.starts at hs
  unfold Sys.run at h
  cases hp : prog[t]? with
  | none => rw [hp] at hs; simp at hs
  | some op =>
    cases hq : s.pcs[t]? with
    | none => rw [hp, hq] at hs; cases op <;> simp at hs
    | some pc =>
      rw [hp, hq] at hs h
      cases op with
      | set p v => simp at hs
      | setState i d => simp at hs
      | clear => simp at hs
      | edit cs =>
        have ent : ∀ s0 : Sys σ, s0.log = s.log →
            (enter B s0 t (.edit cs)).holder = some t ∨ (enter B s0 t (.edit cs)).log = s.log ++ [t] := by
          intro s0 hl
          rcases (enter_edit_shape B s0 t cs).2.2 with ⟨a, _⟩ | ⟨_, b⟩
          · exact Or.inr (by rw [a, hl])
          · exact Or.inl b
        cases pc with
        | done => simp at hs
        | cancelled => simp at hs
        | aborted k => simp at hs
        | idleC => simp at hs
        | waitC fc => simp at hs
        | bodyC ran chunks w => simp at hs
        | idle =>
          by_cases hf : s.holder = none ∧ s.queue.all (futCancelled s.pcs) = true
          · by_cases hl : B.locks (.edit cs) = true
            · simp only [hl, hf, and_self, if_true, Option.some.injEq] at h
              subst h
              exact ent s rfl
            · simp only [hl] at h
              simp at h
          · simp only [hf, if_false] at hs
            cases hs
        | waiting =>
          by_cases hf : s.holder = none ∧ s.queue.head? = some t
          · simp only [hf, and_self, if_true, Option.some.injEq] at h
            subst h
            exact ent _ rfl
          · simp only [hf, if_false] at h
            cases h
        | body ran chunks w =>
          cases chunks with
          | nil => simp at h
          | cons c rest =>
            simp only [hscoped (.edit cs), Bool.true_eq_false, or_false] at h
            by_cases hh : s.holder = some t
            · simp only [hh, if_true, Option.some.injEq] at h
              subst h
              rcases (runChunk_shape B s t ran c rest w).2.2 with ⟨a, _⟩ | ⟨_, b⟩
              · exact Or.inr a
              · exact Or.inl (by rw [b, hh])
            · simp only [hh, if_false] at h
              cases h

/-! ### the system with spawns -/

theorem mem_children (sp : Spawn) (n t k c : Nat) (h : c ∈ children sp n t k) : sp c = some (t, k) ∧ c ≠ t := by
  simp only [children, List.mem_filter, Bool.and_eq_true, decide_eq_true_eq] at h
  exact h.2

/-- what one action of the system with spawns is in terms of `Sys` -/
theorem spExec_facts (B : Backend σ) (hscoped : ∀ op, B.scopedLock op = true) (prog : List COp) (sp : Spawn)
    (s s' : SpSys σ) (a : Act) (h : SpSys.exec B prog sp s a = some s') :
    ∃ t, (a = .run t ∨ a = .cancel t) ∧ s.live sp t = true ∧ Sys.exec B prog s.sys a = some s'.sys ∧
      ∃ extra, s'.born = s.born ++ extra ∧
        ∀ c, c ∈ extra → (∃ k, sp c = some (t, k)) ∧ c ≠ t ∧
          (s'.sys.holder = some t ∨ s'.sys.log = s.sys.log ++ [t]) := by
  cases a with
  | run t =>
    simp only [SpSys.exec] at h
    by_cases hl : s.live sp t = true
    · simp only [hl, if_true] at h
      cases hr : Sys.run B prog s.sys t with
      | none => rw [hr] at h; cases h
      | some s1 =>
        rw [hr] at h
        simp only [Option.some.injEq] at h
        subst h
        refine ⟨t, Or.inl rfl, hl, hr, ?_⟩
        cases hs : Sys.starts prog s.sys t with
        | none => exact ⟨[], by simp, by simp⟩
        | some k =>
          refine ⟨children sp prog.length t k, rfl, ?_⟩
          intro c hc
          obtain ⟨h1, h2⟩ := mem_children sp _ t k c hc
          exact ⟨⟨k, h1⟩, h2, starts_holds B hscoped prog s.sys s1 t k hs hr⟩
    · simp only [hl] at h
      simp at h
  | cancel t =>
    simp only [SpSys.exec] at h
    by_cases hl : s.live sp t = true
    · simp only [hl, if_true] at h
      cases hr : Sys.cancel s.sys t with
      | none => rw [hr] at h; cases h
      | some s1 =>
        rw [hr] at h
        simp only [Option.some.injEq] at h
        subst h
        exact ⟨t, Or.inr rfl, hl, hr, [], by simp, by simp⟩
    · simp only [hl] at h
      simp at h

/-- a run of the system with spawns is a run of `Sys` (a created task is an ordinary task) -/
theorem spExecAll_sys (B : Backend σ) (hscoped : ∀ op, B.scopedLock op = true) (prog : List COp) (sp : Spawn)
    (sched : List Act) : ∀ (s s' : SpSys σ), SpSys.execAll B prog sp s sched = some s' →
      Sys.execAll B prog s.sys sched = some s'.sys := by
  induction sched with
  | nil => intro s s' h; simp only [SpSys.execAll, Option.some.injEq] at h; subst h; rfl
  | cons a as ih =>
    intro s s' h
    simp only [SpSys.execAll] at h
    cases hr : SpSys.exec B prog sp s a with
    | none => rw [hr] at h; cases h
    | some s1 =>
      rw [hr] at h
      obtain ⟨t, _, _, he, _⟩ := spExec_facts B hscoped prog sp s s1 a hr
      simp only [Sys.execAll, he]
      exact ih s1 s' h

structure SpInv (sp : Spawn) (s : SpSys σ) : Prop where
  /-- a task that has not been created has not moved -/
  unborn : ∀ (c : Nat) (p : Pc), s.live sp c = false → s.sys.pcs[c]? = some p → p = Pc.idle
  /-- nor is it queued on the lock -/
  unqueued : ∀ c : Nat, s.live sp c = false → c ∉ s.sys.queue
  /-- the creator of a created task holds the lock or its block is over -/
  parent : ∀ c p k : Nat, sp c = some (p, k) → c ∈ s.born → p ≠ c ∧ (s.sys.holder = some p ∨ p ∈ s.sys.log)
  /-- in the log a creator comes before the tasks it created -/
  order : ∀ c p k : Nat, sp c = some (p, k) → c ∈ s.sys.log → Before s.sys.log p c

theorem live_iff (sp : Spawn) (s : SpSys σ) (c : Nat) :
    s.live sp c = true ↔ (sp c = none ∨ c ∈ s.born) := by
  unfold SpSys.live
  cases h : sp c with
  | none => simp
  | some x => simp

theorem spInv_init (sp : Spawn) (st0 : σ) (n : Nat) : SpInv sp (SpSys.init st0 n) := by
  refine ⟨?_, ?_, ?_, ?_⟩
  · intro c p _ hp
    simp only [SpSys.init, Sys.init] at hp
    rw [List.getElem?_replicate] at hp
    split at hp
    · cases hp; rfl
    · cases hp
  · intro c _
    simp [SpSys.init, Sys.init]
  · intro c p k _ hb
    simp [SpSys.init] at hb
  · intro c p k _ hl
    simp [SpSys.init, Sys.init] at hl

theorem before_append (l : List Nat) (p c t : Nat) (h : Before l p c) : Before (l ++ [t]) p c := by
  obtain ⟨l1, l2, l3, e⟩ := h
  exact ⟨l1, l2, l3 ++ [t], by rw [e]; simp⟩

theorem before_push (l : List Nat) (p c : Nat) (h : p ∈ l) : Before (l ++ [c]) p c := by
  obtain ⟨l1, l2, e⟩ := List.append_of_mem h
  exact ⟨l1, l2, [], by rw [e]⟩

theorem spInv_exec (B : Backend σ) (hlock : ∀ op, B.locks op = true) (hscoped : ∀ op, B.scopedLock op = true)
    (prog : List COp) (sp : Spawn) (s s' : SpSys σ) (a : Act)
    (I : SpInv sp s) (h : SpSys.exec B prog sp s a = some s') : SpInv sp s' := by
  obtain ⟨t, ha, hlive, he, extra, hborn, hextra⟩ := spExec_facts B hscoped prog sp s s' a h
  have shape : StepShape s.sys s'.sys t := by
    rcases ha with ha | ha
    · subst ha; exact step_shape_run B hlock hscoped prog s.sys s'.sys t he
    · subst ha; exact step_shape_cancel s.sys s'.sys t he
  obtain ⟨hun, hunq, hpar, hord⟩ := I
  have mono : ∀ c : Nat, s'.live sp c = false → s.live sp c = false ∧ t ≠ c := by
    intro c hl
    have hl0 : s.live sp c = false := by
      cases hc : s.live sp c with
      | false => rfl
      | true =>
        have := (live_iff sp s c).1 hc
        have h2 : s'.live sp c = true := by
          rw [live_iff]
          rcases this with h1 | h1
          · exact Or.inl h1
          · exact Or.inr (by rw [hborn]; exact List.mem_append_left _ h1)
        rw [h2] at hl; cases hl
    refine ⟨hl0, ?_⟩
    intro e; subst e; rw [hlive] at hl0; cases hl0
  refine ⟨?_, ?_, ?_, ?_⟩
  · intro c p hl hp
    obtain ⟨hl0, hne⟩ := mono c hl
    rw [shape.frame c hne] at hp
    exact hun c p hl0 hp
  · intro c hl hm
    obtain ⟨hl0, hne⟩ := mono c hl
    rcases shape.fifo c hm with h1 | h1
    · exact hunq c hl0 h1
    · exact hne h1.symm
  · intro c p k hsp hb
    rw [hborn, List.mem_append] at hb
    rcases hb with hb | hb
    · obtain ⟨h1, h2⟩ := hpar c p k hsp hb
      refine ⟨h1, ?_⟩
      rcases shape.eff with ⟨e1, e2⟩ | ⟨e1, e2, e3⟩
      · rcases h2 with h2 | h2
        · rcases e2 with e2 | ⟨e2, _⟩
          · exact Or.inl (by rw [e2, h2])
          · rw [e2] at h2; cases h2
        · exact Or.inr (by rw [e1]; exact h2)
      · rcases h2 with h2 | h2
        · rcases e3 with e3 | e3
          · rw [e3] at h2; cases h2
          · rw [e3] at h2
            simp only [Option.some.injEq] at h2
            subst h2
            exact Or.inr (by rw [e1]; simp)
        · exact Or.inr (by rw [e1]; exact List.mem_append_left _ h2)
    · obtain ⟨⟨k', h1⟩, h2, h3⟩ := hextra c hb
      rw [hsp] at h1
      simp only [Option.some.injEq, Prod.mk.injEq] at h1
      obtain ⟨hpt, _⟩ := h1
      subst hpt
      refine ⟨fun e => h2 e.symm, ?_⟩
      rcases h3 with h3 | h3
      · exact Or.inl h3
      · exact Or.inr (by rw [h3]; simp)
  · intro c p k hsp hl
    rcases shape.eff with ⟨e1, _⟩ | ⟨e1, _, e3⟩
    · rw [e1] at hl ⊢
      exact hord c p k hsp hl
    · rw [e1] at hl ⊢
      rw [List.mem_append] at hl
      rcases hl with hl | hl
      · exact before_append _ p c t (hord c p k hsp hl)
      · simp only [List.mem_singleton] at hl
        subst hl
        have hb : c ∈ s.born := by
          rcases (live_iff sp s c).1 hlive with h1 | h1
          · rw [hsp] at h1; cases h1
          · exact h1
        obtain ⟨h1, h2⟩ := hpar c p k hsp hb
        rcases h2 with h2 | h2
        · rcases e3 with e3 | e3
          · rw [e3] at h2; cases h2
          · rw [e3] at h2
            simp only [Option.some.injEq] at h2
            exact absurd h2.symm h1
        · exact before_push _ p c h2

theorem spInv_execAll (B : Backend σ) (hlock : ∀ op, B.locks op = true) (hscoped : ∀ op, B.scopedLock op = true)
    (prog : List COp) (sp : Spawn) (sched : List Act) : ∀ (s s' : SpSys σ),
    SpInv sp s → SpSys.execAll B prog sp s sched = some s' → SpInv sp s' := by
  induction sched with
  | nil => intro s s' I h; simp only [SpSys.execAll, Option.some.injEq] at h; subst h; exact I
  | cons a as ih =>
    intro s s' I h
    simp only [SpSys.execAll] at h
    cases hr : SpSys.exec B prog sp s a with
    | none => rw [hr] at h; cases h
    | some s1 =>
      rw [hr] at h
      exact ih s1 s' (spInv_exec B hlock hscoped prog sp s s1 a I hr) h

/-- nobody is inside a body: the log is a serialisation order of the tasks that took effect -/
theorem serialisable_of_inv_quiescent (B : Backend σ) (prog : List COp) (st0 : σ) (s : Sys σ)
    (I : Inv B prog st0 s) (hq : ∀ (t : Nat) (p : Pc), s.pcs[t]? = some p → p.inBody = false) :
    s.log.Nodup ∧ (∀ t, t ∈ s.log ↔ ∃ p, s.pcs[t]? = some p ∧ p.eff = true) ∧
      s.store = serialBy B (effOp prog s.pcs) st0 s.log := by
  obtain ⟨hlen, hnd, hld, hfr, hheld⟩ := I
  have hfree : s.holder = none := by
    cases hh : s.holder with
    | none => rfl
    | some t =>
      obtain ⟨cs, ran, c, rest, w, _, e2, _⟩ := hheld t hh
      rcases e2 with e2 | e2 <;> (have := hq t _ e2; cases this)
  exact ⟨hnd, hld, (hfr hfree).1⟩

theorem settled_not_inBody (p : Pc) (h : p.settled = true) : p.inBody = false := by
  cases p <;> first | rfl | cases h

/-- Serialisability with spawned tasks: when every task that exists has ended, the final store is
the serial run, in the order of the log, of the tasks that took effect, and in that order a creator
comes before every task it created. -/
theorem serialisable_with_spawns (B : Backend σ) (hlock : ∀ op, B.locks op = true)
    (hscoped : ∀ op, B.scopedLock op = true) (hedit : EditLaw B) (hpub : PublishLaw B) (habort : AbortLaw B)
    (prog : List COp) (sp : Spawn) (st0 : σ) (sched : List Act) (s : SpSys σ)
    (hrun : SpSys.execAll B prog sp (SpSys.init st0 prog.length) sched = some s)
    (hend : s.allEnded sp = true) :
    ∃ order : List Nat, order.Nodup ∧
      (∀ t, t ∈ order ↔ ∃ p, s.sys.pcs[t]? = some p ∧ p.eff = true) ∧
      (∀ c p k : Nat, sp c = some (p, k) → c ∈ order → Before order p c) ∧
      s.sys.store = serialBy B (effOp prog s.sys.pcs) st0 order := by
  have I : Inv B prog st0 s.sys :=
    inv_execAll B hlock hscoped hedit hpub habort prog st0 sched _ _ (inv_init B prog st0)
      (spExecAll_sys B hscoped prog sp sched _ _ hrun)
  have J : SpInv sp s := spInv_execAll B hlock hscoped prog sp sched _ _ (spInv_init sp st0 prog.length) hrun
  have hq : ∀ (t : Nat) (p : Pc), s.sys.pcs[t]? = some p → p.inBody = false := by
    intro t p hp
    have htl := lt_of_getElem?_pc hp
    unfold SpSys.allEnded at hend
    rw [List.all_eq_true] at hend
    have := hend t (List.mem_range.2 htl)
    rw [hp] at this
    simp only [Bool.or_eq_true, Bool.not_eq_true'] at this
    rcases this with h1 | h1
    · exact settled_not_inBody p h1
    · rw [J.unborn t p h1 hp]; rfl
  obtain ⟨h1, h2, h3⟩ := serialisable_of_inv_quiescent B prog st0 s.sys I hq
  exact ⟨s.sys.log, h1, h2, J.order, h3⟩

/-- a task that has not been created is idle, not queued on the lock and not in the log -/
theorem unborn_untouched (B : Backend σ) (hlock : ∀ op, B.locks op = true)
    (hscoped : ∀ op, B.scopedLock op = true) (hedit : EditLaw B) (hpub : PublishLaw B) (habort : AbortLaw B)
    (prog : List COp) (sp : Spawn) (st0 : σ) (sched : List Act) (s : SpSys σ)
    (hrun : SpSys.execAll B prog sp (SpSys.init st0 prog.length) sched = some s)
    (c : Nat) (hl : s.live sp c = false) (hc : c < prog.length) :
    s.sys.pcs[c]? = some Pc.idle ∧ c ∉ s.sys.queue ∧ c ∉ s.sys.log := by
  have I : Inv B prog st0 s.sys :=
    inv_execAll B hlock hscoped hedit hpub habort prog st0 sched _ _ (inv_init B prog st0)
      (spExecAll_sys B hscoped prog sp sched _ _ hrun)
  have J : SpInv sp s := spInv_execAll B hlock hscoped prog sp sched _ _ (spInv_init sp st0 prog.length) hrun
  have hlen : c < s.sys.pcs.length := by rw [I.len]; exact hc
  have hp : s.sys.pcs[c]? = some s.sys.pcs[c] := List.getElem?_eq_getElem hlen
  have hidle : s.sys.pcs[c]? = some Pc.idle := by rw [hp, J.unborn c _ hl hp]
  refine ⟨hidle, ?_, ?_⟩
  · exact J.unqueued c hl
  · intro hm
    obtain ⟨p, h1, h2⟩ := (I.logEff c).1 hm
    rw [hidle] at h1
    cases h1
    cases h2

/-- without spawns the system is `Sys` -/
theorem spExecAll_no_spawn (B : Backend σ) (prog : List COp) (sched : List Act) : ∀ (s : SpSys σ),
    (SpSys.execAll B prog (fun _ => none) s sched).map (·.sys) = Sys.execAll B prog s.sys sched := by
  induction sched with
  | nil => intro s; rfl
  | cons a as ih =>
    intro s
    simp only [SpSys.execAll, Sys.execAll]
    cases a with
    | run t =>
      simp only [SpSys.exec, SpSys.live, if_true, Sys.exec]
      cases hr : Sys.run B prog s.sys t with
      | none => rfl
      | some s1 => exact ih _
    | cancel t =>
      simp only [SpSys.exec, SpSys.live, if_true, Sys.exec]
      cases hr : Sys.cancel s.sys t with
      | none => rfl
      | some s1 => exact ih _

end StateStore
