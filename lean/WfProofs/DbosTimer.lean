import WfModel.DbosTimer
/-!
M7 (C): the invariant of the DBOS deferred-release timer, for every sequence of idle announcements, received
ticks, resumes, timer expiries and time steps.
-/
set_option linter.unusedVariables false
set_option linter.unusedSimpArgs false
namespace DbosTimer

structure Inv (s : S) : Prop where
  sl : ∀ j a d, s.tasks j = .sleeping a d →
        s.reg = some j ∧ d = a + s.tau ∧ s.lastIdle = some a ∧ s.ticksSince = 0 ∧ s.pending = true ∧ a ≤ s.now
  rg : ∀ j, s.reg = some j → ∃ a d, s.tasks j = .sleeping a d
  fresh : ∀ j, s.next ≤ j → s.tasks j = .absent
  pend : s.pending = true → s.reg.isSome = true
  att : ∀ r ∈ s.attempts, ∃ a, r.idle = some a ∧ a + s.tau ≤ r.at_ ∧ r.ticks = 0 ∧ r.at_ ≤ s.now
  stray0 : s.stray = 0
  abandoned0 : s.abandoned = 0

theorem Inv.init (tau : Nat) : Inv (init tau) := by
  constructor <;> simp [DbosTimer.init]

theorem cancelReg_none (s : S) (hr : s.reg = none) : cancelReg s = s := by
  unfold cancelReg; rw [hr]

theorem cancelReg_sleeping (s : S) (k a d : Nat) (hr : s.reg = some k) (hk : s.tasks k = .sleeping a d) :
    cancelReg s = { s with reg := none, tasks := upd s.tasks k .cancelled } := by
  unfold cancelReg; rw [hr]; simp only; rw [hk]

/-- what `_cancel_deferred_release` does in a state that satisfies the invariant: the one sleeping task (if any) is
cancelled, nothing is registered any more, no running release is touched -/
theorem cancelReg_spec (s : S) (h : Inv s) :
    (cancelReg s).reg = none ∧ (∀ j a d, (cancelReg s).tasks j ≠ .sleeping a d) ∧
    (∀ j, s.tasks j = .absent → (cancelReg s).tasks j = .absent) ∧
    (cancelReg s).abandoned = s.abandoned ∧ (cancelReg s).stray = s.stray ∧ (cancelReg s).attempts = s.attempts ∧
    (cancelReg s).now = s.now ∧ (cancelReg s).tau = s.tau ∧ (cancelReg s).next = s.next ∧
    (cancelReg s).lastIdle = s.lastIdle ∧ (cancelReg s).ticksSince = s.ticksSince := by
  cases hr : s.reg with
  | none =>
    rw [cancelReg_none s hr]
    refine ⟨hr, ?_, fun _ h => h, rfl, rfl, rfl, rfl, rfl, rfl, rfl, rfl⟩
    intro j a d hj
    have := (h.sl j a d hj).1
    rw [hr] at this; cases this
  | some k =>
    obtain ⟨a0, d0, hk⟩ := h.rg k hr
    rw [cancelReg_sleeping s k a0 d0 hr hk]
    refine ⟨rfl, ?_, ?_, rfl, rfl, rfl, rfl, rfl, rfl, rfl, rfl⟩
    · intro j a d hj
      simp only [upd_apply] at hj
      split at hj
      · cases hj
      · rename_i hne
        have := (h.sl j a d hj).1
        rw [hr] at this
        exact hne (Option.some.inj this).symm
    · intro j hj
      simp only [upd_apply]
      split
      · rename_i e; subst e; rw [hk] at hj; cases hj
      · exact hj

theorem Inv.step (s s' : S) (a : Act) (h : step s a = some s') (hi : Inv s) : Inv s' := by
  cases a with
  | advance dt =>
    simp only [DbosTimer.step, Option.some.injEq] at h
    subst h
    obtain ⟨hsl, hrg, hfr, hpd, hatt, hs0, ha0⟩ := hi
    refine ⟨?_, hrg, hfr, hpd, ?_, hs0, ha0⟩
    · intro j a d hj
      obtain ⟨h1, h2, h3, h4, h5, h6⟩ := hsl j a d hj
      exact ⟨h1, h2, h3, h4, h5, by simp only; omega⟩
    · intro r hr
      obtain ⟨a, h1, h2, h3, h4⟩ := hatt r hr
      exact ⟨a, h1, h2, h3, by simp only; omega⟩
  | idle =>
    simp only [DbosTimer.step, Option.some.injEq] at h
    obtain ⟨c1, c2, c3, c4, c5, c6, c7, c8, c9, c10, c11⟩ := cancelReg_spec s hi
    subst h
    refine ⟨?_, ?_, ?_, ?_, ?_, ?_, ?_⟩
    · intro j a d hj
      simp only [upd_apply] at hj
      split at hj
      · rename_i e
        simp only [TSt.sleeping.injEq] at hj
        obtain ⟨rfl, rfl⟩ := hj
        subst e
        exact ⟨rfl, rfl, rfl, rfl, rfl, Nat.le_refl _⟩
      · exact absurd hj (c2 j a d)
    · intro j hj
      simp only [Option.some.injEq] at hj
      subst hj
      exact ⟨(cancelReg s).now, (cancelReg s).now + (cancelReg s).tau, by simp [upd_apply]⟩
    · intro j hj
      simp only at hj
      simp only [upd_apply]
      split
      · omega
      · exact c3 j (hi.fresh j (by omega))
    · intro _; rfl
    · intro r hr
      simp only [c6] at hr
      obtain ⟨a, h1, h2, h3, h4⟩ := hi.att r hr
      exact ⟨a, h1, by simp only [c8]; exact h2, h3, by simp only [c7]; exact h4⟩
    · simp only [c5]; exact hi.stray0
    · simp only [c4]; exact hi.abandoned0
  | tick =>
    simp only [DbosTimer.step, Option.some.injEq] at h
    obtain ⟨c1, c2, c3, c4, c5, c6, c7, c8, c9, c10, c11⟩ := cancelReg_spec s hi
    subst h
    refine ⟨?_, ?_, ?_, ?_, ?_, ?_, ?_⟩
    · intro j a d hj; exact absurd hj (c2 j a d)
    · intro j hj; simp only [c1] at hj; cases hj
    · intro j hj; simp only [c9] at hj; exact c3 j (hi.fresh j hj)
    · intro hp; cases hp
    · intro r hr
      simp only [c6] at hr
      obtain ⟨a, h1, h2, h3, h4⟩ := hi.att r hr
      exact ⟨a, h1, by simp only [c8]; exact h2, h3, by simp only [c7]; exact h4⟩
    · simp only [c5]; exact hi.stray0
    · simp only [c4]; exact hi.abandoned0
  | resume =>
    simp only [DbosTimer.step, Option.some.injEq] at h
    obtain ⟨c1, c2, c3, c4, c5, c6, c7, c8, c9, c10, c11⟩ := cancelReg_spec s hi
    subst h
    refine ⟨?_, ?_, ?_, ?_, ?_, ?_, ?_⟩
    · intro j a d hj; exact absurd hj (c2 j a d)
    · intro j hj; simp only [c1] at hj; cases hj
    · intro j hj; simp only [c9] at hj; exact c3 j (hi.fresh j hj)
    · intro hp; cases hp
    · intro r hr
      simp only [c6] at hr
      obtain ⟨a, h1, h2, h3, h4⟩ := hi.att r hr
      exact ⟨a, h1, by simp only [c8]; exact h2, h3, by simp only [c7]; exact h4⟩
    · simp only [c5]; exact hi.stray0
    · simp only [c4]; exact hi.abandoned0
  | fire k =>
    simp only [DbosTimer.step] at h
    split at h
    · rename_i armed due hk
      split at h
      · rename_i hdue
        simp only [Option.some.injEq] at h
        subst h
        obtain ⟨h1, h2, h3, h4, h5, h6⟩ := hi.sl k armed due hk
        refine ⟨?_, ?_, ?_, ?_, ?_, ?_, ?_⟩
        · intro j a d hj
          simp only [upd_apply] at hj
          split at hj
          · cases hj
          · rename_i hne
            have := (hi.sl j a d hj).1
            rw [h1] at this
            exact absurd (Option.some.inj this).symm hne
        · intro j hj; cases hj
        · intro j hj
          simp only [upd_apply]
          split
          · rename_i e; subst e
            have := hi.fresh j hj; rw [hk] at this; cases this
          · exact hi.fresh j hj
        · intro hp; cases hp
        · intro r hr
          simp only [List.mem_append, List.mem_singleton] at hr
          rcases hr with hr | hr
          · exact hi.att r hr
          · subst hr
            exact ⟨armed, h3, by simp only; omega, h4, Nat.le_refl _⟩
        · simp only [h1, if_true]; exact hi.stray0
        · exact hi.abandoned0
      · cases h
    · cases h
  | finish k =>
    simp only [DbosTimer.step] at h
    split at h
    · rename_i armed hk
      simp only [Option.some.injEq] at h
      subst h
      refine ⟨?_, ?_, hi.3 |> fun hf => ?_, hi.pend, hi.att, hi.stray0, hi.abandoned0⟩
      · intro j a d hj
        simp only [upd_apply] at hj
        split at hj
        · cases hj
        · exact hi.sl j a d hj
      · intro j hj
        obtain ⟨a, d, hs⟩ := hi.rg j hj
        refine ⟨a, d, ?_⟩
        simp only [upd_apply]
        split
        · rename_i e; subst e; rw [hk] at hs; cases hs
        · exact hs
      · intro j hj
        simp only [upd_apply]
        split
        · rename_i e; subst e
          have := hf j hj; rw [hk] at this; cases this
        · exact hf j hj
    · cases h

theorem stepD_eq (s : S) (a : Act) : stepD s a = s ∨ step s a = some (stepD s a) := by
  unfold stepD
  cases h : step s a <;> simp

theorem Inv.stepD (s : S) (a : Act) (hi : Inv s) : Inv (stepD s a) := by
  rcases stepD_eq s a with h | h
  · rw [h]; exact hi
  · exact hi.step _ _ _ h

theorem Inv.run (acts : List Act) (s : S) (hi : Inv s) : Inv (run s acts) := by
  induction acts generalizing s with
  | nil => exact hi
  | cons a as ih => exact ih _ (hi.stepD s a)

theorem cancelReg_tau (s : S) : (cancelReg s).tau = s.tau := by
  unfold cancelReg
  cases s.reg with
  | none => rfl
  | some j => simp only; cases s.tasks j <;> rfl

theorem step_tau (s s' : S) (a : Act) (h : step s a = some s') : s'.tau = s.tau := by
  cases a <;> simp only [DbosTimer.step] at h
  · cases h; rfl
  · cases h; exact cancelReg_tau s
  · cases h; exact cancelReg_tau s
  · cases h; exact cancelReg_tau s
  · split at h
    · split at h
      · cases h; rfl
      · cases h
    · cases h
  · split at h
    · cases h; rfl
    · cases h

theorem run_tau (acts : List Act) (s : S) : (run s acts).tau = s.tau := by
  induction acts generalizing s with
  | nil => rfl
  | cons a as ih =>
    show (run (DbosTimer.stepD s a) as).tau = s.tau
    rw [ih]
    rcases stepD_eq s a with e | e
    · rw [e]
    · exact step_tau _ _ _ e

end DbosTimer
