import WfProofs.RunLimitWorld
/-!
A run that is inside its limit stays there until its own run function ends: requesting its
cancellation (`task.cancel()` through `handler.cancel()` / `adapter.abort()`) moves no permit.
-/
namespace RunLimit

/-- No action other than run `r`'s own `finish` takes `r` out of the set of runs inside the limit. -/
theorem Inst.step_keeps_holder (x x' : Inst) (a : IAct) (wk : List Nat) (r : Nat)
    (h : x.step a = some (x', wk)) (hr : r ∈ x.holding) (hne : ∀ o, a ≠ .finish r o) :
    r ∈ x'.holding := by
  cases a with
  | start q =>
    simp only [Inst.step, Inst.start] at h
    split at h
    · cases h
    · simp only [Option.some.injEq, Prod.mk.injEq] at h
      rw [← h.1]; exact hr
  | begin q =>
    simp only [Inst.step, Inst.begin] at h
    split at h
    · cases h
    · simp only [Option.some.injEq, Prod.mk.injEq] at h
      rw [← h.1]; exact hr
    · split at h
      · simp only [Option.some.injEq, Prod.mk.injEq] at h
        rw [← h.1]; simp [hr]
      · simp only [Option.some.injEq, Prod.mk.injEq] at h
        rw [← h.1]
        simp only [Inst.enter]
        split <;> simp [hr]
  | cancel q =>
    simp only [Inst.step, Inst.cancel] at h
    repeat' split at h
    all_goals (cases h; try exact hr)
  | deliver q =>
    simp only [Inst.step, Inst.deliver] at h
    repeat' split at h
    all_goals (cases h; try simp [hr])
  | finish q o =>
    have hq : r ≠ q := fun e => hne o (by rw [e])
    simp only [Inst.step, Inst.finish] at h
    repeat' split at h
    all_goals (cases h; try exact (List.mem_erase_of_ne hq).mpr hr)
  | gc =>
    simp only [Inst.step, Inst.gc] at h
    repeat' split at h
    all_goals (cases h; try exact hr)

/-- `task.cancel()` on a run that is inside the limit changes nothing and wakes nobody. -/
theorem Inst.cancel_holder_noop (x : Inst) (r : Nat) (hu : x.Uniq) (hr : r ∈ x.holding) :
    x.step (.cancel r) = some (x, []) := by
  have hnd : x.ids.Nodup := hu
  simp only [Inst.ids] at hnd
  have h1 := List.nodup_append.mp hnd
  have h2 := List.nodup_append.mp h1.1
  have h3 := List.nodup_append.mp h2.1
  have hc : r ∉ keys x.created := fun hm =>
    h2.2.2 r (List.mem_append.mpr (Or.inl hm)) r hr rfl
  have hw : r ∉ keys x.waiters := fun hm =>
    h2.2.2 r (List.mem_append.mpr (Or.inr hm)) r hr rfl
  have hcn := aget_none_of_not_mem r x.created hc
  simp only [Inst.step, Inst.cancel, hcn]
  cases hs : x.sem with
  | none => simp [hr]
  | some s =>
    have hwn : aget r s.waiters = none := by
      apply aget_none_of_not_mem
      simpa [Inst.waiters, hs] using hw
    simp [hwn, hr]

/-- Along any action list that does not contain run `r`'s own `finish`, a run inside the limit
of instance `i` stays inside it (and the instance keeps its limit). -/
theorem foldl_keeps_holder (more : List Act) (w : World) (i r : Nat) (x : Inst)
    (hx : w.get i = some x) (hr : r ∈ x.holding)
    (hnf : ∀ o, Act.on i (.finish r o) ∉ more) :
    ∃ x', (more.foldl World.stepD w).get i = some x' ∧ r ∈ x'.holding ∧ x'.limit = x.limit := by
  induction more generalizing w x with
  | nil => exact ⟨x, hx, hr, rfl⟩
  | cons a more ih =>
    have hnf' : ∀ o, Act.on i (.finish r o) ∉ more := fun o hm => hnf o (List.mem_cons_of_mem _ hm)
    have ha : ∀ o, a ≠ Act.on i (.finish r o) := fun o e => hnf o (by rw [e]; exact List.mem_cons_self)
    simp only [List.foldl_cons]
    cases a with
    | mk j lim =>
      by_cases hj : i = j
      · subst hj
        have : w.stepD (.mk i lim) = w := by
          simp [World.stepD, World.step, hx]
        rw [this]
        exact ih w x hx hr hnf'
      · have hg := World.get_stepD_mk w j lim i hj
        exact ih _ x (by rw [hg]; exact hx) hr hnf'
    | on j b =>
      by_cases hj : i = j
      · subst hj
        have hg := World.get_stepD_on w i b i
        simp only [if_true, hx, Option.map_some] at hg
        cases hs : x.step b with
        | none =>
          have : x.stepD b = x := by simp [Inst.stepD, hs]
          rw [this] at hg
          exact ih _ x hg hr hnf'
        | some p =>
          obtain ⟨x1, wk⟩ := p
          have : x.stepD b = x1 := by simp [Inst.stepD, hs]
          rw [this] at hg
          have hb : ∀ o, b ≠ .finish r o := fun o e => ha o (by rw [e])
          have hr1 := Inst.step_keeps_holder x x1 b wk r hs hr hb
          obtain ⟨x', h1, h2, h3⟩ := ih _ x1 hg hr1 hnf'
          exact ⟨x', h1, h2, by rw [h3, Inst.step_limit x x1 b wk hs]⟩
      · have hg := World.get_stepD_on w j b i
        simp only [hj, if_false] at hg
        exact ih _ x (by rw [hg]; exact hx) hr hnf'

end RunLimit
