import WfProofs.JournalHistory
/-! C27: the orphan purge over a whole process life.  Whatever the calls: it touches `operation_outputs` at
most once per life, with the function id of the call that made the replay→fresh transition, never in a call
that hands out a replayed completion, and never touches the journal rows (`JournalHistory`). -/
namespace Journal

variable {κ : Type} [DecidableEq κ]

theorem waitCore_fields (a1 : Adapter κ) (db1 : Db κ) (run : String) (p : Bool) (e : Option κ)
    (inflight done : List κ) (timedOut : Bool) (choice : Option κ) :
    (waitCore a1 db1 run p e inflight done timedOut choice).1.purgeDone = a1.purgeDone ∧
    (waitCore a1 db1 run p e inflight done timedOut choice).2.2.purged = p ∧
    (waitCore a1 db1 run p e inflight done timedOut choice).2.1.ops = db1.ops := by
  unfold waitCore
  split
  · exact ⟨rfl, rfl, rfl⟩
  · cases e with
    | none =>
      cases choice with
      | none => simp only; split <;> exact ⟨rfl, rfl, rfl⟩
      | some c => simp only; split <;> exact ⟨rfl, rfl, rfl⟩
    | some k =>
      simp only
      split
      · split
        · exact ⟨rfl, rfl, rfl⟩
        · split <;> exact ⟨rfl, rfl, rfl⟩
      · cases choice with
        | none => simp only; split <;> exact ⟨rfl, rfl, rfl⟩
        | some c => simp only; split <;> exact ⟨rfl, rfl, rfl⟩

theorem waitCore_none_not_replayed (a1 : Adapter κ) (db1 : Db κ) (run : String) (p : Bool)
    (inflight done : List κ) (timedOut : Bool) (choice : Option κ) (k : κ) :
    (waitCore a1 db1 run p none inflight done timedOut choice).2.2.out ≠ .replayed k := by
  unfold waitCore
  split
  · intro h; cases h
  · cases choice with
    | none => simp only; split <;> (intro h; cases h)
    | some c => simp only; split <;> (intro h; cases h)

omit [DecidableEq κ] in
theorem purgeStale_ops (j : TJ κ) (db : Db κ) (run : String) (fid : Nat) :
    (j.purgeStale db run fid).ops = if j.hasEntries then (db.purgeOpsFrom run fid).ops else db.ops := by
  unfold TJ.purgeStale TJ.hasEntries
  cases j.entries with
  | none => rfl
  | some es => cases h : es.isEmpty <;> simp [h, Db.truncateFrom]

/-- one call: the purge flag, the once-flag and the operations table -/
theorem waitNext_purge (a : Adapter κ) (db : Db κ) (run : String) (fid : Nat)
    (inflight done : List κ) (timedOut : Bool) (choice : Option κ) :
    let r := waitNext a db run fid inflight done timedOut choice
    (r.2.2.purged = true → a.purgeDone = false ∧ r.1.purgeDone = true ∧ r.2.1.ops = (db.purgeOpsFrom run fid).ops ∧
      ∀ k, r.2.2.out ≠ .replayed k) ∧
    (r.2.2.purged = false → r.2.1.ops = db.ops) ∧
    (a.purgeDone = true → r.1.purgeDone = true ∧ r.2.2.purged = false) := by
  simp only
  rw [waitNext_core]
  obtain ⟨h1, h2, h3⟩ := waitCore_fields
    { tj := a.tj.load db run, purgeDone := a.purgeDone || ((a.tj.load db run).nextExpected.isNone && !a.purgeDone) }
    (if (a.tj.load db run).nextExpected.isNone && !a.purgeDone then (a.tj.load db run).purgeStale db run fid else db)
    run (((a.tj.load db run).nextExpected.isNone && !a.purgeDone) && (a.tj.load db run).hasEntries)
    (a.tj.load db run).nextExpected inflight done timedOut choice
  rw [h1, h2, h3]
  generalize a.tj.load db run = j at *
  refine ⟨?_, ?_, ?_⟩
  · intro hp
    simp only [Bool.and_eq_true, Bool.not_eq_true', Option.isNone_iff_eq_none] at hp
    obtain ⟨⟨hn, hd⟩, he⟩ := hp
    refine ⟨hd, by simp [hn, hd], by simp [hn, hd, purgeStale_ops, he], ?_⟩
    intro k
    rw [hn]
    exact waitCore_none_not_replayed _ _ run _ inflight done timedOut choice k
  · intro hp
    by_cases hc : (j.nextExpected.isNone && !a.purgeDone) = true
    · have he : j.hasEntries = false := by simpa [hc] using hp
      simp [hc, purgeStale_ops, he]
    · simp [hc]
  · intro hd
    simp [hd]

/-- the function id of the call that purged, if any -/
def purgeFid : List (WaitIn κ) → List (WaitRes κ) → Option Nat
  | i :: is, r :: rs => if r.purged then some i.fid else purgeFid is rs
  | _, _ => none

theorem runCalls_purge_once (run : String) (calls : List (WaitIn κ)) :
    ∀ (a : Adapter κ) (db : Db κ),
      ((runCalls run a db calls).2.2.filter (·.purged)).length ≤ 1 ∧
      (runCalls run a db calls).2.1.ops =
        (match purgeFid calls (runCalls run a db calls).2.2 with
         | none => db.ops
         | some f => (db.purgeOpsFrom run f).ops) ∧
      (∀ x, x ∈ (runCalls run a db calls).2.2 → x.purged = true → ∀ k, x.out ≠ .replayed k) ∧
      (a.purgeDone = true → (runCalls run a db calls).1.purgeDone = true ∧
        ∀ x, x ∈ (runCalls run a db calls).2.2 → x.purged = false) := by
  induction calls with
  | nil => intro a db; simp [runCalls, purgeFid]
  | cons i is ih =>
    intro a db
    obtain ⟨w1, w2, w3⟩ := waitNext_purge a db run i.fid i.inflight i.done i.timedOut i.choice
    obtain ⟨g1, g2, g3, g4⟩ := ih (waitNext a db run i.fid i.inflight i.done i.timedOut i.choice).1
      (waitNext a db run i.fid i.inflight i.done i.timedOut i.choice).2.1
    simp only [runCalls]
    cases hp : (waitNext a db run i.fid i.inflight i.done i.timedOut i.choice).2.2.purged with
    | true =>
      obtain ⟨_, q2, q3, q4⟩ := w1 hp
      obtain ⟨_, r2⟩ := g4 q2
      have hnone : ∀ rs : List (WaitRes κ), (∀ x, x ∈ rs → x.purged = false) → rs.filter (·.purged) = [] := by
        intro rs h; exact List.filter_eq_nil_iff.mpr (fun x hx => by simp [h x hx])
      have hpf : ∀ (cs : List (WaitIn κ)) (rs : List (WaitRes κ)), (∀ x, x ∈ rs → x.purged = false) → purgeFid cs rs = none := by
        intro cs rs
        induction cs generalizing rs with
        | nil => intro _; cases rs <;> rfl
        | cons c cs ih2 =>
          intro h
          cases rs with
          | nil => rfl
          | cons r rs => simp only [purgeFid, h r (by simp), Bool.false_eq_true, if_false]; exact ih2 rs (fun x hx => h x (by simp [hx]))
      refine ⟨by simp [hp, hnone _ r2], ?_, ?_, ?_⟩
      · rw [g2, hpf _ _ r2]; simp only [purgeFid, hp, if_true]; exact q3
      · intro x hx hxp k
        rcases List.mem_cons.mp hx with h | h
        · subst h; exact q4 k
        · rw [r2 x h] at hxp; cases hxp
      · intro hd; rw [(w3 hd).2] at hp; cases hp
    | false =>
      have q := w2 hp
      refine ⟨by simpa [List.filter_cons, hp] using g1, ?_, ?_, ?_⟩
      · rw [g2]; simp only [purgeFid, hp, Bool.false_eq_true, if_false]
        cases purgeFid is (runCalls run _ _ is).2.2 with
        | none => exact q
        | some f => simp [Db.purgeOpsFrom, q]
      · intro x hx hxp k
        rcases List.mem_cons.mp hx with h | h
        · subst h; rw [hp] at hxp; cases hxp
        · exact g3 x h hxp k
      · intro hd
        obtain ⟨e1, e2⟩ := g4 (w3 hd).1
        refine ⟨e1, ?_⟩
        intro x hx
        rcases List.mem_cons.mp hx with h | h
        · subst h; exact hp
        · exact e2 x h

end Journal
