import WfModel.SqliteConn
import Driver.Util
open SqliteConn Drv

/-! Line protocol for the connection-lifecycle model (both modes are run side by side on the
table generated from the current source; content = a version counter).
  `reset`                                   → `reset`
  `table`                                   → `ok=<0|1> noleak=<0|1> oneconn=<0|1> secs=<n> ops=<n> unknowns=<n> locks=<0|1> noscratch=<0|1>`
  `lk|<task>|<obj>|<acq or rel>`            → `single=<lres> percall=<lres>`  (lock request / release by a task on a state store object;
                                               `<lres>` is `got`, `wait`, `next:<task or ->`, `notheld` or `nostore`)
  `final`                                   → `same=<0|1> pend=<0|1> open=<0|1>`  (committed content equal; shared connection has uncommitted changes / is open)
  `new|<viaCreate 0|1>`                     → `store=<i> given=<0|1>`
  `sec|<obj or ->|<section>|<ok>|<began>|<wrote>` → `single=<res>/<onShared> percall=<res> open=<0|1> intx=<0|1> pend=<0|1> same=<0|1> s+<opened>/<closed> p+<opened>/<closed> res=<0|1>`
(`res`: the section leaves connection-scoped state — TEMP objects, attached databases — on the shared connection)
`<res>` is `ok`, `err`, `closed`, `nostore` or `nosec`; `<ok>`/`<began>`/`<wrote>` are the oracle's answers for this
section (did its statements end normally; was a data-changing statement attempted; did one succeed). -/
namespace Drv.SqliteConn

structure St2 where
  s : St Nat := init table .single 0
  p : St Nat := init table .perCall 0
  ls : LSt := {}
  lp : LSt := {}

def b01 (b : Bool) : String := if b then "1" else "0"

def showRes : Res Nat → String
  | .val true _ => "ok"
  | .val false _ => "err"
  | .closedErr => "closed"
  | .noStore => "nostore"
  | .noSec => "nosec"

def showLRes : LRes → String
  | .got => "got"
  | .wait => "wait"
  | .next none => "next:-"
  | .next (some t) => s!"next:{t}"
  | .notHeld => "notheld"
  | .noStore => "nostore"

def step (st : St2) (line : String) : St2 × String :=
  match line.splitOn "|" with
  | ["reset"] => ({}, "reset")
  | ["table"] =>
    (st, s!"ok={b01 (tableOk table)} noleak={b01 (tableNoLeak table)} oneconn={b01 (instanceProvider table)} secs={table.secs.length} ops={table.ops.length} unknowns={table.unknowns} locks={b01 table.lockPerStore} noscratch={b01 (tableNoScratch table)}")
  | ["final"] =>
    (st, s!"same={b01 (st.s.committed == st.p.committed)} pend={b01 st.s.pending.isSome} open={b01 st.s.sharedOpen}")
  | ["new", v] =>
    match parseBool? v with
    | none => (st, "bad-op")
    | some via =>
      let p : Prog Nat := .newStore via (fun i => .ret i)
      let sem : Sem Nat Nat := fun _ _ c => ⟨true, false, false, c, 0⟩
      let r1 := runProg table .single sem p st.s
      let r2 := runProg table .perCall sem p st.p
      ({ st with s := r1.1, p := r2.1 }, s!"store={r1.2} given={b01 (r1.1.stores.getLast?.getD false)}")
  | ["sec", o, name, oks, bs, ws] =>
    let obj? : Option (Option Nat) := if o == "-" then some none else (parseNat? o).map some
    match obj?, parseBool? oks, parseBool? bs, parseBool? ws with
    | some obj, some ok, some began, some wrote =>
      let idx := (idxOf table name).getD table.secs.length
      let sem : Sem Nat Nat := fun _ _ c => ⟨ok, began, wrote, if wrote then c + 1 else c, 0⟩
      let r1 := secStep table .single sem obj idx 0 st.s
      let r2 := secStep table .perCall sem obj idx 0 st.p
      let on := match table.secs[idx]? with
        | none => "-"
        | some sec => match onShared table .single sec obj st.s.stores with
          | none => "-"
          | some b => b01 b
      -- connection-scoped state as a counter of what was left behind: does this section leave something on the shared connection?
      let kr := scratchStep table .single (fun _ _ (k : Nat) => (k + 1, k)) 0 st.s.stores obj idx 0 0
      let out := s!"single={showRes r1.2}/{on} percall={showRes r2.2} open={b01 r1.1.sharedOpen} intx={b01 r1.1.inTx} pend={b01 r1.1.pending.isSome} same={b01 (r1.1.committed == r2.1.committed)} s+{r1.1.opened - st.s.opened}/{r1.1.closed - st.s.closed} p+{r2.1.opened - st.p.opened}/{r2.1.closed - st.p.closed} res={b01 (kr.1 != 0)}"
      ({ st with s := r1.1, p := r2.1 }, out)
    | _, _, _, _ => (st, "bad-op")
  | ["lk", ts, os, kind] =>
    match parseNat? ts, parseNat? os, (if kind == "acq" then some true else if kind == "rel" then some false else none) with
    | some task, some obj, some isAcq =>
      let a : LAct := if isAcq then .acq task obj else .rel task obj
      let r1 := lockStep table st.s.stores a st.ls
      let r2 := lockStep table st.p.stores a st.lp
      ({ st with ls := r1.1, lp := r2.1 }, s!"single={showLRes r1.2} percall={showLRes r2.2}")
    | _, _, _ => (st, "bad-op")
  | _ => (st, "bad-op")

end Drv.SqliteConn
