"""STAND-IN (see cryptography/__init__.py)."""


class InvalidTag(Exception):
    pass


class InvalidKey(Exception):
    pass


class AlreadyFinalized(Exception):
    pass
