"""Scripted workflows on the real engine under the virtual-time loop.

A *spec* is a JSON-able description of a workflow (steps, accepted types, worker
counts, retry policies, catch_error handlers, per-step scripts) plus a list of
external actions.  `run_spec` builds the real `Workflow`, runs it on the real
`BasicRuntime` with a scheduler deciding, at every quiescent point, which gate
to open / which external action to perform, and records a `Trace`:
reducer calls (tick, now, state before/after, commands, policy oracle), what
was written to the stream, step entries/exits, runner internals at each tick,
the outcome, and snapshots requested by the schedule.
"""
from __future__ import annotations

import asyncio
import json
import random
import sys
from dataclasses import dataclass, field
from typing import Any, Optional, Union

from workflows import Context, Workflow
from workflows.decorators import catch_error, step
from workflows.errors import WorkflowCancelledByUser, WorkflowRuntimeError, WorkflowTimeoutError
from workflows.events import Event, StepFailedEvent, StopEvent
from workflows.plugins import basic as BASIC
from workflows.retry_policy import retry_policy as mk_retry_policy
from workflows import retry_policy as RP
from workflows.runtime import control_loop as CL
from workflows.runtime.types import step_function as SF

from ..vloop import VClock, VLoop, run_virtual
from . import enc
from . import evtypes as ET

_VCLOCK = VClock()


def patch_clocks() -> None:
    import workflows.context.internal_context as IC

    for m in (CL, SF, BASIC, IC):
        if getattr(m, "time", None) is not _VCLOCK:
            m.time = _VCLOCK  # type: ignore[attr-defined]


# --------------------------------------------------------------------------


@dataclass
class ReduceCall:
    kind: str  # "reduce" | "rewind"
    caller: str
    now: float
    tick: Any
    before: Any
    after: Any
    cmds: list
    oracle: list
    error: Optional[str] = None
    runner: dict = field(default_factory=dict)
    stream_len: int = 0


@dataclass
class Trace:
    spec: dict
    calls: list[ReduceCall] = field(default_factory=list)
    stream: list = field(default_factory=list)  # events in publication order (write_to_event_stream)
    consumed: list = field(default_factory=list)  # what handler.stream_events(expose_internal=True) yielded
    consumer_done: bool = False
    steps: list = field(default_factory=list)  # ("enter"/"exit", step, uid, retry_number, vtime, info)
    outcome: tuple = ("pending", None)
    actions: list = field(default_factory=list)  # scheduler decisions (indices) for replay
    snapshots: list = field(default_factory=list)
    puts: list = field(default_factory=list)  # (tick, call index, "internal"|"external") mailbox puts
    start_event: Any = None
    runner: Any = None
    handler: Any = None
    deadlock: bool = False
    notes: list = field(default_factory=list)
    end_time: float = 0.0
    # one dict per ctx.wait_for_event CALL a step body made, in call order: what the body asked for (harness-side label of
    # the wait, type, requirement, timeout, waiter_event uid), when, and how the call ended (got / timeout / suspended)
    wait_calls: list = field(default_factory=list)
    # what the workflow object built from the @catch_error declarations once run() had validated it:
    # {"handlers": [names], "handler_for_step": {step: handler}} (None: rejected, or never reached)
    handler_table: Any = None
    # one dict per asynchronous cancellation teardown a step body started (script marker "on_cancel_teardown")
    teardowns: list = field(default_factory=list)
    # step bodies (async) entered and not yet left at the moment the run's outcome became available to `await handler`:
    # (step, input uid, retry number) -- an observation of the bodies themselves, not of the runner's task table
    alive_at_outcome: list = field(default_factory=list)
    stream_len_at_outcome: int | None = None
    drained_until: float | None = None


class RecordingPolicy:
    """Wraps a real retry policy; records every decision (for the model's oracle)."""

    def __init__(self, inner: Any, step_name: str):
        self.inner = inner
        self.step_name = step_name
        self.log: list = []

    def next(self, elapsed_time: float, attempts: int, error: Exception, seed: int | None = None) -> float | None:
        try:
            d = self.inner.next(elapsed_time, attempts, error, seed=seed)
        except Exception:
            _CURRENT_ORACLE.append((self.step_name, elapsed_time, attempts, error, "RAISE"))
            raise
        self.log.append((self.step_name, elapsed_time, attempts, error, d))
        _CURRENT_ORACLE.append((self.step_name, elapsed_time, attempts, error, d))
        return d


_CURRENT_ORACLE: list = []
_ACTIVE: list["Run"] = []
MAX_CALLS = 4000


class RunawayRun(BaseException):
    """raised inside the reducer wrapper when a generated run does not terminate"""



class Run:
    def __init__(self, spec: dict, rng: random.Random, replay_actions: list[int] | None = None):
        self.spec = spec
        self.rng = rng
        self.trace = Trace(spec=spec)
        self.gates: dict[tuple, asyncio.Event] = {}
        self.waiting: list[tuple] = []
        # fresh uids of a resumed run never collide with those of the runs before it (`_resumed`: True, or the generation
        # number 1, 2, 3.. of a chain of stop/resume rounds)
        self.uid = 1000 + 4000 * int(spec.get("_resumed") or 0)
        self.externals = list(spec.get("externals", []))
        self.replay_actions = list(replay_actions) if replay_actions is not None else None
        self.runner: Any = None
        self.handler: Any = None
        self.finished = False
        self.quiet_count = 0
        self.inflight: list[tuple] = []  # async step bodies entered and not yet left

    def fresh(self) -> int:
        self.uid += 1
        return self.uid

    def choose(self, n: int, weights: list[int] | None = None) -> int:
        if self.replay_actions is not None:
            c = self.replay_actions.pop(0) if self.replay_actions else 0
            c = c % n
        elif weights is not None:
            c = self.rng.choices(range(n), weights=weights)[0]  # a biased schedule; what is recorded is the index
        else:
            c = self.rng.randrange(n)
        self.trace.actions.append(c)
        return c


def make_policy(p: dict | None, step_name: str) -> Any:
    if p is None:
        return None
    kind = p.get("kind", "attempts")
    if kind == "attempts":
        inner = mk_retry_policy(stop=RP.stop_after_attempt(p["n"]), wait=RP.wait_fixed(p.get("wait", 0)))
    elif kind == "delay":
        inner = mk_retry_policy(stop=RP.stop_after_delay(p["d"]), wait=RP.wait_fixed(p.get("wait", 1)))
    elif kind == "before_delay":
        # gives up when the NEXT sleep would end past the budget: elapsed + upcoming delay >= d
        inner = mk_retry_policy(stop=RP.stop_before_delay(p["d"]), wait=RP.wait_fixed(p.get("wait", 1)))
    elif kind == "delay_any":
        # composed: gives up at the first of (d seconds since the first attempt, n failures)
        inner = mk_retry_policy(stop=RP.stop_any(RP.stop_after_delay(p["d"]), RP.stop_after_attempt(p["n"])), wait=RP.wait_fixed(p.get("wait", 1)))
    elif kind == "delay_all":
        # composed: gives up once BOTH d seconds have elapsed since the first attempt and n failures are on record
        inner = mk_retry_policy(stop=RP.stop_all(RP.stop_after_delay(p["d"]), RP.stop_after_attempt(p["n"])), wait=RP.wait_fixed(p.get("wait", 1)))
    elif kind == "chain":
        inner = mk_retry_policy(stop=RP.stop_after_attempt(p["n"]), wait=RP.wait_chain(*[RP.wait_fixed(w) for w in p["waits"]]))
    elif kind == "chain_exp":
        # a chain whose last strategy depends on the attempt number: fixed `first`, then 2**attempts (capped at 64)
        inner = mk_retry_policy(stop=RP.stop_after_attempt(p["n"]),
                                wait=RP.wait_chain(RP.wait_fixed(p["first"]), RP.wait_exponential(multiplier=1, exp_base=2, max=64)))
    elif kind == "legacy":
        inner = RP.ConstantDelayRetryPolicy(maximum_attempts=p["n"], delay=p.get("wait", 0))
    elif kind == "incr":
        # start, start+inc, start+2*inc, ... (integral virtual seconds)
        inner = mk_retry_policy(stop=RP.stop_after_attempt(p["n"]),
                                wait=RP.wait_incrementing(start=p.get("start", 0), increment=p["inc"], max=p.get("max", 1000)))
    elif kind == "exp":
        inner = mk_retry_policy(stop=RP.stop_after_attempt(p["n"]),
                                wait=RP.wait_exponential(multiplier=p.get("mult", 1), exp_base=p.get("base", 2), max=p.get("max", 64)))
    elif kind == "raises":
        class _Raises:
            def next(self, elapsed_time: float, attempts: int, error: Exception, seed: int | None = None) -> float | None:
                raise RuntimeError("policy bug")
        inner = _Raises()
    else:
        raise ValueError(kind)
    return RecordingPolicy(inner, step_name)


def build_workflow(spec: dict, run: Run) -> Workflow:
    consumed = sorted({t for s in spec["steps"] for t in s["accepts"] if t not in (0, 4)})
    ret_union = Union[tuple([ET.TYPES[t] for t in consumed] + [ET.T1, type(None)])]  # type: ignore[valid-type]
    ns: dict[str, Any] = {}
    for s in spec["steps"]:
        name = s["name"]
        acc = tuple(ET.TYPES[t] for t in s["accepts"])
        ev_ann = acc[0] if len(acc) == 1 else Union[acc]  # type: ignore[valid-type]

        def make(sdef: dict) -> Any:
            if sdef.get("sync"):
                def sbody(self: Any, ctx: Context, ev: Any) -> Any:
                    return _sync_body(run, sdef, ctx, ev)
                fn = sbody
            else:
                async def body(self: Any, ctx: Context, ev: Any) -> Any:
                    return await _body(run, sdef, ctx, ev)
                fn = body
            fn.__name__ = sdef["name"]
            fn.__qualname__ = f"GenWF.{sdef['name']}"
            fn.__annotations__ = {"ctx": Context, "ev": ev_ann, "return": ret_union}
            return fn

        f = make(s)
        if s.get("role") == "handler":
            ns[name] = catch_error(for_steps=s.get("for_steps"), max_recoveries=s.get("max_rec", 1))(f)
        else:
            ns[name] = step(num_workers=s.get("nw", 4), retry_policy=make_policy(s.get("retry"), name))(f)
    cls = type("GenWF", (Workflow,), ns)
    kw: dict[str, Any] = {"timeout": spec.get("timeout")}
    if spec.get("disable_validation"):
        kw["disable_validation"] = True
    if spec.get("num_concurrent_runs") is not None:
        kw["num_concurrent_runs"] = spec["num_concurrent_runs"]
    return cls(**kw)


class NotAnEvent:
    pass


def _retry_number(ctx: Context) -> int:
    try:
        return ctx.retry_info().retry_number
    except Exception:
        return -1


async def _body(run: Run, sdef: dict, ctx: Context, ev: Any) -> Any:
    name = sdef["name"]
    uid = getattr(ev, "uid", None)
    if isinstance(ev, StepFailedEvent):
        uid = ("sfe", ev.step_name, getattr(ev.input_event, "uid", None), ev.attempts)
    rn = _retry_number(ctx)
    loop = asyncio.get_event_loop()
    info: dict[str, Any] = {}
    if isinstance(ev, StepFailedEvent):
        info["sfe"] = {"step": ev.step_name, "exc": str(ev.exception), "attempts": ev.attempts, "elapsed": ev.elapsed_seconds}
    try:
        ri = ctx.retry_info()
        info["retry_info"] = {"n": ri.retry_number, "last_exc": None if ri.last_exception is None else str(ri.last_exception),
                              "elapsed": ri.elapsed_seconds}
    except Exception as e:  # pragma: no cover
        info["retry_info_error"] = repr(e)
    info["ty"] = ET.TY_ID.get(type(ev), -1)
    info["stream_len"] = len(run.trace.stream)  # what had been published when the body started (C35: RUNNING comes first)
    run.trace.steps.append(("enter", name, uid, rn, loop.time(), info))
    status = "ok"
    flight = (name, uid, rn, len(run.trace.steps))
    run.inflight.append(flight)
    try:
        return await _interp(run, sdef, ctx, ev, rn, inv=uid)
    except asyncio.CancelledError:
        status = "cancelled"
        oc = next((a for a in sdef["script"] if a[0] == "on_cancel_stream"), None)
        if oc is not None:
            # a step that reports from its cancellation path (finally / except CancelledError)
            ctx.write_event_to_stream(ET.mk(oc[1], run.fresh(), None))
        osl = next((a for a in sdef["script"] if a[0] == "on_cancel_sleep"), None)
        if osl is not None:
            # a step with asynchronous cleanup: it needs a while to unwind from its cancellation
            try:
                await asyncio.sleep(osl[1])
            except asyncio.CancelledError:
                pass
        otd = next((a for a in sdef["script"] if a[0] == "on_cancel_teardown"), None)
        if otd is not None:
            # ["on_cancel_teardown", seconds, type id | None, mode]: an asynchronous teardown of `seconds` (closing a connection,
            # flushing) started by the cancellation, followed by a last word on the stream.  What a FURTHER cancellation does to it:
            #   "finally"  - interrupts it (the CancelledError leaves the `finally:` block; nothing is written)
            #   "swallow"  - as "finally", but the first cancellation was swallowed: if the teardown gets to its end the body
            #                returns normally
            #   "shield"   - ends the waiting at once; the last word is still written, then the cancellation goes on
            #   "stubborn" - is ignored: the teardown takes its full time whatever happens
            secs, ty, mode = float(otd[1]), otd[2], otd[3]
            td = {"step": name, "uid": uid, "rn": rn, "secs": secs, "ty": ty, "mode": mode, "start": loop.time(), "end": None,
                  "more_cancels": 0, "wrote": None, "how": None}
            run.trace.teardowns.append(td)
            try:
                if mode in ("finally", "swallow"):
                    await asyncio.sleep(secs)
                elif mode == "shield":
                    try:
                        await asyncio.sleep(secs)
                    except asyncio.CancelledError:
                        td["more_cancels"] += 1
                else:
                    deadline = loop.time() + secs
                    while loop.time() < deadline:
                        try:
                            await asyncio.sleep(deadline - loop.time())
                        except asyncio.CancelledError:
                            td["more_cancels"] += 1
                td["how"] = "completed" if loop.time() >= td["start"] + secs else "cut_short"
                if ty is not None:
                    w = ET.mk(ty, run.fresh(), None)
                    td["wrote"] = (w.uid, loop.time())
                    ctx.write_event_to_stream(w)
            except asyncio.CancelledError:
                td["more_cancels"] += 1
                td["how"] = "interrupted"
                raise
            finally:
                td["end"] = loop.time()
            if mode == "swallow":
                status = "ok_after_swallowed_cancel"
                return None
        raise
    except BaseException as e:
        status = "raise:" + type(e).__name__
        raise
    finally:
        run.inflight.remove(flight)
        run.trace.steps.append(("exit", name, uid, rn, loop.time(), {"status": status, "ret": run.__dict__.pop("_last_ret", None)}))


def _sync_body(run: Run, sdef: dict, ctx: Context, ev: Any) -> Any:
    # sync steps run in an executor thread; only simple scripts are used
    name = sdef["name"]
    uid = getattr(ev, "uid", None)
    rn = _retry_number(ctx)
    run.trace.steps.append(("enter", name, uid, rn, -1.0, {}))
    try:
        for act in sdef["script"]:
            if act[0] == "fail_until" and rn < act[1]:
                raise ET.Boom(f"e{act[2]}")
            if act[0] == "ret":
                return _ret_value(run, act, ev)
    finally:
        run.trace.steps.append(("exit", name, uid, rn, -1.0, {"status": "sync"}))
    return None


def _ret_value(run: Run, act: list, ev: Any) -> Any:
    v = _ret_value0(run, act, ev)
    run._last_ret = (act[1], getattr(v, "uid", None))  # type: ignore[attr-defined]
    return v


def _ret_value0(run: Run, act: list, ev: Any) -> Any:
    what = act[1]
    if what == "none":
        return None
    if what == "bad":
        return NotAnEvent()
    det = run.spec.get("det_uids")
    base = getattr(ev, "uid", 0) or 0
    if what == "stop":
        res = act[2] if len(act) > 2 else None
        if res == "collected":
            res = sorted(getattr(run, "_last_collected", {}).get(base, []))
        elif res == "uid":
            res = base
        elif res == "waited":
            # the `k` of every event this invocation's wait_for_event calls returned (shows WHICH event was accepted)
            res = list(getattr(run, "_last_waited", {}).get(base, []))
        return ET.T1(uid=7 if det else run.fresh(), k=None, result=res)
    k = act[2] if len(act) > 2 else getattr(ev, "k", None)
    return ET.mk(int(what), (base * 8 + 7) if det else run.fresh(), k)


def _worker_id_of(run: Run, name: str, ev: Any) -> int | None:
    """worker id of the running invocation of step `name` whose input is the event object `ev` (None if not unique)"""
    try:
        ids = [ip.worker_id for ip in run.runner.state.workers[name].in_progress if ip.event is ev]
    except Exception:
        return None
    return ids[0] if len(ids) == 1 else None


async def _interp(run: Run, sdef: dict, ctx: Context, ev: Any, rn: int, inv: Any = None) -> Any:
    """`inv`: the identity of this invocation as `_body` records it (for a handler the ("sfe", step, input uid, attempts)
    tuple of the failure it handles; `uid` below is 0 there)"""
    name = sdef["name"]
    uid = getattr(ev, "uid", 0)
    run.__dict__.setdefault("_last_waited", {})[uid] = []  # per execution of the invocation (see "ret stop waited")
    for act in sdef["script"]:
        op = act[0]
        if op == "gate":
            key = (name, uid, rn, len(run.gates))
            g = asyncio.Event()
            run.gates[key] = g
            run.__dict__.setdefault("gate_k", {})[key] = getattr(ev, "k", None)
            run.waiting.append(key)
            try:
                await g.wait()
            finally:
                if key in run.waiting:
                    run.waiting.remove(key)
        elif op == "sleep":
            await asyncio.sleep(act[1])
        elif op == "yield":
            await asyncio.sleep(0)
        elif op == "block":
            # works until the run ends: waits on something no schedule ever completes (not a gate, not a timer)
            await asyncio.Event().wait()
        elif op in ("on_cancel_stream", "on_cancel_sleep", "on_cancel_teardown"):
            pass  # markers: see _body's CancelledError branch
        elif op == "self_cancel":
            # ["self_cancel", mode, arg]: the body raises asyncio.CancelledError ITSELF while the run goes on (it awaits an inner
            # task that was cancelled -- a misused cancel scope / timeout): its worker task ends cancelled, no step result exists.
            #   "always"      - every execution          "k", [ks]   - executions whose input event carries one of these k
            #   "first", n    - the first n executions of this step (counted by the harness)
            mode = act[1] if len(act) > 1 else "always"
            if mode == "k":
                hit = getattr(ev, "k", None) in list(act[2])
            elif mode == "first":
                hit = sum(1 for r in run.trace.steps if r[0] == "enter" and r[1] == name) <= int(act[2])
            else:
                hit = True
            if hit:
                run.trace.steps.append(("self_cancel", name, uid, rn, asyncio.get_event_loop().time(),
                                        {"wid": _worker_id_of(run, name, ev), "at_call": len(run.trace.calls)}))
                inner = asyncio.ensure_future(asyncio.sleep(3600))
                inner.cancel()
                await inner
        elif op == "send":
            if run.spec.get("det_uids"):
                nsent = sum(1 for a in sdef["script"][: sdef["script"].index(act)] if a[0] == "send")
                # "same_uid_sends": a batch of content-identical events (Work() x N) -- the ticks carrying them serialise identically
                sent = ET.mk(act[1], (uid or 0) * 8 + 1 + (0 if run.spec.get("same_uid_sends") else nsent), act[3] if len(act) > 3 else None)
            else:
                sk = act[3] if len(act) > 3 else None
                if sk == "same":  # the item is re-dispatched with its k (a handler: the k of the failed invocation's input)
                    sk = getattr(ev.input_event if isinstance(ev, StepFailedEvent) else ev, "k", None)
                sent = ET.mk(act[1], run.fresh(), sk)
            # ["send", ty, target, k, times]: the very same event OBJECT is handed to ctx.send_event `times` times (a body that
            # re-sends one object, or fans one object out in a loop): every delivery is an invocation of its own
            for _rep in range(int(act[4]) if len(act) > 4 and act[4] else 1):
                run.trace.steps.append(("sent", name, uid, rn, asyncio.get_event_loop().time(),
                                        {"new_uid": sent.uid, "ty": act[1], "target": act[2], "inv": inv if inv is not None else uid,
                                         "wid": _worker_id_of(run, name, ev), "obj": sent}))
                ctx.send_event(sent, step=act[2])
        elif op == "stream":
            ctx.write_event_to_stream(ET.mk(act[1], run.fresh(), None))
        elif op == "fail_until":
            if rn < act[1]:
                raise ET.Boom(f"e{act[2]}")
        elif op == "fail_always":
            raise ET.Boom(f"e{act[1]}")
        elif op == "fail_on_k":
            if getattr(ev, "k", None) == act[1]:
                raise ET.Boom(f"e{act[2]}")
        elif op == "fail_nth":
            # transient failures scripted by the ORDINAL of the execution of this invocation (input event), counted by the
            # harness -- independent of what the engine reports as retry_number: ["fail_nth", [1, 2, "rerun"], e, only_k]
            # fails the 1st and 2nd execution and the first execution that follows one which ended WITHOUT a failure
            # (i.e. a collect re-run: nothing failed, the engine ran the invocation again on a fresh snapshot)
            if len(act) < 4 or act[3] is None or getattr(ev, "k", None) == act[3]:
                hist = [r for r in run.trace.steps if r[0] in ("enter", "exit") and r[1] == name and r[2] == uid]
                nth = sum(1 for r in hist if r[0] == "enter")
                exits = [r for r in hist if r[0] == "exit"]
                is_rerun = bool(exits) and exits[-1][5].get("status") == "ok"
                done_rr = run.__dict__.setdefault("_rerun_failed", set())
                if nth in act[1] or ("rerun" in act[1] and is_rerun and (name, uid) not in done_rr):
                    if is_rerun and nth not in act[1]:
                        done_rr.add((name, uid))
                    raise ET.Boom(f"e{act[2]}")
        elif op == "collect":
            bufname = act[2] if len(act) > 2 else None
            try:
                from workflows.runtime.types.results import StepWorkerStateContextVar as _SWC
                snap = [getattr(e, "uid", None) for e in _SWC.get().state.collected_events.get(bufname or "default", [])]
                snap_tys = [ET.TY_ID.get(type(e), -1) for e in _SWC.get().state.collected_events.get(bufname or "default", [])]
            except Exception:
                snap, snap_tys = None, None
            cev = ev
            if len(act) > 5 and act[5]:
                # opt-in (no generated spec has it; corpus witness c03_unhandled_idle_batch): the step hands collect_events an event
                # OTHER than the one it was invoked with (act[5] = [type id, k]); a collect re-run then runs with that event
                # act[5][0] may be a LIST of type ids: the step normalises its input into one of several event types, chosen by
                # the input's k (a join step turning Part(side) into Left/Right); act[5][1] == "own": the derived event keeps the
                # input's k.  Under `det_uids` the derived event's uid is derived from the input's (schedule-independent results).
                fty = act[5][0]
                if isinstance(fty, list):
                    fty = fty[int(getattr(ev, "k", None) or 0) % len(fty)]
                fk = getattr(ev, "k", None) if act[5][1] == "own" else act[5][1]
                cev = ET.mk(int(fty), ((uid or 0) * 8 + 5) if run.spec.get("det_uids") else run.fresh(), fk)
            for _rep in range(max(int(act[3]) if len(act) > 3 else 1, 1) - 1):
                # the same collect_events call made again by one invocation (e.g. in a loop): every call that
                # still needs the event appends one more AddCollectedEvent for the same buffer to this result
                ctx.collect_events(cev, [ET.TYPES[t] for t in act[1]], buffer_id=bufname)
            got = ctx.collect_events(cev, [ET.TYPES[t] for t in act[1]], buffer_id=bufname)
            run.trace.steps.append(("collect_call", name, uid, rn, asyncio.get_event_loop().time(),
                                    {"expected": list(act[1]), "buf": bufname or "default", "snapshot": snap, "snapshot_tys": snap_tys,
                                     "ty": ET.TY_ID.get(type(ev), -1), "at_call": len(run.trace.calls),
                                     "handed": [ET.TY_ID.get(type(cev), -1), getattr(cev, "uid", None)],
                                     "got": None if got is None else [e.uid for e in got],
                                     "got_tys": None if got is None else [ET.TY_ID[type(e)] for e in got]}))
            if got is None:
                if len(act) > 4 and act[4] and rn < act[4][1]:
                    # a body that raises when its collection is still incomplete: collect result and failure in ONE result list
                    raise ET.Boom(f"e{act[4][2]}")
                return None
            run.__dict__.setdefault("_last_collected", {})[uid] = [e.uid for e in got]
            run.trace.steps.append(("collected", name, uid, rn, asyncio.get_event_loop().time(),
                                    {"uids": [e.uid for e in got], "tys": [ET.TY_ID[type(e)] for e in got], "expected": act[1]}))
        elif op == "wait":
            ty, reqk, timeout, wid, wev = act[1], act[2], act[3], act[4], act[5]
            if wid == "per":  # one waiter id per invocation (concurrent invocations of a step do not share a waiter)
                wid = f"w{(int(uid) % 80) + 10:02d}"
            kw: dict[str, Any] = {}
            auto = False
            if reqk == "own":
                # auto-generated waiter id; the invocations differ only in the requirement VALUE (their input's k)
                reqk = getattr(ev, "k", None)
                wid = None
                auto = True
            elif isinstance(reqk, str) and reqk.startswith("own+"):
                # ... a further wait of the same invocation: its input's k plus an offset
                reqk = (getattr(ev, "k", None) or 0) + int(reqk[4:])
                wid = None
                auto = True
            elif isinstance(reqk, str) and reqk.startswith("auto:"):
                # auto-generated waiter id, literal requirement value: several such waits of one body differ only in that value
                reqk = int(reqk[5:])
                wid = None
                auto = True
            # position of this wait among the waits of the script (a body with several waits announces each with its own event)
            widx = sum(1 for a in sdef["script"][: sdef["script"].index(act)] if a[0] == "wait")
            if wid is not None:
                kw["waiter_id"] = wid
            if reqk is not None:
                kw["requirements"] = {"k": reqk}
            if wev is not None:
                if auto and widx > 0:
                    kw["waiter_event"] = ET.mk(wev, 700000 + uid * 10 + widx, None)
                else:
                    kw["waiter_event"] = ET.mk(wev, 500000 + uid * 10 + (int(wid[1:]) if wid else 0), None)
            label = wid if (wid is not None or not auto) else f"auto{ty}:{reqk!r}"
            call = {"step": name, "uid": uid, "rn": rn, "label": label, "auto": wid is None, "ty": ty, "k": reqk, "timeout": timeout,
                    "wev_uid": kw["waiter_event"].uid if wev is not None else None, "wev_ty": wev,
                    "at_call": len(run.trace.calls), "vtime": asyncio.get_event_loop().time(), "outcome": None}
            run.trace.wait_calls.append(call)
            try:
                got = await ctx.wait_for_event(ET.TYPES[ty], timeout=timeout, **kw)
                call["outcome"] = "got"
                call["got"] = (ET.TY_ID.get(type(got), -1), getattr(got, "uid", None), getattr(got, "k", None))
                run.__dict__.setdefault("_last_waited", {}).setdefault(uid, []).append(getattr(got, "k", None))
                run.trace.steps.append(("waited", name, uid, rn, asyncio.get_event_loop().time(),
                                        {"wid": label, "got_uid": got.uid, "got_ty": ET.TY_ID[type(got)], "got_k": got.k,
                                         "want_ty": ty, "want_k": reqk}))
            except asyncio.TimeoutError:
                call["outcome"] = "timeout"
                run.trace.steps.append(("wait_timeout", name, uid, rn, asyncio.get_event_loop().time(), {"wid": label}))
                if len(act) > 6 and act[6] == "swallow":
                    continue
                raise
            except BaseException as e:
                call["outcome"] = "suspended" if type(e).__name__ == "WaitingForEvent" else "raise:" + type(e).__name__
                raise
        elif op == "store_set":
            await ctx.store.set(act[1], act[2])
        elif op == "store_mark":
            # idempotent per input event: re-executing the invocation writes the same value
            await ctx.store.set(f"m{uid}", getattr(ev, "k", None) if not isinstance(getattr(ev, "k", None), type(None)) else 0)
        elif op == "store_incr":
            async with ctx.store.edit_state() as st:
                st[act[1]] = st.get(act[1], 0) + 1
        elif op == "chain":
            # one long chain through a single step: forward the event with k+1 (uid+1) until k reaches act[2], then fall through
            kk = getattr(ev, "k", None) or 0
            if kk < act[2]:
                nxt = ET.mk(act[1], (uid or 0) + 1, kk + 1)
                run._last_ret = (str(act[1]), nxt.uid)  # type: ignore[attr-defined]
                return nxt
        elif op == "ret":
            return _ret_value(run, act, ev)
        else:
            raise ValueError(f"unknown script op {op}")
    return None


# --------------------------------------------------------------------------
# observation: wrap the pure functions and the adapter in this process only


_orig_reduce = None
_orig_rewind = None
_orig_runner_init = None
_orig_write = None


def install_observers() -> None:
    global _orig_reduce, _orig_rewind, _orig_runner_init, _orig_write
    patch_clocks()
    if getattr(CL._reduce_tick, "_verif_wrapped", False):
        return
    _orig_reduce = CL._reduce_tick
    _orig_rewind = CL.rewind_in_progress
    _orig_runner_init = CL._ControlLoopRunner.__init__
    _orig_write = BASIC.InternalAsyncioAdapter.write_to_event_stream

    def reduce_wrapper(tick: Any, init: Any, now_seconds: float, run_id: str | None = None) -> Any:
        caller = sys._getframe(1).f_code.co_name
        run = _ACTIVE[-1] if _ACTIVE else None
        del _CURRENT_ORACLE[:]
        if run is not None and len(run.trace.calls) > run.spec.get("max_calls", MAX_CALLS) and caller == "_process_tick":
            raise RunawayRun()
        try:
            st, cmds = _orig_reduce(tick, init, now_seconds, run_id=run_id)
        except Exception as e:
            if run is not None:
                run.trace.calls.append(ReduceCall("reduce", caller, now_seconds, tick, init, None, [], list(_CURRENT_ORACLE),
                                                  error=f"{type(e).__name__}: {e}", runner=_runner_info(run),
                                                  stream_len=len(run.trace.stream)))
            raise
        if run is not None:
            run.trace.calls.append(ReduceCall("reduce", caller, now_seconds, tick, init, st, list(cmds), list(_CURRENT_ORACLE),
                                              runner=_runner_info(run), stream_len=len(run.trace.stream)))
        return st, cmds

    def rewind_wrapper(state: Any, now_seconds: float) -> Any:
        caller = sys._getframe(1).f_code.co_name
        run = _ACTIVE[-1] if _ACTIVE else None
        st, cmds = _orig_rewind(state, now_seconds)
        if run is not None:
            run.trace.calls.append(ReduceCall("rewind", caller, now_seconds, None, state, st, list(cmds), [],
                                              runner=_runner_info(run), stream_len=len(run.trace.stream)))
        return st, cmds

    reduce_wrapper._verif_wrapped = True  # type: ignore[attr-defined]
    CL._reduce_tick = reduce_wrapper  # type: ignore[assignment]
    CL.rewind_in_progress = rewind_wrapper  # type: ignore[assignment]

    def runner_init(self: Any, *a: Any, **kw: Any) -> None:
        _orig_runner_init(self, *a, **kw)
        if _ACTIVE:
            _ACTIVE[-1].runner = self
            _ACTIVE[-1].trace.runner = self

    CL._ControlLoopRunner.__init__ = runner_init  # type: ignore[method-assign]

    async def write_wrapper(self: Any, event: Event) -> None:
        if _ACTIVE:
            r = _ACTIVE[-1]
            origin = "runner" if sys._getframe(1).f_code.co_name == "process_command" else "step"
            r.trace.stream.append((event, asyncio.get_event_loop().time(), len(r.trace.calls), origin))
            if type(event).__name__ in ("WorkflowCancelledEvent", "WorkflowTimedOutEvent", "WorkflowFailedEvent") or isinstance(event, StopEvent):
                r.trace.steps.append(("terminal", type(event).__name__, None, None, asyncio.get_event_loop().time(), {"origin": origin}))
        await _orig_write(self, event)

    BASIC.InternalAsyncioAdapter.write_to_event_stream = write_wrapper  # type: ignore[method-assign]

    _orig_isend = BASIC.InternalAsyncioAdapter.send_event
    _orig_esend = BASIC.ExternalAsyncioAdapter.send_event

    async def isend(self: Any, tick: Any) -> None:
        if _ACTIVE:
            _ACTIVE[-1].trace.puts.append((tick, len(_ACTIVE[-1].trace.calls), "internal"))
        await _orig_isend(self, tick)

    async def esend(self: Any, tick: Any) -> None:
        if _ACTIVE:
            _ACTIVE[-1].trace.puts.append((tick, len(_ACTIVE[-1].trace.calls), "external"))
        await _orig_esend(self, tick)

    BASIC.InternalAsyncioAdapter.send_event = isend  # type: ignore[method-assign]
    BASIC.ExternalAsyncioAdapter.send_event = esend  # type: ignore[method-assign]


def _runner_info(run: Run) -> dict:
    r = run.runner
    if r is None:
        return {}
    try:
        q = r.adapter._queues.receive_queue
        mailbox = list(q._queue)  # type: ignore[attr-defined]
    except Exception:
        mailbox = []
    return {
        "buffer": list(r.tick_buffer),
        "heap": sorted([(t, s, tick) for (t, s, tick) in r.scheduled_wakeups], key=lambda x: (x[0], x[1])),
        "pending_workers": [(p.step_name, p.worker_id) for p in r._pending_workers],
        "running_workers": sorted(r._task_keys.values()),
        "mailbox": mailbox,
        "idle_pending": bool(r._idle_check_pending),
    }


# --------------------------------------------------------------------------


def run_spec(spec: dict, seed: int, replay_actions: list[int] | None = None, max_time: float = 100000.0,
             resume_from: dict | None = None, start_time: float = 1000.0) -> Trace:
    """Run one scripted workflow to completion (or deadlock) and return its trace.
    `start_time`: reading of the virtual clock when the run begins (a resumed run begins later than the run it continues)."""
    install_observers()
    rng = random.Random(seed)
    run = Run(spec, rng, replay_actions)
    _ACTIVE.append(run)
    ET.EQ_IGNORE_UID[0] = bool(spec.get("eq_events"))
    try:
        def hook_factory(loop: VLoop):
            def hook() -> bool:
                return _quiescent(run, loop)
            return hook

        async def main(loop: VLoop) -> None:
            wf = build_workflow(spec, run)
            run.wf = wf  # type: ignore[attr-defined]
            try:
                if resume_from is not None:
                    ctx = Context.from_dict(wf, json.loads(json.dumps(resume_from)))
                    if ctx.is_running:
                        handler = wf.run(ctx=ctx)
                    else:
                        # the snapshot was taken after the run had ended: run() starts a NEW run on the restored context
                        # (a start event is sent; whatever the ended run left queued / in progress is picked up again)
                        run.trace.start_event = ET.T0(uid=1 + int(spec.get("_resumed") or 1), k=spec.get("start_k"))
                        handler = wf.run(ctx=ctx, start_event=run.trace.start_event)
                else:
                    run.trace.start_event = ET.T0(uid=1, k=spec.get("start_k"))
                    handler = wf.run(start_event=run.trace.start_event)
            except Exception as e:
                run.trace.outcome = ("invalid", e)
                run.finished = True
                return
            run.handler = handler
            run.trace.handler = handler
            run.trace.handler_table = {"handlers": sorted(getattr(wf, "_catch_error_handlers", {}) or {}),
                                       "handler_for_step": dict(getattr(wf, "_handler_for_step", {}) or {})}

            async def consume() -> None:
                try:
                    async for e in handler.stream_events(expose_internal=True):
                        run.trace.consumed.append(e)
                    run.trace.consumer_done = True
                except Exception as e:
                    run.trace.notes.append(f"consumer error: {type(e).__name__}: {e}")

            ctask = asyncio.create_task(consume())
            try:
                res = await handler
                run.trace.outcome = ("result", res)
            except WorkflowCancelledByUser:
                run.trace.outcome = ("cancelled", None)
            except WorkflowTimeoutError as e:
                run.trace.outcome = ("timeout", str(e))
            except asyncio.CancelledError:
                run.trace.outcome = ("aborted", None)
            except RunawayRun:
                run.trace.outcome = ("runaway", None)
            except BaseException as e:
                run.trace.outcome = ("error", e)
            run.finished = True
            run.trace.end_time = loop.time()
            run.trace.alive_at_outcome = [f[:3] for f in run.inflight]
            run.trace.stream_len_at_outcome = len(run.trace.stream)
            try:
                stt = await handler.ctx.store.get_state()
                run.trace.final_store = json.loads(json.dumps(dict(stt.items()) if hasattr(stt, "items") else stt.model_dump(), sort_keys=True, default=repr))  # type: ignore[attr-defined]
            except Exception as e:
                run.trace.final_store = f"<unavailable: {type(e).__name__}: {e}>"  # type: ignore[attr-defined]
            if spec.get("snapshot_after_end"):
                try:
                    run.trace.snapshots.append({"after_end": True, "at_call": len(run.trace.calls), "vtime": loop.time(),
                                                "dict": json.loads(json.dumps(handler.ctx.to_dict())), "stream_len": len(run.trace.stream),
                                                "steps_len": len(run.trace.steps), "live": _live_dict(run)})
                except Exception as e:
                    run.trace.notes.append(f"snapshot after end failed: {type(e).__name__}: {e}")
            # give the consumer a bounded chance to finish
            for _ in range(50):
                if ctask.done():
                    break
                await asyncio.sleep(0)
            if not ctask.done():
                try:
                    await asyncio.wait_for(ctask, timeout=5)
                except (asyncio.TimeoutError, asyncio.CancelledError):
                    pass
            if spec.get("drain_after_end"):
                # opt-in: the run is over; keep the (virtual) loop going until every step body that is still in flight has
                # come to its end on its own (bounded), so that whatever it still does -- writes to the stream -- is observed
                limit = loop.time() + float(spec["drain_after_end"])
                while run.inflight and loop.time() < limit:
                    await asyncio.sleep(0.125)
                await asyncio.sleep(0.125)
                run.trace.drained_until = loop.time()

        try:
            run_virtual(main, start=start_time, max_time=max_time, hook_factory=hook_factory)
        except TimeoutError:
            run.trace.deadlock = True
            run.trace.outcome = ("deadlock", None)
    finally:
        _ACTIVE.pop()
        ET.EQ_IGNORE_UID[0] = False
    run.trace.remaining_externals = list(run.externals)  # type: ignore[attr-defined]
    return run.trace


def _quiescent(run: Run, loop: VLoop) -> bool:
    """Scheduler: called when nothing is ready.  Returns True if it did something."""
    options: list[tuple[str, Any]] = []
    for key in list(run.waiting):
        options.append(("gate", key))
    if not run.finished and run.handler is not None:
        for i, ext in enumerate(run.externals):
            if ext.get("after_quiet", 0) <= run.quiet_count:
                options.append(("ext", i))
                if ext.get("with_gate"):
                    # opt-in (specs without `with_gate` see the same options as before): the external action arrives in the
                    # very instant a step's awaited I/O completes -- both happen before the control loop runs again, so the
                    # step's outcome and the external tick are in front of the loop together
                    for key in list(run.waiting):
                        options.append(("gate+ext", (key, i)))
    has_timer = any(not h._cancelled for h in loop._scheduled)  # type: ignore[attr-defined]
    run.quiet_count += 1
    if not options:
        if not has_timer and not run.finished and run.handler is not None and not getattr(run, "stuck_cancelled", False):
            # nothing can happen without new external input: end the run
            run.stuck_cancelled = True  # type: ignore[attr-defined]
            run.trace.notes.append("stuck: cancelled by harness")
            run.trace.stuck_at = (len(run.trace.calls), len(run.trace.stream))  # type: ignore[attr-defined]
            loop.create_task(run.handler.cancel_run())
            return True
        return False
    if has_timer:
        options.append(("time", None))
    weights = None
    if run.spec.get("hold_k") is not None:
        # spec["hold_k"]: invocations whose input event carries this k are released reluctantly (they outlive the others)
        gk = getattr(run, "gate_k", {})
        weights = [1 if (kd == "gate" and gk.get(a) == run.spec["hold_k"]) else 8 for (kd, a) in options]
    kind, arg = options[run.choose(len(options), weights)]
    if kind == "time":
        return False
    if kind == "gate":
        run.waiting.remove(arg)
        run.gates[arg].set()
        return True
    if kind == "gate+ext":
        key, i = arg
        ext = run.externals.pop(i)
        run.trace.notes.append(f"raced: {ext['op']} with gate {key[0]}:{key[1]}:{key[2]}")
        run.trace.raced = getattr(run.trace, "raced", []) + [(ext["op"], key[0], key[1], key[2], len(run.trace.calls))]  # type: ignore[attr-defined]
        if ext["with_gate"] == "before":
            _do_external(run, ext, loop)
        run.waiting.remove(key)
        run.gates[key].set()
        if ext["with_gate"] != "before":
            _do_external(run, ext, loop)
        return True
    ext = run.externals.pop(arg)
    _do_external(run, ext, loop)
    return True


def _live_dict(run: Run) -> dict | None:
    """the state the engine itself holds right now (the runner's `state`), serialised like ctx.to_dict() serialises the rebuilt one"""
    try:
        from workflows.context.serializers import JsonSerializer

        return json.loads(json.dumps(run.runner.state.to_serialized(JsonSerializer()).model_dump(mode="python"), default=str))
    except Exception:  # noqa: BLE001
        return None


def _do_external(run: Run, ext: dict, loop: VLoop) -> None:
    h = run.handler
    op = ext["op"]
    if op == "send":
        try:
            xev = ET.mk(ext["ty"], run.fresh(), ext.get("k"))
            for _rep in range(int(ext.get("times") or 1)):  # "times": the same object sent again (see the script op "send")
                h.ctx.send_event(xev, step=ext.get("step"))
        except WorkflowRuntimeError as e:
            run.trace.notes.append(f"external send rejected: {e}")
    elif op == "cancel":
        loop.create_task(h.cancel_run())
    elif op == "snapshot":
        try:
            d = h.ctx.to_dict()
            run.trace.snapshots.append({"at_call": len(run.trace.calls), "vtime": loop.time(), "dict": json.loads(json.dumps(d)),
                                        "stream_len": len(run.trace.stream), "live": _live_dict(run),
                                        "steps_len": len(run.trace.steps), "remaining": [dict(x) for x in run.externals]})
        except Exception as e:
            run.trace.notes.append(f"snapshot failed: {type(e).__name__}: {e}")
    elif op == "snapshot_stop":
        # snapshot, then stop this run (to be resumed by the caller)
        try:
            d = h.ctx.to_dict()
            info = _runner_info(run)
            run.trace.snapshots.append({"at_call": len(run.trace.calls), "vtime": loop.time(), "dict": json.loads(json.dumps(d)),
                                        "stream_len": len(run.trace.stream), "steps_len": len(run.trace.steps), "stopped": True, "live": _live_dict(run),
                                        "heap": [(type(t).__name__, getattr(getattr(t, "event", None), "uid", None)) for (_a, _s, t) in info.get("heap", [])],
                                        "buffer": [type(t).__name__ for t in info.get("buffer", [])],
                                        "mailbox": [type(t).__name__ for t in info.get("mailbox", [])]})
            loop.create_task(h.cancel_run())
        except Exception as e:
            run.trace.notes.append(f"snapshot failed: {type(e).__name__}: {e}")
    else:
        raise ValueError(op)
