"""C25 — the keyed lock gives per-key mutual exclusion and cleans up."""
from __future__ import annotations

import asyncio
import importlib
import json
import os
import random
from typing import Any

from ..boot import VERIF
from ..runner import Divergence, Driver, Env, Outcome, Violation, diff_streams
from ..sloop import SLoop

THEOREMS = [
    "C25_source_shape",
    "C25_mutex",
    "C25_independent_keys_frame",
    "C25_independent_keys_local",
    "C25_independent_keys_nonblocking",
    "C25_independent_keys_commute",
    "C25_refcount",
    "C25_cleanup_key",
    "C25_cleanup",
    "C25_no_internal_error",
    "C25_main_lock_uncontended",
    "C25_no_lost_wakeup",
    "C25_fifo_no_barging",
    "C25_fifo_progress",
    "C25_eventually_enters",
    "C25_key_drains",
    "C25_cancelled_waiter_leaves",
    "C25_refines_ticket_lock",
    "C25_refines_ticket_lock_step",
    "C25_spec_empty_iff",
    "C25_fifo_no_overtaking",
    "C25_source_shape_ext",
    "C25_asyncio_lock_shape",
]
EXPLANATION = (
    "Lean LTS of KeyedLock over asyncio.Lock (WfModel/KeyedLock.lean): per key, `_locks[k]` (locked bit + FIFO of "
    "waiter futures with states pending/woken/cancelled/woken-then-cancelled), `_refs[k]`, and who is inside; actions are "
    "exactly the await-free sections (enter, resume of a done waiter, cancel, exit), agents and keys are unbounded Nats, "
    "theorems are by induction over arbitrary action lists (and infinite schedules for progress). Tie: refcount constants and "
    "the control shape of __call__ are regenerated from source (C25_source_shape); the real KeyedLock is driven with real "
    "asyncio Tasks under a scripted scheduler that runs one task step (one await-free section) per action, with cancellation "
    "injected at every suspension point, and after every primitive the observable state (_locks keys, _refs, _locked, who is "
    "inside, FIFO order and future states of waiters) is diffed against the model driver. Monitors check mutual exclusion, "
    "refcounts, cleanup, no lost wake-up, FIFO/no barging, bounded waiting and key independence directly on the real object, "
    "plus free-running asyncio workloads under the virtual-time loop. Extension: the model is proved to refine a per-key FIFO "
    "ticket lock without futures, wake-ups and refcounts (WfModel/KeyedLockSpec.lean; C25_refines_ticket_lock*), every key can "
    "be drained by fairness steps alone within holders+2*waiters steps from every reachable state (C25_key_drains), a cancelled "
    "waiter leaves at its next step (C25_cancelled_waiter_leaves), no overtaking among uncancelled waiters over whole histories "
    "(C25_fifo_no_overtaking). After every primitive the real object's state is also abstracted (holder, FIFO of waiting/"
    "cancelled/grant-cancelled) and compared with both absK(model) and the specification run on its own by the driver "
    "(`c25xabs`), together with the drain measure; the constructor, the lazy main lock, the create/delete guards and the "
    "statements of the interpreter's asyncio.Lock that the model copies are re-extracted (C25_source_shape_ext, "
    "C25_asyncio_lock_shape)."
)
LEVEL_TEXT = "proof (Lean 4) of the model + per-action correspondence with the real KeyedLock + direct monitors"
ASSUMPTIONS = [
    "asyncio.Lock / Task / Future semantics of CPython 3.12 are modelled (fast path, FIFO deque, _wake_up_first, "
    "cancellation of pending and of already-woken waiters); they are exercised, not verified",
    "progress is proved under an explicit fairness hypothesis: while the waiter is queued, eventually the holder of the key "
    "leaves its critical section or the scheduled task at the head of the queue is run by the event loop; and the waiter "
    "itself is not cancelled",
    "the per-key lock object is identified with its `_locks` slot: justified by C25_refcount (the slot cannot be deleted while "
    "an agent holds or waits for it)",
    "bodies of critical sections are arbitrary: leaving the section for any reason (return, exception, cancellation) is one "
    "`exit` action; a body that never ends is excluded by the fairness hypothesis only",
    "the same task re-acquiring a key it already holds (self-deadlock) and lock-order cycles between keys are outside the "
    "property; they wait forever by design and are resolved by cancellation in the generated runs",
]
TRUSTED_EXTRA = [
    "harness/sloop.py: scripted scheduler over asyncio.BaseEventLoop (CPython private attributes _ready, Handle._run, "
    "Task._fut_waiter, Task._must_cancel, Lock._locked, Lock._waiters)",
    "harness/gen/keyed_lock.py: AST extraction of refcount constants and control shape of KeyedLock.__call__, of "
    "__init__/_get_main_lock, and structural comparison of asyncio.locks.Lock.acquire/release/_wake_up_first (interpreter "
    "source via inspect) with the statements the model is written after",
]

MODEL = "keyedlock"


def AID(tid: int, depth: int) -> int:
    return tid * 4 + depth


_TW = {"P": "w", "W": "w", "C": "c", "X": "g"}


def abs_line(ent: tuple | None) -> str:
    """the real object's state of one key seen as a state of the ticket-lock specification
    (WfModel/KeyedLockSpec.lean): holder, FIFO queue with waiting / cancelled / grant-cancelled; plus the drain measure"""
    if ent is None:
        t, d = "h=-:q=", 0
    else:
        _rf, _lk, ins, q = ent
        t = "h=%s:q=%s" % (",".join(map(str, ins)) if ins else "-", ",".join(f"{a}/{_TW.get(st, '?')}" for a, st in q))
        d = len(ins) + 2 * len(q)
    return f"abs {t} spec {t} drain={d}"


# --------------------------------------------------------------------------
# scripted scenario on the real KeyedLock


class Rec:
    def __init__(self, tid: int, keys: list[int]):
        self.tid = tid
        self.keys = keys
        self.task: Any = None
        self.gate: Any = None
        self.attempt = -1  # depth whose acquisition is in progress
        self.parked = False
        self.cancel_requested = False


class Scenario:
    def __init__(self, KeyedLock: Any):
        self.loop = SLoop()
        self.kl = KeyedLock()
        self.tasks: dict[int, Rec] = {}
        self.inside: dict[int, list[int]] = {}
        self.ops: list[str] = []
        self.impl: list[str] = []
        self.viol: list[tuple[str, str]] = []
        self.counts: dict[str, int] = {}
        self.step_log: list[tuple] = []
        self.step_kind = ""
        self.step_first_in = True
        self.last_struct: dict = {}
        self.cur_struct: dict = {}
        self.waitinfo: dict[int, dict] = {}
        self.contended = False
        self.applied: list[list] = []

    # ---- bookkeeping
    def count(self, k: str) -> None:
        self.counts[k] = self.counts.get(k, 0) + 1

    def flag(self, sig: str, what: str) -> None:
        if not any(s == sig for s, _ in self.viol):
            self.viol.append((sig, what))

    def close(self) -> None:
        for r in self.tasks.values():
            if r.task is not None and not r.task.done():
                r.task.cancel()
        # run whatever is left so no coroutine stays half-open
        for _ in range(10000):
            live = [r for r in self.tasks.values() if not r.task.done() and self.loop.has_ready(r.task)]
            if not live:
                break
            self.step_log = []
            self.loop.run_one(live[0].task)
        for r in self.tasks.values():
            if r.task.done() and not r.task.cancelled():
                r.task.exception()  # mark retrieved
        self.loop.discard_all()
        self.loop.close()

    # ---- observation of the real object
    def _rec_of_fut(self, fut: Any) -> Rec | None:
        for r in self.tasks.values():
            if getattr(r.task, "_fut_waiter", None) is fut:
                return r
        return None

    def snap(self) -> tuple[dict, str]:
        kl = self.kl
        locks = getattr(kl, "_locks", {})
        refs = getattr(kl, "_refs", {})
        names: set[str] = set(map(str, locks.keys())) | set(map(str, refs.keys()))
        names |= {str(k) for k, v in self.inside.items() if v}
        struct: dict[int, tuple] = {}
        for name in names:
            try:
                k = int(name)
            except ValueError:
                k = 10**9 + (hash(name) % 1000)
            lock = locks.get(name)
            q = []
            waiters = getattr(lock, "_waiters", None) if lock is not None else None
            for fut in (waiters or ()):
                r = self._rec_of_fut(fut)
                aid: Any = AID(r.tid, max(r.attempt, 0)) if r is not None else "?"
                if not fut.done():
                    st = "P"
                elif fut.cancelled():
                    st = "C"
                else:
                    st = "X" if (r is not None and getattr(r.task, "_must_cancel", False)) else "W"
                q.append((aid, st))
            struct[k] = (refs.get(name), None if lock is None else bool(getattr(lock, "_locked", False)),
                         tuple(self.inside.get(k, ())), tuple(q))
        ml = getattr(kl, "_main_lock", None)
        main_busy = ml is not None and (bool(getattr(ml, "_locked", False)) or bool(getattr(ml, "_waiters", None)))
        parts = []
        for k in sorted(struct):
            rf, lk, ins, q = struct[k]
            parts.append("%d:refs=%s:L=%s:in=%s:q=%s" % (
                k, "-" if rf is None else rf, "-" if lk is None else int(lk),
                ",".join(map(str, ins)), ",".join(f"{a}/{s}" for a, s in q)))
        body = ";".join(parts) if parts else "empty"
        return struct, ("MAIN " + body if main_busy else body)

    # ---- the task body
    async def _worker(self, rec: Rec) -> None:
        keys = rec.keys

        async def level(i: int) -> None:
            rec.attempt = i
            try:
                async with self.kl(str(keys[i])):
                    rec.attempt = -1
                    self._ev_in(rec, i)
                    try:
                        if i + 1 < len(keys):
                            await level(i + 1)
                        else:
                            rec.parked = True
                            try:
                                await rec.gate
                            finally:
                                rec.parked = False
                    finally:
                        # the body ends here; release + deregistration follow without an await
                        occupants = self.inside.get(keys[i], [])
                        if AID(rec.tid, i) in occupants:
                            occupants.remove(AID(rec.tid, i))
            finally:
                rec.attempt = -1
                self._ev_after(rec, i)

        await level(0)

    def _ev_in(self, rec: Rec, i: int) -> None:
        k, aid = rec.keys[i], AID(rec.tid, i)
        via = "resume" if (self.step_kind == "run" and self.step_first_in) else "enter"
        self.step_first_in = False
        before = self.cur_struct.get(k)
        occupants = self.inside.setdefault(k, [])
        occupants.append(aid)
        if len(occupants) > 1:
            cancelled_seen = bool(before and any(s in "CX" for _, s in before[3])) or any(
                r.cancel_requested for r in self.tasks.values())
            self.flag(f"C25/mutex:{via}", f"agents {occupants} are inside the critical section of key {k} at the same time "
                      f"(second one got in by {via}; cancelled waiter involved earlier: {cancelled_seen})")
        if before is not None:
            q = before[3]
            if via == "resume":
                if not q or q[0][0] != aid:
                    self.flag("C25/fifo_order", f"agent {aid} entered key {k} by wake-up but the queue was {list(q)}")
            else:
                live = [a for a, s in q if s in "PW"]
                if live:
                    self.flag("C25/barging", f"agent {aid} took key {k} on arrival while live waiters {live} were queued")
        self.waitinfo.pop(aid, None)
        struct, s = self.snap()
        self.cur_struct = struct
        self.step_log.append(("in", i, s, struct))

    def _ev_after(self, rec: Rec, i: int) -> None:
        k, aid = rec.keys[i], AID(rec.tid, i)
        occupants = self.inside.get(k, [])
        if aid in occupants:
            occupants.remove(aid)
        self.waitinfo.pop(aid, None)
        struct, s = self.snap()
        self.cur_struct = struct
        self.step_log.append(("after", i, s, struct))

    # ---- monitors on snapshots
    def _check_struct(self, struct: dict, where: str) -> None:
        locks = set(map(str, getattr(self.kl, "_locks", {}).keys()))
        refs = set(map(str, getattr(self.kl, "_refs", {}).keys()))
        if locks != refs:
            self.flag("C25/refcount:keys", f"_locks keys {sorted(locks)} != _refs keys {sorted(refs)} after {where}")
        for k, (rf, lk, ins, q) in struct.items():
            n = len(ins) + len(q)
            if rf is None or lk is None:
                if n:
                    self.flag("C25/refcount:missing_entry", f"key {k} has agents inside={list(ins)} but no _locks/_refs entry after {where}")
                continue
            if rf != n or rf <= 0:
                kind = "high" if rf > n else "low"
                self.flag(f"C25/refcount:{kind}", f"_refs[{k}]={rf} but {len(ins)} inside + {len(q)} queued after {where}")
            if lk != (len(ins) > 0) and len(ins) <= 1:
                self.flag("C25/locked_flag", f"key {k}: _locked={lk} but agents inside={list(ins)} after {where}")

    def _after_prim(self, kind: str, k: int, aid: int, struct: dict, was_head_done: bool) -> None:
        """bounded-waiting bookkeeping after one primitive on key k"""
        if kind == "exit" or (kind == "resume" and was_head_done):
            for a, info in self.waitinfo.items():
                if info["key"] == k and a != aid:
                    info["count"] += 1
        for a, info in list(self.waitinfo.items()):
            ent = struct.get(info["key"])
            still = ent is not None and any(x == a and s in "PW" for x, s in ent[3])
            if not still:
                # cancelled meanwhile or gone: no claim
                if ent is None or not any(x == a for x, _ in ent[3]) or any(x == a and s in "CX" for x, s in ent[3]):
                    self.waitinfo.pop(a, None)
                continue
            if info["count"] > info["m0"]:
                self.flag("C25/bounded_wait", f"agent {a} still waits for key {info['key']} after {info['count']} fairness steps; "
                          f"its FIFO measure when it queued was {info['m0']}")
        self.last_struct = struct

    def _emit(self, kind: str, k: int, aid: int, status: str, s: str, struct: dict) -> None:
        prev = self.last_struct.get(k)
        was_head_done = bool(prev and prev[3] and prev[3][0][0] == aid and prev[3][0][1] != "P")
        self.ops.append(f"{kind}|{k}|{aid}")
        self.impl.append(f"{status} {s}")
        self.count("prim:" + kind)
        # the same state through the abstraction: compared with absK(model) and with the specification run on its own
        self.ops.append(f"c25xabs|{k}")
        self.impl.append(abs_line(struct.get(k)))
        self.count("probe:c25xabs")
        if kind == "resume" and prev and status == "ok":
            st0 = dict((a, s_) for a, s_ in prev[3]).get(aid)
            if st0 in ("C", "X"):
                ent1 = struct.get(k)
                ins1 = tuple(ent1[2]) if ent1 else ()
                q1 = [a for a, _ in ent1[3]] if ent1 else []
                if aid in q1:
                    self.flag("C25/cancelled_waiter_stays", f"cancelled waiter {aid} (future state {st0}) ran but is still queued on key {k}")
                if ins1 != tuple(prev[2]):
                    self.flag("C25/cancelled_waiter_changed_holder", f"the step of cancelled waiter {aid} on key {k} changed who is inside: "
                              f"{list(prev[2])} -> {list(ins1)}")
                self.count("monitor:cancelled_waiter_leaves")
        if kind == "enter" and status == "ok":
            ent = struct.get(k)
            if ent and aid in ent[2]:
                had_cancelled = bool(prev and prev[3])
                self.count("enter:fast_over_cancelled_queue" if had_cancelled else "enter:fast")
            elif ent and any(a == aid for a, _ in ent[3]):
                self.count("enter:queued")
                self.contended = True
                idx = [a for a, _ in ent[3]].index(aid)
                self.waitinfo[aid] = {"key": k, "m0": 2 * idx + (1 if ent[1] else 0), "count": 0}
        if kind == "resume" and prev:
            st = dict((a, s_) for a, s_ in prev[3]).get(aid)
            self.count({"W": "resume:woken", "C": "resume:cancelled", "X": "resume:woken_then_cancelled"}.get(st, "resume:?"))
        self._check_struct(struct, f"{kind}|{k}|{aid}")
        self._after_prim(kind, k, aid, struct, was_head_done)

    # ---- running one real task step and cutting it into primitives
    def _run_step(self, rec: Rec, pending: tuple | None, kind: str) -> None:
        before, _ = self.snap()
        self.last_struct = before
        self.cur_struct = before
        self.step_log = []
        self.step_kind = kind
        self.step_first_in = True
        ran = self.loop.run_one(rec.task)
        if not ran:
            raise RuntimeError("scripted step without a ready handle")
        prims: list[tuple] = []
        for ev, i, s, struct in self.step_log:
            if ev == "in":
                prims.append(((pending[0] if pending and pending[1] == i else "enter"), i, s, struct))
                pending = ("enter", i + 1) if i + 1 < len(rec.keys) else None
            else:
                if pending and pending[1] == i:
                    prims.append((pending[0], i, s, struct))
                else:
                    prims.append(("exit", i, s, struct))
                pending = None
        end_struct, end_s = self.snap()
        if pending is not None and not rec.task.done():
            prims.append((pending[0], pending[1], end_s, end_struct))
        err = None
        if rec.task.done() and not rec.task.cancelled():
            exc = rec.task.exception()
            if exc is not None:
                err = type(exc).__name__
                self.flag(f"C25/internal_error:{err}", f"task {rec.tid} (keys {rec.keys}) died with {err}: {exc}")
        if rec.task.done() and rec.task.cancelled() and not rec.cancel_requested:
            self.flag("C25/internal_error:spurious_cancel", f"task {rec.tid} ended cancelled without a cancel request")
        for j, (pk, i, s, struct) in enumerate(prims):
            status = "ok"
            if err is not None and j == len(prims) - 1:
                status = "error:" + err
            self._emit(pk, rec.keys[i], AID(rec.tid, i), status, s, struct)
        if not prims:
            self.last_struct = end_struct
        # independence: keys outside the task's program are untouched by its step
        for k in set(before) | set(end_struct):
            if k not in rec.keys and before.get(k) != end_struct.get(k):
                self.flag("C25/cross_key", f"a step of task {rec.tid} on keys {rec.keys} changed key {k}: "
                          f"{before.get(k)} -> {end_struct.get(k)}")
        self._after_action()

    def _after_action(self) -> None:
        struct, _ = self.snap()
        # no lost wake-up: somebody queued => somebody inside, or the head's task is scheduled
        for k, (rf, lk, ins, q) in struct.items():
            if q and not ins:
                head = q[0][0]
                r = self.tasks.get(head // 4) if isinstance(head, int) else None
                if r is None or not self.loop.has_ready(r.task):
                    self.flag("C25/lost_wakeup", f"key {k}: queue {list(q)} but nobody is inside and the head's task is not scheduled "
                              f"(_locked={lk})")
        foreign = self.loop.foreign_handles([r.task for r in self.tasks.values()])
        if foreign:
            self.flag("C25/foreign_callback", f"the lock scheduled callbacks that belong to no acquiring task: {foreign[:2]}")

    # ---- script actions (lenient: an infeasible action is skipped) ----------------
    def apply(self, act: list) -> bool:
        kind = act[0]
        ok = getattr(self, "_a_" + kind)(*act[1:])
        if ok:
            self.applied.append(list(act))
        return bool(ok)

    def _a_start(self, tid: int, keys: list[int], cancel_first: bool = False) -> bool:
        if tid in self.tasks or not keys or len(keys) > 4:
            return False
        rec = Rec(tid, list(keys))
        rec.gate = self.loop.create_future()
        self.tasks[tid] = rec
        rec.task = self.loop.create_task(self._worker(rec))
        if cancel_first:
            rec.cancel_requested = True
            rec.task.cancel()
            struct, s = self.snap()
            self.count("cancel:before_start")
            self._emit("cancel", keys[0], AID(tid, 0), "ok", s, struct)
            self._run_step(rec, None, "start")
            return True
        before, _ = self.snap()
        free = keys[0] not in before
        self._run_step(rec, ("enter", 0), "start")
        if free and AID(tid, 0) not in self.inside.get(keys[0], []) and not rec.task.done():
            self.flag("C25/free_key_blocked", f"task {tid} did not get key {keys[0]} although nobody held or waited for it "
                      f"(other keys busy: {sorted(before)})")
        return True

    def _suspended_agent(self, rec: Rec) -> tuple[int, int]:
        d = rec.attempt if rec.attempt >= 0 else len(rec.keys) - 1
        return rec.keys[d], AID(rec.tid, d)

    def _a_cancel(self, tid: int) -> bool:
        rec = self.tasks.get(tid)
        if rec is None:
            return False
        before, _ = self.snap()
        k, aid = self._suspended_agent(rec)
        ent = before.get(k)
        st = dict((a, s) for a, s in ent[3]).get(aid) if ent else None
        if rec.task.done():
            self.count("cancel:done_task")
            k, aid = rec.keys[0], AID(tid, 0)
        elif rec.parked:
            self.count("cancel:in_body")
        else:
            self.count({"P": "cancel:pending_waiter", "W": "cancel:woken_waiter", "C": "cancel:again", "X": "cancel:again"}.get(st, "cancel:?"))
        if not rec.task.done():
            rec.cancel_requested = True
        rec.task.cancel()
        struct, s = self.snap()
        self._emit("cancel", k, aid, "ok", s, struct)
        for kk in set(before) | set(struct):
            if kk != k and before.get(kk) != struct.get(kk):
                self.flag("C25/cross_key", f"cancelling task {tid} (suspended on key {k}) changed key {kk}")
        self._after_action()
        return True

    def _a_run(self, tid: int) -> bool:
        rec = self.tasks.get(tid)
        if rec is None or rec.task.done():
            return False
        if not self.loop.has_ready(rec.task):
            if rec.attempt >= 0:  # a pending waiter: the scheduler cannot run it
                k, aid = self._suspended_agent(rec)
                struct, s = self.snap()
                self.ops.append(f"resume|{k}|{aid}")
                self.impl.append(f"disabled {s}")
                self.count("disabled:resume_pending")
                return True
            return False
        pending = ("resume", rec.attempt) if rec.attempt >= 0 else None
        self._run_step(rec, pending, "run" if pending else "exit")
        return True

    def _a_release(self, tid: int) -> bool:
        rec = self.tasks.get(tid)
        if rec is None or rec.task.done() or not rec.parked:
            return False
        if not rec.gate.done():
            rec.gate.set_result(None)
        if not self.loop.has_ready(rec.task):
            return False
        self._run_step(rec, None, "exit")
        return True

    def _a_probe(self, tid: int) -> bool:
        rec = self.tasks.get(tid)
        if rec is None or rec.task.done() or rec.attempt < 0:
            return False
        k, aid = self._suspended_agent(rec)
        struct, _ = self.snap()
        ent = struct.get(k)
        if ent is None or ent[1] is None:
            live, m = 0, 0
        else:
            ids = [a for a, _ in ent[3]]
            idx = ids.index(aid) if aid in ids else len(ids)
            st = dict((a, s) for a, s in ent[3]).get(aid)
            live = 1 if st in ("P", "W") else 0
            m = 2 * idx + (1 if ent[1] else 0)
        self.ops.append(f"live|{k}|{aid}")
        self.impl.append(f"live={live} measure={m}")
        self.count("probe:live")
        return True

    def _a_bad(self, kind: str, k: int, aid: int) -> bool:
        """an action the scheduler cannot perform in the current real state"""
        struct, s = self.snap()
        ent = struct.get(k)
        ins = ent[2] if ent else ()
        qids = [a for a, _ in ent[3]] if ent else []
        rec = self.tasks.get(aid // 4)
        if kind == "exit" and aid not in ins:
            pass
        elif kind == "enter" and (aid in ins or aid in qids):
            pass
        elif kind == "resume" and (aid not in qids or rec is None or not self.loop.has_ready(rec.task)):
            pass
        else:
            return False
        self.ops.append(f"{kind}|{k}|{aid}")
        self.impl.append(f"disabled {s}")
        self.count("disabled:" + kind)
        return True

    def _a_junk(self, line: str) -> bool:
        self.ops.append(line)
        self.impl.append("bad-op")
        self.count("junk")
        return True

    # ---- finishing: let everybody through, then check that nothing remains
    def enabled(self) -> list[list]:
        res = []
        for r in self.tasks.values():
            if r.task.done():
                continue
            if self.loop.has_ready(r.task):
                res.append(["run", r.tid])
            elif r.parked and not r.gate.done():
                res.append(["release", r.tid])
        return res

    def drain(self, rng: random.Random | None) -> None:
        # C25_key_drains: with no newcomers (every task has one key and has started) each key empties within
        # holders + 2*waiters successful exit/resume primitives
        single = bool(self.tasks) and all(len(r.keys) == 1 for r in self.tasks.values())
        struct0, _ = self.snap()
        m0 = {k: len(e[2]) + 2 * len(e[3]) for k, e in struct0.items()}
        n0 = len(self.ops)
        try:
            self._drain(rng)
        finally:
            if single:
                cnt: dict[int, int] = {}
                for op, im in zip(self.ops[n0:], self.impl[n0:]):
                    parts = op.split("|")
                    if len(parts) == 3 and parts[0] in ("exit", "resume") and im.startswith("ok "):
                        cnt[int(parts[1])] = cnt.get(int(parts[1]), 0) + 1
                for k, c in cnt.items():
                    if c > m0.get(k, 0):
                        self.flag("C25/drain_bound", f"key {k} needed {c} exit/resume steps to drain, more than holders+2*waiters="
                                  f"{m0.get(k, 0)} at the start of the drain")
                if m0:
                    self.count("monitor:drain_bound_scenarios")

    def _drain(self, rng: random.Random | None) -> None:
        for _ in range(100000):
            en = self.enabled()
            if en:
                self.apply(rng.choice(en) if rng else en[0])
                continue
            stuck = [r for r in self.tasks.values() if not r.task.done()]
            if not stuck:
                break
            # quiescent with waiters left: legitimate only as a wait-for chain among blocked tasks
            for r in stuck:
                k, aid = self._suspended_agent(r)
                holders = self.inside.get(k, [])
                if r.attempt < 0 or not holders:
                    self.flag("C25/stuck_waiter", f"task {r.tid} is blocked on key {k} although nobody is inside it")
                if all(len(x.keys) == 1 for x in self.tasks.values()):
                    self.flag("C25/stuck_waiter", f"task {r.tid} never got key {k} although every holder released")
            victim = (rng.choice(stuck) if rng else stuck[0])
            self.count("drain:cancel_deadlocked")
            self.apply(["cancel", victim.tid])
        struct, s = self.snap()
        if s != "empty":
            self.flag("C25/state_remains", f"all holders and waiters are gone but lock state remains: {s}")
        locks = getattr(self.kl, "_locks", None)
        refs = getattr(self.kl, "_refs", None)
        if locks or refs:
            self.flag("C25/state_remains", f"all holders and waiters are gone but _locks={locks!r} _refs={refs!r}")


# --------------------------------------------------------------------------
# generation


def gen_scenario(KL: Any, rng: random.Random, nsteps: int, params: dict) -> Scenario:
    sc = Scenario(KL)
    nkeys, maxtasks = params["nkeys"], params["maxtasks"]
    next_tid = 1
    for _ in range(nsteps):
        cands: list[tuple[float, list]] = []
        live = [r for r in sc.tasks.values() if not r.task.done()]
        if len(sc.tasks) < maxtasks:
            cands.append((3.0, ["start"]))
        for r in live:
            if sc.loop.has_ready(r.task):
                cands.append((2.0, ["run", r.tid]))
            elif r.parked:
                cands.append((1.2, ["release", r.tid]))
            cands.append((params["cancel_w"], ["cancel", r.tid]))
            if r.attempt >= 0:
                cands.append((0.25, ["probe", r.tid]))
                if not sc.loop.has_ready(r.task):
                    cands.append((0.1, ["run", r.tid]))  # -> disabled resume of a pending waiter
        if sc.tasks:
            cands.append((params["bad_w"], ["bad"]))
        if not cands:
            break
        tot = sum(w for w, _ in cands)
        x = rng.random() * tot
        for w, a in cands:
            x -= w
            if x <= 0:
                break
        act = list(a)
        if act[0] == "start":
            depth = 1
            if rng.random() < params["nested_p"]:
                depth = 2 if rng.random() < 0.8 else 3
            keys = [rng.randrange(nkeys) + 1 for _ in range(depth)]
            act = ["start", next_tid, keys, rng.random() < 0.04]
            next_tid += 1
        elif act[0] == "bad":
            m = rng.random()
            if m < 0.1:
                act = ["junk", rng.choice(["", "enter", "enter|1", "enter|x|1", "exit|1|y", "frobnicate|1|1", "enter|1|2|3", "live|1"])]
            else:
                tid = rng.choice(list(sc.tasks))
                r = sc.tasks[tid]
                d = rng.randrange(len(r.keys))
                act = ["bad", rng.choice(["exit", "enter", "resume"]), rng.choice([r.keys[d], rng.randrange(nkeys) + 1]),
                       rng.choice([AID(tid, d), AID(tid, d) + 1, AID(next_tid + 3, 0)])]
        sc.apply(act)
    sc.drain(rng)
    return sc


def replay_scenario(KL: Any, actions: list[list]) -> Scenario:
    sc = Scenario(KL)
    for a in actions:
        try:
            sc.apply(list(a))
        except (TypeError, AttributeError, IndexError, ValueError):
            continue
    sc.drain(None)
    return sc


def cancel_sweep(KL: Any, actions: list[list]) -> list[list[list]]:
    """every way of injecting one cancellation into a script: before each action, for each task started so far"""
    res = []
    for i in range(len(actions) + 1):
        started = [a[1] for a in actions[:i] if a[0] == "start"]
        for t in started:
            res.append(actions[:i] + [["cancel", t]] + actions[i:])
    return res


CORPUS: list[dict] = [
    {"name": "uncontended", "actions": [["start", 1, [1]], ["release", 1]]},
    {"name": "fifo_handoff", "actions": [["start", 1, [1]], ["start", 2, [1]], ["start", 3, [1]], ["release", 1], ["run", 2],
                                         ["release", 2], ["run", 3], ["release", 3]]},
    {"name": "waiter_cancelled_then_newcomer",
     "actions": [["start", 1, [1]], ["start", 2, [1]], ["start", 9, [2]], ["release", 9], ["cancel", 2], ["run", 2],
                 ["start", 3, [1]], ["release", 1], ["run", 3], ["release", 3]]},
    {"name": "woken_then_cancelled", "actions": [["start", 1, [1]], ["start", 2, [1]], ["start", 3, [1]], ["release", 1],
                                                  ["cancel", 2], ["start", 4, [1]], ["run", 2], ["run", 3], ["release", 3], ["run", 4],
                                                  ["release", 4]]},
    {"name": "fast_path_over_cancelled_queue",
     "actions": [["start", 1, [1]], ["start", 2, [1]], ["cancel", 2], ["release", 1], ["start", 3, [1]], ["run", 2], ["release", 3]]},
    {"name": "cancelled_head_released_before_it_runs",
     "actions": [["start", 1, [1]], ["start", 2, [1]], ["start", 3, [1]], ["cancel", 2], ["release", 1], ["probe", 3], ["run", 2],
                 ["run", 3], ["release", 3]]},
    {"name": "holder_cancelled", "actions": [["start", 1, [1]], ["start", 2, [1]], ["cancel", 1], ["run", 1], ["run", 2], ["cancel", 2],
                                              ["run", 2]]},
    {"name": "cancel_before_start_and_double_cancel",
     "actions": [["start", 1, [1], True], ["start", 2, [1]], ["start", 3, [1]], ["cancel", 3], ["cancel", 3], ["run", 3], ["cancel", 3],
                 ["release", 2]]},
    {"name": "nested_keys_and_cancel_inner_waiter",
     "actions": [["start", 1, [2]], ["start", 2, [1, 2]], ["start", 3, [1]], ["cancel", 2], ["run", 2], ["run", 3], ["release", 3],
                 ["release", 1]]},
    {"name": "self_deadlock_resolved_by_cancel", "actions": [["start", 1, [1, 1]], ["start", 2, [1]], ["cancel", 1], ["run", 1], ["run", 2],
                                                              ["release", 2]]},
    {"name": "lock_order_cycle", "actions": [["start", 3, [2]], ["start", 2, [2, 1]], ["start", 1, [1, 2]], ["release", 3], ["run", 2]]},
    {"name": "disabled_and_junk", "actions": [["start", 1, [1]], ["start", 2, [1]], ["run", 2], ["bad", "exit", 1, 8], ["bad", "enter", 1, 4],
                                               ["bad", "resume", 1, 8], ["bad", "exit", 3, 4], ["junk", "enter|1"], ["junk", ""],
                                               ["release", 1], ["run", 2], ["release", 2]]},
    {"name": "many_keys_independent", "actions": [["start", 1, [1]], ["start", 2, [2]], ["start", 3, [3]], ["start", 4, [2]], ["release", 2],
                                                   ["run", 4], ["release", 1], ["release", 3], ["release", 4]]},
]


# --------------------------------------------------------------------------
# free-running workloads on a real (virtual-time) event loop


def free_run(KL: Any, seed: int, ntasks: int, nkeys: int, rounds: int, ncancel: int) -> tuple[list[tuple[str, str]], dict]:
    from ..vloop import run_virtual

    rng = random.Random(seed)
    plan = [[(rng.randrange(nkeys), rng.choice([0, 0, 1, 2]), rng.choice([0, 1, 1, 3]), rng.choice([0.0, 0.0, 0.5, 1.25]))
             for _ in range(rounds)] for _ in range(ntasks)]
    cancels = sorted((rng.randrange(1, 6 * rounds), rng.randrange(ntasks)) for _ in range(ncancel))
    viol: list[tuple[str, str]] = []
    stats = {"entries": 0, "cancelled": 0, "max_wait": 0}

    async def main(_loop: Any) -> None:
        kl = KL()
        occ: dict[int, int] = {}

        async def worker(i: int) -> None:
            for k, pre, hold, dt in plan[i]:
                for _ in range(pre):
                    await asyncio.sleep(0)
                async with kl(str(k)):
                    occ[k] = occ.get(k, 0) + 1
                    stats["entries"] += 1
                    if occ[k] > 1:
                        viol.append(("C25/mutex:free_run", f"{occ[k]} holders of key {k} at once in a free-running workload"))
                    try:
                        for _ in range(hold):
                            await asyncio.sleep(0)
                        if dt:
                            await asyncio.sleep(dt)
                    finally:
                        occ[k] -= 1

        tasks = [asyncio.ensure_future(worker(i)) for i in range(ntasks)]

        async def canceller() -> None:
            tick = 0
            for at, i in cancels:
                while tick < at:
                    await asyncio.sleep(0 if tick % 3 else 0.25)
                    tick += 1
                tasks[i].cancel()

        c = asyncio.ensure_future(canceller())
        done, pending = await asyncio.wait(tasks + [c], timeout=100000.0)
        if pending:
            viol.append(("C25/hang:free_run", f"{len(pending)} of {ntasks} tasks never finished although every holder releases"))
            for t in pending:
                t.cancel()
            await asyncio.gather(*pending, return_exceptions=True)
        for t in tasks:
            if t.done() and not t.cancelled() and t.exception() is not None:
                e = t.exception()
                viol.append((f"C25/internal_error:{type(e).__name__}", f"free-running worker died: {e!r}"))
        stats["cancelled"] = sum(1 for t in tasks if t.cancelled())
        if getattr(kl, "_locks", None) or getattr(kl, "_refs", None):
            viol.append(("C25/state_remains", f"free run finished but _locks={kl._locks!r} _refs={kl._refs!r}"))

    run_virtual(main, max_time=10**7)
    return viol, stats


# --------------------------------------------------------------------------


PRIORITY = ["C25/mutex", "C25/state_remains", "C25/lost_wakeup", "C25/stuck_waiter", "C25/hang", "C25/barging", "C25/fifo_order",
            "C25/bounded_wait", "C25/free_key_blocked", "C25/cross_key", "C25/refcount", "C25/internal_error"]


def _priority(sig: str) -> int:
    for i, p in enumerate(PRIORITY):
        if sig.startswith(p):
            return i
    return len(PRIORITY)


def load_keyed_lock() -> Any:
    mod = importlib.import_module("llama_agents.server._keyed_lock")
    return mod.KeyedLock


def run(env: Env) -> Outcome:
    out = Outcome()
    out.rule = ("scripted schedules over the real KeyedLock: tasks with 1-3 (nested) keys out of 1-3 keys, actions start/run/"
                "release/cancel/probe/disabled chosen by weight among the enabled ones, cancellation at pending wait, woken wait, "
                "body, before start and repeated; one-cancellation sweeps over the corpus scripts; non-trivial = some agent had "
                "to queue; distinct by applied action list")
    KL = load_keyed_lock()
    all_ops: list[str] = []
    all_impl: list[str] = []
    owners: list[int] = []
    cases: list[dict] = []

    def account(sc: Scenario, case: dict) -> None:
        idx = len(cases)
        cases.append(case)
        all_ops.append("reset")
        all_impl.append("reset")
        owners.append(idx)
        all_ops.extend(sc.ops)
        all_impl.extend(sc.impl)
        owners.extend([idx] * len(sc.ops))
        out.evaluations += len(sc.ops)
        for k, v in sc.counts.items():
            out.count(k, v)
        out.count("scenarios")
        if sc.contended:
            out.nontrivial(json.dumps(sc.applied))
            out.count("scenarios_with_contention")
        for sig, what in sc.viol:
            out.violations.append(Violation(sig, what, {"mode": "script", "actions": sc.applied}))
        out.sample({"actions": sc.applied[:14], "last_state": sc.impl[-1] if sc.impl else ""})

    def run_script(actions: list[list], name: str) -> None:
        sc = replay_scenario(KL, actions)
        try:
            account(sc, {"mode": "script", "name": name, "actions": actions})
        finally:
            sc.close()

    # 0. replay
    if env.replay is not None:
        case = env.replay.get("payload", {}).get("case") or {}
        if case.get("mode") == "script":
            run_script(case["actions"], "replay")
        elif case.get("mode") == "free":
            v, _ = free_run(KL, case["seed"], case["ntasks"], case["nkeys"], case["rounds"], case["ncancel"])
            for sig, what in v:
                out.violations.append(Violation(sig, what, case))
    # 1. corpus, and every single-cancellation variant of each corpus script
    extra = os.path.join(VERIF, "harness", "corpus", "c25_scripts.json")
    corpus = list(CORPUS)
    if os.path.exists(extra):
        corpus += json.load(open(extra))
    for c in corpus:
        run_script(c["actions"], c["name"])
    for c in corpus:
        variants = cancel_sweep(KL, c["actions"])
        if env.tier == "quick" and len(variants) > 40:
            variants = env.rng.sample(variants, 40)
        for v in variants:
            run_script(v, c["name"] + "+cancel")
            out.count("sweep_variants")
    # 2. generated schedules
    n = env.budget(1200, 40000)
    for _ in range(n):
        params = {"nkeys": env.rng.choice([1, 1, 2, 2, 3]), "maxtasks": env.rng.choice([3, 5, 8, 12]),
                  "cancel_w": env.rng.choice([0.0, 0.3, 0.6, 1.0]), "nested_p": env.rng.choice([0.0, 0.0, 0.15, 0.4]),
                  "bad_w": env.rng.choice([0.0, 0.1, 0.3])}
        sc = gen_scenario(KL, env.rng, env.rng.choice([10, 25, 40, 70]), params)
        try:
            account(sc, {"mode": "script", "name": "generated", "params": params, "actions": sc.applied})
            # cancellation at every suspension point of a generated schedule (sampled)
            if sc.contended and env.rng.random() < 0.15:
                vs = cancel_sweep(KL, sc.applied)
                for v in env.rng.sample(vs, min(len(vs), 6)):
                    run_script(v, "generated+cancel")
                    out.count("sweep_variants")
        finally:
            sc.close()
    # 3. free-running asyncio workloads (virtual time)
    for _ in range(env.budget(60, 2000)):
        case = {"mode": "free", "seed": env.rng.randrange(1 << 30), "ntasks": env.rng.choice([2, 4, 8, 16]),
                "nkeys": env.rng.choice([1, 2, 3]), "rounds": env.rng.choice([1, 3, 6]), "ncancel": env.rng.choice([0, 1, 3, 8])}
        v, stats = free_run(KL, case["seed"], case["ntasks"], case["nkeys"], case["rounds"], case["ncancel"])
        out.evaluations += stats["entries"]
        out.count("free_runs")
        out.count("free_run_entries", stats["entries"])
        out.count("free_run_cancelled_tasks", stats["cancelled"])
        for sig, what in v:
            out.violations.append(Violation(sig, what, case))
    out.violations.sort(key=lambda v: _priority(v.signature))
    # 4. correspondence with the model
    try:
        model_out = Driver(MODEL).run(all_ops)
    except Exception as e:
        out.divergences.append(Divergence(MODEL, 0, "<driver>", repr(e), ""))
        return out
    out.traces_validated = len(cases)
    out.disagreements_checked = len(all_ops)
    d = diff_streams(MODEL, all_ops, model_out, all_impl)
    if d is not None:
        if d.index < len(owners):
            c = cases[owners[d.index]]
            start = owners.index(owners[d.index])
            d.context = {"case": c, "ops_before": all_ops[start:d.index + 1][-12:]}
        out.divergences.append(d)
    return out
