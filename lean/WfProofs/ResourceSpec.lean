import WfModel.Resource
/-!
Specification-side notions for M9 (used by the statements in `WfProps/C22.lean`)
and elementary facts about them.
-/
namespace Resource

/-- `x` is *well-founded*: it exists and every dependency path from it ends -- no
dependency cycle is reachable from `x` (least fixed point). -/
inductive Acyc (g : Graph) : Nat → Prop
  | mk (x : Nat) (r : Res) : g[x]? = some r → (∀ d, d ∈ r.deps → Acyc g d) → Acyc g x

def isCached (g : Graph) (x : Nat) : Bool :=
  match g[x]? with
  | some r => r.cached
  | none => false

/-- `b` is declared as a dependency by the factory of `a` -/
def Dep (g : Graph) (a b : Nat) : Prop := ∃ r, g[a]? = some r ∧ b ∈ r.deps

/-- consecutive elements are dependency edges -/
def DepChain (g : Graph) : List Nat → Prop
  | [] => True
  | [_] => True
  | a :: b :: l => Dep g a b ∧ DepChain g (b :: l)

/-- the chain of a cycle error `a0 -> ... -> an -> x`: a dependency path whose
last element occurs earlier on it -/
def CycleChain (g : Graph) (chain : List Nat) : Prop :=
  ∃ pre x, chain = pre ++ [x] ∧ x ∈ pre ∧ DepChain g (pre ++ [x])

def isMade (x : Nat) : Ev → Bool
  | .made _ y _ => y == x
  | _ => false

def isMadeBy (t x : Nat) : Ev → Bool
  | .made t' y _ => t' == t && y == x
  | _ => false

/-- how often the factory of `x` returned an object -/
def countMade (l : List Ev) (x : Nat) : Nat := l.countP (isMade x)
def countMadeBy (l : List Ev) (t x : Nat) : Nat := l.countP (isMadeBy t x)

/-- Object `v` was injected for resource `x` into invocation `t`: as an argument of
a factory called by `t`, or as an argument of the step itself. -/
def Injected (g : Graph) (s : St) (t x v : Nat) : Prop :=
  (∃ (y obj : Nat) (args : List Nat) (r : Res) (i : Nat), Ev.call t y obj args ∈ s.log ∧ g[y]? = some r ∧ r.deps[i]? = some x ∧ args[i]? = some v) ∨
  (∃ (k : Task) (objs : List Nat) (i : Nat), s.tasks[t]? = some k ∧ k.phase = .done (.ok objs) ∧ k.reqs[i]? = some x ∧ objs[i]? = some v)

/-- positions of two lists are related pairwise -/
def Paired (P : Nat → Nat → Prop) (xs vs : List Nat) : Prop :=
  xs.length = vs.length ∧ ∀ (i d v : Nat), xs[i]? = some d → vs[i]? = some v → P d v

theorem Paired.nil {P} : Paired P [] [] := by simp [Paired]

theorem Paired.snoc {P xs vs d v} (h : Paired P xs vs) (hp : P d v) : Paired P (xs ++ [d]) (vs ++ [v]) := by
  obtain ⟨hl, h⟩ := h
  refine ⟨by simp [hl], ?_⟩
  intro i d' v' h1 h2
  by_cases hi : i < xs.length
  · rw [List.getElem?_append_left hi] at h1
    rw [List.getElem?_append_left (by omega)] at h2
    exact h i d' v' h1 h2
  · have : i = xs.length := by
      have := (List.getElem?_eq_some_iff.mp h1).1
      simp at this; omega
    subst this
    simp at h1
    rw [hl] at h2
    simp at h2
    subst h1 h2; exact hp

theorem Paired.mono {P Q : Nat → Nat → Prop} {xs vs} (h : Paired P xs vs) (hpq : ∀ d v, P d v → Q d v) : Paired Q xs vs :=
  ⟨h.1, fun i d v h1 h2 => hpq _ _ (h.2 i d v h1 h2)⟩

theorem Paired.left_mem {P xs vs} (h : Paired P xs vs) {d} (hd : d ∈ xs) : ∃ v, P d v := by
  obtain ⟨i, hi, rfl⟩ := List.getElem_of_mem hd
  have hv : i < vs.length := h.1 ▸ hi
  exact ⟨vs[i], h.2 i _ _ (by simp [hi]) (by simp [hv])⟩

theorem mem_of_lookup {l : List (Nat × Nat)} {x v : Nat} (h : l.lookup x = some v) : (x, v) ∈ l := by
  induction l with
  | nil => simp at h
  | cons p l ih =>
    obtain ⟨a, b⟩ := p
    rw [List.lookup_cons] at h
    cases hx : x == a with
    | true => simp [hx] at h; simp at hx; subst hx h; simp
    | false => simp [hx] at h; exact List.mem_cons_of_mem _ (ih h)

theorem lookup_none_not_mem {l : List (Nat × Nat)} {x : Nat} (h : l.lookup x = none) : x ∉ l.map Prod.fst := by
  induction l with
  | nil => simp
  | cons p l ih =>
    obtain ⟨a, b⟩ := p
    rw [List.lookup_cons] at h
    cases hx : x == a with
    | true => simp [hx] at h
    | false => simp only [hx] at h; simp at hx; simp [hx]; simpa using ih h

/-! ### well-foundedness excludes cycles -/

theorem DepChain.tail {g a l} (h : DepChain g (a :: l)) : DepChain g l := by
  cases l with
  | nil => trivial
  | cons b l => exact h.2

theorem DepChain.snoc {g} : ∀ {l : List Nat} {a x}, DepChain g (l ++ [a]) → Dep g a x → DepChain g (l ++ [a] ++ [x])
  | [], a, x, _, hd => ⟨hd, trivial⟩
  | [b], a, x, h, hd => ⟨h.1, hd, trivial⟩
  | b :: c :: l, a, x, h, hd => by
    have := DepChain.snoc (l := c :: l) h.2 hd
    exact ⟨h.1, this⟩

theorem Acyc.dep {g a b} (h : Acyc g a) (hd : Dep g a b) : Acyc g b := by
  obtain ⟨r, hr, hb⟩ := hd
  cases h with
  | mk _ r' hr' hall => rw [hr] at hr'; cases hr'; exact hall b hb

/-- every member of a dependency chain starting at a well-founded resource is
well-founded -/
theorem Acyc.chain {g} : ∀ {l : List Nat} {a}, Acyc g a → DepChain g (a :: l) → ∀ y ∈ a :: l, Acyc g y
  | [], a, h, _, y, hy => by simp at hy; subst hy; exact h
  | b :: l, a, h, hc, y, hy => by
    rcases List.mem_cons.mp hy with rfl | hy
    · exact h
    · exact Acyc.chain (h.dep hc.1) hc.2 y hy

/-- no dependency path leads from a well-founded resource back to it -/
theorem Acyc.no_loop {g a} (h : Acyc g a) : ∀ l : List Nat, DepChain g (a :: l) →
    ∀ z, (a :: l).getLast? = some z → ¬ Dep g z a := by
  induction h with
  | mk x r hr _ ih =>
    intro l hc z hz hback
    cases l with
    | nil =>
      simp at hz; subst hz
      obtain ⟨r', hr', hx⟩ := hback
      rw [hr] at hr'; cases hr'
      exact ih x hx [] trivial x (by simp) ⟨r, hr, hx⟩
    | cons d l =>
      have hd : d ∈ r.deps := by
        obtain ⟨r', hr', hx⟩ := hc.1
        rw [hr] at hr'; cases hr'; exact hx
      -- the path d :: l ++ [x] leads from d back to d
      have hz' : (d :: l).getLast? = some z := by simpa using hz
      obtain ⟨l', hl'⟩ : ∃ l', d :: l = l' ++ [z] := by
        have := List.getLast?_eq_some_iff.mp hz'
        obtain ⟨ys, hys⟩ := this
        exact ⟨ys, hys⟩
      have hchain : DepChain g (d :: l ++ [x]) := by
        rw [hl']; exact DepChain.snoc (by rw [← hl']; exact hc.2) hback
      have : d :: l ++ [x] = d :: (l ++ [x]) := rfl
      rw [this] at hchain
      exact ih d hd (l ++ [x]) hchain x (by rw [← List.cons_append, List.getLast?_append]; simp) ⟨r, hr, hd⟩

/-- A dependency path `a0 :: ...` whose last element depends on one of its members
starts at a resource that is not well-founded. -/
theorem not_acyc_of_cycle {g} {l : List Nat} {a x z} (hc : DepChain g (a :: l))
    (hz : (a :: l).getLast? = some z) (hx : x ∈ a :: l) (hback : Dep g z x) : ¬ Acyc g a := by
  intro ha
  -- split the path at x
  obtain ⟨l1, l2, hsplit⟩ := List.append_of_mem hx
  have hxa : Acyc g x := Acyc.chain ha hc x hx
  have hc2 : DepChain g (x :: l2) := by
    have : DepChain g (l1 ++ x :: l2) := hsplit ▸ hc
    clear hsplit hz hx hc
    induction l1 with
    | nil => simpa using this
    | cons b l1 ih => exact ih (DepChain.tail this)
  have hz2 : (x :: l2).getLast? = some z := by
    rw [hsplit] at hz
    simpa [List.getLast?_append] using hz
  exact hxa.no_loop l2 hc2 z hz2 hback

end Resource
