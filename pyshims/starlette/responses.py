import json


class Response:
    media_type = None

    def __init__(self, content=None, status_code=200, headers=None, media_type=None):
        self.content = content
        self.body = content
        self.status_code = status_code
        self.headers = dict(headers or {})
        if media_type is not None:
            self.media_type = media_type


class JSONResponse(Response):
    media_type = "application/json"

    def __init__(self, content=None, status_code=200, headers=None, media_type=None):
        super().__init__(content, status_code, headers, media_type)
        self.body = json.dumps(content, default=str).encode()


class StreamingResponse(Response):
    def __init__(self, content, status_code=200, headers=None, media_type=None):
        super().__init__(None, status_code, headers, media_type)
        self.body_iterator = content
