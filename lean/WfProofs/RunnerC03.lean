import WfProofs.RunnerLive
import WfProofs.EngineRewind
/-!
C03 on the runner, part 3: the invariants of parts 1 and 2 together with work conservation
(`QInv`), from the start of a run (fresh or resumed) along every schedule.
-/
set_option linter.unusedSimpArgs false
set_option linter.unusedVariables false

namespace Engine

structure C03Inv (cfg : Cfg) (r : Runner) : Prop where
  run : RunInv cfg False r
  idle : IdleInv r
  live : LiveInv cfg r
  q : r.outcome = none → QInv cfg r.st

theorem isExit_of_not_ends {c : Cmd} (h : cmdEnds c = false) : c.isExit = false := by
  cases c <;> simp_all [cmdEnds, Cmd.isExit]

theorem step_qInv (cfg : Cfg) (hwf : cfg.WF) (pol : Policy) (r : Runner) (a : Act)
    (h : r.outcome = none → QInv cfg r.st) :
    (r.step cfg pol a).outcome = none → QInv cfg (r.step cfg pol a).st := by
  cases ho : r.outcome with
  | some o =>
    have : r.step cfg pol a = r := by unfold Runner.step; simp [ho]
    rw [this]; intro h'; rw [ho] at h'; cases h'
  | none =>
  have hq := h ho
  cases a with
  | drain =>
    cases hbuf : r.buf with
    | nil =>
      have : r.step cfg pol .drain = r := by unfold Runner.step; simp [ho, hbuf]
      rw [this]; exact h
    | cons t rest =>
      rw [step_drain cfg pol r t rest ho hbuf]
      split
      · intro ho'; simp [Runner.finish] at ho'
      · intro ho'
        rw [execCmds_st]
        simp only [Runner.logged]
        apply reduce_qInv cfg hwf pol t r.st r.now hq
        have hopen := execCmds_open _ (r.logged t rest (reduce cfg pol t r.st r.now).1) ho ho'
        cases hx : (reduce cfg pol t r.st r.now).2.any Cmd.isExit with
        | false => rfl
        | true =>
          obtain ⟨c, hc, hce⟩ := List.any_eq_true.mp hx
          rw [isExit_of_not_ends (hopen c hc)] at hce; cases hce
  | workerDone s w res =>
    unfold Runner.step
    simp only [ho, Option.isSome_none, Bool.false_eq_true, ↓reduceIte]
    split
    · exact h
    · split
      · exact h
      · intro _; exact hq
  | pull =>
    unfold Runner.step
    simp only [ho, Option.isSome_none, Bool.false_eq_true, ↓reduceIte]
    split
    · exact h
    · split
      · exact h
      · intro _; exact hq
  | timer =>
    unfold Runner.step
    simp only [ho, Option.isSome_none, Bool.false_eq_true, ↓reduceIte]
    split
    · exact h
    · intro _; exact hq
  | advance dt =>
    unfold Runner.step
    simp only [ho, Option.isSome_none, Bool.false_eq_true, ↓reduceIte]
    intro _; exact hq
  | external t =>
    unfold Runner.step
    simp only [ho, Option.isSome_none, Bool.false_eq_true, ↓reduceIte]
    split
    · intro _; exact hq
    · exact h
  | stepWrite p =>
    unfold Runner.step
    simp only [ho, Option.isSome_none, Bool.false_eq_true, ↓reduceIte]
    intro _; exact hq

theorem step_c03Inv (cfg : Cfg) (hwf : cfg.WF) (pol : Policy) (r : Runner) (a : Act)
    (h : C03Inv cfg r) : C03Inv cfg (r.step cfg pol a) :=
  ⟨step_runInv cfg hwf pol False r a (fun hf => hf.elim) h.run,
    step_idleInv cfg pol False r a h.run h.idle,
    step_liveInv cfg hwf pol False r a h.run h.live,
    step_qInv cfg hwf pol r a h.q⟩

theorem run_c03Inv (cfg : Cfg) (hwf : cfg.WF) (pol : Policy) :
    ∀ (acts : List Act) (r : Runner), C03Inv cfg r → C03Inv cfg (Runner.run cfg pol r acts)
  | [], r, h => h
  | a :: as, r, h => by
    simp only [Runner.run, List.foldl_cons]
    exact run_c03Inv cfg hwf pol as _ (step_c03Inv cfg hwf pol r a h)

/-! ### the start of a run -/

theorem rewindLoop_free {bad : Cmd → Bool} (hb : LightFree bad) (now : Int) :
    ∀ (cs : List StepCfg) (st : State) (cmds : List Cmd), cmds.any bad = false →
      (rewindLoop now cs st cmds).2.any bad = false
  | [], st, cmds, h => by simpa [rewindLoop] using h
  | c :: cs, st, cmds, h => by
    unfold rewindLoop
    apply rewindLoop_free hb now cs
    simp only [List.any_append, h, Bool.false_or]
    unfold rewindStep
    exact drain_free hb _ _ _ _ _

theorem rewind_free {bad : Cmd → Bool} (hb : LightFree bad) (cfg : Cfg) (st : State) (now : Int) :
    (rewind cfg st now).2.any bad = false := by
  unfold rewind
  exact rewindLoop_free hb now _ st [] (by simp)

/-- after the rewind every row of a configured step is one the rewind starts a worker for -/
theorem rewind_rows_started (cfg : Cfg) (hwf : cfg.WF) (st : State) (now : Int) :
    ∀ s ∈ cfg.names, ∀ ip ∈ ((rewind cfg st now).1.workers s).inProg,
      ∃ n ∈ workersOf (rewind cfg st now).2, n.step = s ∧ n.wid = ip.wid := by
  have hnd : ((sortedSteps cfg).map (·.name)).Nodup := (sortedSteps_names_perm cfg).nodup_iff.mpr hwf
  unfold rewind
  obtain ⟨new, h1, _, h3⟩ := rewindLoop_track cfg now (sortedSteps cfg) st [] hnd
    (fun c hc => mem_sortedSteps hc)
  rw [List.nil_append] at h1
  rw [h1]
  intro s hs ip hip
  have hmem : s ∈ (sortedSteps cfg).map (·.name) := (sortedSteps_names_perm cfg).mem_iff.mpr hs
  have hk : ip.key ∈ keys ((rewindLoop now (sortedSteps cfg) st []).1.workers s) := List.mem_map_of_mem hip
  rw [h3 s, if_pos hmem, List.nil_append] at hk
  have := mem_startK.mp hk
  exact ⟨{ step := s, wid := ip.wid, ev := ip.ev }, mem_workersOf.mpr this, rfl, rfl⟩

/-! ### the start of a run, from whatever state: the rewind empties every in-progress table before it
starts anything, so nothing needs to be assumed of the state the run is resumed from -/

theorem rewind_starts_fresh (cfg : Cfg) (hwf : cfg.WF) (st : State) (now : Int) :
    (∀ n ∈ workersOf (rewind cfg st now).2, n.step ∈ cfg.names ∧
        (n.wid, n.ev) ∈ keys ((rewind cfg st now).1.workers n.step)) ∧
      ((workersOf (rewind cfg st now).2).map Worker.slot).Nodup := by
  have hnd : ((sortedSteps cfg).map (·.name)).Nodup := (sortedSteps_names_perm cfg).nodup_iff.mpr hwf
  have hids' := rewind_idsInv_fresh cfg hwf st now
  unfold rewind at hids' ⊢
  obtain ⟨new, h1, h2, h3⟩ := rewindLoop_track cfg now (sortedSteps cfg) st [] hnd
    (fun c hc => mem_sortedSteps hc)
  rw [List.nil_append] at h1
  rw [h1]
  have ht : Track (fun s => if s ∈ (sortedSteps cfg).map (·.name) then [] else keys (st.workers s))
      (rewindLoop now (sortedSteps cfg) st []).1 new := h3
  obtain ⟨t1, t2⟩ := track_starts hids' ht h2
  exact ⟨fun n hn => ⟨(t1 n hn).1, (t1 n hn).2.1⟩, t2⟩

theorem init_aux_fresh (cfg : Cfg) (hwf : cfg.WF) (P : Prop) (st0 : State) (now : Int)
    (r : Runner) (hst : r.st = (rewind cfg st0 now).1) (hrun : r.running = []) (hb : NoSR r.buf)
    (hh : HeapNoSR r.heap) (hm : r.mailbox = []) :
    RunInv cfg P (execCmds r (rewind cfg st0 now).2) := by
  obtain ⟨s1, s2⟩ := rewind_starts_fresh cfg hwf st0 now
  obtain ⟨e1, e2, e3, e4, e5⟩ := execCmds_spec' (rewind cfg st0 now).2 r hb hh
  rw [hrun, List.nil_append] at e3
  refine ⟨?_, ?_, (e3.map _).nodup s2, ?_, e5, Or.inl e4⟩
  · rw [e1, hst]; exact rewind_idsInv_fresh cfg hwf st0 now
  · intro w hw
    obtain ⟨a, b⟩ := s1 w (e3.subset hw)
    obtain ⟨ip, hip, hw', he'⟩ := mem_keys.mp b
    rw [e1, hst]
    exact ⟨a, ip, hip, hw', fun _ => he'⟩
  · rw [e2, hm]; intro t ht; cases ht

theorem init_runInv_fresh (cfg : Cfg) (hwf : cfg.WF) (P : Prop) (st0 : State) (now : Int)
    (start : Option Ev) (timeout : Option Nat) : RunInv cfg P (Runner.init cfg st0 now start timeout) := by
  unfold Runner.init
  simp only
  apply init_aux_fresh cfg hwf P st0 now
  · rfl
  · cases timeout <;> rfl
  · cases timeout <;>
    · intro t ht
      simp only [Runner.push] at ht
      rcases List.mem_append.mp ht with h | h
      · exact rehydrateTicks_noSR cfg st0 t h
      · cases start with
        | none => cases h
        | some e => simp only [List.mem_singleton] at h; subst h; rfl
  · cases timeout with
    | none => intro tm h; cases h
    | some t =>
      intro tm h
      simp only [Runner.push, List.nil_append, List.mem_singleton] at h
      subst h; rfl
  · cases timeout <;> rfl

/-- the initial tick of a run with a start event -/
def startTicksOf (start : Option Ev) : List Tick :=
  match start with | some e => [Tick.addEvent { ev := e } none] | none => []

theorem init_c03Inv (cfg : Cfg) (hwf : cfg.WF) (st0 : State) (now : Int)
    (start : Option Ev) (timeout : Option Nat) : C03Inv cfg (Runner.init cfg st0 now start timeout) := by
  refine ⟨init_runInv_fresh cfg hwf False st0 now start timeout, ?_, ?_, ?_⟩
  · -- idle-check bookkeeping
    unfold Runner.init
    simp only
    have hbuf0 : ∀ t ∈ rehydrateTicks cfg st0 ++ startTicksOf start,
        t ≠ Tick.idleCheck := by
      intro t ht
      rcases List.mem_append.mp ht with h | h
      · simp only [rehydrateTicks, List.mem_flatMap, List.mem_map] at h
        obtain ⟨c, _, w, _, rfl⟩ := h
        simp
      · cases start with
        | none => cases h
        | some e => simp only [startTicksOf, List.mem_singleton] at h; subst h; simp
    have key : ∀ (r1 : Runner), r1.buf = rehydrateTicks cfg st0 ++ startTicksOf start →
        r1.idlePending = false → (∀ tm ∈ r1.heap, tm.tick.isTimerKind = true) → r1.mailbox = [] →
        IdleInv (execCmds r1 (rewind cfg st0 now).2) := by
      intro r1 hb hp hh hm
      obtain ⟨extra, e1, _, e3, e4⟩ := execCmds_noSIC_buf (rewind cfg st0 now).2 r1 (rewind_free lightFree_sic cfg st0 now)
      have hx := e3 (rewind_free lightFree_queue cfg st0 now)
      refine ⟨?_, execCmds_heap_kind _ _ hh, ?_⟩
      · rw [e1, e4, hx, List.append_nil, hp, hb]
        exact ICForm.fresh hbuf0
      · rw [execCmds_mailbox, hm]; intro t ht; cases ht
    cases timeout with
    | none =>
      exact key _ (by cases start <;> rfl) rfl (by intro tm h; cases h) rfl
    | some t =>
      refine key _ (by cases start <;> rfl) rfl ?_ rfl
      intro tm h
      simp only [Runner.push, List.nil_append, List.mem_singleton] at h
      subst h; rfl
  · -- every row is live
    intro ho s hs ip hip
    left
    unfold Runner.init at ho hip ⊢
    simp only at ho hip ⊢
    rw [execCmds_st] at hip
    rw [execCmds_running_open _ _ ho]
    obtain ⟨n, hn, h1, h2⟩ := rewind_rows_started cfg hwf st0 now s hs ip hip
    refine ⟨n, List.mem_append_right _ hn, h1, h2⟩
  · intro _
    unfold Runner.init
    simp only
    rw [execCmds_st]
    intro c hc
    unfold rewind
    exact rewindLoop_qOk now (sortedSteps cfg) st0 []
      ((sortedSteps_names_perm cfg).nodup_iff.mpr hwf) c (mem_sortedSteps_iff.mpr hc)

/-- every state of every run satisfies the C03 invariants -/
theorem reach_c03Inv (cfg : Cfg) (hwf : cfg.WF) (pol : Policy) (st0 : State)
    (now : Int) (start : Option Ev) (timeout : Option Nat) (acts : List Act) :
    C03Inv cfg (Runner.run cfg pol (Runner.init cfg st0 now start timeout) acts) :=
  run_c03Inv cfg hwf pol acts _ (init_c03Inv cfg hwf st0 now start timeout)

end Engine
