"""Property monitors over traces of the *real* engine (the (S) line of DESIGN.md §2.1).

Each monitor states its property directly on what the implementation did
(step entries/exits, published stream, reducer states, runner internals) and is
independent of the Lean model.  A monitor returns `Violation`s with a
*signature*; signatures listed as open in known_findings.json are reported as
KNOWN-FINDING, anything else is a VIOLATION.
"""
from __future__ import annotations

import re
from typing import Any, Callable

from workflows.events import (
    InputRequiredEvent,
    StepState,
    StepStateChanged,
    StopEvent,
    UnhandledEvent,
    WorkflowCancelledEvent,
    WorkflowFailedEvent,
    WorkflowIdleEvent,
    WorkflowTimedOutEvent,
)
from workflows.runtime.types import commands as C
from workflows.runtime.types import results as R
from workflows.runtime.types import ticks as T

from ..runner import Violation
from . import enc
from . import evtypes as ET
from .live import Trace


def _replay(tr: Trace) -> dict:
    return {"spec": tr.spec, "actions": tr.actions}


def _nw(tr: Trace) -> dict[str, int]:
    return {s["name"]: (1 if s.get("role") == "handler" else s.get("nw", 4)) for s in tr.spec["steps"]}


def _runner_calls(tr: Trace) -> list:
    return [c for c in tr.calls if c.caller in ("run", "_process_tick")]


def _is_exit(cmds: list) -> bool:
    return any(isinstance(c, (C.CommandCompleteRun, C.CommandFailWorkflow, C.CommandHalt)) for c in cmds)


# ------------------------------------------------------------------ C01


def mon_c01(tr: Trace) -> list[Violation]:
    out: list[Violation] = []
    nw = _nw(tr)
    active: dict[str, int] = {}
    for rec in tr.steps:
        kind, step, uid, rn, vt, info = rec
        if vt == -1.0:
            continue
        if kind == "enter":
            active[step] = active.get(step, 0) + 1
            if active[step] > nw.get(step, 4):
                out.append(Violation("C01/over_limit", f"{active[step]} invocations of {step} live at once with num_workers={nw.get(step)}", _replay(tr)))
                break
        elif kind == "exit":
            active[step] = active.get(step, 0) - 1
    for c in _runner_calls(tr):
        if c.after is None:
            continue
        for name, ws in c.after.workers.items():
            ids = [ip.worker_id for ip in ws.in_progress]
            lim = ws.config.num_workers
            if len(ids) > lim or len(set(ids)) != len(ids) or any(i < 0 or i >= lim for i in ids):
                out.append(Violation("C01/slot_table", f"in_progress of {name} holds worker ids {ids} with num_workers={lim}", _replay(tr)))
                return out
    # every started worker task owns its slot until its result tick is processed: a CommandRunWorker for an occupied slot
    # puts two live invocations on one worker id
    occupied: set = set()
    for c in _runner_calls(tr):
        if c.kind != "reduce" or c.error is not None:
            continue
        if isinstance(c.tick, T.TickStepResult):
            occupied.discard((c.tick.step_name, c.tick.worker_id))
        for k in c.cmds:
            if isinstance(k, C.CommandRunWorker):
                if (k.step_name, k.id) in occupied:
                    out.append(Violation("C01/slot_started_while_occupied", f"CommandRunWorker for {k.step_name} worker {k.id} while the invocation started earlier on that slot "
                                         f"has not delivered its result (tick {type(c.tick).__name__})", _replay(tr)))
                    return out
                occupied.add((k.step_name, k.id))
        if _is_exit(c.cmds):
            break
    open_slots: dict[str, set] = {}
    for (e, _vt, _idx, _o) in tr.stream:
        if isinstance(e, StepStateChanged) and e.worker_id != "<enqueued>":
            slots = open_slots.setdefault(e.name, set())
            if e.step_state == StepState.RUNNING:
                w = int(e.worker_id)
                if w in slots:
                    out.append(Violation("C01/slot_reuse", f"RUNNING published for {e.name} worker {w} while that slot is still running", _replay(tr)))
                    break
                if w < 0 or w >= nw.get(e.name, 4):
                    out.append(Violation("C01/slot_range", f"{e.name} runs on worker slot {w} outside [0,{nw.get(e.name)})", _replay(tr)))
                    break
                slots.add(w)
            elif e.step_state == StepState.NOT_RUNNING:
                slots.discard(int(e.worker_id))
    return out


# ------------------------------------------------------------------ C35


def mon_c35(tr: Trace) -> list[Violation]:
    out: list[Violation] = []
    open_slots: dict[tuple, int] = {}
    prep: dict[str, int] = {}
    runs: dict[str, int] = {}
    stuck = getattr(tr, "stuck_at", None)
    for i, (e, _vt, _idx, _o) in enumerate(tr.stream):
        if stuck is not None and i == stuck[1]:
            still = [k for k, v in open_slots.items() if v > 0]
            if still:
                out.append(Violation("C35/unmatched_running", f"run is quiescent but RUNNING on {still} was never closed by NOT_RUNNING", _replay(tr)))
            for s, n in prep.items():
                if runs.get(s, 0) < n:
                    out.append(Violation("C35/preparing_without_running", f"{s}: {n} PREPARING but only {runs.get(s, 0)} RUNNING at quiescence", _replay(tr)))
        if not isinstance(e, StepStateChanged):
            continue
        if e.step_state == StepState.PREPARING:
            prep[e.name] = prep.get(e.name, 0) + 1
            if e.worker_id != "<enqueued>":
                out.append(Violation("C35/preparing_shape", "PREPARING carries a worker id", _replay(tr)))
            continue
        key = (e.name, e.worker_id)
        if e.step_state == StepState.RUNNING:
            runs[e.name] = runs.get(e.name, 0) + 1
            if open_slots.get(key, 0) > 0:
                out.append(Violation("C35/running_twice", f"second RUNNING on {key} before its NOT_RUNNING", _replay(tr)))
                break
            open_slots[key] = 1
        elif e.step_state == StepState.NOT_RUNNING:
            if open_slots.get(key, 0) <= 0:
                out.append(Violation("C35/not_running_without_running", f"NOT_RUNNING on {key} without a preceding RUNNING", _replay(tr)))
                break
            open_slots[key] = 0
    out += _c35_entered_after_running(tr)
    # InputRequiredEvent returned by a step is published exactly once
    reduced_results: set[int] = set()
    for c in _runner_calls(tr):
        if isinstance(c.tick, T.TickStepResult) and c.error is None:
            exit_before = False
            for r in c.tick.result:
                if isinstance(r, R.StepWorkerResult) and isinstance(r.result, InputRequiredEvent):
                    # published unless an exit command precedes it in this tick's command list
                    cmds = c.cmds
                    pubs = [x for x in cmds if isinstance(x, C.CommandPublishEvent) and x.event is r.result]
                    reduced_results.add(r.result.uid)
    for uid in reduced_results:
        n = sum(1 for (e, _a, _b, o) in tr.stream if isinstance(e, InputRequiredEvent) and getattr(e, "uid", None) == uid and o == "runner")
        ended_early = tr.outcome[0] in ("cancelled", "timeout", "error", "result")
        if n > 1 or (n == 0 and not ended_early):
            out.append(Violation("C35/input_required_count", f"InputRequiredEvent uid={uid} returned by a step was published {n} times", _replay(tr)))
    return out


def _c35_entered_after_running(tr: Trace) -> list[Violation]:
    """'for every step invocation the stream shows a RUNNING state change ...': stated on the step bodies the harness saw
    start (independent of the reducer's tables): when a body of step s starts, the stream published so far must hold, for s,
    at least as many open RUNNING slots as there are bodies of s executing (this one included)."""
    out: list[Violation] = []
    if any(r[0] == "enter" and "stream_len" not in r[5] for r in tr.steps):
        return out  # sync bodies run in executor threads: no publication point is recorded for them
    active: dict[str, int] = {}
    open_at: list[dict[str, int]] = []  # open slots per step after stream[:i]
    cur: dict[tuple, bool] = {}
    per: dict[str, int] = {}
    open_at.append(dict(per))
    for (e, _vt, _idx, _o) in tr.stream:
        if isinstance(e, StepStateChanged) and e.step_state in (StepState.RUNNING, StepState.NOT_RUNNING):
            key = (e.name, e.worker_id)
            want = e.step_state == StepState.RUNNING
            if cur.get(key, False) != want:
                cur[key] = want
                per[e.name] = per.get(e.name, 0) + (1 if want else -1)
        open_at.append(dict(per))
    for r in tr.steps:
        if r[0] == "enter":
            active[r[1]] = active.get(r[1], 0) + 1
            n_open = open_at[min(r[5]["stream_len"], len(open_at) - 1)].get(r[1], 0)
            if n_open < active[r[1]]:
                out.append(Violation("C35/step_entered_without_running",
                                     f"step {r[1]} started executing its invocation of event uid={r[2]} (attempt {r[3]}) while {active[r[1]]} of its bodies "
                                     f"run, but the stream published until then shows only {n_open} open RUNNING slot(s) for it", _replay(tr)))
                break
        elif r[0] == "exit":
            active[r[1]] = max(active.get(r[1], 0) - 1, 0)
    return out


def c35_resumed_announcements(tr: Trace, snapshot: dict) -> list[Violation]:
    """A run resumed from a serialised context re-initiates, before its first tick, the invocations that were in progress or
    queued (as many per step as it has workers).  Each of them is a step invocation: its RUNNING must be on the resumed
    run's stream before anything else happens.  Expected numbers are recomputed from the SNAPSHOT (the input), not read from
    the engine's tables."""
    out: list[Violation] = []
    nw = _nw(tr)
    calls = tr.calls
    k = next((i for i, c in enumerate(calls) if c.kind == "rewind" and c.caller == "run"), None)
    if k is None or tr.outcome[0] == "invalid":
        return out
    workers = snapshot.get("workers", {}) if isinstance(snapshot, dict) else {}
    startup = [e for (e, _vt, idx, _o) in tr.stream if idx == k + 1 and isinstance(e, StepStateChanged)]
    for nm, w in sorted(workers.items()):
        pending = len(w.get("in_progress", [])) + len(w.get("queue", []))
        want = min(nw.get(nm, 0), pending)
        got = sum(1 for e in startup if e.name == nm and e.step_state == StepState.RUNNING)
        if got != want:
            out.append(Violation("C35/resumed_invocation_not_announced" if got < want else "C35/resumed_invocation_announced_twice",
                                 f"the restored context holds {pending} pending invocation(s) of step {nm} ({nw.get(nm, 0)} worker(s)): {want} are "
                                 f"re-initiated when the run starts, but the stream shows {got} RUNNING for {nm} before the first tick", _replay(tr)))
    return out


# ------------------------------------------------------------------ C04


def _terminal_kind(e: Any) -> str | None:
    if isinstance(e, WorkflowFailedEvent):
        return "failed"
    if isinstance(e, WorkflowCancelledEvent):
        return "cancelled"
    if isinstance(e, WorkflowTimedOutEvent):
        return "timeout"
    if isinstance(e, StopEvent):
        return "result"
    return None


def mon_c04(tr: Trace) -> list[Violation]:
    out: list[Violation] = []
    kind, val = tr.outcome
    if kind in ("pending", "deadlock", "runaway", "invalid", "aborted"):
        return out
    terms = [(i, _terminal_kind(e)) for i, (e, *_r) in enumerate(tr.stream) if _terminal_kind(e) is not None]
    want = {"result": "result", "cancelled": "cancelled", "timeout": "timeout", "error": "failed"}[kind]
    engine_side = kind == "error" and not isinstance(val, (ET.Boom,)) and "policy bug" in str(val)
    if not terms:
        sig = "C04/engine_side_failure_no_terminal_event" if engine_side else "C04/no_terminal_event"
        out.append(Violation(sig, f"run ended ({kind}: {val!r}) but no terminal event was published; stream_events() never terminates", _replay(tr)))
        return out
    if len(terms) > 1:
        out.append(Violation("C04/two_terminal_events", f"{len(terms)} terminal events published: {[k for _, k in terms]}", _replay(tr)))
    i, k = terms[0]
    if i != len(tr.stream) - 1:
        # classifying fact: did the late publication happen while the run was still ending (before `await handler` returned),
        # or only after the outcome was available -- i.e. by something that outlived the run
        at_out = getattr(tr, "stream_len_at_outcome", None)
        late_after = at_out is not None and len(tr.stream) > max(at_out, i + 1)
        late_before = at_out is None or at_out > i + 1
        sig = "C04/published_after_terminal"
        if late_after and not late_before:
            sig += f":after_outcome_available[{want}]"
        who = sorted({o for (_e, _t, _c, o) in tr.stream[i + 1:]})
        out.append(Violation(sig, f"{len(tr.stream) - 1 - i} event(s) published after the terminal {k} event (by: {', '.join(who)}; "
                             f"stream had {at_out} item(s) when the outcome became available, {len(tr.stream)} in the end)", _replay(tr)))
    alive = list(getattr(tr, "alive_at_outcome", []) or [])
    if alive:
        # no step task of the run is still alive once the run's outcome is available (observed on the step bodies themselves:
        # entered and not yet left; sync steps run in executor threads and are not counted)
        tds = {(t["step"], t["uid"], t["rn"]): t for t in getattr(tr, "teardowns", [])}
        how = "unwinding_from_cancellation" if all(a in tds for a in alive) else "never_cancelled" if not any(a in tds for a in alive) else "mixed"
        out.append(Violation(f"C04/step_task_alive_after_outcome[{want}]:{how}",
                             f"the run's outcome ({kind}) is available and its terminal event published, but {len(alive)} step invocation(s) "
                             f"are still running: {alive[:4]}", _replay(tr)))
    if k != want:
        out.append(Violation("C04/terminal_kind_mismatch", f"run outcome {kind} but terminal event kind {k}", _replay(tr)))
    if kind == "result":
        res_ev = tr.handler.get_stop_event() if tr.handler is not None else None
        if res_ev is not None and res_ev is not tr.stream[i][0] and getattr(res_ev, "uid", None) != getattr(tr.stream[i][0], "uid", None):
            out.append(Violation("C04/result_not_terminal_event", "the run's result differs from the published StopEvent", _replay(tr)))
    if kind == "error" and isinstance(tr.stream[i][0], WorkflowFailedEvent):
        if str(tr.stream[i][0].exception) != str(val):
            out.append(Violation("C04/failure_exception_mismatch", f"run raised {val!r} but WorkflowFailedEvent carries {tr.stream[i][0].exception!r}", _replay(tr)))
    if not tr.consumer_done:
        out.append(Violation("C04/consumer_not_terminated", "stream_events() consumer did not terminate although the run ended", _replay(tr)))
    else:
        seen_term = [e for e in tr.consumed if _terminal_kind(e) is not None]
        if len(seen_term) != 1 or tr.consumed[-1] is not seen_term[0]:
            out.append(Violation("C04/consumer_saw_wrong_tail", "stream_events() did not end with exactly one terminal event", _replay(tr)))
    return out


# ------------------------------------------------------------------ C03


def mon_c03(tr: Trace) -> list[Violation]:
    out: list[Violation] = []
    calls = _runner_calls(tr)
    for c in calls:
        if c.after is not None and c.kind == "rewind":
            # the start of a (resumed) run: the rewind restarts as many pending invocations as there are worker slots
            for name, ws in c.after.workers.items():
                if ws.queue and len(ws.in_progress) < ws.config.num_workers:
                    out.append(Violation("C03/stalled_queue_after_rewind", f"{name} starts the run with {len(ws.queue)} queued event(s) but only "
                                         f"{len(ws.in_progress)}/{ws.config.num_workers} workers running", _replay(tr)))
                    return out
        if c.after is None or c.kind != "reduce":
            continue
        if c.after.is_running and not _is_exit(c.cmds):
            for name, ws in c.after.workers.items():
                if ws.queue and len(ws.in_progress) < ws.config.num_workers:
                    out.append(Violation("C03/stalled_queue", f"{name} has {len(ws.queue)} queued event(s) but only "
                                         f"{len(ws.in_progress)}/{ws.config.num_workers} workers running", _replay(tr)))
                    return out
        idle_pub = [x for x in c.cmds if isinstance(x, C.CommandPublishEvent) and
                    (isinstance(x.event, WorkflowIdleEvent) or (isinstance(x.event, UnhandledEvent) and x.event.idle))]
        if not idle_pub:
            continue
        busy = [n for n, ws in c.after.workers.items() if ws.queue or ws.in_progress]
        if busy or not c.after.is_running:
            out.append(Violation("C03/idle_with_active_work", f"idle announced while steps {busy} have queued/running work "
                                 f"(is_running={c.after.is_running})", _replay(tr)))
            continue
        info = c.runner
        pending_retry = [t for (_t, _s, t) in info.get("heap", []) if isinstance(t, T.TickAddEvent)]
        undelivered = [t for t in list(info.get("mailbox", [])) + list(info.get("buffer", []))
                       if isinstance(t, (T.TickAddEvent, T.TickStepResult))]
        if info.get("running_workers") or info.get("pending_workers"):
            out.append(Violation("C03/idle_with_running_worker", "idle announced while a worker task is still running", _replay(tr)))
        if pending_retry:
            out.append(Violation("C03/idle_with_pending_retry_timer", "idle announced while a delayed retry is waiting in the timer heap", _replay(tr)))
        in_mailbox = [t for t in info.get("mailbox", []) if isinstance(t, (T.TickAddEvent, T.TickStepResult))]
        if undelivered and (in_mailbox or not any(isinstance(x.event, UnhandledEvent) for x in idle_pub)):
            out.append(Violation("C03/idle_with_undelivered_event", "idle announced while events already sent to the run wait in the mailbox/buffer", _replay(tr)))
        elif undelivered:
            # only the tick buffer holds work, and the announcement is the UnhandledEvent(idle=True) form: a batch of timers
            # popped together, the first of which nobody accepts (Lean witness C03_refuted_unhandled_batch)
            out.append(Violation("C03/idle_unhandled_event_with_buffered_tick", "UnhandledEvent(idle=True) published while another tick "
                                 "popped in the same batch (a due retry) is still in the tick buffer", _replay(tr)))
    return out


# ------------------------------------------------------------------ C11


def _mask_times(s: str) -> str:
    return s


def _waiter_sans_time(w: Any) -> str:
    """a waiter without the first_attempt_at / last_failed_at of the invocation suspended in it"""
    return "W %s %s %d %s %d %s %d %s %s %s" % (
        enc.waiter_id(w.waiter_id), enc.ev(w.event), ET.TY_ID[w.waiting_for_event], enc.req(w.requirements),
        1 if w.has_requirements else 0, enc.opt_ev(w.resolved_event), 1 if w.timed_out else 0,
        enc.num(getattr(w, "attempts", 0)), enc.exc(getattr(w, "last_exception", None)), enc.rc(getattr(w, "recovery_counts", {})))


def state_sans_time(st: Any) -> str:
    """canonical state with first_attempt_at / last_failed_at erased"""
    import copy

    parts = ["1" if st.is_running else "0"]
    for name in st.config.steps.keys():
        ws = st.workers[name]
        q = []
        for a in ws.queue:
            q.append("A %s %s %s %s" % (enc.ev(a.event), enc.num(a.attempts or 0), enc.exc(a.last_exception), enc.rc(a.recovery_counts)))
        ip = []
        for i in ws.in_progress:
            ip.append("I %s %d %s %s %d %s %s" % (enc.ev(i.event), i.worker_id, enc.collected(i.shared_state.collected_events),
                                                  enc.lst([_waiter_sans_time(w) for w in i.shared_state.collected_waiters]), i.attempts,
                                                  enc.exc(i.last_exception), enc.rc(i.recovery_counts)))
        parts.append("S %s %s %s %s" % (enc.lst(q), enc.lst(ip), enc.collected(ws.collected_events),
                                        enc.lst([_waiter_sans_time(w) for w in ws.collected_waiters])))
    return re.sub(r" F (\d+) (\d+) (\d+) (\d+) (-?\d+) (-?\d+)", r" F \1 \2 \3 \4 t t", " ".join(parts))


def _c11_counts(st: Any) -> dict:
    return {name: (len(ws.queue), len(ws.in_progress), sum(len(v) for v in ws.collected_events.values()), len(ws.collected_waiters))
            for name, ws in st.workers.items()}


def _c11_facet(a: Any, b: Any) -> str:
    """which part of the run state differs between `a` (expected) and `b` (found): classifies the signature"""
    if a.is_running != b.is_running:
        return "running_flag"
    ca, cb = _c11_counts(a), _c11_counts(b)
    for i, nm in enumerate(["queue", "in_progress", "collected_events", "waiters"]):
        da = sum(v[i] for v in ca.values())
        db = sum(v[i] for v in cb.values())
        if da != db or any(ca[k][i] != cb.get(k, (0, 0, 0, 0))[i] for k in ca):
            return nm + ("_removed" if db < da else "_added" if db > da else "_moved")
    return "content"


def _c11_delta(a: Any, b: Any) -> str:
    ca, cb = _c11_counts(a), _c11_counts(b)
    ds = [f"step {k}: (queued, in progress, collected, waiters) {ca[k]} -> {cb.get(k)}" for k in ca if ca[k] != cb.get(k)]
    if a.is_running != b.is_running:
        ds.append(f"is_running {a.is_running} -> {b.is_running}")
    return "; ".join(ds[:4]) or "same counts, different content"


def _c11_dict_delta(live: dict, got: dict) -> str:
    ds = []
    if live.get("is_running") != got.get("is_running"):
        ds.append(f"is_running engine={live.get('is_running')} to_dict={got.get('is_running')}")
    for k, w in (live.get("workers") or {}).items():
        g = (got.get("workers") or {}).get(k) or {}
        x = (len(w.get("queue", [])), len(w.get("in_progress", [])))
        y = (len(g.get("queue", [])), len(g.get("in_progress", [])))
        if x != y:
            ds.append(f"step {k}: (queued, in progress) engine={x} to_dict={y}")
    return "; ".join(ds[:4]) or "same counts, different content"


def mon_c11(tr: Trace, every: int = 1) -> list[Violation]:
    from workflows.runtime import control_loop as CL
    from . import live

    out: list[Violation] = []
    calls = _runner_calls(tr)
    if not calls:
        return out
    if tr.outcome[0] == "runaway":
        every = max(every, 50)  # a self-feeding run cut by the harness after MAX_CALLS ticks: sample the comparison points
    # the state the run was started from is the input of its first reducer call (normally the rewind); a runner that skips the
    # rewind is compared all the same: rebuild_state_from_ticks rewinds on its own
    init = calls[0].before
    # the live state moves only by reducing ticks that are recorded: what each reduction is handed is what the previous one
    # returned (else, at the point between the two, the engine held a state that no replay of the log so far reproduces)
    held = None
    for n, c in enumerate(calls):
        if held is not None and c.before is not held:
            a, b = state_sans_time(held), state_sans_time(c.before)
            if a != b:
                out.append(Violation("C11/live_state_changed_without_tick:" + _c11_facet(held, c.before),
                                     f"after {max(n - 1, 0)} recorded ticks the engine's state was changed outside the reducer, with no tick "
                                     f"recorded: {_c11_delta(held, c.before)}; the tick log replays to the state before that change", _replay(tr)))
                break
        held = c.after if c.error is None else c.before
    if calls[0].kind != "rewind":
        calls = [calls[0]] + calls
    ticks: list = []
    live._ACTIVE.append(live.Run({"steps": []}, __import__("random").Random(0)))  # swallow recordings of the replays
    try:
        for k, c in enumerate(calls[1:]):
            if c.error is not None:
                break
            ticks.append(c.tick)
            if k % every != 0 and k != len(calls) - 2:
                continue
            try:
                rebuilt = CL.rebuild_state_from_ticks(init, list(ticks))
            except Exception as e:
                out.append(Violation("C11/replay_raises", f"rebuild_state_from_ticks raised {type(e).__name__}: {e} after {len(ticks)} ticks", _replay(tr)))
                break
            a, b = state_sans_time(rebuilt), state_sans_time(c.after)
            if a != b:
                out.append(Violation("C11/replay_differs", f"state rebuilt from {len(ticks)} recorded ticks differs from the live state", _replay(tr)))
                break
    finally:
        live._ACTIVE.pop()
    # the adapter's tick log is exactly the processed ticks
    if tr.handler is not None:
        try:
            logged = tr.handler._external_adapter.replay()
            done = [c.tick for c in calls[1:] if c.error is None]
            if len(logged) != len(done) or any(x is not y for x, y in zip(logged, done)):
                out.append(Violation("C11/tick_log_incomplete", f"adapter tick log has {len(logged)} ticks, runner processed {len(done)}", _replay(tr)))
        except Exception:
            pass
    for snap in tr.snapshots:
        k = snap["at_call"]
        prior = [c for c in tr.calls[:k] if c.caller in ("run", "_process_tick") and c.after is not None]
        if not prior:
            continue
        live_state = prior[-1].after
        from workflows.context.serializers import JsonSerializer
        import json

        want = json.loads(json.dumps(live_state.to_serialized(JsonSerializer()).model_dump(mode="python"), default=str))
        got = snap["dict"]
        def strip(d: dict) -> dict:
            d = json.loads(json.dumps(d, default=str))
            for w in d.get("workers", {}).values():
                # timestamps aside: queued attempts and the attempt records kept in waiters
                for a in list(w.get("queue", [])) + list(w.get("collected_waiters", [])):
                    a["first_attempt_at"] = None
                    a["last_failed_at"] = None
            d.pop("state", None)
            return d
        if strip(want) != strip(got):
            out.append(Violation("C11/to_dict_differs_from_live", "ctx.to_dict() of a live handler does not describe the live run state", _replay(tr)))
        elif snap.get("live") is not None and strip(snap["live"]) != strip(got):
            # ... nor the state the engine itself held at the moment of the call (read off the runner, not off the reducer's last output)
            out.append(Violation("C11/to_dict_differs_from_live", "ctx.to_dict() of a live handler does not describe the state the engine "
                                 "holds at that moment: " + _c11_dict_delta(strip(snap["live"]), strip(got)), _replay(tr)))
    return out


# ------------------------------------------------------------------ C02

def _c02_turn_end(tick: Any, cmds: list) -> str:
    """how the invocation whose result tick this is ended its turn (read off the tick's INPUT, the result list, and the
    commands of that reduction)"""
    if not isinstance(tick, T.TickStepResult):
        return type(tick).__name__
    rs = tick.result
    if any(isinstance(r, R.StepWorkerResult) for r in rs):
        return "completed"
    if any(isinstance(r, R.StepWorkerFailed) for r in rs):
        qs = [k for k in cmds if isinstance(k, C.CommandQueueEvent)]
        if any(type(k.event).__name__ == "StepFailedEvent" for k in qs):
            return "failed_routed_to_handler"
        if qs:
            return "failed_retry_scheduled"
        return "failed"
    if any(isinstance(r, R.AddWaiter) for r in rs):
        return "suspended_in_wait"
    if any(isinstance(r, R.AddCollectedEvent) for r in rs):
        return "collecting"
    return "no_result"


def c02_pair_handover(before: Any, tick: Any, after: Any, cmds: list) -> list[tuple[str, str]]:
    """the same rule on ONE reduction of the pure reducer (direct (state, tick) pairs): the pre-state holds queued events
    only for steps whose workers are all taken; unless the tick ends the run, so does the result -- a slot the tick freed
    goes to the head of that step's queue in the same reduction, whatever made the invocation give the slot back"""
    if after is None or _is_exit(cmds):
        return []
    if any(ws.queue and len(ws.in_progress) < ws.config.num_workers for ws in before.workers.values()):
        return []  # not a state a run can be in (the generator also emits those)
    for name, ws in after.workers.items():
        if ws.queue and len(ws.in_progress) < ws.config.num_workers:
            started = [k for k in cmds if isinstance(k, C.CommandRunWorker) and k.step_name == name]
            how = _c02_turn_end(tick, cmds) if isinstance(tick, T.TickStepResult) and tick.step_name == name else "other_tick"
            return [(f"C02/accepted_event_not_handed_to_step_with_free_worker:after_{how}",
                     f"{type(tick).__name__} leaves {len(ws.queue)} accepted event(s) in the queue of step {name} with {len(ws.in_progress)} of "
                     f"{ws.config.num_workers} worker(s) taken ({len(before.workers[name].queue)} queued, {len(before.workers[name].in_progress)} running before; "
                     f"{len(started)} started by this tick)")]
    return []


def _c02_handover(tr: Trace, accepted: list[tuple]) -> list[Violation]:
    """C02 'is handed exactly once to every step whose accepted type is the event's type ... unless the run ends first':
    the routing rule (c) says WHO is owed the event; this rule says the delivery is made.  Everything is recomputed from
    the reducer's inputs and outputs, not from its queue/in_progress tables: a delivery is owed from the add-event tick on
    (recipients from the static graph), it is made by the CommandRunWorker that starts the step on that event, and a
    worker of a step is busy from the CommandRunWorker that starts an invocation until that invocation's result tick is
    reduced (counted per step, independent of worker ids).  After every reduction that does not end the run, an owed
    delivery of a step with a free worker is a lost event: nothing further has to happen for that step, so nothing will
    hand the event over (it would take an unrelated later tick)."""
    if tr.spec.get("_resumed") or any(c.kind == "rewind" and any(isinstance(k, C.CommandRunWorker) for k in c.cmds) for c in tr.calls):
        return []  # a resumed run starts with deliveries owed by the previous run: not tracked here
    nw = _nw(tr)
    owed_at: dict[int, list] = {}
    for (c, name, e) in accepted:
        owed_at.setdefault(id(c), []).append((name, e))
    owed: list[list] = []  # [step, event, index of the add-event reduction]
    busy: dict[str, int] = {}  # invocations started and not yet reported back, per step (a count: independent of the worker ids)
    calls = _runner_calls(tr)
    for i, c in enumerate(calls):
        if c.kind != "reduce" or c.error is not None or c.after is None:
            continue
        if isinstance(c.tick, T.TickStepResult):
            busy[c.tick.step_name] = busy.get(c.tick.step_name, 0) - 1
        for (name, e) in owed_at.get(id(c), []):
            owed.append([name, e, i])
        for k in c.cmds:
            if isinstance(k, C.CommandRunWorker):
                busy[k.step_name] = busy.get(k.step_name, 0) + 1
                hit = next((o for o in owed if o[0] == k.step_name and o[1] is k.event), None)
                if hit is not None:
                    owed.remove(hit)
        if _is_exit(c.cmds):
            break  # the run ends here (a stuck run: with the harness's own cancel)
        for (name, e, at) in owed:
            if busy.get(name, 0) < nw.get(name, 4):
                how = _c02_turn_end(c.tick, c.cmds)
                same = isinstance(c.tick, T.TickStepResult) and c.tick.step_name == name
                return [Violation(f"C02/accepted_event_not_handed_to_step_with_free_worker:after_{how if same else 'other_tick'}",
                                  f"event uid={getattr(e, 'uid', None)} T{ET.TY_ID.get(type(e))} was accepted for step {name} by reduction #{at} (add-event tick) and is "
                                  f"still not handed to it after reduction #{i} ({type(c.tick).__name__}"
                                  + (f" of {c.tick.step_name} worker {c.tick.worker_id}: the invocation {how.replace('_', ' ')}" if isinstance(c.tick, T.TickStepResult) else "")
                                  + f"), although only {busy.get(name, 0)} of the step's {nw.get(name, 4)} worker(s) are busy and the run goes on", _replay(tr))]
    # the same, end to end on the step bodies: the run went quiescent (nothing runnable, no timer, no terminal event) with an
    # accepted event that never entered its step while the step had a free worker
    if any("stuck: cancelled by harness" in n for n in tr.notes) and not any(s.get("sync") for s in tr.spec["steps"]):
        stuck_steps = getattr(tr, "stuck_at", (len(tr.calls), 0))
        entered: set = set()
        live: dict[str, int] = {}
        for rec in tr.steps:
            if rec[0] == "enter":
                entered.add((rec[1], repr(rec[2])))
                live[rec[1]] = live.get(rec[1], 0) + 1
            elif rec[0] == "exit":
                if rec[5].get("status") == "cancelled":
                    continue  # cancelled by the harness when it ended the stuck run: it was live until then
                live[rec[1]] = live.get(rec[1], 0) - 1
        for (name, e, at) in owed:
            uid = ("sfe", e.step_name, getattr(e.input_event, "uid", None), e.attempts) if type(e).__name__ == "StepFailedEvent" else getattr(e, "uid", None)
            if (name, repr(uid)) not in entered and live.get(name, 0) < nw.get(name, 4):
                return [Violation("C02/accepted_event_never_entered_idle_step",
                                  f"the run went quiescent with event uid={uid} accepted for step {name} (reduction #{at}) that never entered the step, "
                                  f"while {live.get(name, 0)} of its {nw.get(name, 4)} worker(s) were running", _replay(tr))]
    return []



def mon_c02(tr: Trace) -> list[Violation]:
    out: list[Violation] = []
    accepts = {s["name"]: set(s["accepts"]) for s in tr.spec["steps"]}
    scripts = {s["name"]: s["script"] for s in tr.spec["steps"]}
    # (a) never delivered to a step that does not accept it
    for rec in tr.steps:
        if rec[0] == "enter":
            ty = rec[5].get("ty", -1)
            if ty not in accepts.get(rec[1], set()):
                out.append(Violation("C02/delivered_to_non_accepting_step", f"{rec[1]} was invoked with an event of type T{ty} it does not accept", _replay(tr)))
                return out
    # (b) every ctx.send_event reaches the mailbox once, with its target
    put_by_uid: dict[int, list] = {}
    for (tick, _k, _o) in tr.puts:
        if isinstance(tick, T.TickAddEvent):
            put_by_uid.setdefault(getattr(tick.event, "uid", -1), []).append(tick)
    finished_steps = {(r[1], r[2], r[3]) for r in tr.steps if r[0] == "exit" and r[5].get("status") in ("ok",) or (r[0] == "exit" and str(r[5].get("status", "")).startswith("raise"))}
    for rec in tr.steps:
        if rec[0] != "sent":
            continue
        if (rec[1], rec[2], rec[3]) not in finished_steps:
            continue  # the step was cancelled before its background sends were flushed
        puts = put_by_uid.get(rec[5]["new_uid"], [])
        if len(puts) != 1:
            out.append(Violation("C02/send_event_put_count", f"ctx.send_event of uid {rec[5]['new_uid']} reached the mailbox {len(puts)} times", _replay(tr)))
        elif puts[0].step_name != rec[5]["target"] or ET.TY_ID.get(type(puts[0].event)) != rec[5]["ty"]:
            out.append(Violation("C02/send_event_target_lost", f"ctx.send_event(step={rec[5]['target']}) arrived addressed to {puts[0].step_name}", _replay(tr)))
    # (c) per add-event tick: the set of steps that get the event is exactly the accepting (or addressed) ones,
    #     each once; a step with a matching waiter gets its original event replayed instead; else UnhandledEvent once
    accepted: list[tuple] = []  # (reducer call, step, event): the deliveries the routing rule owes, from the static graph
    for c in _runner_calls(tr):
        if not isinstance(c.tick, T.TickAddEvent) or c.error is not None:
            continue
        e = c.tick.event
        ty = ET.TY_ID.get(type(e))
        tgt = c.tick.step_name
        placed: dict[str, int] = {}
        replayed: dict[str, int] = {}
        for name, ws in c.after.workers.items():
            before = c.before.workers[name]
            def ident(x: Any) -> tuple:
                return (id(x.event),)
            b_ids = [id(a.event) for a in before.queue] + [id(i.event) for i in before.in_progress]
            a_ids = [id(a.event) for a in ws.queue] + [id(i.event) for i in ws.in_progress]
            placed[name] = a_ids.count(id(e)) - b_ids.count(id(e))
            replayed[name] = (len(a_ids) - len(b_ids)) - placed[name]
        woken = set()
        for name in c.before.workers:
            if tgt is not None and tgt != name:
                continue
            for w in c.before.workers[name].collected_waiters:
                if w.resolved_event is None and not w.timed_out and type(e) is w.waiting_for_event and all(getattr(e, k, None) == v for k, v in w.requirements.items()):
                    woken.add(name)
        resolved_now = set()
        for name, ws in c.after.workers.items():
            before_ws = {w.waiter_id: w for w in c.before.workers[name].collected_waiters}
            for w in ws.collected_waiters:
                b = before_ws.get(w.waiter_id)
                if w.resolved_event is e and (b is None or b.resolved_event is not e):
                    resolved_now.add(name)
        if resolved_now != woken:
            out.append(Violation("C02/waiter_resolution_mismatch", f"event T{ty} (target={tgt}) resolved waiters of {sorted(resolved_now)}, "
                                 f"expected {sorted(woken)}", _replay(tr)))
            return out
        expect = {n for n, acc in accepts.items() if ty in acc and (tgt is None or tgt == n)} - woken
        got = {n for n, k in placed.items() if k > 0}
        if any(k > 1 for k in placed.values()):
            out.append(Violation("C02/delivered_twice", f"event uid={getattr(e, 'uid', None)} was handed to a step more than once by one tick: {placed}", _replay(tr)))
        elif got != expect:
            out.append(Violation("C02/wrong_recipients", f"event T{ty} (target={tgt}) went to {sorted(got)}, expected {sorted(expect)} (waiters woken: {sorted(woken)})", _replay(tr)))
        unhandled = [x for x in c.cmds if isinstance(x, C.CommandPublishEvent) and isinstance(x.event, UnhandledEvent)]
        should = (not expect and not woken and not isinstance(e, InputRequiredEvent))
        if len(unhandled) != (1 if should else 0):
            out.append(Violation("C02/unhandled_event_report", f"event T{ty} accepted by {sorted(expect | woken)}: UnhandledEvent published {len(unhandled)} times", _replay(tr)))
        if out:
            return out
        accepted += [(c, n, e) for n in sorted(expect)]
    # (g) ... and every delivery owed is MADE: the event is handed to the step (its invocation is started) as soon as the
    #     step has a free worker, unless the run ends first
    out += _c02_handover(tr, accepted)
    if out:
        return out
    # (e) waits registered with an auto-generated waiter id, tracked from the reducer's INPUTS (what the step
    #     invocations asked for) rather than from the waiter table: an invocation that is still waiting for
    #     (type, requirements) gets a matching event as its wait result
    pending: dict[tuple, tuple] = {}  # (step, input uid) -> (waiter id, type, requirements)
    if not tr.spec.get("_resumed"):
        for c in _runner_calls(tr):
            if c.error is not None or c.after is None:
                continue
            if isinstance(c.tick, T.TickStepResult):
                key = (c.tick.step_name, getattr(c.tick.event, "uid", None))
                for r in c.tick.result:
                    if isinstance(r, R.AddWaiter) and str(r.waiter_id).startswith("waiter_"):
                        pending[key] = (r.waiter_id, r.event_type, dict(r.requirements))
                    elif isinstance(r, R.DeleteWaiter) and key in pending and pending[key][0] == r.waiter_id:
                        del pending[key]
                    elif isinstance(r, (R.StepWorkerResult, R.StepWorkerFailed)):
                        pending.pop(key, None)
            elif isinstance(c.tick, T.TickWaiterTimeout):
                for k in [k for k, v in pending.items() if k[0] == c.tick.step_name and v[0] == c.tick.waiter_id]:
                    del pending[k]
            elif isinstance(c.tick, T.TickAddEvent):
                e, tgt = c.tick.event, c.tick.step_name
                want = {k for k, (wid, wty, req) in pending.items() if type(e) is wty and (tgt is None or tgt == k[0])
                        and all(getattr(e, a, None) == v for a, v in req.items())}
                for (name, uid) in sorted(want, key=repr):
                    got = [w for w in c.after.workers[name].collected_waiters if w.resolved_event is e]
                    if not got:
                        out.append(Violation("C02/waiting_invocation_not_woken",
                                             f"step {name} (input {uid}) waits for T{ET.TY_ID.get(type(e))} {pending[(name, uid)][2]}; matching event uid={getattr(e, 'uid', None)} "
                                             f"was not handed to it as its wait result", _replay(tr)))
                        return out
                for name, ws in c.after.workers.items():
                    done = {w.waiter_id for w in ws.collected_waiters if w.resolved_event is not None}
                    for k in [k for k, v in pending.items() if k[0] == name and v[0] in done]:
                        del pending[k]
            elif isinstance(c.tick, (T.TickCancelRun, T.TickTimeout)):
                pending.clear()
    # (f) every execution of a step that returned or raised hands its result to the control loop: when the run got stuck
    #     (nothing runnable, no timer, no terminal event), an execution whose result tick was never processed means what
    #     it returned was dropped on the way (the run did not "end first": it never ended)
    if any("stuck: cancelled by harness" in n for n in tr.notes):
        stuck_call = getattr(tr, "stuck_at", (len(tr.calls), 0))[0]
        done_execs: dict[tuple, int] = {}
        for rec in tr.steps:
            if rec[0] == "exit" and rec[4] != -1.0 and (rec[5].get("status") == "ok" or str(rec[5].get("status", "")).startswith("raise:")):
                done_execs[(rec[1], repr(rec[2]))] = done_execs.get((rec[1], repr(rec[2])), 0) + 1
        seen_ticks: dict[tuple, int] = {}
        for c in tr.calls[:stuck_call]:
            if c.kind == "reduce" and isinstance(c.tick, T.TickStepResult):
                ev = c.tick.event
                key = (c.tick.step_name, repr(("sfe", ev.step_name, getattr(ev.input_event, "uid", None), ev.attempts) if type(ev).__name__ == "StepFailedEvent"
                                              else getattr(ev, "uid", None)))
                seen_ticks[key] = seen_ticks.get(key, 0) + 1
        for key, n in sorted(done_execs.items()):
            if seen_ticks.get(key, 0) < n and not any(r[0] == "exit" and r[1] == key[0] and repr(r[2]) == key[1] and r[5].get("status") == "cancelled" for r in tr.steps):
                out.append(Violation("C02/step_result_never_processed", f"step {key[0]} finished {n} execution(s) for input {key[1]} but only {seen_ticks.get(key, 0)} result tick(s) "
                                     f"reached the reducer before the run got stuck: what it returned was never handed on", _replay(tr)))
                return out
    # (d) outputs of steps are re-queued exactly once (unless the run ends first)
    for c in _runner_calls(tr):
        if not isinstance(c.tick, T.TickStepResult) or c.error is not None:
            continue
        for r in c.tick.result:
            if isinstance(r, R.StepWorkerResult) and r.result is not None and not isinstance(r.result, StopEvent):
                qs = [x for x in c.cmds if isinstance(x, C.CommandQueueEvent) and x.event is r.result]
                if len(qs) != 1 and not _is_exit(c.cmds):
                    out.append(Violation("C02/output_not_requeued_once", f"step output uid={getattr(r.result, 'uid', None)} queued {len(qs)} times", _replay(tr)))
    return out


# ------------------------------------------------------------------ C05 / C06


def _budget(pol: dict | None) -> int | None:
    if pol is None:
        return 1
    if pol["kind"] in ("attempts", "chain", "chain_exp", "legacy", "incr", "exp"):
        return max(pol["n"], 1)
    return None


def _lineages(tr: Trace) -> dict[tuple, list]:
    """executions per (step, input uid): list of (retry_number, enter_time, exit_time, exit_status, retry_info)"""
    runs: dict[tuple, list] = {}
    open_: dict[tuple, list] = {}
    for rec in tr.steps:
        kind, step, uid, rn, vt, info = rec
        key = (step, repr(uid))
        if kind == "enter":
            open_.setdefault(key, []).append([rn, vt, None, None, info.get("retry_info")])
        elif kind == "exit":
            lst = open_.get(key)
            if lst:
                ent = lst.pop(0)
                ent[2], ent[3] = vt, info.get("status")
                runs.setdefault(key, []).append(ent)
    return runs


def mon_c05(tr: Trace) -> list[Violation]:
    out: list[Violation] = []
    sdefs = {s["name"]: s for s in tr.spec["steps"]}
    lin = _lineages(tr)
    failed_pubs = [(e, i) for i, (e, *_r) in enumerate(tr.stream) if isinstance(e, WorkflowFailedEvent)]
    for (step, uid), execs in lin.items():
        sd = sdefs.get(step)
        if sd is None or sd.get("sync"):
            continue
        ops = [a[0] for a in sd["script"]]
        if any(o in ops for o in ("collect", "wait")):
            # re-runs of collect (stale snapshot) and wait replays are not retries: they keep the retry number.
            # The number may therefore repeat, but along one input event it never goes back.
            rns0 = [e[0] for e in execs]
            if any(b < a for a, b in zip(rns0, rns0[1:])):
                out.append(Violation("C05/retry_number_went_back", f"{step} uid={uid}: retry_info().retry_number sequence {rns0} (a re-run lost the invocation's retry count)", _replay(tr)))
                continue
            # (a waiter id shared by several invocations of the step is ONE waiter entry — the later AddWaiter replaces the
            # earlier one and a stale timeout of the earlier registration replays the later invocation a second time —
            # outside "one invocation, its own wait": only steps whose waiter ids are unshared are accounted)
            shared_wid = any(k[0] == step and len(v) > 1 for k, v in c10_waiter_users(tr).items())
            if "collect" not in ops and not tr.spec.get("_resumed") and not tr.spec.get("eq_events") and not shared_wid:
                # a waiting step: a suspension (WaitingForEvent) is not an attempt and its replay continues the invocation,
                # so every execution runs with retry_number = failed executions of this invocation so far, and a retry
                # (also one that follows a replay) sees the exception of the last failed execution
                failures = 0
                last_exc = None
                ret_bad = any(a[0] == "ret" and a[1] == "bad" for a in sd["script"])  # a non-event return value fails the step
                for e in execs:
                    st = e[3] or ""
                    if ret_bad and st == "ok":
                        st = "raise:bad-return"
                    ri = e[4] or {}
                    if e[0] != failures:
                        out.append(Violation("C05/retry_number_across_wait", f"{step} uid={uid}: an execution ran with retry_number {e[0]} after {failures} failed "
                                             f"execution(s) of this invocation (statuses {[x[3] for x in execs]}, numbers {rns0})", _replay(tr)))
                        break
                    if failures and last_exc is not None and last_exc.startswith("raise:Boom") and ri.get("last_exc") is None:
                        out.append(Violation("C05/retry_info_exception_across_wait", f"{step} uid={uid}: retry {e[0]} reports no last_exception after {last_exc}", _replay(tr)))
                        break
                    if st.startswith("raise:") and st != "raise:WaitingForEvent":
                        failures += 1
                        last_exc = st
                # the WorkflowFailedEvent of this invocation reports every failed execution, those before the wait included
                if failed_pubs and failed_pubs[0][0].step_name == step and all(x[2] is not None for x in execs):
                    mine = [k for k, ex in lin.items() if k[0] == step and ex and ex[-1][3] != "raise:WaitingForEvent" and
                            ((ex[-1][3] or "").startswith("raise:") or (ret_bad and ex[-1][3] == "ok"))]
                    if mine == [(step, uid)] and failed_pubs[0][0].attempts != failures:
                        out.append(Violation("C05/reported_attempts_across_wait", f"WorkflowFailedEvent.attempts={failed_pubs[0][0].attempts} but {step} uid={uid} "
                                             f"failed {failures} times (statuses {[x[3] for x in execs]})", _replay(tr)))
            continue
        # retry numbers are 0,1,2,... and each retry sees the previous attempt's exception
        rns = [e[0] for e in execs]
        if rns != list(range(len(rns))):
            out.append(Violation("C05/retry_numbers", f"{step} uid={uid}: retry_info().retry_number sequence {rns}", _replay(tr)))
            continue
        for i, e in enumerate(execs):
            ri = e[4] or {}
            if i == 0 and (ri.get("last_exc") is not None):
                out.append(Violation("C05/first_attempt_has_exception", f"{step}: first attempt reports last_exception={ri.get('last_exc')}", _replay(tr)))
            if i > 0:
                prev = execs[i - 1][3] or ""
                if prev.startswith("raise:Boom"):
                    fa = [a for a in sd["script"] if a[0] in ("fail_until", "fail_always", "fail_on_k")]
                    want = f"e{fa[0][2] if fa[0][0] != 'fail_always' else fa[0][1]}" if fa else None
                    if want is not None and ri.get("last_exc") != want:
                        out.append(Violation("C05/retry_info_exception", f"{step}: retry {i} reports last_exception={ri.get('last_exc')}, previous attempt raised {want}", _replay(tr)))
        # attempt budget
        budget = _budget(sd.get("retry"))
        fa = [a for a in sd["script"] if a[0] in ("fail_until", "fail_always")]
        all_failed = all((e[3] or "").startswith("raise:Boom") for e in execs)
        done = all(e[2] is not None for e in execs)
        if budget is not None and fa and done and ops.count("gate") == 0 and "sleep" not in ops:
            ret_bad = any(a[0] == "ret" and a[1] == "bad" for a in sd["script"])
            if fa[0][0] == "fail_always" or ret_bad:
                expect = budget
            else:
                expect = fa[0][1] + 1 if fa[0][1] < budget else budget
            # "runaway"/"aborted": the harness itself cut a self-feeding run short
            run_over = tr.outcome[0] in ("cancelled", "timeout", "runaway", "aborted") or tr.outcome[0] == "error" and len(execs) < expect
            if len(execs) > expect or (len(execs) < expect and not run_over and tr.outcome[0] not in ("result", "error")):
                out.append(Violation("C05/attempt_budget", f"{step} uid={uid}: executed {len(execs)} times, policy {sd.get('retry')} allows exactly {expect}", _replay(tr)))
        # reported attempts / elapsed in WorkflowFailedEvent
        if all_failed and done and failed_pubs and failed_pubs[0][0].step_name == step:
            fe = failed_pubs[0][0]
            # the lineage that failed the run is the one whose last failure is the latest (it must be unique)
            cands = sorted(((ex[-1][2], k) for k, ex in lin.items() if k[0] == step and all(x[2] is not None for x in ex)
                            and all((x[3] or "").startswith("raise:") for x in ex)), key=lambda t: t[0])
            last_fail = cands[-1]
            unique = len(cands) == 1 or cands[-2][0] < cands[-1][0]
            if last_fail[1] == (step, uid) and unique:
                if fe.attempts != len(execs):
                    out.append(Violation("C05/reported_attempts", f"WorkflowFailedEvent.attempts={fe.attempts} but {step} was executed {len(execs)} times", _replay(tr)))
                real = execs[-1][2] - execs[0][1]
                if abs(fe.elapsed_seconds - real) > 1e-6:
                    out.append(Violation("C05/reported_elapsed", f"WorkflowFailedEvent.elapsed_seconds={fe.elapsed_seconds} but {real} virtual seconds elapsed between the first attempt and the last failure", _replay(tr)))
        # stop_after_delay: retried exactly while really-elapsed < d
        pol = sd.get("retry")
        if pol and pol["kind"] == "delay" and fa and fa[0][0] == "fail_always" and done and ops.count("gate") == 0:
            d = pol["d"]
            for i, e in enumerate(execs):
                elapsed = e[2] - execs[0][1]
                is_last = i == len(execs) - 1
                gave_up = any(isinstance(c.tick, T.TickStepResult) and c.tick.step_name == step and c.error is None and
                              repr(getattr(c.tick.event, "uid", None)) == uid and
                              any(isinstance(r, R.StepWorkerFailed) for r in c.tick.result) and
                              not any(isinstance(x, C.CommandQueueEvent) and x.attempts for x in c.cmds)
                              for c in _runner_calls(tr))
                if elapsed < d and is_last and gave_up:
                    out.append(Violation("C05/stop_after_delay_early", f"{step}: gave up after {elapsed}s < stop_after_delay({d})", _replay(tr)))
                if elapsed >= d and not is_last:
                    out.append(Violation("C05/stop_after_delay_late", f"{step}: retried although {elapsed}s >= stop_after_delay({d}) had elapsed", _replay(tr)))
    return out


C06_KINDS = ("attempts", "chain", "chain_exp", "legacy", "delay", "incr", "exp")


def c06_documented(pol: dict, k: int) -> tuple[float, float]:
    """(documented, code_index) for the k-th retry (k >= 1) of a policy spec, recomputed from the spec's numbers alone:
    `documented` = what the wait strategy documents for that retry (tenacity's numbering, which the module mirrors: the
    k-th retry uses index k-1: first link of a chain, `start` of wait_incrementing, `multiplier` of wait_exponential);
    `code_index` = the value at index k, which the engine is known to use (open finding retry_delay_index_off_by_one)."""
    kind = pol["kind"]
    if kind == "chain":
        ws = pol["waits"]
        return ws[min(k - 1, len(ws) - 1)], ws[min(k, len(ws) - 1)]
    if kind == "chain_exp":
        # documented (0-based index k-1): first, then min(2**(k-1), 64); the engine passes index k
        return (pol["first"] if k - 1 == 0 else min(2 ** (k - 1), 64)), min(2 ** k, 64)
    if kind == "incr":
        def f(i: int) -> float:
            return max(0, min(pol.get("start", 0) + pol["inc"] * i, pol.get("max", 1000)))
        return f(k - 1), f(k)
    if kind == "exp":
        def g(i: int) -> float:
            return max(0, min(pol.get("mult", 1) * pol.get("base", 2) ** i, pol.get("max", 64)))
        return g(k - 1), g(k)
    w = pol.get("wait", 0)
    return w, w


def c06_invocations(tr: Trace) -> dict[tuple, list[dict]]:
    """executions per invocation (step, input uid), in order: {rn, enter, exit, status, collect_calls}"""
    runs: dict[tuple, list[dict]] = {}
    open_: dict[tuple, list[dict]] = {}
    for rec in tr.steps:
        kind, step, uid, rn, vt, info = rec
        key = (step, repr(uid))
        if kind == "enter":
            e = {"rn": rn, "enter": vt, "exit": None, "status": None, "collect_calls": []}
            open_.setdefault(key, []).append(e)
            runs.setdefault(key, []).append(e)
        elif kind == "collect_call":
            if open_.get(key):
                open_[key][-1]["collect_calls"].append(info)
        elif kind == "exit":
            if open_.get(key):
                e = open_[key].pop(0)
                e["exit"], e["status"] = vt, info.get("status")
    return runs


def c06_rerun_shapes(tr: Trace) -> list[str]:
    """input-distribution labels: collect re-runs of retried invocations and failures that follow them"""
    out: list[str] = []
    sdefs = {s["name"]: s for s in tr.spec["steps"]}
    for (step, _uid), execs in c06_invocations(tr).items():
        sd = sdefs.get(step) or {}
        if not sd.get("retry") or "collect" not in [a[0] for a in sd["script"]]:
            continue
        f = rr = 0
        for j, e in enumerate(execs):
            st = e["status"] or ""
            if st.startswith("raise:"):
                f += 1
                if rr and j + 1 < len(execs):
                    out.append(f"failure_{min(f, 4)}_after_rerun_retried:{sd['retry']['kind']}")
            elif e["exit"] is not None and st == "ok" and j + 1 < len(execs):
                rr += 1
                out.append(f"rerun_after_{min(f, 3)}_failures")
    return out


def mon_c06(tr: Trace) -> list[Violation]:
    out: list[Violation] = []
    sdefs = {s["name"]: s for s in tr.spec["steps"]}
    for (step, uid), execs in _lineages(tr).items():
        sd = sdefs.get(step)
        pol = (sd or {}).get("retry")
        if sd is None or pol is None or pol["kind"] not in C06_KINDS:
            continue
        ops = [a[0] for a in sd["script"]]
        if any(o in ops for o in ("collect", "wait")):
            continue
        for k in range(1, len(execs)):
            prev_fail, start = execs[k - 1][2], execs[k][1]
            if prev_fail is None:
                continue
            documented, code_index = c06_documented(pol, k)
            gap = start - prev_fail
            if gap + 1e-9 < documented:
                if abs(gap - code_index) < 1e-9 or gap >= code_index:
                    out.append(Violation("C06/retry_delay_index_off_by_one", f"{step}: retry {k} started {gap}s after the failure; the strategy documents {documented}s for this retry (the engine used the value for index {k})", _replay(tr)))
                else:
                    out.append(Violation("C06/retry_too_early", f"{step}: retry {k} started {gap}s after the failure, before the {documented}s delay (policy {pol})", _replay(tr)))
    out += _c06_collecting(tr, sdefs)
    out += _c06_failure_numbers(tr, sdefs)
    return out


def _c06_collecting(tr: Trace, sdefs: dict) -> list[Violation]:
    """Steps that call collect_events.  An invocation whose collect_events call met a stale snapshot is run again by the
    control loop although nothing failed: that execution is not a retry.  Retries are numbered by the FAILURES of the
    invocation (its input event): the execution that follows failure k is retry k and starts no earlier than the delay
    documented for retry k after that failure -- however many re-runs happened in between.  Everything is read off the
    inputs: virtual-clock timestamps of the successive executions of one event and the policy's numbers in the spec."""
    out: list[Violation] = []
    for (step, uid), execs in c06_invocations(tr).items():
        sd = sdefs.get(step)
        pol = (sd or {}).get("retry")
        if sd is None or sd.get("sync") or pol is None or pol["kind"] not in C06_KINDS:
            continue
        ops = [a[0] for a in sd["script"]]
        if "collect" not in ops or "wait" in ops:
            continue
        failures = 0
        reruns = 0
        for i, e in enumerate(execs):
            st = e["status"] or ""
            nxt = execs[i + 1] if i + 1 < len(execs) else None
            if e["exit"] is None or st == "cancelled":
                break
            if not st.startswith("raise:"):
                if nxt is not None:
                    reruns += 1  # ended without a failure and was run again: a collect re-run
                continue
            failures += 1
            if e["collect_calls"]:
                # the failure came after a collect_events call of the same execution: its result carries the collect
                # result AND the failure; which of the two following executions is "the retry" is not decidable here
                break
            if nxt is None:
                continue
            gap = nxt["enter"] - e["exit"]
            documented, code_index = c06_documented(pol, failures)
            if gap + 1e-9 < documented:
                if abs(gap - code_index) < 1e-9 or gap >= code_index:
                    out.append(Violation("C06/retry_delay_index_off_by_one", f"{step}: retry {failures} started {gap}s after the failure; the strategy documents {documented}s for this retry (the engine used the value for index {failures})", _replay(tr)))
                    continue
                # classify: whose delay was it?  (the delay of an EARLIER retry = the numbering went back)
                earlier = next((j for j in range(1, failures) if any(abs(gap - v) < 1e-9 for v in c06_documented(pol, j))), None)
                sig = ("C06/retry_too_early" + (":after_collect_rerun" if reruns else ":collecting_step") +
                       (":numbering_restarted" if earlier is not None else ""))
                hist = [(x["status"], x["enter"], x["exit"]) for x in execs[: i + 2]]
                out.append(Violation(sig, f"{step} uid={uid}: failure {failures} of this invocation at t={e['exit']} was followed by its retry {gap}s later, "
                                          f"before the {documented}s documented for retry {failures} (index the engine uses: {code_index}s)"
                                          + (f"; {gap}s is the delay of retry {earlier}" if earlier is not None else "")
                                          + f"; {reruns} collect re-run(s) of the invocation before this failure (not retries); policy {pol}; "
                                          f"executions (status, start, end): {hist}", _replay(tr)))
    return out


def _c06_failure_numbers(tr: Trace, sdefs: dict) -> list[Violation]:
    """What the wait strategy is asked: at the k-th failure of an invocation the reducer consults the step's policy
    (`next(elapsed, attempts, exc)`) for retry k, i.e. with attempts = k (1, 2, 3, ... along one input event).  Observed
    at the policy boundary (RecordingPolicy), per result tick; failures counted from the ticks themselves."""
    out: list[Violation] = []
    if tr.spec.get("_resumed") or tr.spec.get("det_uids"):
        return out
    handed: dict[tuple, list[int]] = {}
    for c in _runner_calls(tr):
        if not isinstance(c.tick, T.TickStepResult) or c.error is not None:
            continue
        nfail = sum(1 for r in c.tick.result if isinstance(r, R.StepWorkerFailed))
        if not nfail:
            continue
        key = (c.tick.step_name, repr(getattr(c.tick.event, "uid", None)))
        for o in c.oracle:
            if o[0] == c.tick.step_name:
                handed.setdefault(key, []).append(o[2])
    inv = None
    for (step, uid), nums in handed.items():
        sd = sdefs.get(step)
        if sd is None or sd.get("sync") or sd.get("retry") is None:
            continue
        ops = [a[0] for a in sd["script"]]
        if "wait" in ops:
            continue  # suspensions and replays: C05's rules (retry_number_across_wait)
        if nums != list(range(1, len(nums) + 1)):
            if inv is None:
                inv = c06_invocations(tr)
            execs = inv.get((step, uid), [])
            if any((x["status"] or "").startswith("raise:") and x["collect_calls"] for x in execs):
                continue  # a result carrying a collect result AND a failure: see _c06_collecting
            rerun = any(not (x["status"] or "").startswith("raise:") and x["exit"] is not None and x["status"] != "cancelled"
                        for x in execs[:-1])
            back = any(b <= a for a, b in zip(nums, nums[1:]))
            sig = ("C06/failure_number_handed_to_policy" + (":went_back" if back else ":skipped") +
                   (":after_collect_rerun" if ("collect" in ops and rerun) else ""))
            out.append(Violation(sig, f"{step} uid={uid}: successive failures of this invocation were handed to the retry policy as attempts {nums}, "
                                      f"expected {list(range(1, len(nums) + 1))} (the wait strategy indexes its delays by this number); "
                                      f"executions {[(x['status'], x['enter']) for x in execs]}", _replay(tr)))
    return out


# ------------------------------------------------------------------ C08


def expected_owner(spec: dict, step: str) -> str | None:
    """the property's routing rule on the static spec: scoped owner, else wildcard, never for a handler step"""
    handlers = [s for s in spec["steps"] if s.get("role") == "handler"]
    if any(h["name"] == step for h in handlers):
        return None
    for h in handlers:
        if h.get("for_steps") and step in h["for_steps"]:
            return h["name"]
    for h in handlers:
        if h.get("for_steps") is None:
            return h["name"]
    return None


def mon_c08(tr: Trace) -> list[Violation]:
    out: list[Violation] = []
    spec = tr.spec
    maxrec = {s["name"]: s.get("max_rec", 1) for s in spec["steps"] if s.get("role") == "handler"}
    disabled = bool(spec.get("disable_validation"))
    for c in _runner_calls(tr):
        if not isinstance(c.tick, T.TickStepResult) or c.error is not None:
            continue
        fails = [r for r in c.tick.result if isinstance(r, R.StepWorkerFailed)]
        if not fails:
            continue
        retried = any(isinstance(x, C.CommandQueueEvent) and x.attempts for x in c.cmds)
        if retried:
            continue
        step = c.tick.step_name
        exec_ = next((ip for ip in c.before.workers[step].in_progress if ip.worker_id == c.tick.worker_id), None)
        if exec_ is None:
            continue
        owner = expected_owner(spec, step)
        count = exec_.recovery_counts.get(owner, 0) if owner else 0
        routed = [x for x in c.cmds if isinstance(x, C.CommandQueueEvent) and type(x.event).__name__ == "StepFailedEvent"]
        failed = [x for x in c.cmds if isinstance(x, C.CommandFailWorkflow)]
        should_route = owner is not None and count + 1 <= maxrec[owner]
        if should_route:
            ok = (len(routed) == 1 and not failed and routed[0].step_name == owner and
                  routed[0].recovery_counts.get(owner) == count + 1 and
                  routed[0].event.exception is fails[0].exception and routed[0].event.step_name == step and
                  all(routed[0].recovery_counts.get(k) == v for k, v in exec_.recovery_counts.items() if k != owner))
            if not ok:
                sig = "C08/validation_disabled_no_handlers" if (disabled and not routed and not c.after.config.handler_for_step) else "C08/not_routed_to_owner"
                out.append(Violation(sig, f"exhausted failure of {step} (owner {owner}, count {count}/{maxrec[owner]}) was not routed to its handler "
                                     f"with count+1 and the other counts kept: routed={[(x.step_name, x.recovery_counts) for x in routed]} failed={bool(failed)}", _replay(tr)))
        else:
            pubs = [x for x in c.cmds if isinstance(x, C.CommandPublishEvent) and isinstance(x.event, WorkflowFailedEvent)]
            if routed or len(failed) != 1 or failed[0].exception is not fails[0].exception or len(pubs) != 1 or pubs[0].event.exception is not fails[0].exception:
                out.append(Violation("C08/not_failed_with_original_exception" + (":failure_of_handler_step" if step in maxrec else ""),
                                     f"exhausted failure of {step} with no owner/budget (owner {owner}, count {count}) "
                                     f"did not fail the run with the original exception and a WorkflowFailedEvent"
                                     + (f"; {step} is a @catch_error handler step, routed to {[x.step_name for x in routed]}" if step in maxrec and routed else ""), _replay(tr)))
    # a handler step is entered only with StepFailedEvents of steps it owns, at most max_recoveries times per lineage
    for rec in tr.steps:
        if rec[0] == "enter" and rec[1] in maxrec:
            sfe = rec[5].get("sfe")
            if sfe is None:
                out.append(Violation("C08/handler_entered_without_failure", f"handler {rec[1]} entered with a non-failure event", _replay(tr)))
            elif expected_owner(spec, sfe["step"]) != rec[1]:
                out.append(Violation("C08/wrong_handler_entered" + (":failure_of_handler_step" if sfe["step"] in maxrec else ""),
                                     f"handler {rec[1]} entered for a failure of {sfe['step']} owned by {expected_owner(spec, sfe['step'])}", _replay(tr)))
    # an invocation that suspends in wait_for_event comes back (resolution, timeout) with the recovery counts it had:
    # whatever runs or is queued for the SAME input event afterwards carries the counts recorded at the suspension
    suspended_rc: dict[int, tuple] = {}
    dropped = False
    for c in _runner_calls(tr):
        if c.after is None or c.error is not None or dropped:
            continue
        if isinstance(c.tick, T.TickStepResult) and any(isinstance(r, R.AddWaiter) for r in c.tick.result):
            ex = next((ip for ip in c.before.workers[c.tick.step_name].in_progress if ip.worker_id == c.tick.worker_id), None)
            if ex is not None:
                suspended_rc.setdefault(id(ex.event), (ex.event, c.tick.step_name, dict(ex.recovery_counts)))
        for name, ws in c.after.workers.items():
            for a in list(ws.queue) + list(ws.in_progress):
                hit = suspended_rc.get(id(a.event))
                if hit is not None and hit[0] is a.event and hit[1] == name and dict(a.recovery_counts) != hit[2]:
                    out.append(Violation("C08/wait_replay_dropped_counts", f"step {name}: the invocation suspended in wait_for_event with recovery counts {hit[2]} "
                                         f"is back with {dict(a.recovery_counts)} after {type(c.tick).__name__}", _replay(tr)))
                    dropped = True
                    break
            if dropped:
                break
    # per lineage, counted from the TRACE (not from the counts the state carries): the lineage of a failure is the chain of
    # invocations that produced its input event (each event -> the invocation that returned it OR sent it with
    # ctx.send_event -> that invocation's input, for a handler the input of the failure it handled); only events that come
    # from outside the run (start event, external sends) start a lineage.  Counted per PATH: an event accepted by two steps,
    # or an invocation that emits several events, gives branches with a budget each.
    if not spec.get("det_uids"):
        producer: dict = {}
        via_send: set = set()
        for rec in tr.steps:
            if rec[0] == "exit" and rec[5].get("ret") and rec[5]["ret"][1] is not None:
                producer[rec[5]["ret"][1]] = (rec[1], rec[2])
            elif rec[0] == "sent" and "inv" in rec[5]:
                producer[rec[5]["new_uid"]] = (rec[1], rec[5]["inv"])
                via_send.add(rec[5]["new_uid"])
        # invocations that suspended in wait_for_event (before the repair their replay was a fresh EventAttempt: classifying fact)
        suspended = {(rec[1], rec[2]) for rec in tr.steps if rec[0] == "exit" and rec[5].get("status") == "raise:WaitingForEvent"}

        def chain_of(u: Any) -> tuple[list, Any, bool]:
            """producing invocations of event `u`, nearest first; the root event; whether an edge was a ctx.send_event"""
            ch: list = []
            seen: set = set()
            sends = False
            while u in producer and u not in seen:
                seen.add(u)
                sends = sends or u in via_send
                st, inp = producer[u]
                ch.append((st, inp))
                u = inp[2] if isinstance(inp, tuple) else inp
            return ch, u, sends

        def lineage_counts(u: Any) -> tuple[dict, bool]:
            """handler entries along the path that produced event `u`, recomputed from the trace: what its recovery counts are to be"""
            ch, _r, sends = chain_of(u)
            cnt: dict = {}
            for st, _inp in ch:
                if st in maxrec:
                    cnt[st] = cnt.get(st, 0) + 1
            return cnt, sends

        def nz(d: Any) -> dict:
            return {k: v for k, v in dict(d or {}).items() if v}

        # (a) an event a step emits with ctx.send_event stays on the invocation's lineage: the tick that carries it into the
        # run has the entries counted so far (the invocation's own entry included when it is a handler)
        put_of = {getattr(getattr(t, "event", None), "uid", None): t for (t, _k, origin) in tr.puts
                  if origin == "internal" and isinstance(t, T.TickAddEvent)}
        for rec in tr.steps:
            if rec[0] == "sent" and "inv" in rec[5] and rec[5]["new_uid"] in put_of:
                want, _s = lineage_counts(rec[5]["new_uid"])
                got = nz(put_of[rec[5]["new_uid"]].recovery_counts)
                if got != want:
                    who = "handler" if rec[1] in maxrec else "step"
                    sig = ("C08/send_event_dropped_lineage_counts" if all(got.get(k, 0) <= v for k, v in want.items()) and set(got) <= set(want)
                           else "C08/send_event_wrong_lineage_counts")
                    out.append(Violation(f"{sig}:from_{who}:{'first_attempt' if rec[3] == 0 else 'retry'}",
                                         f"{who} {rec[1]} (retry_number {rec[3]}) sent event uid={rec[5]['new_uid']} with ctx.send_event; its lineage has "
                                         f"entered handlers {want} so far, the TickAddEvent carries recovery counts {got}", _replay(tr)))
                    break  # one per trace; the consequences (rules b, c) are reported too
        # (b) every exhausted failure is judged with the count of its lineage: the state's count for the owner is the number of
        # entries on the path
        for c in _runner_calls(tr):
            if not isinstance(c.tick, T.TickStepResult) or c.error is not None or not any(isinstance(r, R.StepWorkerFailed) for r in c.tick.result):
                continue
            if any(isinstance(x, C.CommandQueueEvent) and x.attempts for x in c.cmds):
                continue
            u = getattr(c.tick.event, "uid", None)
            owner = expected_owner(spec, c.tick.step_name)
            ex = next((ip for ip in c.before.workers[c.tick.step_name].in_progress if ip.worker_id == c.tick.worker_id), None)
            if u is None or owner is None or ex is None or isinstance(c.tick.event, StopEvent):
                continue
            want, sends = lineage_counts(u)
            if ex.recovery_counts.get(owner, 0) != want.get(owner, 0):
                routed = any(isinstance(x, C.CommandQueueEvent) and type(x.event).__name__ == "StepFailedEvent" for x in c.cmds)
                out.append(Violation("C08/failure_judged_with_wrong_lineage_count" + (":lineage_continued_by_send_event" if sends else "") +
                                     (":routed_beyond_budget" if routed and want.get(owner, 0) >= maxrec[owner] else ""),
                                     f"exhausted failure of {c.tick.step_name} (event uid={u}): handler {owner} (max_recoveries={maxrec[owner]}) was entered "
                                     f"{want.get(owner, 0)} times on this lineage, the invocation carries count {ex.recovery_counts.get(owner, 0)}; "
                                     f"routed to the handler: {routed}", _replay(tr)))
                break
        # (c) entries of a handler per path
        for rec in tr.steps:
            if rec[0] == "enter" and rec[1] in maxrec and isinstance(rec[2], tuple) and rec[3] == 0:
                h, fstep, fuid = rec[1], rec[2][1], rec[2][2]
                ch, r, sends = chain_of(fuid)
                n = 1 + sum(1 for st, _inp in ch if st == h)
                if n > maxrec[h]:
                    # ... the failing invocations themselves and those whose failures the handlers on the chain handled
                    waited = (fstep, fuid) in suspended or any(x in suspended or (isinstance(x[1], tuple) and (x[1][1], x[1][2]) in suspended) for x in ch)
                    sig = "C08/handler_entered_beyond_budget" + (":lineage_suspended_in_wait" if waited else "") + (":lineage_continued_by_send_event" if sends else "")
                    out.append(Violation(sig, f"handler {h} (max_recoveries={maxrec[h]}) was entered {n} times for the lineage of event {r}", _replay(tr)))
                    return out
    # per lineage: recovery counts never exceed the budget anywhere in the state
    for c in _runner_calls(tr):
        if c.after is None:
            continue
        for name, ws in c.after.workers.items():
            for a in list(ws.queue) + list(ws.in_progress) + list(ws.collected_waiters):
                for h, n in (getattr(a, "recovery_counts", None) or {}).items():
                    if n > maxrec.get(h, 10 ** 9):
                        out.append(Violation("C08/budget_exceeded", f"an attempt of {name} carries recovery count {n} for {h} (max_recoveries={maxrec.get(h)})", _replay(tr)))
                        return out
    return out


def c08_layout_rules(names: list[str], handlers: list[dict]) -> dict:
    """The documented rules for a set of @catch_error declarations, from the LAYOUT alone (decorator docstring,
    docs/.../retry_steps.md, the property's "never a handler for a handler step"): one wildcard at most; for_steps names
    existing steps; a step is listed by one scoped handler at most; a handler step (the handler itself, another scoped
    handler, the wildcard handler) cannot be covered; max_recoveries >= 1.
    `handlers`: dicts with name / for_steps (None = wildcard) / max_rec; `names`: every step name, handlers included.
    Returns the labels of the rules the layout breaks (`reject`), and whether the documents leave the layout open
    (`unspecified`: one handler listing the same step twice)."""
    kind = {h["name"]: ("wildcard" if h.get("for_steps") is None else "scoped") for h in handlers}
    reject: list[str] = []
    unspecified = False
    if sum(1 for h in handlers if h.get("for_steps") is None) > 1:
        reject.append("two_wildcards")
    listed_by: dict[str, list[str]] = {}
    for h in handlers:
        fs = h.get("for_steps")
        if fs is None:
            continue
        if len(set(fs)) != len(fs):
            unspecified = True
        for t in dict.fromkeys(fs):
            if t not in names:
                reject.append("unknown_step")
            elif t in kind:
                reject.append("covers_handler_step:" + ("itself" if t == h["name"] else kind[t] + "_handler"))
            else:
                listed_by.setdefault(t, []).append(h["name"])
    if any(len(v) > 1 for v in listed_by.values()):
        reject.append("step_listed_by_two_handlers")
    if any(not isinstance(h.get("max_rec", 1), int) or h.get("max_rec", 1) < 1 for h in handlers):
        reject.append("max_recoveries_below_one")
    return {"reject": sorted(set(reject)), "unspecified": unspecified, "kind": kind, "listed_by": listed_by}


def c08_table_check(names: list[str], handlers: list[dict], accepted: bool, table: dict | None, error: str = "",
                    strict: bool = True) -> list[tuple[str, str]]:
    """The routing TABLE against the layout (no run needed).  Either the layout is rejected -- then nothing can be routed --
    or it is accepted, and then: no handler step has an owner (a failing handler fails the run, its failure never goes to
    a handler); every other step is owned by the one scoped handler that lists it, else by the one wildcard, else by
    nobody; a layout in which the owner of a step is not defined (two wildcards, a step listed by two handlers) is not
    accepted.  `strict`: a layout that breaks no documented rule has to be accepted (only where the caller knows that
    nothing else about the workflow can be rejected)."""
    rules = c08_layout_rules(names, handlers)
    kind, listed_by = rules["kind"], rules["listed_by"]
    out: list[tuple[str, str]] = []
    if not accepted:
        if strict and not rules["reject"] and not rules["unspecified"]:
            out.append(("C08/documented_layout_rejected", f"the handler layout {[(h['name'], h.get('for_steps')) for h in handlers]} over steps "
                        f"{names} breaks no documented rule but was rejected: {error[:200]}"))
        return out
    table = dict(table or {})
    hdecl = {h["name"]: h for h in handlers}
    for hs in sorted(kind):
        if hs in table:
            o = table[hs]
            via = "listed_by" if (hdecl.get(o, {}).get("for_steps") is not None and hs in hdecl[o]["for_steps"]) else "filled_by"
            who = "itself" if o == hs else f"{kind.get(o, 'unknown')}_handler"
            out.append((f"C08/handler_step_has_owner:{kind[hs]}_handler_{via}_{who}",
                        f"layout {[(h['name'], h.get('for_steps')) for h in handlers]} was accepted and handler_for_step maps the HANDLER step "
                        f"{hs} to {o}: a failure of handler {hs} would be routed to a handler (documented rules broken by the layout: {rules['reject'] or 'none'})"))
    amb = [r for r in rules["reject"] if r in ("two_wildcards", "step_listed_by_two_handlers")]
    for r in amb:
        out.append((f"C08/ambiguous_layout_accepted:{r}", f"layout {[(h['name'], h.get('for_steps')) for h in handlers]} leaves the owner of a step "
                    f"undefined ({r}) and was accepted; table {table}"))
    wild = [h["name"] for h in handlers if h.get("for_steps") is None]
    for s in names:
        if s in kind:
            continue
        claim = listed_by.get(s, [])
        if len(claim) > 1 or (not claim and len(wild) > 1):
            continue
        exp = claim[0] if claim else (wild[0] if wild else None)
        if table.get(s) != exp:
            out.append(("C08/table_owner_mismatch:" + ("scoped_owner" if claim else "wildcard_owner" if wild else "no_owner") + "_expected",
                        f"layout {[(h['name'], h.get('for_steps')) for h in handlers]}: step {s} is to be owned by {exp}, handler_for_step has {table.get(s)}"))
            break
    stray = sorted(k for k in table if k not in names)
    if stray:
        out.append(("C08/table_owner_mismatch:entry_for_unknown_step", f"handler_for_step has entries for names that are no steps: {stray}"))
    return out


def _c08_layout_of(spec: dict) -> tuple[list[str], list[dict]]:
    names = [s["name"] for s in spec["steps"]]
    handlers = [{"name": s["name"], "for_steps": s.get("for_steps"), "max_rec": s.get("max_rec", 1)} for s in spec["steps"] if s.get("role") == "handler"]
    return names, handlers


def mon_c08_layout(tr: Trace, strict: bool = False) -> list[Violation]:
    """(1) the table the workflow built against the layout of the spec (`c08_table_check`); (2) at run time, no handler is
    ever entered with the failure of a handler step, whatever the table says."""
    out: list[Violation] = []
    spec = tr.spec
    if spec.get("disable_validation") or spec.get("_resumed"):
        return out
    names, handlers = _c08_layout_of(spec)
    if not handlers:
        return out
    accepted = tr.outcome[0] != "invalid"
    tab = getattr(tr, "handler_table", None)
    if accepted and tab is None:
        return out
    for sig, what in c08_table_check(names, handlers, accepted, (tab or {}).get("handler_for_step"), error=str(tr.outcome[1]) if not accepted else "",
                                     strict=strict):
        out.append(Violation(sig, what, _replay(tr)))
    kind = {h["name"]: ("wildcard" if h["for_steps"] is None else "scoped") for h in handlers}
    for rec in tr.steps:
        if rec[0] == "enter" and rec[1] in kind and rec[5].get("sfe") and rec[5]["sfe"]["step"] in kind:
            f = rec[5]["sfe"]["step"]
            out.append(Violation(f"C08/failure_of_handler_step_routed_to_handler:{kind[f]}_handler_to_" + ("itself" if f == rec[1] else f"{kind[rec[1]]}_handler"),
                                 f"handler {rec[1]} was entered with StepFailedEvent(step_name={f!r}, exception={rec[5]['sfe']['exc']!r}): {f} is a @catch_error "
                                 f"handler step; its failure has to fail the run with that exception (outcome of the run: {tr.outcome[0]})", _replay(tr)))
            break
    return out


def mon_c08_layout_strict(tr: Trace) -> list[Violation]:
    return mon_c08_layout(tr, strict=True)


MONITORS: dict[str, Callable[[Trace], list[Violation]]] = {
    "C01": mon_c01,
    "C02": mon_c02,
    "C03": mon_c03,
    "C04": mon_c04,
    "C05": mon_c05,
    "C06": mon_c06,
    "C08": mon_c08,
    "C11": mon_c11,
    "C35": mon_c35,
}


# ------------------------------------------------------------------ C09


def _cnt(xs: list) -> dict:
    d: dict = {}
    for x in xs:
        d[x] = d.get(x, 0) + 1
    return d


def flagged_known(vs: list) -> bool:
    """stale-snapshot effects (the known finding) make the whole-run accounting meaningless"""
    return any(v.signature in ("C09/two_completions_same_snapshot", "C09/dropped_against_stale_snapshot", "C09/event_lost_after_stale_snapshot") for v in vs)


def _bufs(d: Any) -> dict:
    """{buffer: [(type id, uid), ...]} without empty buffers (a missing buffer and an empty one read the same)"""
    return {b: [(ET.TY_ID.get(type(e), -1), getattr(e, "uid", None)) for e in v] for b, v in (d or {}).items() if v}


def c09_stale_rerun_expectation(before: Any, tick: Any) -> tuple | None:
    """The reducer-level rule of the re-run mechanism, recomputed from the inputs of one result tick alone.

    Walk the tick's results over a private copy of the step's LIVE buffers (never the invocation's own
    snapshot): the first `AddCollectedEvent` that finds its live buffer longer than the snapshot the
    invocation ran with is *stale*.  Returns `(buffer, event, live buffers at that moment)` for it: that is
    what the invocation has to be re-run against.  `None`: the tick has no stale add (or the slot is unknown /
    ambiguous, where the reducer raises or the input is ill-formed)."""
    ws = before.workers.get(tick.step_name) if before is not None else None
    if ws is None:
        return None
    ips = [ip for ip in ws.in_progress if ip.worker_id == tick.worker_id]
    if len(ips) != 1:
        return None
    snap = ips[0].shared_state.collected_events
    live = {b: list(v) for b, v in ws.collected_events.items()}
    did_complete = any(isinstance(r, R.StepWorkerResult) for r in tick.result)
    for r in tick.result:
        if isinstance(r, R.AddCollectedEvent):
            cur = live.setdefault(r.event_id, [])
            if len(cur) > len(snap.get(r.event_id, [])):
                return (r.event_id, r.event, {b: list(v) for b, v in live.items()})
            cur.append(r.event)
        elif isinstance(r, R.DeleteCollectedEvent):
            if did_complete:
                live.pop(r.event_id, None)
        elif isinstance(r, R.StepWorkerResult) and isinstance(r.result, StopEvent):
            live.clear()  # a completed run clears every buffer
    return None


def c09_snapshot_is_prefix(snapshot: Any, live: Any) -> bool:
    """every buffer of the snapshot is a prefix of the live buffer of the same name (the buffers only grew since)"""
    lv = _bufs(live)
    return all(lv.get(b, [])[: len(v)] == v for b, v in _bufs(snapshot).items())


def c09_rerun_check(before: Any, tick: Any, after: Any, cmds: list) -> list[tuple[str, str]]:
    """`C09_reducer_stale_rerun` on one real (state, TickStepResult) -> (state, commands) step: a stale add
    keeps the invocation in progress on the SAME worker slot, issues exactly one CommandRunWorker for it, and
    the snapshot it is re-run with EQUALS the live buffers at that moment (every buffer, element by element).
    Returns (signature, what) pairs."""
    if after is None or not isinstance(tick, T.TickStepResult):
        return []
    exp = c09_stale_rerun_expectation(before, tick)
    if exp is None:
        return []
    buf, ev, live = exp
    step, wid = tick.step_name, tick.worker_id
    old = next(ip for ip in before.workers[step].in_progress if ip.worker_id == wid)
    facts = (f"step {step} slot {wid}: AddCollectedEvent({buf!r}, uid {getattr(ev, 'uid', None)}) against snapshot "
             f"{_bufs(old.shared_state.collected_events).get(buf, [])} while the live buffer is {_bufs(live).get(buf, [])}")
    out: list[tuple[str, str]] = []
    runs = [k for k in cmds if isinstance(k, C.CommandRunWorker) and k.step_name == step and k.id == wid]
    now = [ip for ip in after.workers[step].in_progress if ip.worker_id == wid]
    if len(runs) != 1 or len(now) != 1 or getattr(runs[0].event, "uid", None) != getattr(ev, "uid", None) \
            or getattr(now[0].event, "uid", None) != getattr(old.event, "uid", None):
        out.append(("C09/stale_call_not_rerun", f"{facts}: {len(runs)} CommandRunWorker for the slot, {len(now)} invocation(s) left on it"))
        return out
    got, want = _bufs(now[0].shared_state.collected_events), _bufs(live)
    if got != want:
        shape = "old_snapshot_is_prefix" if c09_snapshot_is_prefix(old.shared_state.collected_events, live) else "round_completed_in_between"
        out.append((f"C09/rerun_snapshot_not_fresh:{shape}",
                    f"{facts}: re-run with snapshot {got}, the live buffers at that moment are {want}"))
    return out


def mon_c09(tr: Trace) -> list[Violation]:
    """collect_events on real runs, stated on what the step body and the live buffers saw.

    Per call (snapshot, event, expected -> returned list or None); per result tick
    (live buffer before/after); across the run (each event in at most one list, no event
    that was needed is dropped).  Calls whose snapshot differs from the live buffer when
    their result is processed are *stale*: the known finding is confined to them.
    """
    out: list[Violation] = []
    calls = [r for r in tr.steps if r[0] == "collect_call"]
    if not calls:
        return out
    # result ticks of each (step, uid), in processing order
    ticks: dict[tuple, list] = {}
    for c in _runner_calls(tr):
        if c.kind == "reduce" and isinstance(c.tick, T.TickStepResult) and c.after is not None:
            ticks.setdefault((c.tick.step_name, getattr(c.tick.event, "uid", None)), []).append(c)
    # every execution of (step, uid) ends in one result tick; an attempt that failed before it called
    # collect_events has a tick but no call, so calls are paired with ticks through the execution index
    enters: dict[tuple, int] = {}
    any_stale: set = set()
    wrong_view: set = set()  # steps with an invocation whose snapshot was not the live buffer it was (re)started against
    returned: dict[tuple, list] = {}  # (step, buf) -> [(uid list, stale?)]
    # R0 (reducer level, every result tick): a stale add re-runs the invocation on its slot against a copy of
    # the live buffers; `starts` = for every execution of (step, uid) the buffers it has to be started with
    starts: dict[tuple, list] = {}
    for c in _runner_calls(tr):
        if c.after is None:
            continue
        exp_rerun = None
        if c.kind == "reduce" and isinstance(c.tick, T.TickStepResult):
            for sig, what in c09_rerun_check(c.before, c.tick, c.after, c.cmds):
                out.append(Violation(sig, what, _replay(tr)))
            exp_rerun = c09_stale_rerun_expectation(c.before, c.tick)
        for k in c.cmds:
            if not isinstance(k, C.CommandRunWorker) or k.step_name not in c.after.workers:
                continue
            if exp_rerun is not None and k.step_name == c.tick.step_name and k.id == c.tick.worker_id:
                view = ("rerun", _bufs(exp_rerun[2]))
            else:
                view = ("start", _bufs(c.after.workers[k.step_name].collected_events))
            starts.setdefault((k.step_name, getattr(k.event, "uid", None)), []).append(view)
    for rec in tr.steps:
        if rec[0] == "enter":
            enters[(rec[1], rec[2])] = enters.get((rec[1], rec[2]), 0) + 1
            continue
        if rec[0] != "collect_call":
            continue
        _k, step, uid, rn, _vt, info = rec
        if info["snapshot"] is None:
            continue
        key = (step, uid)
        i = max(enters.get(key, 1) - 1, 0)
        exp, buf, snap, snap_tys, ty, got = info["expected"], info["buf"], info["snapshot"], info["snapshot_tys"], info["ty"], info["got"]
        expc = _cnt(exp)
        snapc = _cnt(snap_tys)
        buf_ok = all(snapc.get(t, 0) <= expc.get(t, 0) for t in snapc)
        full = _cnt(snap_tys + [ty]) == expc
        case = _replay(tr)
        # R0 (seen from the step body): the snapshot this execution works on is the live buffer of the moment it
        # was started / re-run.  A wrong view taints what follows: its symptoms are not those of the open findings
        # (which are about snapshots that WERE the live buffer and went stale afterwards)
        tainted = False
        sl = starts.get(key, [])
        if enters.get(key, 0) == 0 or enters[key] > len(sl):
            pass  # not pairable (uids shared between invocations): no claim
        else:
            how, view = sl[enters[key] - 1]
            want = [u for (_t, u) in view.get(buf, [])]
            if snap != want:
                tainted = True
                wrong_view.add(step)
                out.append(Violation("C09/rerun_snapshot_not_fresh:seen_by_step" if how == "rerun" else "C09/start_snapshot_not_live_buffer",
                                     f"step {step}: the {'re-run' if how == 'rerun' else 'invocation'} for event {uid} works on snapshot {snap} of buffer {buf!r}; "
                                     f"the live buffer when it was {'re-run' if how == 'rerun' else 'started'} was {want}", case))
        # R1: the call itself
        if not exp:
            if got != []:
                out.append(Violation("C09/empty_expected_not_empty_list", f"collect_events(expected=[]) returned {got!r}", case))
            continue
        if buf_ok:
            if (got is not None) != full:
                out.append(Violation("C09/returned_iff_full_set",
                                     f"step {step}: expected types {exp}, snapshot types {snap_tys} + event type {ty}: returned {got!r}", case))
        if got is not None:
            if info["got_tys"] != exp:
                out.append(Violation("C09/not_ordered_as_expected", f"step {step}: returned types {info['got_tys']} for expected {exp}", case))
            if buf_ok and sorted(got) != sorted(snap + [uid]):
                out.append(Violation("C09/list_is_not_buffer_plus_event", f"step {step}: returned uids {got}, snapshot {snap} + event {uid}", case))
        # the result tick of this call
        tl = ticks.get(key, [])
        if i >= len(tl):
            continue  # run ended before the result was processed
        c = tl[i]
        live_before = [getattr(e, "uid", None) for e in c.before.workers[step].collected_events.get(buf, [])]
        live_before_tys = [ET.TY_ID.get(type(e), -1) for e in c.before.workers[step].collected_events.get(buf, [])]
        live_after = [getattr(e, "uid", None) for e in c.after.workers[step].collected_events.get(buf, [])]
        stale = live_before != snap
        if stale:
            any_stale.add(step)
        completed = any(isinstance(r, R.StepWorkerResult) for r in c.tick.result)
        adds = [r for r in c.tick.result if isinstance(r, R.AddCollectedEvent) and r.event_id == buf]
        rerun = any(isinstance(k, C.CommandRunWorker) and k.step_name == step and k.id == c.tick.worker_id for k in c.cmds)
        stopped = any(isinstance(k, C.CommandCompleteRun) for k in c.cmds)
        if not stale and completed and not stopped:
            exp_c, after_c = _cnt(exp), _cnt([ET.TY_ID.get(type(e), -1) for e in c.after.workers[step].collected_events.get(buf, [])])
            if exp and all(after_c.get(t, 0) >= n for t, n in exp_c.items()):
                out.append(Violation("C09/full_set_stuck_in_buffer", f"step {step}: after event {uid} the live buffer {live_after} holds a full expected set {exp} that was not returned", case))
        if got is not None:
            if completed:
                # an attempt that then failed or suspended in wait_for_event is re-executed with the same
                # event and does not apply its DeleteCollectedEvent: only the completing attempt counts
                returned.setdefault((step, buf), []).append((got, stale, uid, tainted))
            unseen = [u for u in live_before if u not in snap]
            if completed and stale and unseen and not any(u in live_after for u in unseen):
                out.append(Violation("C09/event_lost:snapshot_never_was_the_buffer" if tainted else "C09/event_lost_after_stale_snapshot",
                                     f"step {step}: invocation completed against snapshot {snap} while the live buffer was {live_before}: {unseen} deleted unseen", case))
            if completed and not stopped and live_after != []:
                out.append(Violation("C09/buffer_not_cleared_after_full_set" if not stale else "C09/two_completions_same_snapshot",
                                     f"step {step}: after returning {got} the live buffer is {live_after}", case))
        elif adds:
            if not stale:
                if live_after != live_before + [uid]:
                    out.append(Violation("C09/needed_event_not_buffered",
                                         f"step {step}: event {uid} needed (snapshot {snap}) but live buffer went {live_before} -> {live_after}", case))
            elif len(live_before) > len(snap):
                if live_after != live_before or not rerun:
                    out.append(Violation("C09/stale_call_not_rerun",
                                         f"step {step}: stale snapshot {snap} vs live {live_before}: buffer -> {live_after}, rerun={rerun}", case))
        else:
            # nothing recorded for this event: it must be surplus w.r.t. the live buffer
            livec = _cnt(live_before_tys)
            if ty in expc and livec.get(ty, 0) < expc[ty]:
                sig = "C09/needed_event_dropped:snapshot_never_was_the_buffer" if tainted else ("C09/dropped_against_stale_snapshot" if stale else "C09/needed_event_dropped")
                out.append(Violation(sig, f"step {step}: event {uid} (type {ty}) dropped: snapshot {snap_tys}, live buffer {live_before_tys}, expected {exp}", case))
    # R5: no event that entered a buffer vanishes (unless the run's end cleared the buffers)
    rc = _runner_calls(tr)
    exit_idx = next((i for i, c in enumerate(rc) if c.kind == "reduce" and _is_exit(c.cmds)), None)
    last = (rc[exit_idx].before if exit_idx is not None else (rc[-1].after if rc and rc[-1].after is not None else None))
    if last is not None:
        in_lists = {u for lists in returned.values() for (got, _s, _u, _t) in lists for u in got}
        for step_name, ws in last.workers.items():
            final = {getattr(e, "uid", None) for evs in ws.collected_events.values() for e in evs}
            ever: dict = {}
            for i, c in enumerate(rc):
                if exit_idx is not None and i >= exit_idx:
                    break
                if c.after is None or step_name not in c.after.workers:
                    continue
                for b, evs in c.after.workers[step_name].collected_events.items():
                    for e in evs:
                        ever.setdefault(getattr(e, "uid", None), (b, i))
            for u, (b, i) in ever.items():
                if u not in final and u not in in_lists:
                    out.append(Violation("C09/event_lost:snapshot_never_was_the_buffer" if step_name in wrong_view else "C09/event_lost_after_stale_snapshot" if step_name in any_stale else "C09/event_lost", f"step {step_name}: event {u} was in buffer {b!r} (tick {i}) and is neither in a returned list of a completed invocation nor in the buffer any more", _replay(tr)))
    # R2: each event in at most one returned list
    for (step, buf), lists in returned.items():
        seen: dict = {}
        for got, stale, uid, tainted in lists:
            for u in got:
                if u in seen:
                    sig = "C09/two_completions_same_snapshot" if (stale or seen[u][1]) else "C09/event_in_two_lists"
                    if tainted or seen[u][2]:
                        # one of the two lists was built from a snapshot that never was the live buffer
                        sig = "C09/event_in_two_lists:snapshot_never_was_the_buffer"
                    out.append(Violation(sig, f"step {step}: event {u} returned in {seen[u][0]} and again in {got}", _replay(tr)))
                else:
                    seen[u] = (got, stale, tainted)
    return out


# ------------------------------------------------------------------ C10


def c10_waiter_users(tr: Trace) -> dict[tuple, set]:
    """(step, waiter id) -> input-event uids of the invocations that used it"""
    users: dict[tuple, set] = {}
    for rec in tr.steps:
        if rec[0] in ("waited", "wait_timeout"):
            users.setdefault((rec[1], rec[5]["wid"]), set()).add(rec[2])
    for c in _runner_calls(tr):
        if c.kind == "reduce" and isinstance(c.tick, T.TickStepResult):
            for r in c.tick.result:
                if isinstance(r, R.AddWaiter):
                    users.setdefault((c.tick.step_name, r.waiter_id), set()).add(getattr(c.tick.event, "uid", None))
    return users


def mon_c10(tr: Trace, earlier_users: dict[tuple, set] | None = None) -> list[Violation]:
    """wait_for_event on real runs: delivered event matches, one completion / one TimeoutError per wait,
    waiter_event once per waiter creation, nothing for resolved waiters."""
    out: list[Violation] = []
    case = _replay(tr)
    per_wait: dict[tuple, list] = {}
    for rec in tr.steps:
        kind, step, uid, rn, _vt, info = rec
        if kind == "waited":
            per_wait.setdefault((step, uid, rn, info["wid"]), []).append(("got", info))
            if info["got_ty"] != info["want_ty"] or (info["want_k"] is not None and info["got_k"] != info["want_k"]):
                sig = "C10/resumed_requirement_not_enforced" if tr.spec.get("_resumed") and info["got_ty"] == info["want_ty"] \
                    else "C10/delivered_event_mismatch"
                out.append(Violation(sig, f"step {step} waited for type {info['want_ty']} k={info['want_k']} and received type {info['got_ty']} k={info['got_k']}", case))
        elif kind == "wait_timeout":
            per_wait.setdefault((step, uid, rn, info["wid"]), []).append(("timeout", info))
    # a waiter id used by two different invocations of a step at once is one shared waiter entry (the later
    # AddWaiter replaces the earlier one): outside "per wait" — only unshared ids are counted
    users = c10_waiter_users(tr)
    for k, v in (earlier_users or {}).items():
        users.setdefault(k, set()).update(v)
    for key, lst in per_wait.items():
        if len(users.get((key[0], key[3]), ())) > 1:
            continue
        # a body with several waits is re-executed from the top for each later wait: an earlier wait then yields
        # the SAME outcome again (the same event, or TimeoutError again).  One wait, two different outcomes is the violation.
        outcomes = []
        for k, info in lst:
            o = (k, info.get("got_uid"))
            if o not in outcomes:
                outcomes.append(o)
        if len(outcomes) > 1:
            out.append(Violation("C10/resumed_more_than_once", f"wait {key} of one invocation finished with {len(outcomes)} different outcomes: {outcomes}", case))
            out[-1].meta = {"step": key[0], "uid": key[1]}  # type: ignore[attr-defined]
    # ... and the waiting step completes at most once per input event and attempt
    done_ok: dict[tuple, int] = {}
    wait_steps = {s["name"] for s in tr.spec["steps"] if any(a[0] == "wait" for a in s["script"])}
    suspended: set = set()
    for rec in tr.steps:
        if rec[0] == "exit" and rec[1] in wait_steps and rec[5].get("status") == "raise:WaitingForEvent":
            suspended.add((rec[1], rec[2], rec[3]))
        # completions before the invocation ever suspended are collect_events re-runs (a body that returned early
        # from a not-yet-complete collect), not resumptions of a wait
        if rec[0] == "exit" and rec[1] in wait_steps and rec[5].get("status") == "ok" and (rec[1], rec[2], rec[3]) in suspended:
            done_ok[(rec[1], rec[2], rec[3])] = done_ok.get((rec[1], rec[2], rec[3]), 0) + 1
    for (step, uid, rn), n in done_ok.items():
        wids = {k[3] for k in per_wait if k[0] == step and k[1] == uid}
        if n > 1 and wids and not any(len(users.get((step, w), ())) > 1 for w in wids):
            out.append(Violation("C10/resumed_more_than_once", f"step '{step}' completed {n} times for input event {uid} (attempt {rn}) with waits {sorted(map(str, wids))}", case))
            out[-1].meta = {"step": step, "uid": uid}  # type: ignore[attr-defined]
    # reducer-level facts on the real ticks: waiter_event and timers only on creation; resolved waiters are left alone
    for c in _runner_calls(tr):
        if c.kind != "reduce" or c.after is None:
            continue
        if isinstance(c.tick, T.TickStepResult):
            before = {w.waiter_id for w in c.before.workers[c.tick.step_name].collected_waiters}
            for r in c.tick.result:
                if isinstance(r, R.AddWaiter):
                    pubs = [k for k in c.cmds if isinstance(k, C.CommandPublishEvent) and r.waiter_event is not None and k.event is r.waiter_event]
                    tmos = [k for k in c.cmds if isinstance(k, C.CommandScheduleWaiterTimeout) and k.waiter_id == r.waiter_id]
                    want = 0 if r.waiter_id in before else 1
                    if r.waiter_event is not None and len(pubs) != want:
                        out.append(Violation("C10/waiter_event_not_once", f"waiter {r.waiter_id!r} ({'existing' if want == 0 else 'new'}): waiter_event published {len(pubs)} times", case))
                    if r.timeout is not None and len(tmos) != want:
                        out.append(Violation("C10/timeout_not_scheduled_once", f"waiter {r.waiter_id!r} ({'existing' if want == 0 else 'new'}): {len(tmos)} timeout(s) scheduled", case))
                    before.add(r.waiter_id)
        if isinstance(c.tick, (T.TickAddEvent, T.TickWaiterTimeout)):
            for nm, ws in c.before.workers.items():
                for w in ws.collected_waiters:
                    if w.resolved_event is not None:
                        now_w = next((x for x in c.after.workers[nm].collected_waiters if x.waiter_id == w.waiter_id), None)
                        if now_w is None or now_w.resolved_event is not w.resolved_event or now_w.timed_out != w.timed_out:
                            out.append(Violation("C10/resolved_waiter_touched", f"step {nm}: resolved waiter {w.waiter_id!r} changed by {type(c.tick).__name__}", case))
                        replays = [k for k in c.cmds if isinstance(k, C.CommandRunWorker) and k.step_name == nm and k.event is w.event]
                        newly = [x for x in ws.collected_waiters if x.resolved_event is None and x.event is w.event]
                        if replays and not newly and not (isinstance(c.tick, T.TickAddEvent) and c.tick.event is w.event):
                            out.append(Violation("C10/resolved_waiter_replayed_again", f"step {nm}: waiter {w.waiter_id!r} already has its event but its step is replayed by {type(c.tick).__name__}", case))
        for nm, ws in c.after.workers.items():
            for w in ws.collected_waiters:
                e = w.resolved_event
                if e is not None and (type(e) is not w.waiting_for_event or any(getattr(e, k, None) != v for k, v in w.requirements.items())):
                    out.append(Violation("C10/waiter_resolved_with_non_matching_event", f"step {nm}: waiter {w.waiter_id!r} for {w.waiting_for_event.__name__} {w.requirements} holds {type(e).__name__} k={getattr(e, 'k', None)}", case))
    # the same clauses per logical wait, from what the step bodies asked for (independent of the engine's waiter ids)
    out += c10_wait_rules(tr, earlier_users)
    return out


def c10_wait_rules(tr: Trace, earlier_users: dict[tuple, set] | None = None) -> list[Violation]:
    """The property per LOGICAL wait, from what the step bodies asked for (`tr.wait_calls`, recorded by the harness's step
    bodies) and what the engine then did -- never from the waiter ids / waiter records the engine keeps (a defect in how
    waits are told apart corrupts exactly those).  A logical wait is (step, input event of the invocation, label), label =
    the explicit waiter id or, for the default id, (awaited type, requirement value).  Labels used by two invocations of a
    step are one shared waiter by design and are left to the id-level rules of `mon_c10`.

    * announced once: a wait with a waiter_event has that event published exactly once (at most once in a resumed run);
    * waits for its reply: a wait returns / raises TimeoutError only after it was registered (its AddWaiter was reduced);
    * resumes with its reply: the first event of the awaited type that satisfies the wait's requirement and is routed to
      its step, reduced while the wait is registered and not timed out, replays (or queues the replay of) the invocation."""
    wcs = getattr(tr, "wait_calls", None) or []
    if not wcs or tr.outcome[0] in ("invalid", "runaway", "aborted"):
        return []
    out: list[Violation] = []
    case = _replay(tr)
    resumed = bool(tr.spec.get("_resumed"))
    users: dict[tuple, set] = {}
    for w in wcs:
        users.setdefault((w["step"], w["label"]), set()).add(w["uid"])
    for k, v in (earlier_users or {}).items():
        users.setdefault(k, set()).update(v)
    shared = {k for k, v in users.items() if len(v) > 1}
    reg: dict[tuple, dict] = {}  # logical wait -> first registration seen in this trace
    pending: dict[tuple, dict] = {}
    said: set = set()
    returned: dict[tuple, list] = {}
    for w in wcs:
        if w["outcome"] in ("got", "timeout"):
            returned.setdefault((w["step"], w["uid"], w["label"]), []).append(w)
    for idx, c in enumerate(tr.calls):
        if c.caller not in ("run", "_process_tick") or c.kind != "reduce" or c.after is None:
            continue
        tk = c.tick
        # a wait that has returned / raised in the meantime is over (whatever it returned is judged by the other rules)
        for lw in [lw for lw in pending if any(x["at_call"] <= idx and x["at_call"] > reg[lw]["idx"] for x in returned.get(lw, ()))]:
            del pending[lw]
        if isinstance(tk, T.TickStepResult):
            uid = getattr(tk.event, "uid", None)
            for r in tk.result:
                if not isinstance(r, R.AddWaiter):
                    continue
                ty = ET.TY_ID.get(r.event_type, -1)
                k = (r.requirements or {}).get("k")
                cand = [w for w in wcs if w["step"] == tk.step_name and w["uid"] == uid and w["outcome"] == "suspended"
                        and w["ty"] == ty and w["k"] == k and w["at_call"] <= idx and not w.get("_reg")]
                if not cand:
                    continue
                w = cand[0]
                w["_reg"] = True
                lw = (w["step"], w["uid"], w["label"])
                if lw not in reg:
                    reg[lw] = {"idx": idx, "w": w}
                    pending[lw] = w
        elif isinstance(tk, T.TickWaiterTimeout):
            # which wait the timer belongs to is the engine's bookkeeping: no expectation for any timed wait of that step from here on
            for lw in [lw for lw, w in pending.items() if lw[0] == tk.step_name and w["timeout"] is not None]:
                del pending[lw]
        elif isinstance(tk, T.TickAddEvent):
            e = tk.event
            for lw in list(pending):
                w = pending[lw]
                step = lw[0]
                if tk.step_name is not None and tk.step_name != step:
                    continue
                if type(e) is not ET.TYPES[w["ty"]] or (w["k"] is not None and getattr(e, "k", None) != w["k"]):
                    continue
                del pending[lw]
                if (step, w["label"]) in shared:
                    continue
                ran = any(isinstance(x, C.CommandRunWorker) and x.step_name == step and getattr(x.event, "uid", None) == w["uid"] for x in c.cmds)
                queued = any(getattr(a.event, "uid", None) == w["uid"] for a in c.after.workers[step].queue)
                if not ran and not queued:
                    out.append(Violation("C10/matching_reply_did_not_resume_wait",
                                         f"step {step}: the invocation for input event {w['uid']} is suspended in wait_for_event(T{w['ty']}, requirements k={w['k']!r}) "
                                         f"[{w['label']}], registered at tick {reg[lw]['idx']}; the event T{w['ty']}(uid={getattr(e, 'uid', None)}, k={getattr(e, 'k', None)!r}) "
                                         f"reduced at tick {idx} satisfies it, but the invocation is neither replayed nor queued", case))
    for w in wcs:
        lw = (w["step"], w["uid"], w["label"])
        if (w["step"], w["label"]) in shared:
            continue
        if not resumed and w["outcome"] in ("got", "timeout") and (lw not in reg or reg[lw]["idx"] >= w["at_call"]) and ("ret", lw) not in said:
            said.add(("ret", lw))
            out.append(Violation("C10/wait_returned_without_waiting:" + w["outcome"],
                                 f"step {w['step']}, input event {w['uid']}: wait_for_event(T{w['ty']}, requirements k={w['k']!r}) [{w['label']}] "
                                 f"{'returned ' + repr(w.get('got')) if w['outcome'] == 'got' else 'raised TimeoutError'} although this wait was never registered "
                                 f"(no AddWaiter of it was reduced before): it did not wait for its own reply", case))
    # (the harness derives the waiter_event's uid from the invocation's input event: the same event delivered to two waiting
    # steps gives two announcements with one uid -- counted per group of waits that share the announcement's identity)
    groups: dict[tuple, list] = {}
    for lw, r in reg.items():
        if r["w"]["wev_uid"] is not None:
            groups.setdefault((r["w"]["wev_ty"], r["w"]["wev_uid"]), []).append(r)
    for (wty, wuid), rs in groups.items():
        if any((r["w"]["step"], r["w"]["label"]) in shared for r in rs):
            continue
        n = sum(1 for (e, *_r) in tr.stream if getattr(e, "uid", None) == wuid and ET.TY_ID.get(type(e)) == wty)
        if n > len(rs) or (n < len(rs) and not resumed):
            w = rs[-1]["w"]
            out.append(Violation("C10/waiter_event_not_once:per_wait:" + ("never" if n < len(rs) else "repeated"),
                                 f"step {w['step']}, input event {w['uid']}: wait_for_event(T{w['ty']}, requirements k={w['k']!r}) [{w['label']}] was registered at tick "
                                 f"{rs[-1]['idx']} with waiter_event uid {wuid}; " + (f"that event was published {n} times" if len(rs) == 1 else
                                 f"{len(rs)} waits announce themselves with that event ({[(r['w']['step'], r['w']['label']) for r in rs]}), it was published {n} times"), case))
            out[-1].meta = {"step": w["step"], "uid": w["uid"]}  # type: ignore[attr-defined]
    for w in wcs:
        w.pop("_reg", None)
    return out


def live_waiters_at(tr: Trace, at_call: int) -> list:
    """(step, waiter) pairs of the live state when a snapshot was taken"""
    rc = [c for c in tr.calls[:at_call] if c.after is not None]
    if not rc:
        return []
    return [(nm, w) for nm, ws in rc[-1].after.workers.items() for w in ws.collected_waiters]


# ------------------------------------------------------------------ C31


def mon_c31(tr: Trace) -> list[Violation]:
    """timeout / cancellation on real runs: matching terminal event last, active steps named, deadline respected,
    a finished run is never timed out, no step entered after the end."""
    out: list[Violation] = []
    case = _replay(tr)
    kind = tr.outcome[0]
    if kind in ("invalid", "deadlock", "runaway", "aborted", "pending"):
        return out
    timeout = tr.spec.get("timeout")
    pubs = [e for (e, *_r) in tr.stream]
    timed = [e for e in pubs if isinstance(e, WorkflowTimedOutEvent)]
    cancelled = [e for e in pubs if isinstance(e, WorkflowCancelledEvent)]
    rc = _runner_calls(tr)
    start_t = rc[0].now if rc else 0.0
    harness_cancel = any("stuck: cancelled by harness" in n for n in tr.notes)
    if kind == "timeout" and timeout is not None:
        # "a run that finishes first is never timed out": a step had returned the StopEvent before the deadline
        fin = [r for r in tr.steps if r[0] == "exit" and r[5].get("status") == "ok" and (r[5].get("ret") or ("",))[0] == "stop" and r[4] != -1.0]
        if fin and fin[0][4] < start_t + timeout:
            out.append(Violation("C31/finished_run_timed_out", f"step {fin[0][1]} returned the StopEvent at {fin[0][4]}, before the deadline {start_t + timeout}, "
                                 f"yet the run failed with WorkflowTimeoutError", case))
    if kind == "timeout":
        if len(timed) != 1 or not isinstance(pubs[-1], WorkflowTimedOutEvent):
            out.append(Violation("C31/timeout_without_timed_out_event_last", f"run failed with WorkflowTimeoutError; WorkflowTimedOutEvent published {len(timed)} times, last event {type(pubs[-1]).__name__ if pubs else None}", case))
        else:
            c = next((c for c in rc if c.kind == "reduce" and isinstance(c.tick, T.TickTimeout)), None)
            if c is not None:
                active = sorted(nm for nm, ws in c.before.workers.items() if ws.in_progress)
                if sorted(timed[0].active_steps) != active:
                    out.append(Violation("C31/active_steps_wrong", f"WorkflowTimedOutEvent names {sorted(timed[0].active_steps)}, steps in progress were {active}", case))
                if timeout is not None and c.now < start_t + timeout:
                    out.append(Violation("C31/timed_out_early", f"timeout {timeout} processed at {c.now}, run started at {start_t}", case))
        if timeout is None:
            out.append(Violation("C31/timeout_without_timeout", "run without a timeout failed with WorkflowTimeoutError", case))
    else:
        if timed:
            out.append(Violation("C31/finished_run_timed_out", f"run ended as {kind} but WorkflowTimedOutEvent was published", case))
        # a run has finished when a step returned its StopEvent (stopping the other workers may take a moment longer)
        fin_t = min([r[4] for r in tr.steps if r[0] == "exit" and r[5].get("status") == "ok" and (r[5].get("ret") or ("",))[0] == "stop" and r[4] != -1.0] or [tr.end_time]) \
            if kind == "result" else tr.end_time
        if timeout is not None and fin_t > start_t + timeout and not harness_cancel:
            out.append(Violation("C31/unfinished_run_not_timed_out", f"run with timeout {timeout} started at {start_t} was still running at {fin_t} and ended as {kind}", case))
        if timeout is not None and harness_cancel:
            # the harness ends a run only when nothing is runnable AND no timer is pending: a run with a timeout always has its
            # timeout timer pending until it ends, so this run would have stayed unfinished for ever
            out.append(Violation("C31/unfinished_run_never_timed_out", f"run with timeout {timeout} ({'resumed' if tr.spec.get('_resumed') else 'fresh'}) got stuck with no timer pending: "
                                 f"its timeout was never armed", case))
    if kind == "cancelled":
        if len(cancelled) != 1 or not isinstance(pubs[-1], WorkflowCancelledEvent):
            out.append(Violation("C31/cancel_without_cancelled_event_last", f"WorkflowCancelledEvent published {len(cancelled)} times, last event {type(pubs[-1]).__name__ if pubs else None}", case))
        c = next((c for c in rc if c.kind == "reduce" and isinstance(c.tick, T.TickCancelRun)), None)
        if c is not None and c.after is not None and enc.state(c.after) != enc.state(c.before):
            out.append(Violation("C31/cancel_changed_state", "the cancel tick changed the broker state", case))
    elif cancelled:
        out.append(Violation("C31/cancelled_event_without_cancel", f"run ended as {kind} but WorkflowCancelledEvent was published", case))
    # nothing runs after the end
    seen_terminal = False
    for rec in tr.steps:
        if rec[0] == "terminal" and rec[5].get("origin") == "runner":
            seen_terminal = True
        elif rec[0] == "enter" and seen_terminal:
            out.append(Violation("C31/step_entered_after_end", f"step {rec[1]} entered (event {rec[2]}) after the terminal event was published", case))
    ti = next((i for i, c in enumerate(rc) if c.kind == "reduce" and _is_exit(c.cmds)), None)
    if ti is not None and any(c.kind == "reduce" for c in rc[ti + 1:]):
        out.append(Violation("C31/tick_processed_after_end", f"{len(rc) - ti - 1} tick(s) processed after the exit command", case))
    return out
