import WfModel.Policy
import WfModel.GenRpCtors
/-!
M2, nested part (C07) — `retry_any` / `retry_all`, `stop_any` / `stop_all`, `wait_chain` /
`wait_combine` take arbitrary strategies as operands, hence arbitrary trees; `WSpec`/`SSpec`/`CSpec`
of `Policy.lean` are the two-level special case.  Evaluation goes through the combinator bodies
regenerated from the source (`Gen.RP.*`).  Also here: what lies between a constructor call and the
`__call__` bodies — constructor defaults (regenerated: `Gen.RPC.dflt_*`), the function-style
constructors (`retry_policy()`, `ConstantDelayRetryPolicy`, `ExponentialBackoffRetryPolicy`,
`wait_full_jitter`, `wait_none`), Python's `sum()` over strategies (`__radd__`).
-/
namespace Policy
open Gen.RP Gen.RPC

inductive WTree
  | leaf (l : WLeaf)
  | chain (ls : List WTree)
  | combine (ls : List WTree)

inductive RSTree
  | leaf (l : SLeaf)
  | any (ls : List RSTree)
  | all (ls : List RSTree)

inductive RCTree
  | leaf (l : CLeaf)
  | any (ls : List RCTree)
  | all (ls : List RCTree)

mutual
def WTree.eval : WTree → Wait
  | .leaf l => l.eval
  | .chain ls => waitChain (WTree.evalList ls)
  | .combine ls => waitCombine (WTree.evalList ls)
def WTree.evalList : List WTree → List Wait
  | [] => []
  | t :: ts => t.eval :: WTree.evalList ts
end

mutual
def RSTree.eval : RSTree → Stop
  | .leaf l => l.eval
  | .any ls => stopAny (RSTree.evalList ls)
  | .all ls => stopAll (RSTree.evalList ls)
def RSTree.evalList : List RSTree → List Stop
  | [] => []
  | t :: ts => t.eval :: RSTree.evalList ts
end

mutual
def RCTree.eval : RCTree → Cond
  | .leaf l => l.eval
  | .any ls => retryAny (RCTree.evalList ls)
  | .all ls => retryAll (RCTree.evalList ls)
def RCTree.evalList : List RCTree → List Cond
  | [] => []
  | t :: ts => t.eval :: RCTree.evalList ts
end

/-! ### the specification side: Boolean formulas, independent of the regenerated bodies -/

mutual
def RCTree.Holds : RCTree → Nat → Prop
  | .leaf l, e => l.eval e = true
  | .any ls, e => RCTree.SomeHolds ls e
  | .all ls, e => RCTree.EveryHolds ls e
def RCTree.SomeHolds : List RCTree → Nat → Prop
  | [], _ => False
  | t :: ts, e => t.Holds e ∨ RCTree.SomeHolds ts e
def RCTree.EveryHolds : List RCTree → Nat → Prop
  | [], _ => True
  | t :: ts, e => t.Holds e ∧ RCTree.EveryHolds ts e
end

mutual
def RSTree.Holds : RSTree → Nat → Rat → Rat → Prop
  | .leaf l, a, el, up => l.eval a el up = true
  | .any ls, a, el, up => RSTree.SomeHolds ls a el up
  | .all ls, a, el, up => RSTree.EveryHolds ls a el up
def RSTree.SomeHolds : List RSTree → Nat → Rat → Rat → Prop
  | [], _, _, _ => False
  | t :: ts, a, el, up => t.Holds a el up ∨ RSTree.SomeHolds ts a el up
def RSTree.EveryHolds : List RSTree → Nat → Rat → Rat → Prop
  | [], _, _, _ => True
  | t :: ts, a, el, up => t.Holds a el up ∧ RSTree.EveryHolds ts a el up
end

/-! ### documented bounds of a wait tree -/

/-- parameters for which the documentation promises a non-negative delay in an interval -/
def WLeaf.wf : WLeaf → Bool
  | .fixed w => decide (0 ≤ w)
  | .exponential _ _ _ _ => true
  | .incrementing _ _ (some mx) => decide (0 ≤ mx)
  | .incrementing _ _ none => true
  | .random mn mx => decide (0 ≤ mn) && decide (mn ≤ mx)
  | .expJitter i b mx j => decide (0 ≤ i) && decide (0 ≤ b) && decide (0 ≤ mx) && decide (0 ≤ j)
  | .randomExp _ _ _ mn => decide (0 ≤ mn)

/-- documented lower bound -/
def WLeaf.lo : WLeaf → Rat
  | .fixed w => w
  | .exponential _ _ _ mn => max 0 mn
  | .incrementing _ _ _ => 0
  | .random mn _ => mn
  | .expJitter _ _ _ _ => 0
  | .randomExp _ _ _ mn => mn

/-- documented upper bound (`wait_incrementing` without `max`: the uncapped value at that attempt) -/
def WLeaf.hi : WLeaf → Nat → Rat
  | .fixed w, _ => w
  | .exponential _ _ mx mn, _ => max (max 0 mn) mx
  | .incrementing _ _ (some mx), _ => mx
  | .incrementing s i none, a => max 0 (s + i * (a : Rat))
  | .random _ mx, _ => mx
  | .expJitter _ _ mx _, _ => mx
  | .randomExp _ _ mx mn, _ => max (max 0 mn) mx

def ratSum (l : List Rat) : Rat := l.foldl (· + ·) 0

/-- the member `wait_chain` uses at `attempts` -/
def chainPick (l : List α) (attempts : Nat) : Option α := l[min attempts (l.length - 1)]?

mutual
def WTree.wf : WTree → Bool
  | .leaf l => l.wf
  | .chain ls => !ls.isEmpty && WTree.wfList ls
  | .combine ls => WTree.wfList ls
def WTree.wfList : List WTree → Bool
  | [] => true
  | t :: ts => t.wf && WTree.wfList ts
end

mutual
def WTree.lo : WTree → Nat → Rat
  | .leaf l, _ => l.lo
  | .chain ls, a => match chainPick (WTree.loList ls) a with | some f => f a | none => 0
  | .combine ls, a => ratSum ((WTree.loList ls).map (fun f => f a))
def WTree.loList : List WTree → List (Nat → Rat)
  | [] => []
  | t :: ts => t.lo :: WTree.loList ts
end

mutual
def WTree.hi : WTree → Nat → Rat
  | .leaf l, a => l.hi a
  | .chain ls, a => match chainPick (WTree.hiList ls) a with | some f => f a | none => 0
  | .combine ls, a => ratSum ((WTree.hiList ls).map (fun f => f a))
def WTree.hiList : List WTree → List (Nat → Rat)
  | [] => []
  | t :: ts => t.hi :: WTree.hiList ts
end

/-- a strategy that never looks at the jitter draw -/
def WLeaf.jitterFree : WLeaf → Bool
  | .fixed _ | .exponential _ _ _ _ | .incrementing _ _ _ => true
  | _ => false

mutual
def WTree.jitterFree : WTree → Bool
  | .leaf l => l.jitterFree
  | .chain ls => WTree.jitterFreeList ls
  | .combine ls => WTree.jitterFreeList ls
def WTree.jitterFreeList : List WTree → Bool
  | [] => true
  | t :: ts => t.jitterFree && WTree.jitterFreeList ts
end

/-! ### composed policy over trees -/

structure PTree where
  retry : Option RCTree
  wait : WTree
  stop : RSTree

def PTree.eval (p : PTree) : Composed :=
  { retry := p.retry.map RCTree.eval, wait := p.wait.eval, stop := p.stop.eval }

/-! ### operator chains and `sum()` -/

/-- `a | b | c | …` as Python parses it: `((a | b) | c) | …` -/
def orChain (a : Cond) (cs : List Cond) : Cond := cs.foldl (fun acc c => retryAny [acc, c]) a
def andChain (a : Cond) (cs : List Cond) : Cond := cs.foldl (fun acc c => retryAll [acc, c]) a
def stopOrChain (a : Stop) (cs : List Stop) : Stop := cs.foldl (fun acc c => stopAny [acc, c]) a
def stopAndChain (a : Stop) (cs : List Stop) : Stop := cs.foldl (fun acc c => stopAll [acc, c]) a
def plusChain (a : Wait) (ws : List Wait) : Wait := ws.foldl (fun acc w => waitCombine [acc, w]) a

/-- Python's `sum(ws)`: starts from the int `0` (`none`); `0 + w` is `w.__radd__(0)`, which returns `w`
itself (`if other == 0: return self`); afterwards `acc + w` is `wait_combine(acc, w)` -/
def pySumStep (acc : Option Wait) (w : Wait) : Option Wait :=
  match acc with | none => some w | some f => some (waitCombine [f, w])
def pySum (ws : List Wait) : Option Wait := ws.foldl pySumStep none

/-! ### constructors: omitted arguments take the defaults regenerated from the source -/

def mkExponential (m b mx mn : Option Rat) : WLeaf :=
  .exponential (m.getD dflt_wait_exponential_multiplier) (b.getD dflt_wait_exponential_exp_base)
    (mx.getD dflt_wait_exponential_max) (mn.getD dflt_wait_exponential_min)

/-- `mx = some none` is an explicit `max=inf` -/
def mkIncrementing (s i : Option Rat) (mx : Option (Option Rat)) : WLeaf :=
  .incrementing (s.getD dflt_wait_incrementing_start) (i.getD dflt_wait_incrementing_increment)
    (mx.getD dflt_wait_incrementing_max)

def mkRandom (mn mx : Option Rat) : WLeaf :=
  .random (mn.getD dflt_wait_random_min) (mx.getD dflt_wait_random_max)

def mkExpJitter (i b mx j : Option Rat) : WLeaf :=
  .expJitter (i.getD dflt_wait_exponential_jitter_initial) (b.getD dflt_wait_exponential_jitter_exp_base)
    (mx.getD dflt_wait_exponential_jitter_max) (j.getD dflt_wait_exponential_jitter_jitter)

def mkRandomExp (m b mx mn : Option Rat) : WLeaf :=
  .randomExp (m.getD dflt_wait_random_exponential_multiplier) (b.getD dflt_wait_random_exponential_exp_base)
    (mx.getD dflt_wait_random_exponential_max) (mn.getD dflt_wait_random_exponential_min)

/-- `wait_full_jitter(...)`: its own defaults, passed on by keyword to `wait_random_exponential` -/
def mkFullJitter (m b mx mn : Option Rat) : WLeaf :=
  .randomExp (m.getD dflt_wait_full_jitter_multiplier) (b.getD dflt_wait_full_jitter_exp_base)
    (mx.getD dflt_wait_full_jitter_max) (mn.getD dflt_wait_full_jitter_min)

/-- `wait_none()` is `wait_fixed(0)` -/
def mkWaitNone : WLeaf := .fixed 0

/-- `retry_policy(retry=…, wait=…, stop=…)` with omitted components -/
def mkPolicy (retry : Option RCTree) (wait : Option WTree) (stop : Option RSTree) : PTree :=
  { retry := retry,
    wait := wait.getD (.leaf (.fixed dflt_retry_policy_wait_arg)),
    stop := stop.getD (.leaf (.afterAttempt dflt_retry_policy_stop_arg)) }

/-- `ConstantDelayRetryPolicy(maximum_attempts, delay)` -/
def mkConstantDelay (maxAtt delay : Option Rat) : PTree :=
  { retry := none,
    wait := .leaf (.fixed (delay.getD dflt_ConstantDelayRetryPolicy_delay)),
    stop := .leaf (.afterAttempt (maxAtt.getD dflt_ConstantDelayRetryPolicy_maximum_attempts)) }

/-- `ExponentialBackoffRetryPolicy(maximum_attempts, initial_delay, multiplier, max_delay, jitter)`:
the wait strategy takes `max` from `max_delay` and its own default `min` -/
def mkExpBackoff (maxAtt init mult maxd : Option Rat) (jitter : Option Bool) : PTree :=
  let i := init.getD dflt_ExponentialBackoffRetryPolicy_initial_delay
  let m := mult.getD dflt_ExponentialBackoffRetryPolicy_multiplier
  let d := maxd.getD dflt_ExponentialBackoffRetryPolicy_max_delay
  let j := jitter.getD (dflt_ExponentialBackoffRetryPolicy_jitter.getD true)
  { retry := none,
    wait := .leaf (if j then .randomExp i m d dflt_wait_random_exponential_min else .exponential i m d dflt_wait_exponential_min),
    stop := .leaf (.afterAttempt (maxAtt.getD dflt_ExponentialBackoffRetryPolicy_maximum_attempts)) }

end Policy
