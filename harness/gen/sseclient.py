"""Generator for lean/WfModel/GenSseClient.lean (property C17).

Re-extracted on every run:

* from /repo's current `_api.py` (`_WorkflowAPI._stream_events.format_stream`): the three literal
  pieces of the SSE frame f-string (`"id: "`, `"\\ndata: "`, `"\\n\\n"`; identified by position,
  not by variable name) and the heartbeat comment the generator yields;
* from /repo's current `client.py` (`WorkflowClient.get_workflow_events.reader`): the two field
  tags with the slice offsets that follow them (`"id:"`/3, `"data:"`/5), the default of
  `max_reconnect_attempts`, the default start cursor, and *which characters end a line*: the
  separator constant of the client's own splitter, or -- when the reader iterates
  `response.aiter_lines()` -- the `NEWLINE_CHARS` of the installed httpx `LineDecoder`;
* from the Python runtime: the code points `str.strip()` removes (`str.isspace`), the
  `NEWLINE_CHARS` of httpx.

Only literal values are emitted (no local names), so renaming locals or reordering independent
statements regenerates the same file.  A missing shape emits a sentinel and a note; the pinned
`C17_source_shape` then fails to compile.
"""
from __future__ import annotations

import ast
import os
from typing import Any

from ..boot import repo_path

LEAN_MODULE = "GenSseClient"

API = "packages/llama-agents-server/src/llama_agents/server/_api.py"
CLIENT = "packages/llama-agents-client/src/llama_agents/client/client.py"


def lean_char(c: str) -> str:
    if c == "\n":
        return "'\\n'"
    if 32 <= ord(c) < 127 and c not in "'\\":
        return f"'{c}'"
    return f"Char.ofNat {ord(c)}"


def lean_chars(s: str) -> str:
    return "[" + ", ".join(lean_char(c) for c in s) + "]"


def _find_def(tree: ast.AST, name: str) -> ast.AST | None:
    for n in ast.walk(tree):
        if isinstance(n, (ast.FunctionDef, ast.AsyncFunctionDef)) and n.name == name:
            return n
    return None


def _ordered(node: ast.AST) -> list[ast.AST]:
    nodes = [n for n in ast.walk(node) if hasattr(n, "lineno")]
    nodes.sort(key=lambda n: (n.lineno, n.col_offset))
    return nodes


def httpx_newline_chars(notes: list[str]) -> str:
    try:
        import httpx._decoders as dec

        tree = ast.parse(open(dec.__file__).read())
        for n in ast.walk(tree):
            if isinstance(n, ast.Assign) and isinstance(n.targets[0], ast.Name) and n.targets[0].id == "NEWLINE_CHARS" \
                    and isinstance(n.value, ast.Constant) and isinstance(n.value.value, str):
                return n.value.value
    except Exception as e:  # noqa: BLE001
        notes.append(f"gen/sseclient: httpx LineDecoder not readable: {e!r}")
    notes.append("gen/sseclient: NEWLINE_CHARS not found in httpx._decoders")
    return ""


def generate(notes: list[str]) -> list[str]:
    out: list[str] = ["namespace Gen.SseClient", ""]

    # ---- server framing
    pre = mid = post = None
    heartbeat = None
    n_formatted = 0
    try:
        tree = ast.parse(open(repo_path(API)).read())
        se = _find_def(tree, "_stream_events")
        fs = _find_def(se, "format_stream") if se is not None else None
        if fs is not None:
            for n in _ordered(fs):
                if isinstance(n, ast.Yield) and isinstance(n.value, ast.JoinedStr):
                    vals = n.value.values
                    consts = [v.value for v in vals if isinstance(v, ast.Constant)]
                    shape = "".join("c" if isinstance(v, ast.Constant) else "f" for v in vals)
                    if shape == "cfcfc" and pre is None:
                        pre, mid, post = consts
                        n_formatted = 2
                if isinstance(n, ast.Yield) and isinstance(n.value, ast.Constant) and isinstance(n.value.value, str) \
                        and heartbeat is None:
                    heartbeat = n.value.value
    except Exception as e:  # noqa: BLE001
        notes.append(f"gen/sseclient: cannot parse {API}: {e!r}")
    if pre is None:
        notes.append("gen/sseclient: SSE frame f-string (const, value, const, value, const) not found in format_stream")
        pre = mid = post = ""
    if heartbeat is None:
        notes.append("gen/sseclient: heartbeat literal not found in format_stream")
        heartbeat = ""
    out.append(f"/-! from /repo: {API} (_stream_events.format_stream) -/")
    out.append(f"def framePre : List Char := {lean_chars(pre)}")
    out.append(f"def frameMid : List Char := {lean_chars(mid)}")
    out.append(f"def framePost : List Char := {lean_chars(post)}")
    out.append(f"def heartbeat : List Char := {lean_chars(heartbeat)}")
    out.append("")

    # ---- client reader
    tags: list[tuple[str, int]] = []
    default_max: Any = None
    default_after: Any = None
    line_source = "<missing>"
    breaks = ""
    hx = httpx_newline_chars(notes)
    try:
        tree = ast.parse(open(repo_path(CLIENT)).read())
        gwe = _find_def(tree, "get_workflow_events")
        reader = _find_def(gwe, "reader") if gwe is not None else None
        if gwe is not None:
            args = gwe.args  # type: ignore[attr-defined]
            names = [a.arg for a in args.args]
            defaults = [None] * (len(names) - len(args.defaults)) + list(args.defaults)
            for nm, d in zip(names, defaults):
                if d is None:
                    continue
                try:
                    v = ast.literal_eval(d)
                except Exception:  # noqa: BLE001
                    continue
                if nm == "max_reconnect_attempts":
                    default_max = v
                if nm == "after_sequence":
                    default_after = v
        if reader is not None:
            pending: str | None = None
            for n in _ordered(reader):
                if isinstance(n, ast.Call) and isinstance(n.func, ast.Attribute) and n.func.attr == "startswith" \
                        and len(n.args) == 1 and isinstance(n.args[0], ast.Constant) and isinstance(n.args[0].value, str):
                    pending = n.args[0].value
                if isinstance(n, ast.Subscript) and isinstance(n.slice, ast.Slice) and n.slice.upper is None \
                        and isinstance(n.slice.lower, ast.Constant) and isinstance(n.slice.lower.value, int) and pending is not None:
                    tags.append((pending, n.slice.lower.value))
                    pending = None
            # which iterator feeds `line`
            for n in _ordered(reader):
                if isinstance(n, ast.AsyncFor) and isinstance(n.iter, ast.Call):
                    f = n.iter.func
                    if isinstance(f, ast.Attribute) and f.attr == "aiter_lines":
                        line_source = "httpx.aiter_lines"
                        breaks = hx
                        break
                    if isinstance(f, ast.Name):
                        helper = None
                        for m in tree.body:
                            if isinstance(m, (ast.FunctionDef, ast.AsyncFunctionDef)) and m.name == f.id:
                                helper = m
                        if helper is not None:
                            uses_text = any(isinstance(c, ast.Attribute) and c.attr == "aiter_text" for c in ast.walk(helper))
                            seps = [c.args[0].value for c in ast.walk(helper)
                                    if isinstance(c, ast.Call) and isinstance(c.func, ast.Attribute) and c.func.attr == "split"
                                    and len(c.args) == 1 and isinstance(c.args[0], ast.Constant) and isinstance(c.args[0].value, str)]
                            uses_splitlines = any(isinstance(c, ast.Attribute) and c.attr in ("splitlines", "aiter_lines")
                                                  for c in ast.walk(helper))
                            if uses_text and len(seps) == 1 and len(seps[0]) == 1 and not uses_splitlines:
                                line_source = "own-splitter"
                                breaks = seps[0]
                        break
    except Exception as e:  # noqa: BLE001
        notes.append(f"gen/sseclient: cannot parse {CLIENT}: {e!r}")
    if len(tags) != 2:
        notes.append(f"gen/sseclient: expected two (startswith, slice) pairs in reader, found {tags!r}")
        tags = (tags + [("", 0), ("", 0)])[:2]
    if not isinstance(default_max, int) or isinstance(default_max, bool) or default_max < 0:
        notes.append(f"gen/sseclient: default max_reconnect_attempts not a natural: {default_max!r}")
        default_max = 0
    if not isinstance(default_after, int) or isinstance(default_after, bool):
        notes.append(f"gen/sseclient: default after_sequence not an int: {default_after!r}")
        default_after = 0
    if line_source == "<missing>":
        notes.append("gen/sseclient: could not determine how the reader splits lines")
    out.append(f"/-! from /repo: {CLIENT} (get_workflow_events.reader) -/")
    out.append(f"def idTag : List Char := {lean_chars(tags[0][0])}")
    out.append(f"def idSkip : Nat := {tags[0][1]}")
    out.append(f"def dataTag : List Char := {lean_chars(tags[1][0])}")
    out.append(f"def dataSkip : Nat := {tags[1][1]}")
    out.append(f"def defaultMaxReconnect : Nat := {default_max}")
    out.append(f"def defaultAfterSequence : Int := {default_after}")
    out.append(f"def lineSource : String := \"{line_source}\"")
    out.append("/-- characters that end a line for the client's reader -/")
    out.append(f"def lineBreaks : List Char := {lean_chars(breaks)}")
    out.append("")

    # ---- runtime facts
    spaces = [i for i in range(0x110000) if not (0xD800 <= i <= 0xDFFF) and chr(i).isspace()]
    out.append("/-! from the Python runtime -/")
    out.append("/-- code points removed by `str.strip()` (`str.isspace`) -/")
    out.append(f"def pySpace : List Nat := {spaces!r}")
    import unicodedata

    ranges: list[list[int]] = []
    for i in range(0x110000):
        if 0xD800 <= i <= 0xDFFF:
            continue
        if unicodedata.decimal(chr(i), None) is not None:
            if ranges and ranges[-1][1] == i - 1:
                ranges[-1][1] = i
            else:
                ranges.append([i, i])
    if not all(unicodedata.decimal(chr(c)) == (c - lo) % 10 and int(chr(c)) == (c - lo) % 10
               for lo, hi in ranges for c in range(lo, hi + 1)):
        notes.append("gen/sseclient: a Unicode decimal digit's value is not (code - range start) mod 10")
        ranges = []
    out.append("/-- inclusive code point ranges of the decimal digits `int()` accepts; value = (code - start) % 10 -/")
    out.append("def decimalRanges : List (Nat × Nat) := [" + ", ".join(f"({lo}, {hi})" for lo, hi in ranges) + "]")
    out.append("/-- `NEWLINE_CHARS` of the installed httpx `LineDecoder` (what `aiter_lines` splits on) -/")
    out.append(f"def httpxBreaks : List Char := {lean_chars(hx)}")
    out.append("")
    out.append("end Gen.SseClient")
    return out
