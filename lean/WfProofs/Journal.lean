import WfModel.Journal
/-! Helper lemmas for C27 (journal replay): list facts, `replay` algebra, invariants of a fresh process. -/
namespace Journal

variable {σ κ ν ο : Type} [DecidableEq κ]

theorem find_of_mem_nodup (fl : List (Task κ)) (t : Task κ)
    (hm : t ∈ fl) (hn : (fl.map (·.key)).Nodup) :
    fl.find? (fun x => x.key == t.key) = some t := by
  induction fl with
  | nil => cases hm
  | cons x xs ih =>
    simp only [List.map_cons, List.nodup_cons] at hn
    rcases List.mem_cons.mp hm with h | h
    · subst h; simp
    · have hne : x.key ≠ t.key := by
        intro e; apply hn.1; rw [e]; exact List.mem_map.mpr ⟨t, h, rfl⟩
      simp only [List.find?_cons]
      have : (x.key == t.key) = false := by simpa using hne
      rw [this]; exact ih h hn.2

theorem replay_snoc (L : Loop σ κ ν ο) (memo : Nat → Option ν) :
    ∀ (ks : List κ) (c c' : Cfg σ κ) (os : List ο) (ts : List (Task κ)) (k : κ) (t : Task κ) (v : ν),
    L.replay memo c ks = .ok (c', os, ts) →
    c'.fl.find? (fun x => x.key == k) = some t → memo t.fid = some v →
    L.replay memo c (ks ++ [k]) =
      .ok ((L.act c' (some (t, v))).1, os ++ (L.act c' (some (t, v))).2, ts ++ [t]) := by
  intro ks
  induction ks with
  | nil =>
    intro c c' os ts k t v h hf hm
    simp only [Loop.replay] at h
    injection h with h; injection h with h1 h2; injection h2 with h2 h3
    subst h1; subst h2; subst h3
    simp [Loop.replay, hf, hm]
  | cons k0 ks ih =>
    intro c c' os ts k t v h hf hm
    simp only [List.cons_append, Loop.replay] at h ⊢
    split at h
    · cases h
    · rename_i t0 hf0
      split at h
      · cases h
      · rename_i v0 hm0
        split at h
        · cases h
        · rename_i c1 os1 ts1 hrec
          injection h with h; injection h with h1 h2; injection h2 with h2 h3
          subst h1; subst h2; subst h3
          rw [ih _ _ _ _ k t v hrec hf hm]
          simp [List.append_assoc]

theorem replay_mono (L : Loop σ κ ν ο) (memo memo' : Nat → Option ν)
    (hle : ∀ f v, memo f = some v → memo' f = some v) :
    ∀ (ks : List κ) (c : Cfg σ κ) r, L.replay memo c ks = .ok r → L.replay memo' c ks = .ok r := by
  intro ks
  induction ks with
  | nil => intro c r h; simpa [Loop.replay] using h
  | cons k ks ih =>
    intro c r h
    simp only [Loop.replay] at h ⊢
    split at h
    · cases h
    · rename_i t hf
      split at h
      · cases h
      · rename_i v hm
        split at h
        · cases h
        · rename_i c1 os1 ts1 hrec
          simp only [hle _ _ hm, ih _ _ hrec]
          exact h


/-! ### acted-event bookkeeping -/

omit [DecidableEq κ] in
theorem actedKeys_snoc_some (h : List (Option (Task κ × ν))) (t : Task κ) (v : ν) :
    actedKeys (h ++ [some (t, v)]) = actedKeys h ++ [t.key] := by
  induction h with
  | nil => rfl
  | cons x xs ih => cases x with
    | none => simpa [actedKeys] using ih
    | some p => obtain ⟨a, b⟩ := p; simp [actedKeys, ih]

omit [DecidableEq κ] in
theorem actedTasks_snoc_some (h : List (Option (Task κ × ν))) (t : Task κ) (v : ν) :
    actedTasks (h ++ [some (t, v)]) = actedTasks h ++ [t] := by
  induction h with
  | nil => rfl
  | cons x xs ih => cases x with
    | none => simpa [actedTasks] using ih
    | some p => obtain ⟨a, b⟩ := p; simp [actedTasks, ih]

omit [DecidableEq κ] in
theorem noTimeout_append (h g : List (Option (Task κ × ν))) :
    noTimeout (h ++ g) = (noTimeout h && noTimeout g) := by
  induction h with
  | nil => simp [noTimeout]
  | cons x xs ih => cases x with
    | none => simp [noTimeout]
    | some p => simpa [noTimeout] using ih

omit [DecidableEq κ] in
theorem setMemo_mono (memo : Nat → Option ν) (fid : Nat) (v : ν) (h : memo fid = none) :
    ∀ f x, memo f = some x → setMemo memo fid v f = some x := by
  intro f x hx
  unfold setMemo
  by_cases e : f = fid
  · subst e; rw [h] at hx; cases hx
  · simp [e, hx]

/-- keys of in-flight tasks are pairwise distinct in every world a fresh process can reach
(a property of the loop's key allocation: one task per worker slot, one pull sequence number) -/
def KeysDistinct (L : Loop σ κ ν ο) : Prop :=
  ∀ w, Reach L w → (w.c.fl.map (·.key)).Nodup

/-- what holds of every timeout-free fresh process -/
structure Inv (L : Loop σ κ ν ο) (w : World σ κ ν ο) : Prop where
  rep : L.replay w.memo L.cfg0 (actedKeys w.hist) = .ok (w.c, w.outs, actedTasks w.hist)
  jr : w.jr = actedKeys w.hist ++ (match w.pend with | none => [] | some t => [t.key])
  pend : ∀ t, w.pend = some t → t ∈ w.c.fl ∧ ∃ v, w.memo t.fid = some v

theorem inv_step (L : Loop σ κ ν ο) (hk : KeysDistinct L) {w w' : World σ κ ν ο}
    (hr : Reach L w) (hs : Step L w w') (hnt : noTimeout w'.hist = true) (hi : Inv L w) : Inv L w' := by
  cases hs with
  | finish t v hm hp hmemo =>
    refine ⟨?_, hi.jr, ?_⟩
    · exact replay_mono L _ _ (setMemo_mono _ _ _ hmemo) _ _ _ hi.rep
    · intro t' ht'
      obtain ⟨h1, v', h2⟩ := hi.pend t' ht'
      exact ⟨h1, v', setMemo_mono _ _ _ hmemo _ _ h2⟩
  | recv t m rest hm hp hmemo hmb =>
    refine ⟨?_, hi.jr, ?_⟩
    · exact replay_mono L _ _ (setMemo_mono _ _ _ hmemo) _ _ _ hi.rep
    · intro t' ht'
      obtain ⟨h1, v', h2⟩ := hi.pend t' ht'
      exact ⟨h1, v', setMemo_mono _ _ _ hmemo _ _ h2⟩
  | send m => exact ⟨hi.rep, hi.jr, hi.pend⟩
  | record t v hp hm hmemo =>
    refine ⟨hi.rep, ?_, ?_⟩
    · have := hi.jr; rw [hp] at this; simp [this]
    · intro t' ht'; cases ht'; exact ⟨hm, v, hmemo⟩
  | actOn t v hp hmemo =>
    obtain ⟨hmem, _⟩ := hi.pend t hp
    have hf := find_of_mem_nodup w.c.fl t hmem (hk w hr)
    refine ⟨?_, ?_, ?_⟩
    · simp only [actedKeys_snoc_some, actedTasks_snoc_some]
      exact replay_snoc L w.memo _ _ _ _ _ _ t v hi.rep hf hmemo
    · have := hi.jr; rw [hp] at this; simp [this, actedKeys_snoc_some]
    · intro t' ht'; cases ht'
  | timeout hp ha =>
    simp [noTimeout_append, noTimeout] at hnt

theorem inv_of_reach (L : Loop σ κ ν ο) (hk : KeysDistinct L) {w : World σ κ ν ο}
    (hr : Reach L w) : noTimeout w.hist = true → Inv L w := by
  induction hr with
  | init =>
    intro _
    exact ⟨by simp [Loop.world0, actedKeys, actedTasks, Loop.replay], by simp [Loop.world0, actedKeys],
           by intro t h; simp [Loop.world0] at h⟩
  | @step w0 w1 hr hs ih =>
    intro hnt
    have hnt0 : noTimeout w0.hist = true := by
      cases hs <;> first
        | exact hnt
        | (simp only [noTimeout_append, Bool.and_eq_true] at hnt; exact hnt.1)
    exact inv_step L hk hr hs hnt (ih hnt0)

end Journal
