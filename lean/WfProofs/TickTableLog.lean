import WfModel.TickTable
/-!
C13 helpers — the `ticks` table after any history of `append_tick` calls is, run by run, the log of
what was appended: sequences `0, 1, …, n-1` in call order (so strictly increasing — the hypothesis of
`TickStream.streamTicks_complete`), data in call order, `ORDER BY sequence` = insertion order; for the
sqlite statement and for the memory store's list alike.
-/
set_option linter.unusedVariables false
set_option linter.unusedSimpArgs false

namespace Engine.TickTable

/-- per run, the sequence column in insertion order is `0 … n-1` -/
def Inv (t : Table) : Prop := ∀ run, (ofRun t run).map (·.seq) = List.range (ofRun t run).length

theorem maxOpt_spec : ∀ (l : List Nat), (maxOpt l = none ↔ l = []) ∧ ∀ m, maxOpt l = some m → m ∈ l ∧ ∀ x ∈ l, x ≤ m
  | [] => by simp [maxOpt]
  | x :: xs => by
    have ih := maxOpt_spec xs
    refine ⟨by simp [maxOpt], ?_⟩
    intro m hm
    simp only [maxOpt, Option.some.injEq] at hm
    cases hx : maxOpt xs with
    | none =>
      rw [hx] at hm
      have : xs = [] := ih.1.mp hx
      subst this; subst hm
      simp
    | some m0 =>
      rw [hx] at hm
      obtain ⟨h1, h2⟩ := ih.2 m0 hx
      simp only at hm
      split at hm
      · subst hm
        refine ⟨by simp [h1], ?_⟩
        intro y hy
        simp only [List.mem_cons] at hy
        rcases hy with hy | hy
        · subst hy; assumption
        · exact h2 y hy
      · subst hm
        refine ⟨by simp, ?_⟩
        intro y hy
        simp only [List.mem_cons] at hy
        rcases hy with hy | hy
        · subst hy; exact Nat.le_refl _
        · have := h2 y hy; omega

theorem maxOpt_range (n : Nat) : maxOpt (List.range (n + 1)) = some n := by
  have sp := maxOpt_spec (List.range (n + 1))
  cases hm : maxOpt (List.range (n + 1)) with
  | none =>
    have := sp.1.mp hm
    simp at this
  | some m =>
    obtain ⟨h1, h2⟩ := sp.2 m hm
    have h3 := h2 n (by simp)
    simp only [List.mem_range] at h1
    congr 1
    omega

theorem ofRun_snoc (t : Table) (row : Row) (run : Nat) :
    ofRun (t ++ [row]) run = if row.run == run then ofRun t run ++ [row] else ofRun t run := by
  simp only [ofRun, List.filter_append, List.filter_cons, List.filter_nil]
  split <;> simp

theorem sqlNextSeq_inv (t : Table) (run : Nat) (h : Inv t) : sqlNextSeq (-1) 1 t run = (ofRun t run).length := by
  unfold sqlNextSeq
  rw [h run]
  cases hn : (ofRun t run).length with
  | zero => simp [maxOpt]
  | succ n =>
    rw [maxOpt_range]
    simp only
    omega

theorem memNextSeq_inv (t : Table) (run : Nat) (h : Inv t) : memNextSeq 0 1 t run = (ofRun t run).length := by
  unfold memNextSeq
  have hr := h run
  cases hl : (ofRun t run).getLast? with
  | none =>
    have : ofRun t run = [] := by simpa using hl
    simp [this]
  | some r =>
    simp only
    have h1 : ((ofRun t run).map (·.seq)).getLast? = some r.seq := by
      rw [List.getLast?_map, hl]; rfl
    rw [hr] at h1
    cases hn : (ofRun t run).length with
    | zero => rw [hn] at h1; simp at h1
    | succ n =>
      rw [hn, List.range_succ] at h1
      simp at h1
      omega

/-- one `append_tick` whose sequence is the run's row count keeps the invariant -/
theorem inv_snoc (t : Table) (run data seq : Nat) (h : Inv t) (hs : seq = (ofRun t run).length) :
    Inv (t ++ [{ run := run, seq := seq, data := data }]) := by
  intro r
  rw [ofRun_snoc]
  by_cases hr : (run == r) = true
  · simp only [hr, if_true, List.map_append, List.map_cons, List.map_nil, List.length_append, List.length_cons,
      List.length_nil]
    have : run = r := by simpa using hr
    subst this
    rw [h run, List.range_succ, hs]
  · simp only [hr, if_false]
    exact h r

/-- the two stores as one loop over an arbitrary "next sequence" rule -/
def runWith (next : Table → Nat → Nat) (t : Table) (h : List (Nat × Nat)) : Table :=
  h.foldl (fun t p => t ++ [{ run := p.1, seq := next t p.1, data := p.2 }]) t

theorem sqlRun_eq (c i : Int) (t : Table) (h : List (Nat × Nat)) : sqlRun c i t h = runWith (sqlNextSeq c i) t h := rfl
theorem memRun_eq (f i : Nat) (t : Table) (h : List (Nat × Nat)) : memRun f i t h = runWith (memNextSeq f i) t h := rfl

theorem runWith_log (next : Table → Nat → Nat) (hnext : ∀ t run, Inv t → next t run = (ofRun t run).length) :
    ∀ (h : List (Nat × Nat)) (t : Table), Inv t →
      Inv (runWith next t h) ∧
      ∀ run, (ofRun (runWith next t h) run).map (·.data) = (ofRun t run).map (·.data) ++ appended h run
  | [], t, hi => by simp [runWith, appended, hi]
  | p :: ps, t, hi => by
    have hi' := inv_snoc t p.1 p.2 (next t p.1) hi (hnext t p.1 hi)
    have ih := runWith_log next hnext ps _ hi'
    have hrun : runWith next t (p :: ps) = runWith next (t ++ [{ run := p.1, seq := next t p.1, data := p.2 }]) ps := by
      simp [runWith]
    rw [hrun]
    refine ⟨ih.1, ?_⟩
    intro run
    rw [ih.2 run, ofRun_snoc]
    by_cases hr : (p.1 == run) = true
    · simp [hr, appended, List.filter_cons]
    · simp [hr, appended, List.filter_cons]

theorem inv_nil : Inv [] := by intro r; simp [ofRun]

theorem orderBySeq_sorted : ∀ (l : List Row), (l.map (·.seq)).Pairwise (· < ·) → orderBySeq l = l
  | [], _ => rfl
  | x :: xs, h => by
    simp only [List.map_cons, List.pairwise_cons] at h
    have ih := orderBySeq_sorted xs h.2
    have : orderBySeq (x :: xs) = insertRow x (orderBySeq xs) := rfl
    rw [this, ih]
    cases xs with
    | nil => rfl
    | cons y ys =>
      have hlt := h.1 y.seq (by simp)
      simp only [insertRow]
      have : x.seq ≤ y.seq := by omega
      simp [this]

/-- **the table is the append log**: after any history of appends on an empty store whose "next
sequence" rule yields the run's row count, each run's rows are — in insertion order and equally in
`ORDER BY sequence` order — exactly what was appended for it, numbered `0 … n-1` -/
theorem table_is_log (next : Table → Nat → Nat) (hnext : ∀ t run, Inv t → next t run = (ofRun t run).length)
    (h : List (Nat × Nat)) (run : Nat) :
    (ofRun (runWith next [] h) run).map (·.data) = appended h run ∧
    (ofRun (runWith next [] h) run).map (·.seq) = List.range (appended h run).length ∧
    orderBySeq (ofRun (runWith next [] h) run) = ofRun (runWith next [] h) run := by
  obtain ⟨hi, hd⟩ := runWith_log next hnext h [] inv_nil
  have h1 : (ofRun (runWith next [] h) run).map (·.data) = appended h run := by
    rw [hd run]; simp [ofRun]
  have hlen : (ofRun (runWith next [] h) run).length = (appended h run).length := by
    rw [← h1, List.length_map]
  have h2 : (ofRun (runWith next [] h) run).map (·.seq) = List.range (appended h run).length := by
    rw [hi run, hlen]
  refine ⟨h1, h2, orderBySeq_sorted _ ?_⟩
  rw [h2]
  exact List.pairwise_lt_range

end Engine.TickTable
