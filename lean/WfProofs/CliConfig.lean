import WfModel.CliConfig
/-! Helper lemmas for C37 (model M16, `WfModel/CliConfig.lean`). -/
namespace CliConfig

/-- The sources clear the selection at each of the three environment changes, and the
migration seeds a current environment that is the default or the seeded row. -/
def Good (c : Cfg) : Prop :=
  c.switchClears = true ∧ c.addClears = true ∧ c.deleteClears = true ∧
  (c.seedCurrent = c.defaultUrl ∨ c.seedEnv.url = c.seedCurrent)

instance (c : Cfg) : Decidable (Good c) := by unfold Good; infer_instance

/-- no two profile rows share the key `(name, api_url)` -/
def KeysUnique (ps : List Profile) : Prop :=
  ps.Pairwise (fun p q => ¬ (p.name = q.name ∧ p.env = q.env))

structure Inv (c : Cfg) (s : State) : Prop where
  envKnown : s.curEnv = c.defaultUrl ∨ ∃ r ∈ s.envs, r.url = s.curEnv
  picked : ∀ n, s.curProf = some n → s.pick = some (n, s.curEnv)
  keys : KeysUnique s.profiles

theorem firstByName_mem : ∀ (ps : List Profile) (p : Profile), firstByName ps = some p → p ∈ ps
  | [], p, h => by simp [firstByName] at h
  | q :: qs, p, h => by
    unfold firstByName at h
    split at h
    · simp only [Option.some.injEq] at h; subst h; simp
    · rename_i r hr
      have := firstByName_mem qs r hr
      split at h <;> simp only [Option.some.injEq] at h <;> subst h <;> simp [this]

theorem firstByName_none : ∀ (ps : List Profile), firstByName ps = none → ps = []
  | [], _ => rfl
  | q :: qs, h => by
    unfold firstByName at h
    split at h
    · simp at h
    · split at h <;> simp at h

theorem getProfile_some {s : State} {n e : String} {p : Profile} (h : getProfile s n e = some p) :
    p ∈ s.profiles ∧ p.name = n ∧ p.env = e := by
  unfold getProfile at h
  have h1 := List.mem_of_find?_eq_some h
  have h2 := List.find?_some h
  simp only [hasKey, decide_eq_true_eq] at h2
  exact ⟨h1, h2⟩

theorem getProfile_none {s : State} {n e : String} (h : getProfile s n e = none) :
    ∀ p ∈ s.profiles, ¬ (p.name = n ∧ p.env = e) := by
  unfold getProfile at h
  intro p hp
  have := List.find?_eq_none.mp h p hp
  simpa [hasKey] using this

theorem getEnv_some {s : State} {u : String} {r : EnvRow} (h : getEnv s u = some r) :
    r ∈ s.envs ∧ r.url = u := by
  unfold getEnv at h
  have h1 := List.mem_of_find?_eq_some h
  have h2 := List.find?_some h
  simp only [decide_eq_true_eq] at h2
  exact ⟨h1, h2⟩

theorem keys_map {ps : List Profile} (f : Profile → Profile)
    (hf : ∀ p, (f p).name = p.name ∧ (f p).env = p.env) (h : KeysUnique ps) : KeysUnique (ps.map f) := by
  unfold KeysUnique at *
  apply List.Pairwise.map f _ h
  intro a b hab
  rw [(hf a).1, (hf a).2, (hf b).1, (hf b).2]
  exact hab

theorem keys_filter {ps : List Profile} (q : Profile → Bool) (h : KeysUnique ps) : KeysUnique (ps.filter q) :=
  List.Pairwise.filter q h

theorem keys_snoc {ps : List Profile} {p : Profile} (h : KeysUnique ps)
    (hp : ∀ q ∈ ps, ¬ (q.name = p.name ∧ q.env = p.env)) : KeysUnique (ps ++ [p]) := by
  unfold KeysUnique at *
  rw [List.pairwise_append]
  refine ⟨h, by simp, ?_⟩
  intro a ha b hb
  simp only [List.mem_singleton] at hb
  subst hb
  exact hp a ha

theorem envKnown_upsert {c : Cfg} {s : State} (r : EnvRow)
    (h : s.curEnv = c.defaultUrl ∨ ∃ x ∈ s.envs, x.url = s.curEnv) :
    (upsertEnv s r).curEnv = c.defaultUrl ∨ ∃ x ∈ (upsertEnv s r).envs, x.url = (upsertEnv s r).curEnv := by
  rcases h with h | ⟨x, hx, hxu⟩
  · exact Or.inl h
  · right
    by_cases hr : x.url = r.url
    · exact ⟨r, by simp [upsertEnv], by simp [upsertEnv, ← hr, hxu]⟩
    · exact ⟨x, by simp [upsertEnv, hx, hr], by simp [upsertEnv, hxu]⟩

theorem createAndSelect_inv {c : Cfg} {s : State} (name project : String) (key : Option String) (o : Option Oidc)
    (h : Inv c s) : Inv c (createAndSelect s name project key o).1 := by
  unfold createAndSelect
  split
  · exact h
  · split
    · exact h
    · rename_i _ hnone
      simp only [Option.isSome_iff_ne_none, ne_eq, Decidable.not_not] at hnone
      refine ⟨h.envKnown, ?_, ?_⟩
      · intro n hn
        simp only [Option.some.injEq] at hn
        subst hn; rfl
      · exact keys_snoc h.keys (fun q hq => getProfile_none hnone q hq)

theorem inv_init {c : Cfg} (hg : Good c) : Inv c (init c) := by
  obtain ⟨_, _, _, h4⟩ := hg
  refine ⟨?_, ?_, ?_⟩
  · rcases h4 with h | h
    · exact Or.inl h
    · exact Or.inr ⟨c.seedEnv, by simp [init], h⟩
  · intro n hn; simp [init] at hn
  · simp [init, KeysUnique]

theorem inv_step {c : Cfg} (hg : Good c) {s : State} (h : Inv c s) (op : Op) : Inv c (step c s op).1 := by
  obtain ⟨hsw, had, hdel, hseed⟩ := hg
  cases op with
  | envAdd url ra mv =>
    simp only [step, had, if_true]
    refine ⟨Or.inr ⟨⟨url, ra, mv⟩, by simp [upsertEnv], rfl⟩, ?_, ?_⟩
    · intro n hn; simp at hn
    · exact h.keys
  | envUpsert url ra mv =>
    simp only [step]
    exact ⟨envKnown_upsert _ h.envKnown, h.picked, h.keys⟩
  | envSwitch url =>
    simp only [step]
    split
    · exact h
    · rename_i r hr
      have := getEnv_some hr
      simp only [hsw, if_true]
      exact ⟨Or.inr ⟨r, this.1, this.2⟩, by intro n hn; simp at hn, h.keys⟩
  | envDelete url =>
    simp only [step]
    split
    · exact h
    · split
      · exact ⟨Or.inl rfl, by intro n hn; simp at hn, keys_filter _ h.keys⟩
      · rename_i hne
        refine ⟨?_, h.picked, keys_filter _ h.keys⟩
        rcases h.envKnown with hd | ⟨r, hr, hru⟩
        · exact Or.inl hd
        · refine Or.inr ⟨r, ?_, hru⟩
          simp only [List.mem_filter, decide_eq_true_eq]
          exact ⟨hr, by rw [hru]; exact hne⟩
  | createToken project key => exact createAndSelect_inv _ _ _ _ h
  | createOidc project uid email tok =>
    simp only [step]
    split
    · refine ⟨h.envKnown, ?_, ?_⟩
      · intro n hn
        simp only [Option.some.injEq] at hn
        subst hn; rfl
      · apply keys_map _ _ h.keys
        intro p; split <;> simp
    · exact createAndSelect_inv _ _ _ _ h
  | select name =>
    simp only [step]
    exact ⟨h.envKnown, by intro n hn; simp only [Option.some.injEq] at hn; subst hn; rfl, h.keys⟩
  | selectAny =>
    simp only [step]
    split
    · exact h
    · exact ⟨h.envKnown, by intro n hn; simp only [Option.some.injEq] at hn; subst hn; rfl, h.keys⟩
  | deleteProfile name =>
    simp only [step]
    refine ⟨h.envKnown, ?_, keys_filter _ h.keys⟩
    intro n hn
    split at hn
    · simp at hn
    · exact h.picked n hn
  | setProject name project =>
    simp only [step]
    refine ⟨h.envKnown, h.picked, ?_⟩
    apply keys_map _ _ h.keys
    intro p; split <;> simp
  | updateKey name key keyId =>
    simp only [step]
    split
    · exact h
    · refine ⟨h.envKnown, h.picked, ?_⟩
      apply keys_map _ _ h.keys
      intro p; split <;> simp
  | destroy =>
    simp only [step]
    have := inv_init (c := c) ⟨hsw, had, hdel, hseed⟩
    exact ⟨this.envKnown, by intro n hn; simp [init] at hn, this.keys⟩
  | probe ra mv =>
    simp only [step]
    split
    · exact h
    · exact ⟨envKnown_upsert _ h.envKnown, h.picked, h.keys⟩
  | refresh pid uid tok =>
    simp only [step]
    split
    · exact h
    · refine ⟨h.envKnown, h.picked, ?_⟩
      apply keys_map _ _ h.keys
      intro p; split <;> simp

theorem inv_run {c : Cfg} (hg : Good c) : ∀ (ops : List Op) (s : State), Inv c s → Inv c (run c s ops)
  | [], _, h => h
  | op :: ops, _, h => inv_run hg ops _ (inv_step hg h op)

theorem run_append (c : Cfg) : ∀ (xs ys : List Op) (s : State), run c s (xs ++ ys) = run c (run c s xs) ys
  | [], _, _ => rfl
  | x :: xs, ys, s => by simp only [List.cons_append, run]; exact run_append c xs ys _

/-- The ghost field after one step: either the operation is a pick event (and the field
records its name and the environment current *before* the step), or the field is unchanged. -/
theorem pick_step (c : Cfg) (s : State) (op : Op) :
    (step c s op).1.pick = match picks c s op with
      | some n => some (n, s.curEnv)
      | none => s.pick := by
  cases op with
  | envAdd url ra mv => simp [step, picks, upsertEnv]
  | envUpsert url ra mv => simp [step, picks, upsertEnv]
  | envSwitch url => simp only [step, picks]; split <;> simp
  | envDelete url =>
    simp only [step, picks]
    split
    · simp
    · split <;> simp
  | createToken project key =>
    simp only [step, picks, createAndSelect]
    split
    · simp
    · split <;> simp
  | createOidc project uid email tok =>
    simp only [step, picks, createAndSelect]
    split
    · simp
    · split
      · simp
      · split <;> simp
  | select name => simp [step, picks]
  | selectAny =>
    simp only [step, picks]
    split <;> rename_i hf <;> simp [hf]
  | deleteProfile name => simp [step, picks]
  | setProject name project => simp [step, picks]
  | updateKey name key keyId => simp only [step, picks]; split <;> simp
  | destroy => simp [step, picks, init]
  | probe ra mv => simp only [step, picks]; split <;> simp [upsertEnv]
  | refresh pid uid tok => simp only [step, picks]; split <;> simp

end CliConfig

namespace CliConfig

/-- A recorded latest pick is either the initial value or a real event of the history:
some operation picked that name while that environment was current. -/
theorem lastPickFrom_event (c : Cfg) : ∀ (ops : List Op) (s : State) (acc : Option (String × String)) (n e : String),
    lastPickFrom c s acc ops = some (n, e) →
    acc = some (n, e) ∨
    ∃ pre op post, ops = pre ++ op :: post ∧ picks c (run c s pre) op = some n ∧ (run c s pre).curEnv = e
  | [], _, _, _, _, h => Or.inl h
  | op :: ops, s, acc, n, e, h => by
    simp only [lastPickFrom] at h
    rcases lastPickFrom_event c ops _ _ n e h with h1 | ⟨pre, op', post, hops, hp, he⟩
    · cases hpk : picks c s op with
      | none => rw [hpk] at h1; exact Or.inl h1
      | some m =>
        rw [hpk] at h1
        simp only [Option.some.injEq, Prod.mk.injEq] at h1
        refine Or.inr ⟨[], op, ops, rfl, ?_, ?_⟩
        · simp only [run]; rw [hpk, h1.1]
        · simp only [run]; exact h1.2
    · exact Or.inr ⟨op :: pre, op', post, by rw [hops]; rfl, hp, he⟩

end CliConfig
