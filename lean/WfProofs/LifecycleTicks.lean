import WfProofs.LifecycleRow
/-!
# Tick accounting of the DBOS release / resume protocol (machine B of M7)

Every tick whose sender has finished (`res k = .done`: delivered by `uSend` or folded into the rebuilt state by
`uFinish`) is in exactly one of three places — reduced by the run (`processed`), in the mailbox of the workflow
(`inbox`), or stranded in the mailbox of a workflow that has exited (`stranded`) — and nothing else is in any of
them.  So no tick is reduced twice, and the only way the protocol loses an accepted tick is the stranding that the
check-then-send windows allow.
-/
set_option linter.unusedVariables false
namespace Lifecycle

def msgTick : Msg → Option Nat
  | .tick t => some t
  | .idleRelease => none

def inboxTicks (m : List Msg) : List Nat := m.filterMap msgTick

def Sys.places (s : Sys) : List Nat := s.processed ++ (inboxTicks s.inbox ++ s.stranded)

structure TickAcc (s : Sys) : Prop where
  nodup : s.places.Nodup
  done_iff : ∀ k, k ∈ s.places ↔ s.res k = .done

theorem TickAcc.init : TickAcc {} :=
  ⟨by simp [Sys.places, inboxTicks], by intro k; simp [Sys.places, inboxTicks]⟩

theorem inboxTicks_append (a b : List Msg) : inboxTicks (a ++ b) = inboxTicks a ++ inboxTicks b := by
  simp [inboxTicks, List.filterMap_append]

theorem mem_inboxTicks (m : List Msg) (k : Nat) : k ∈ inboxTicks m ↔ Msg.tick k ∈ m := by
  simp only [inboxTicks, List.mem_filterMap]
  constructor
  · rintro ⟨x, hx, hk⟩
    cases x with
    | tick t => simp [msgTick] at hk; subst hk; exact hx
    | idleRelease => simp [msgTick] at hk
  · intro h; exact ⟨_, h, rfl⟩

theorem filterMap_eq_inboxTicks (m : List Msg) :
    m.filterMap (fun m => match m with | .tick t => some t | .idleRelease => none) = inboxTicks m := by
  unfold inboxTicks
  congr 1

/-- the places are untouched and one non-finished sender moves to another non-finished position -/
theorem TickAcc.move (s s' : Sys) (k : Nat) (v : UPc) (h : TickAcc s) (hp : s'.places = s.places)
    (hr : s'.res = upd s.res k v) (hk : s.res k ≠ .done) (hv : v ≠ .done) : TickAcc s' := by
  constructor
  · rw [hp]; exact h.nodup
  · intro j
    rw [hp, hr, upd_apply]
    by_cases e : j = k
    · subst e
      simp only [if_true]
      constructor
      · intro hm; exact absurd ((h.done_iff j).1 hm) hk
      · intro hd; exact absurd hd hv
    · simp only [e, if_false]; exact h.done_iff j

/-- the places are untouched and no sender moves -/
theorem TickAcc.frame (s s' : Sys) (h : TickAcc s) (hp : s'.places = s.places) (hr : s'.res = s.res) : TickAcc s' := by
  constructor
  · rw [hp]; exact h.nodup
  · intro j; rw [hp, hr]; exact h.done_iff j

/-- a sender finishes: its tick enters the places, which otherwise are permuted -/
theorem TickAcc.enter (s s' : Sys) (k : Nat) (h : TickAcc s) (hp : s'.places.Perm (k :: s.places))
    (hr : s'.res = upd s.res k .done) (hk : s.res k ≠ .done) : TickAcc s' := by
  have hnot : k ∉ s.places := fun hm => hk ((h.done_iff k).1 hm)
  constructor
  · rw [hp.nodup_iff]; exact List.nodup_cons.2 ⟨hnot, h.nodup⟩
  · intro j
    rw [hp.mem_iff, hr, upd_apply, List.mem_cons]
    by_cases e : j = k
    · simp [e]
    · simp only [e, if_false, false_or]; exact h.done_iff j

theorem TickAcc.step (s s' : Sys) (a : BAct) (h : bstep s a = some s') (hi : TickAcc s) : TickAcc s' := by
  cases a with
  | tick dt => bdestruct h; exact hi.frame _ _ rfl rfl
  | create => bdestruct h; exact hi.frame _ _ rfl rfl
  | rSpawn i => bdestruct h; exact hi.frame _ _ rfl rfl
  | rBegin i => bdestruct h <;> exact hi.frame _ _ rfl rfl
  | rSend i =>
    bdestruct h
    refine hi.frame _ _ ?_ rfl
    simp [Sys.places, inboxTicks, msgTick]
  | rComplete i => bdestruct h <;> exact hi.frame _ _ rfl rfl
  | rCrash i => bdestruct h <;> exact hi.frame _ _ rfl rfl
  | uSpawn k =>
    bdestruct h
    rename_i hk
    refine hi.move _ _ k .start rfl rfl ?_ (by decide)
    intro e; rw [e] at hk; simp at hk
  | uTry k =>
    simp only [bstep] at h
    split at h
    · rename_i hk
      have hnd : s.res k ≠ .done := by
        intro e; rw [e] at hk; simp at hk
      repeat' (split at h)
      all_goals (first | (cases h; done) | skip)
      all_goals (simp only [Option.some.injEq] at h; subst h)
      all_goals first
        | exact hi.move _ _ k .pass rfl rfl hnd (by decide)
        | exact hi.move _ _ k .owner rfl rfl hnd (by decide)
        | exact hi.move _ _ k .waiting rfl rfl hnd (by decide)
    · cases h
  | uSend k =>
    bdestruct h
    · rename_i hk hup
      have hnd : s.res k ≠ .done := by
        intro e; rw [e] at hk; simp at hk
      refine hi.enter _ _ k ?_ rfl hnd
      simp only [Sys.places, inboxTicks_append]
      have : inboxTicks [Msg.tick k] = [k] := rfl
      rw [this]
      -- processed ++ ((ticks ++ [k]) ++ stranded) ~ k :: (processed ++ (ticks ++ stranded))
      have p1 : (inboxTicks s.inbox ++ [k] ++ s.stranded).Perm (k :: (inboxTicks s.inbox ++ s.stranded)) := by
        rw [List.append_assoc]
        exact List.perm_middle
      exact (List.Perm.append_left _ p1).trans List.perm_middle
    · rename_i hk hup
      have hnd : s.res k ≠ .done := by
        intro e; rw [e] at hk; simp at hk
      refine hi.enter _ _ k ?_ rfl hnd
      simp only [Sys.places]
      have p1 : (inboxTicks s.inbox ++ (s.stranded ++ [k])).Perm (k :: (inboxTicks s.inbox ++ s.stranded)) := by
        rw [← List.append_assoc]
        exact List.perm_append_singleton _ _
      exact (List.Perm.append_left _ p1).trans List.perm_middle
  | uFinish k =>
    bdestruct h
    rename_i hk
    have hnd : s.res k ≠ .done := by
      intro e; simp [e] at hk
    refine hi.enter _ _ k ?_ rfl hnd
    simp only [Sys.places]
    have : inboxTicks [Msg.tick k] = [k] := rfl
    rw [this]
    -- processed ++ ([k] ++ (stranded ++ ticks)) ~ k :: (processed ++ (ticks ++ stranded))
    have p1 : ([k] ++ (s.stranded ++ inboxTicks s.inbox)).Perm (k :: (inboxTicks s.inbox ++ s.stranded)) := by
      simp only [List.singleton_append]
      exact List.Perm.cons _ List.perm_append_comm
    exact (List.Perm.append_left _ p1).trans List.perm_middle
  | wfStep =>
    simp only [bstep] at h
    split at h
    · cases h
    · split at h
      · rename_i t m hin
        simp only [Option.some.injEq] at h; subst h
        constructor
        · have hp : (s.processed ++ [t] ++ (inboxTicks m ++ s.stranded)).Perm s.places := by
            simp only [Sys.places, hin, inboxTicks, List.filterMap_cons, msgTick]
            simp [List.append_assoc]
          exact hp.nodup_iff.2 hi.nodup
        · intro j
          have hp : (s.processed ++ [t] ++ (inboxTicks m ++ s.stranded)).Perm s.places := by
            simp only [Sys.places, hin, inboxTicks, List.filterMap_cons, msgTick]
            simp [List.append_assoc]
          show j ∈ s.processed ++ [t] ++ (inboxTicks m ++ s.stranded) ↔ _
          rw [hp.mem_iff]; exact hi.done_iff j
      · rename_i m hin
        simp only [Option.some.injEq] at h; subst h
        refine hi.frame _ _ ?_ rfl
        have e : inboxTicks (Msg.idleRelease :: m) = inboxTicks m := rfl
        simp only [Sys.places, hin, e]
      · cases h

theorem TickAcc.stepD (s : Sys) (a : BAct) (hi : TickAcc s) : TickAcc (bstepD s a) := by
  rcases bstepD_eq s a with h | h
  · rw [h]; exact hi
  · exact hi.step _ _ _ h

theorem TickAcc.run (acts : List BAct) (s : Sys) (hi : TickAcc s) : TickAcc (brun s acts) := by
  induction acts generalizing s with
  | nil => exact hi
  | cons a as ih => exact ih _ (hi.stepD s a)

/-- the only two actions that strand a tick: a sender that had passed the lifecycle check delivers to a workflow that has
exited meanwhile, and a resume that finds ticks left in the mailbox of the exited workflow -/
theorem stranded_only_in_windows (s s' : Sys) (a : BAct) (h : bstep s a = some s') (hne : s'.stranded ≠ s.stranded) :
    (∃ k, a = .uSend k ∧ s.res k = .pass ∧ s.wfUp = false ∧ s'.stranded = s.stranded ++ [k]) ∨
    (∃ k, a = .uFinish k ∧ s.res k = .owner ∧ s.wfUp = false ∧ inboxTicks s.inbox ≠ [] ∧
      s'.stranded = s.stranded ++ inboxTicks s.inbox) := by
  cases a with
  | tick dt => bdestruct h; exact absurd rfl hne
  | create => bdestruct h; exact absurd rfl hne
  | rSpawn i => bdestruct h; exact absurd rfl hne
  | rBegin i => bdestruct h <;> exact absurd rfl hne
  | rSend i => bdestruct h; exact absurd rfl hne
  | rComplete i => bdestruct h <;> exact absurd rfl hne
  | rCrash i => bdestruct h <;> exact absurd rfl hne
  | uSpawn k => bdestruct h; exact absurd rfl hne
  | uTry k =>
    simp only [bstep] at h
    repeat' (split at h)
    all_goals (first | (cases h; done) | (simp only [Option.some.injEq] at h; subst h; exact absurd rfl hne))
  | uSend k =>
    bdestruct h
    · exact absurd rfl hne
    · rename_i hk hup
      left
      refine ⟨k, rfl, ?_, ?_, rfl⟩
      · simpa using hk
      · simpa using hup
  | uFinish k =>
    bdestruct h
    rename_i hk
    right
    have hk' : s.res k = .owner ∧ s.wfUp = false := by simpa using hk
    refine ⟨k, rfl, hk'.1, hk'.2, ?_, rfl⟩
    intro e
    apply hne
    show s.stranded ++ inboxTicks s.inbox = s.stranded
    rw [e]; simp
  | wfStep =>
    simp only [bstep] at h
    repeat' (split at h)
    all_goals (first | (cases h; done) | (simp only [Option.some.injEq] at h; subst h; exact absurd rfl hne))

end Lifecycle
