"""C03 — queued work never stalls and idleness is reported only when truly idle."""
from __future__ import annotations

from ..engine import c03x, monitors, suite
from ..runner import Env, Outcome

THEOREMS = ["C03_work_conserving", "C03_idle_reducer_sound", "C03_refuted_timer", "C03_refuted_mailbox", "C03_refuted",
            # the runner level: every reachable state of every run, fresh or resumed from whatever state
            "C03_work_conserving_runner", "C03_rewind_exact", "C03_in_progress_is_live", "C03_full_limit_live",
            "C03_idle_check_exact", "C03_idle_runner_sound", "C03_idle_exceptions_exact", "C03_refuted_unhandled_batch",
            "C03_truly_idle_is_quiescent",
            # the anchored source as found on this run (harness/gen/idle_shape.py -> WfModel/GenIdleShape.lean)
            "C03_check_idle_is_source", "C03_refill_guard_is_source", "C03_source_shape",
            # the server side (IdleReleaseDecorator, model M7): what is treated as idle, when a release happens
            "C03_server_idle_mark_origin", "C03_server_release_needs_mark", "C03_server_release_reads_mark"]
LEAN_TARGETS = ["WfProps.C03"]
EXPLANATION = (
    "Work conservation is proved for every tick history (queue non-empty => all num_workers slots busy, until a tick "
    "ends the run). Idle soundness: proved as far as the reducer state goes (idle/UnhandledEvent(idle) only when all "
    "queues and in-progress tables are empty and the run is marked running); the full statement (no scheduled retry, "
    "no delivered-but-unprocessed event) is REFUTED on the faithful runner model by two decide-checked witnesses "
    "(C03_refuted_timer, C03_refuted_mailbox) which the check replays on the real engine: both reproduce and are "
    "listed as known findings. Any other way of announcing idleness unsoundly, or a stalled queue, is a VIOLATION. "
    "On the runner LTS (every reachable state of every run, started fresh or resumed from ANY state, every schedule): work conservation "
    "(C03_work_conserving_runner), the rewind in closed form (C03_rewind_exact: former in-progress rows reversed, then the queue; the first "
    "min(num_workers, #pending) started in order, the rest queued in order), every in-progress row is backed by a live worker task or its own "
    "result tick is being reduced or a StopEvent result is (C03_in_progress_is_live; with an empty buffer a step with queued events has exactly "
    "num_workers live tasks: C03_full_limit_live), the deferred idle check (flag <=> one TickIdleCheck, last in the buffer, never in heap or "
    "mailbox: C03_idle_check_exact), and the strongest true idle theorem (C03_idle_runner_sound: an announcement is made by the loop only, with "
    "all queues / in-progress tables empty, NO live worker task, nothing queued by the announcing tick, no step result buffered, and for "
    "WorkflowIdleEvent an EMPTY buffer), so that the run is not truly idle IFF a delayed retry sits in the timer heap or an addEvent in the "
    "mailbox (C03_idle_exceptions_exact = exactly the two known findings), and with both empty nothing but the clock can change without external "
    "input (C03_truly_idle_is_quiescent). For UnhandledEvent(idle=True) the empty-buffer clause is NOT claimed: C03_refuted_unhandled_batch is a "
    "decide-checked witness (a step that hands collect_events an event of a type it does not accept; two retries due at the same instant) in which "
    "UnhandledEvent(idle=True) is published with a due retry still in the tick buffer, heap and mailbox empty; it replays on the real engine "
    "(harness/corpus/c03_unhandled_idle_batch.json, attached; open known finding C03/idle_unhandled_event_with_buffered_tick). The quiescence test, both refill-loop conditions, the guard around the step-result refill, has_space, "
    "the TickIdleCheck / CommandScheduleIdleCheck branches, the buffer-drain loop, the rewind's shape and the server's idle marker "
    "(WorkflowIdleEvent only; release needs idle_since + idle_timeout elapsed + active; a send to an active run withdraws the mark) are "
    "re-extracted from the sources on every run and proved to be what the model does (C03_check_idle_is_source, C03_refill_guard_is_source, "
    "C03_source_shape). Server side on model M7 (WfModel/Lifecycle.lean, tied to the real stack by C26/C36), single-step facts for every state and "
    "action: idle_since is set only by the engine's idle announcement made with no reducer-visible work and cleared only by a send_event "
    "(C03_server_idle_mark_origin); the run leaves the active set only in the decision step of a release task that read, under the lock, a mark at "
    "least idle_timeout old (C03_server_release_needs_mark, C03_server_release_reads_mark). The same four clauses are monitored on the real "
    "in-process stack (IdleReleaseDecorator over PersistenceDecorator over BasicRuntime) on generated idle workflows."
)
TRUSTED_EXTRA = [
    "harness/gen/idle_shape.py (AST extraction / translation of _check_idle_state, the refill-loop conditions, the idle-check branches and the server's idle marker into WfModel/GenIdleShape.lean)",
    "harness/gen/lifecycle.py (shapes of idle_release_runtime.py in WfModel/GenLifecycle*.lean, shared with C26 / C36)",
    "harness/server/{stack,idle}.py: observation wrappers of the in-process server stack (store subclass, lock/spawn proxies, BasicRuntime adapter wrappers), the virtual datetime (shared with C26 / C36)",
    "harness/engine/live.py: the recording of _ControlLoopRunner internals (tick_buffer, scheduled_wakeups, _pending_workers, _task_keys, _idle_check_pending, receive_queue) at every reducer call",
]
ASSUMPTIONS = suite.ENGINE_ASSUMPTIONS + [
    "server side: the correspondence of model M7 with the real IdleReleaseDecorator stack is C26's / C36's (not repeated here); this check runs the real stack only for its monitors; "
    "DBOSIdleReleaseDecorator is not covered by C03 (C26 / C36, partial)",
    "reading: a pending wait_for_event timeout is not counted as pending work (the statement lists queued, running and scheduled-retry work)",
]


def _resume_runs(env: Env, out: Outcome, n: int) -> None:
    """snapshot a run at a scheduler-chosen quiet point (several invocations of a multi-worker step in flight / queued), stop it,
    resume from the JSON snapshot: the resumed run is work-conserving from its first tick on"""
    import copy
    import random

    from ..engine import live, specgen
    rng = random.Random(env.rng.randrange(1 << 30))
    jobs = []
    if env.replay is not None and isinstance(env.replay.get("payload", {}).get("case"), dict) and "resume" in env.replay["payload"]["case"]:
        c = env.replay["payload"]["case"]["resume"]
        jobs.append((c["spec"], c["seed"], c.get("actions1"), c.get("actions2")))
    for _ in range(n):
        spec = specgen.gen_spec(rng, family=rng.choice(["fanin", "retry", "general"]), allow_timeout=False) if rng.random() < 0.6 else specgen.gen_det_spec(rng)
        spec["externals"] = [e for e in spec.get("externals", []) if e["op"] == "send"]
        spec["externals"].append({"op": "snapshot_stop", "after_quiet": rng.choice([0, 1, 1, 2, 3, 4])})
        spec.pop("timeout", None)
        jobs.append((spec, rng.randrange(1 << 30), None, None))
    resumed = []
    for spec, seed, a1, a2 in jobs:
        tr1 = live.run_spec(spec, seed=seed, replay_actions=a1)
        out.evaluations += 1
        snaps = [s for s in tr1.snapshots if s.get("stopped")]
        if not snaps:
            out.count("resume:no_snapshot")
            continue
        spec2 = copy.deepcopy(spec)
        spec2["externals"] = copy.deepcopy([e for e in getattr(tr1, "remaining_externals", []) if e["op"] == "send"])
        spec2["_resumed"] = True
        tr2 = live.run_spec(spec2, seed=seed + 1, replay_actions=a2, resume_from=snaps[0]["dict"])
        resumed.append(tr2)
        pend = sum(len(w.get("queue", [])) + len(w.get("in_progress", [])) for w in snaps[0]["dict"].get("workers", {}).values()) if isinstance(snaps[0]["dict"], dict) else 0
        out.count(f"resume:pending_at_snapshot:{min(pend, 4)}")
        out.count("resume:outcome:" + tr2.outcome[0])
        if pend:
            out.nontrivial(("resume", repr(spec), tuple(tr1.actions)))
        for v in monitors.mon_c03(tr2) + c03x.mon_c03_runner(tr2):
            v.replay = {"resume": {"spec": spec, "seed": seed, "actions1": tr1.actions, "actions2": tr2.actions}}
            out.violations.append(v)
    suite.runner_corr(out, resumed, "engine-runner-resumed")


def run(env: Env) -> Outcome:
    out = Outcome()
    out.rule = ("direct (state,tick) pairs + live scripted workflows (retry delays, waiters, fan-out) under random gate schedules; runs snapshotted at a quiet point and resumed from JSON; "
                "generated resumed states (as generated / in-progress folded into the queue as from_serialized does / backlog beyond the worker limit / fewer workers than "
                "in-progress rows) rewound by the real rewind_in_progress and compared with the closed form of C03_rewind_exact (driver op rewindspec) and with the model's rewind; "
                "the real in-process server stack (IdleReleaseDecorator over PersistenceDecorator over BasicRuntime, virtual time) on generated idle workflows: idle mark only by an "
                "announcement, withdrawn by a delivery to the resident run, release only on a mark at least idle_timeout old; "
                "non-trivial = more than 2 ticks (runs), at least 2 pending invocations on a step (rewinds), an idle mark and a send to the resident run (server); "
                "distinct by (spec, schedule) / state / case")
    suite.direct_corr(env, out, env.budget(3000, 60000))
    suite.live_runs(env, out, env.budget(400, 8000), [monitors.mon_c03, c03x.mon_c03_runner], extra_specs=suite.load_corpus("C03"))
    _resume_runs(env, out, env.budget(150, 3000))
    c03x.rewind_stream(env, out, env.budget(600, 6000))
    c03x.server_idle_side(env, out, env.budget(20, 200))
    return out
