import WfProofs.Validate
/-!
The declarative specification C23 is stated against (`C23.WellFormed`, `C23.UsesHitl`) and the
bridges from each clause to the corresponding check of the model.  The specification speaks of
consumed / returned / produced types, of an inductively defined edge relation and its
reflexive-transitive closure `Reach`, and never of the lists, stacks or fuel the code computes with.
-/
open Validate

namespace C23

/-- `issubclass(c, root)` -/
def IsA (H : Hier) (c root : Cls) : Prop := isSub H c root = true

instance (H : Hier) (c root : Cls) : Decidable (IsA H c root) := inferInstanceAs (Decidable (_ = true))

/-- some step accepts `c` -/
def Consumed (W : List Step) (c : Cls) : Prop := ∃ s ∈ W, c ∈ s.accepted
/-- `c` occurs among some step's return types (possibly `NoneType`) -/
def Returned (W : List Step) (c : Cls) : Prop := ∃ s ∈ W, c ∈ s.returns
def StartType (H : Hier) (W : List Step) (c : Cls) : Prop := Consumed W c ∧ IsA H c cStart
def StopType (H : Hier) (W : List Step) (c : Cls) : Prop := Returned W c ∧ IsA H c cStop
/-- produced: returned by a step (not `None`), or the start event the caller sends -/
def Produced (H : Hier) (W : List Step) (c : Cls) : Prop := (Returned W c ∧ c ≠ cNone) ∨ StartType H W c
/-- the event nodes of the graph -/
def EventType (W : List Step) (c : Cls) : Prop := Consumed W c ∨ (Returned W c ∧ c ≠ cNone)

/-- the step graph: an event points to the steps accepting it, a step to the events it returns -/
inductive Edge (W : List Step) : Node → Node → Prop
  | consume {s : Step} {c : Cls} : s ∈ W → c ∈ s.accepted → Edge W (.ev c) (.step s.name)
  | produce {s : Step} {c : Cls} : s ∈ W → c ∈ s.returns → c ≠ cNone → Edge W (.step s.name) (.ev c)

/-- where execution can enter: the start event, any HumanResponseEvent type, any `@catch_error` handler -/
def InputSeed (H : Hier) (W : List Step) : Node → Prop
  | .ev c => StartType H W c ∨ (EventType W c ∧ IsA H c cHumanResponse)
  | .step n => ∃ s ∈ W, s.handler = true ∧ s.name = n

/-- where execution may end: a StopEvent or InputRequiredEvent type of the graph -/
def Output (H : Hier) (W : List Step) (c : Cls) : Prop := EventType W c ∧ (IsA H c cStop ∨ IsA H c cInputRequired)

def UniqueStart (H : Hier) (W : List Step) : Prop := ∃ c, StartType H W c ∧ ∀ d, StartType H W d → d = c
def UniqueStop (H : Hier) (W : List Step) : Prop := ∃ c, StopType H W c ∧ ∀ d, StopType H W d → d = c
def NoStopConsumer (H : Hier) (W : List Step) : Prop := ∀ c, Consumed W c → ¬IsA H c cStop
def BoundaryIn (H : Hier) (c : Cls) : Prop :=
  IsA H c cInputRequired ∨ IsA H c cHumanResponse ∨ IsA H c cStop ∨ IsA H c cStepFailed
def BoundaryOut (H : Hier) (c : Cls) : Prop := IsA H c cInputRequired ∨ IsA H c cHumanResponse ∨ IsA H c cStop
def ConsumedProduced (H : Hier) (W : List Step) : Prop := ∀ c, Consumed W c → Produced H W c ∨ BoundaryIn H c
def ProducedConsumed (H : Hier) (W : List Step) : Prop := ∀ c, Produced H W c → Consumed W c ∨ BoundaryOut H c

def BudgetsOK (W : List Step) : Prop := ∀ h ∈ W, h.handler = true → 1 ≤ h.maxRec

/-- `@catch_error` consistency: at most one wildcard handler; every `for_steps` entry names a declared step
that is not itself a handler; no step is claimed twice (the concatenation of all `for_steps` lists has no
repetition); every budget is at least 1 -/
structure HandlersOK (W : List Step) : Prop where
  oneWildcard : (W.filter fun s => s.handler && s.forSteps.isNone).length ≤ 1
  targets : ∀ h ∈ W, h.handler = true → ∀ ts, h.forSteps = some ts → ∀ t ∈ ts, ∃ s ∈ W, s.name = t ∧ s.handler = false
  noDoubleClaim : ((W.filter (·.handler)).flatMap fun h => h.forSteps.getD []).Nodup
  budgets : BudgetsOK W

def AllReachable (H : Hier) (W : List Step) (skip : List Nat) : Prop :=
  ckReach ∈ skip ∨ ∀ s ∈ W, ckReach ∉ s.skip → ∃ seed, InputSeed H W seed ∧ Reach (Edge W) seed (.step s.name)
def TerminalOK (H : Hier) (W : List Step) (skip : List Nat) : Prop :=
  ckTerminal ∈ skip ∨ ∀ c, EventType W c → Consumed W c ∨ IsA H c cStop ∨ IsA H c cInputRequired
def NoDeadEnd (H : Hier) (W : List Step) (skip : List Nat) : Prop :=
  ckDeadEnd ∈ skip ∨ ∀ s ∈ W, (∃ c ∈ s.returns, c ≠ cNone) → ckDeadEnd ∉ s.skip →
    ∃ o, Output H W o ∧ Reach (Edge W) (.step s.name) (.ev o)

structure WellFormed (H : Hier) (W : List Step) (skip : List Nat) : Prop where
  nonempty : W ≠ []
  start : UniqueStart H W
  stop : UniqueStop H W
  noStopConsumer : NoStopConsumer H W
  consumedProduced : ConsumedProduced H W
  producedConsumed : ProducedConsumed H W
  handlers : HandlersOK W
  reachable : AllReachable H W skip
  terminal : TerminalOK H W skip
  noDeadEnd : NoDeadEnd H W skip

/-- the human-in-the-loop clause of the property -/
def UsesHitl (H : Hier) (W : List Step) : Prop :=
  (∃ c, Produced H W c ∧ IsA H c cInputRequired) ∨ ∃ c, Consumed W c ∧ IsA H c cHumanResponse

/-! Bridges between the spec vocabulary and the lemmas about the model. -/

theorem edge_iff (W : List Step) (a b : Node) : Edge W a b ↔ EdgeOf (edges W) a b := by
  unfold EdgeOf
  rw [mem_edges]
  constructor
  · intro h
    cases h with
    | consume hs hc => exact Or.inl ⟨_, hs, _, hc, rfl, rfl⟩
    | produce hs hc hn => exact Or.inr ⟨_, hs, _, hc, hn, rfl, rfl⟩
  · rintro (⟨s, hs, c, hc, rfl, rfl⟩ | ⟨s, hs, c, hc, hn, rfl, rfl⟩)
    · exact .consume hs hc
    · exact .produce hs hc hn

theorem reach_iff (W : List Step) (a b : Node) : Reach (Edge W) a b ↔ Reach (EdgeOf (edges W)) a b :=
  ⟨Reach.mono fun a b h => (edge_iff W a b).mp h, Reach.mono fun a b h => (edge_iff W a b).mpr h⟩

theorem reach_flip_iff (W : List Step) (a b : Node) :
    Reach (EdgeOf (flipEdges (edges W))) a b ↔ Reach (Edge W) b a := by
  constructor
  · intro h
    have := Reach.flip h
    exact Reach.mono (fun x y hxy => (edge_iff W x y).mpr (mem_flipEdges.mp hxy)) this
  · intro h
    have := Reach.flip h
    exact Reach.mono (fun x y hxy => mem_flipEdges.mpr ((edge_iff W y x).mp hxy)) this

theorem eventType_iff (W : List Step) (c : Cls) : EventType W c ↔ c ∈ eventTypes W := by
  rw [mem_eventTypes]; rfl

theorem uniqueStart_iff (H : Hier) (W : List Step) : UniqueStart H W ↔ ∃ c, ensureStart H W = .ok c := by
  constructor
  · rintro ⟨c, hc, hu⟩
    exact ⟨c, ensureStart_ok.mpr ⟨hc, fun d hd hs => hu d ⟨hd, hs⟩⟩⟩
  · rintro ⟨c, h⟩
    have := ensureStart_ok.mp h
    exact ⟨c, this.1, fun d hd => this.2 d hd.1 hd.2⟩

theorem uniqueStop_iff (H : Hier) (W : List Step) : UniqueStop H W ↔ ∃ c, ensureStop H W = .ok c := by
  constructor
  · rintro ⟨c, hc, hu⟩
    exact ⟨c, ensureStop_ok.mpr ⟨hc, fun d hd hs => hu d ⟨hd, hs⟩⟩⟩
  · rintro ⟨c, h⟩
    have := ensureStop_ok.mp h
    exact ⟨c, this.1, fun d hd => this.2 d hd.1 hd.2⟩

/-- once the start type is the unique `start`, the model's `produced` list is the spec's `Produced` -/
theorem produced_iff {H : Hier} {W : List Step} {start : Cls} (hs : ensureStart H W = .ok start) (c : Cls) :
    c ∈ produced W start ↔ Produced H W c := by
  have h := ensureStart_ok.mp hs
  rw [mem_produced]
  constructor
  · rintro (rfl | hr)
    · exact Or.inr h.1
    · exact Or.inl hr
  · rintro (hr | hst)
    · exact Or.inr hr
    · exact Or.inl (h.2 c hst.1 hst.2)

theorem noStopConsumer_iff (H : Hier) (W : List Step) : NoStopConsumer H W ↔ acceptingStop H W = [] := by
  rw [acceptingStop_nil]
  constructor
  · intro h s hs c hc
    have := h c ⟨s, hs, hc⟩
    simpa [IsA] using this
  · rintro h c ⟨s, hs, hc⟩
    simp [IsA, h s hs c hc]

theorem consumedProduced_iff {H : Hier} {W : List Step} {start : Cls} (hs : ensureStart H W = .ok start) :
    ConsumedProduced H W ↔ unconsumed H W start = [] := by
  rw [List.eq_nil_iff_forall_not_mem]
  simp only [mem_unconsumed, produced_iff hs, not_and, Bool.not_eq_false, subAny_consumedBoundary]
  constructor
  · intro h c hc hnp
    rcases h c hc with hp | hb
    · exact absurd hp hnp
    · exact hb
  · intro h c hc
    by_cases hp : Produced H W c
    · exact Or.inl hp
    · exact Or.inr (h c hc hp)

theorem producedConsumed_iff {H : Hier} {W : List Step} {start : Cls} (hs : ensureStart H W = .ok start) :
    ProducedConsumed H W ↔ unused H W start = [] := by
  rw [List.eq_nil_iff_forall_not_mem]
  simp only [mem_unused, produced_iff hs, not_and, Bool.not_eq_false, subAny_producedBoundary]
  constructor
  · intro h c hp hnc
    rcases h c hp with hc | hb
    · exact absurd hc hnc
    · exact hb
  · intro h c hp
    by_cases hc : Consumed W c
    · exact Or.inl hc
    · exact Or.inr (h c hp hc)

theorem budgetsOK_iff (W : List Step) :
    BudgetsOK W ↔ ((handlerDecls W).all fun h => decide (1 ≤ h.maxRec)) = true :=
  (handlers_budgets_iff W).symm

theorem handlersOK_iff {W : List Step} (hnd : (names W).Nodup) :
    HandlersOK W ↔ Handlers.valid (names W) (handlerDecls W) = true := by
  rw [handlers_valid_iff]
  have htgt : (∀ t ∈ claimTargets W, t ∈ names W ∧ t ∉ (W.filter (·.handler)).map (·.name)) ↔
      ∀ h ∈ W, h.handler = true → ∀ ts, h.forSteps = some ts → ∀ t ∈ ts, ∃ s ∈ W, s.name = t ∧ s.handler = false := by
    simp only [claimTargets, List.mem_flatMap, List.mem_filter]
    constructor
    · intro h hd hdm hh ts hts t ht
      exact (target_ok_iff hnd t).mp (h t ⟨hd, ⟨hdm, hh⟩, by simp [hts, ht]⟩)
    · rintro h t ⟨hd, ⟨hdm, hh⟩, ht⟩
      cases hf : hd.forSteps with
      | none => simp [hf] at ht
      | some ts =>
        simp only [hf, Option.getD_some] at ht
        exact (target_ok_iff hnd t).mpr (h hd hdm hh ts hf t ht)
  constructor
  · intro h
    exact ⟨h.oneWildcard, htgt.mpr h.targets, h.noDoubleClaim, h.budgets⟩
  · rintro ⟨a, b, c, d⟩
    exact ⟨a, htgt.mp b, c, d⟩

theorem inputSeed_iff {H : Hier} {W : List Step} {start : Cls} (hs : ensureStart H W = .ok start) (x : Node) :
    InputSeed H W x ↔ x ∈ fwdSeeds H W start := by
  have h := ensureStart_ok.mp hs
  rw [mem_fwdSeeds]
  cases x with
  | ev c =>
    simp only [InputSeed, Node.ev.injEq, reduceCtorEq, and_false, exists_false, or_false, eventType_iff]
    constructor
    · rintro (hst | ⟨he, hh⟩)
      · exact Or.inl (h.2 c hst.1 hst.2)
      · exact Or.inr ⟨c, he, hh, rfl⟩
    · rintro (rfl | ⟨c', he, hh, rfl⟩)
      · exact Or.inl h.1
      · exact Or.inr ⟨he, hh⟩
  | step n =>
    simp only [InputSeed, reduceCtorEq, and_false, exists_false, false_or, Node.step.injEq]
    constructor
    · rintro ⟨s, hs, hh, rfl⟩; exact ⟨s, hs, hh, rfl⟩
    · rintro ⟨s, hs, hh, rfl⟩; exact ⟨s, hs, hh, rfl⟩

theorem allReachable_iff {H : Hier} {W : List Step} {start : Cls} {skip : List Nat} (hnd : (names W).Nodup)
    (hs : ensureStart H W = .ok start) :
    AllReachable H W skip ↔ (ckReach ∈ skip ∨ unreachable H W start = []) := by
  unfold AllReachable
  rw [unreachable_nil hnd]
  apply or_congr Iff.rfl
  apply forall_congr'; intro s
  apply forall_congr'; intro hsW
  have hreach : Node.step s.name ∈ fwdReach H W start ↔
      ∃ seed, InputSeed H W seed ∧ Reach (Edge W) seed (.step s.name) := by
    unfold fwdReach
    rw [mem_dfs]
    constructor
    · rintro ⟨x, hx, hr⟩; exact ⟨x, (inputSeed_iff hs x).mpr hx, (reach_iff W _ _).mpr hr⟩
    · rintro ⟨x, hx, hr⟩; exact ⟨x, (inputSeed_iff hs x).mp hx, (reach_iff W _ _).mp hr⟩
  rw [hreach]
  constructor
  · intro h
    by_cases hk : ckReach ∈ s.skip
    · exact Or.inl hk
    · exact Or.inr (h hk)
  · rintro (h | h) hk
    · exact absurd h hk
    · exact h

theorem terminalOK_iff {H : Hier} {W : List Step} {skip : List Nat} :
    TerminalOK H W skip ↔ (ckTerminal ∈ skip ∨ dangling H W = []) := by
  unfold TerminalOK
  rw [dangling_nil]
  apply or_congr Iff.rfl
  apply forall_congr'; intro c
  rw [eventType_iff]
  rfl

theorem noDeadEnd_iff {H : Hier} {W : List Step} {skip : List Nat} (hnd : (names W).Nodup) :
    NoDeadEnd H W skip ↔ (ckDeadEnd ∈ skip ∨ deadEnds H W = []) := by
  unfold NoDeadEnd
  rw [deadEnds_nil hnd]
  apply or_congr Iff.rfl
  apply forall_congr'; intro s
  apply forall_congr'; intro hsW
  apply forall_congr'; intro hp
  have hreach : Node.step s.name ∈ revReach H W ↔ ∃ o, Output H W o ∧ Reach (Edge W) (.step s.name) (.ev o) := by
    unfold revReach
    rw [mem_dfs]
    constructor
    · rintro ⟨x, hx, hr⟩
      obtain ⟨c, hc, ho, rfl⟩ := mem_outSeeds.mp hx
      exact ⟨c, ⟨(eventType_iff W c).mpr hc, ho⟩, (reach_flip_iff W _ _).mp hr⟩
    · rintro ⟨o, ⟨he, ho⟩, hr⟩
      exact ⟨Node.ev o, mem_outSeeds.mpr ⟨o, (eventType_iff W o).mp he, ho, rfl⟩, (reach_flip_iff W _ _).mpr hr⟩
  rw [hreach]
  constructor
  · intro h
    by_cases hk : ckDeadEnd ∈ s.skip
    · exact Or.inl hk
    · exact Or.inr (h hk)
  · rintro (h | h) hk
    · exact absurd h hk
    · exact h

theorem usesHitl_spec {H : Hier} {W : List Step} {start : Cls} (hs : ensureStart H W = .ok start) :
    usesHitl H W start = true ↔ UsesHitl H W := by
  rw [usesHitl_iff]
  unfold UsesHitl
  apply or_congr
  · constructor
    · rintro ⟨c, hc, h⟩; exact ⟨c, (produced_iff hs c).mp hc, h⟩
    · rintro ⟨c, hc, h⟩; exact ⟨c, (produced_iff hs c).mpr hc, h⟩
  · simp only [consumed, mem_allAccepted]
    constructor
    · rintro ⟨c, hc, h⟩; exact ⟨c, hc, h⟩
    · rintro ⟨c, hc, h⟩; exact ⟨c, hc, h⟩

/-- the clauses checked before event connectivity -/
def Pre2 (H : Hier) (W : List Step) : Prop := W ≠ [] ∧ UniqueStart H W ∧ UniqueStop H W
/-- the clauses checked before the handler table -/
def Pre5 (H : Hier) (W : List Step) : Prop :=
  Pre2 H W ∧ NoStopConsumer H W ∧ ConsumedProduced H W ∧ ProducedConsumed H W

/-- what each error of `_validate_workflow` means: every earlier clause holds, this one fails, and the
reported names are exactly the offenders -/
def ErrorMeaning (H : Hier) (W : List Step) (skip : List Nat) : Err → Prop
  | .noSteps => W = []
  | .noStart => W ≠ [] ∧ ¬∃ c, StartType H W c
  | .multiStart => W ≠ [] ∧ ∃ c d, c ≠ d ∧ StartType H W c ∧ StartType H W d
  | .noStop => W ≠ [] ∧ UniqueStart H W ∧ ¬∃ c, StopType H W c
  | .multiStop => W ≠ [] ∧ UniqueStart H W ∧ ∃ c d, c ≠ d ∧ StopType H W c ∧ StopType H W d
  | .unknownCheck => False
  | .acceptsStop l => Pre2 H W ∧ ¬NoStopConsumer H W ∧
      ∀ n, n ∈ l ↔ ∃ s ∈ W, s.name = n ∧ ∃ c ∈ s.accepted, IsA H c cStop
  | .consumedNotProduced l => Pre2 H W ∧ NoStopConsumer H W ∧ ¬ConsumedProduced H W ∧
      ∀ c, c ∈ l ↔ Consumed W c ∧ ¬Produced H W c ∧ ¬BoundaryIn H c
  | .producedNotConsumed l => Pre2 H W ∧ NoStopConsumer H W ∧ ConsumedProduced H W ∧ ¬ProducedConsumed H W ∧
      ∀ c, c ∈ l ↔ Produced H W c ∧ ¬Consumed W c ∧ ¬BoundaryOut H c
  | .handlerMaxRec => Pre5 H W ∧ ¬BudgetsOK W
  | .handlerStructure => Pre5 H W ∧ BudgetsOK W ∧ ¬HandlersOK W
  | .graph g => Pre5 H W ∧ HandlersOK W ∧ ¬(AllReachable H W skip ∧ TerminalOK H W skip ∧ NoDeadEnd H W skip) ∧
      (g.unreach = [] ↔ AllReachable H W skip) ∧ (g.dangling = [] ↔ TerminalOK H W skip) ∧
      (g.deadEnd = [] ↔ NoDeadEnd H W skip)

theorem boundaryIn_iff (H : Hier) (c : Cls) : BoundaryIn H c ↔ subAny H Gen.C23.consumedBoundary c = true :=
  (subAny_consumedBoundary H c).symm

theorem boundaryOut_iff (H : Hier) (c : Cls) : BoundaryOut H c ↔ subAny H Gen.C23.producedBoundary c = true :=
  (subAny_producedBoundary H c).symm

theorem errorMeaning_of_error {H : Hier} {W : List Step} {skip : List Nat} (hnd : (names W).Nodup) {e : Err}
    (h : validateWorkflow H W skip = .error e) : ErrorMeaning H W skip e := by
  rcases validateWorkflow_error h with ⟨hW, rfl⟩ | ⟨hW, he⟩ | ⟨hW, start, hs, hrest⟩
  · exact hW
  · rcases ensureStart_cases H W with ⟨c, hc⟩ | hc | hc
    · rw [hc] at he; cases he
    · have : e = .noStart := by rw [hc] at he; injection he with he; exact he.symm
      subst this
      refine ⟨hW, ?_⟩
      rintro ⟨c, hcons, hst⟩
      have := ensureStart_noStart.mp hc c hcons
      simp [IsA] at hst
      rw [hst] at this; cases this
    · have : e = .multiStart := by rw [hc] at he; injection he with he; exact he.symm
      subst this
      obtain ⟨c, d, hcd, h1, h2⟩ := ensureStart_multi.mp hc
      exact ⟨hW, c, d, hcd, h1, h2⟩
  · have hus : UniqueStart H W := (uniqueStart_iff H W).mpr ⟨start, hs⟩
    rcases hrest with he | ⟨stop, ht, hrest⟩
    · rcases ensureStop_cases H W with ⟨c, hc⟩ | hc | hc
      · rw [hc] at he; cases he
      · have : e = .noStop := by rw [hc] at he; injection he with he; exact he.symm
        subst this
        refine ⟨hW, hus, ?_⟩
        rintro ⟨c, hret, hst⟩
        have := ensureStop_noStop.mp hc c hret
        simp [IsA] at hst
        rw [hst] at this; cases this
      · have : e = .multiStop := by rw [hc] at he; injection he with he; exact he.symm
        subst this
        obtain ⟨c, d, hcd, h1, h2⟩ := ensureStop_multi.mp hc
        exact ⟨hW, hus, c, d, hcd, h1, h2⟩
    · have hp2 : Pre2 H W := ⟨hW, hus, (uniqueStop_iff H W).mpr ⟨stop, ht⟩⟩
      rcases hrest with ⟨h1, rfl⟩ | ⟨h1, hrest⟩
      · refine ⟨hp2, fun hn => h1 ((noStopConsumer_iff H W).mp hn), ?_⟩
        intro n
        rw [mem_acceptingStop]; rfl
      · have hc1 := (noStopConsumer_iff H W).mpr h1
        rcases hrest with ⟨h2, rfl⟩ | ⟨h2, hrest⟩
        · refine ⟨hp2, hc1, fun hn => h2 ((consumedProduced_iff hs).mp hn), ?_⟩
          intro c
          rw [mem_unconsumed, produced_iff hs, boundaryIn_iff, Bool.not_eq_true]; rfl
        · have hc2 := (consumedProduced_iff hs).mpr h2
          rcases hrest with ⟨h3, rfl⟩ | ⟨h3, hrest⟩
          · refine ⟨hp2, hc1, hc2, fun hn => h3 ((producedConsumed_iff hs).mp hn), ?_⟩
            intro c
            rw [mem_unused, produced_iff hs, boundaryOut_iff, Bool.not_eq_true]; rfl
          · have hc3 := (producedConsumed_iff hs).mpr h3
            have hp5 : Pre5 H W := ⟨hp2, hc1, hc2, hc3⟩
            rcases hrest with ⟨_, hb, rfl⟩ | ⟨hv, hb, rfl⟩ | ⟨hv, hg, rfl⟩
            · refine ⟨hp5, fun hn => ?_⟩
              rw [(budgetsOK_iff W).mp hn] at hb; cases hb
            · refine ⟨hp5, (budgetsOK_iff W).mpr hb, fun hn => ?_⟩
              rw [(handlersOK_iff hnd).mp hn] at hv; cases hv
            · refine ⟨hp5, (handlersOK_iff hnd).mpr hv, ?_, ?_, ?_, ?_⟩
              · rintro ⟨g1, g2, g3⟩
                have := validateGraph_none.mpr ⟨(allReachable_iff hnd hs).mp g1, terminalOK_iff.mp g2,
                  (noDeadEnd_iff hnd).mp g3⟩
                rw [this] at hg; cases hg
              · rw [validateGraph_unreach, allReachable_iff hnd hs]
              · rw [validateGraph_dangling, terminalOK_iff]
              · rw [validateGraph_deadEnd, noDeadEnd_iff hnd]

/-! Entry points and deliveries: what can precede a node on a path of the step graph. -/

theorem reach_last {R : Node → Node → Prop} {a c : Node} (h : Reach R a c) : a = c ∨ ∃ b, Reach R a b ∧ R b c := by
  cases h with
  | refl => exact Or.inl rfl
  | tail hab hbc => exact Or.inr ⟨_, hab, hbc⟩

/-- the only edges into a step come from the event types it accepts -/
theorem edge_into_step {W : List Step} {y : Node} {n : Nat} (h : Edge W y (.step n)) :
    ∃ s ∈ W, ∃ c ∈ s.accepted, y = .ev c ∧ s.name = n := by
  generalize hx : Node.step n = x at h
  cases h with
  | consume hs hc => exact ⟨_, hs, _, hc, rfl, (Node.step.inj hx).symm⟩
  | produce _ _ _ => cases hx

/-- the only edges into an event type come from the steps returning it -/
theorem edge_into_event {W : List Step} {y : Node} {c : Cls} (h : Edge W y (.ev c)) :
    ∃ s ∈ W, c ∈ s.returns ∧ c ≠ cNone ∧ y = .step s.name := by
  generalize hx : Node.ev c = x at h
  cases h with
  | consume _ _ => cases hx
  | produce hs hc hn => cases hx; exact ⟨_, hs, hc, hn, rfl⟩

/-- an event type is *fed* when execution can put an instance of it on the queue: it is the start type, a
HumanResponseEvent type (sent in from outside) or some step returns it.  StepFailedEvent is fed only when a step
returns it: the engine hands it to the owning handler by name, the graph has no entry point for it. -/
def Fed (H : Hier) (W : List Step) (c : Cls) : Prop :=
  StartType H W c ∨ IsA H c cHumanResponse ∨ (Returned W c ∧ c ≠ cNone)

/-- a step that is not a handler and accepts only event types nothing feeds is not forward-reachable -/
theorem unfed_step_unreachable {H : Hier} {W : List Step} (hnd : (names W).Nodup) {s : Step} (hs : s ∈ W)
    (hh : s.handler = false) (hacc : ∀ c ∈ s.accepted, ¬Fed H W c) :
    ¬∃ seed, InputSeed H W seed ∧ Reach (Edge W) seed (.step s.name) := by
  rintro ⟨seed, hseed, hr⟩
  rcases reach_last hr with rfl | ⟨y, hry, he⟩
  · obtain ⟨s', hs', hh', hn⟩ := hseed
    have := step_of_name hnd hs' hs hn
    subst this
    rw [hh] at hh'; cases hh'
  · obtain ⟨s', hs', c, hc, rfl, hn⟩ := edge_into_step he
    have := step_of_name hnd hs' hs hn
    subst this
    apply hacc c hc
    rcases reach_last hry with rfl | ⟨z, _, he'⟩
    · rcases hseed with hst | ⟨_, hhr⟩
      · exact Or.inl hst
      · exact Or.inr (Or.inl hhr)
    · obtain ⟨s'', hs'', hc', hn', _⟩ := edge_into_event he'
      exact Or.inr (Or.inr ⟨⟨s'', hs'', hc'⟩, hn'⟩)

end C23
