"""Stand-in `DBOS` (in-memory, single process at a time, asyncio only).

Semantics implemented (what C27 *assumes* of DBOS; minimal on purpose):

* **Workflows.** `@DBOS.workflow(name=)` registers an async function under a stable name.
  `start_workflow_async(fn, *args)` (inside `with SetWorkflowID(id)`) records a status row
  (name, inputs, PENDING) and runs the function as an asyncio task under a workflow context
  whose `function_id` counter starts at 0.  The outcome is recorded (SUCCESS + result / ERROR
  + exception) and the workflow's streams are closed.  `DBOS.launch()` re-executes every
  PENDING workflow of the system database from its recorded inputs, under the same id
  (recovery).
* **Steps.** `@DBOS.step(name=)` (sync or async function).  Called from a workflow context
  (any asyncio task spawned by the workflow shares the context object and hence the counter)
  the call takes the next `function_id` *synchronously at call start*; if an output is
  recorded at (workflow id, function_id) it is returned (or re-raised) without running the
  body - a recorded name that differs raises `DBOSUnexpectedStepError` -; otherwise the body
  runs (in a child step context) and its return value / exception is recorded *before* the
  call returns.  The lookup of an async step costs one event-loop yield (it is a database
  round trip in DBOS).  Outside a workflow, or nested inside a step, it is a plain call.
* **Messages.** `send`/`send_async(dest, msg, topic)` appends to the destination's durable
  queue (outside a workflow context: not memoised).  `recv_async(topic, timeout_seconds)` in a
  workflow takes two function ids (the receive and its durable deadline); a recorded output is
  returned; otherwise it waits for a message or the deadline, and consuming the oldest message
  and recording it as the output is one atomic action.
* **Streams.** `write_stream_async(key, value)` at workflow level takes a function id and is
  idempotent under replay (recorded -> skipped); inside a step body it appends directly
  (at-least-once).  `read_stream_async(workflow_id, key)` yields from offset 0 until the
  workflow has terminated and everything was yielded.
* **Handles.** `WorkflowHandleAsync.get_result()` waits for the recorded outcome.

Not implemented (never reached by the C27 harness): queues, transactions, events
(`set_event`/`get_event`), child workflows, step retries, `sleep`, workflow cancellation,
forking, multiple executors, any real durability.
"""
from __future__ import annotations

import asyncio
import copy
import functools
import inspect
import threading
import uuid
from typing import Any, AsyncIterator, Callable, Generic, TypeVar

from . import _store
from ._context import DBOSContext, _ctx, _next_wfid
from ._error import DBOSNonExistentWorkflowError, DBOSUnexpectedStepError

R = TypeVar("R")

_registry: dict[str, Callable[..., Any]] = {}  # workflow name -> async function (process-wide, like DBOS's registry)
_instance: "DBOS | None" = None


def _get_dbos_instance() -> "DBOS":
    if _instance is None:
        raise RuntimeError("No DBOS was created yet")
    return _instance


class SetWorkflowID:
    def __init__(self, wfid: str) -> None:
        self.wfid = wfid
        self._tok: Any = None

    def __enter__(self) -> "SetWorkflowID":
        self._tok = _next_wfid.set(self.wfid)
        return self

    def __exit__(self, *exc: Any) -> None:
        _next_wfid.reset(self._tok)


class WorkflowHandleAsync(Generic[R]):
    def __init__(self, wfid: str) -> None:
        self.workflow_id = wfid

    def get_workflow_id(self) -> str:
        return self.workflow_id

    async def get_status(self) -> Any:
        w = _get_dbos_instance().sysdb.workflows.get(self.workflow_id)
        return None if w is None else type("WorkflowStatus", (), {"status": w["status"], "workflow_id": self.workflow_id, "name": w["name"]})()

    async def get_result(self, polling_interval_sec: float = 1.0) -> R:
        inst = _get_dbos_instance()
        while True:
            w = inst.sysdb.workflows.get(self.workflow_id)
            if w is None:
                raise DBOSNonExistentWorkflowError(self.workflow_id)
            if w["status"] == "SUCCESS":
                return copy.deepcopy(w["result"])
            if w["status"] == "ERROR":
                raise w["error"]
            await inst._wait_change()


class _SysDbFacade:
    def __init__(self, engine: Any) -> None:
        self.engine = engine


class _DBOSMeta(type):
    @property
    def workflow_id(cls) -> str | None:
        c = _ctx.get()
        return None if c is None else c.workflow_id


class DBOS(metaclass=_DBOSMeta):
    def __init__(self, config: dict[str, Any] | None = None, **_kw: Any) -> None:
        global _instance
        self._config: dict[str, Any] = dict(config or {})
        db = self._config.get("_standin_sysdb")
        if db is None:
            url = self._config.get("system_database_url", "")
            if not url.startswith("sqlite:///"):
                raise RuntimeError("stand-in DBOS needs config['_standin_sysdb'] or a sqlite:/// system_database_url")
            db = _store.SysDB(url[len("sqlite:///"):].split("?")[0])
        self.sysdb: _store.SysDB = db
        from sqlalchemy.engine import URL, Engine  # the name-only shim

        self._sys_db = _SysDbFacade(Engine(URL("sqlite", db.db_path)))
        self._app_db = None
        self._launched = False
        self._loop: asyncio.AbstractEventLoop | None = None
        self._thread = threading.get_ident()
        self._waiters: list[asyncio.Future] = []
        self.tasks: dict[str, asyncio.Task] = {}
        self.inflight_steps: set[int] = set()  # function ids of step bodies currently executing (process local)
        _instance = self

    # ---------------------------------------------------------------- lifecycle
    @classmethod
    def launch(cls) -> None:
        inst = _get_dbos_instance()
        inst.sysdb.ensure_tables()
        inst._launched = True
        try:
            inst._loop = asyncio.get_running_loop()
        except RuntimeError:
            inst._loop = None
        inst._thread = threading.get_ident()
        if inst._loop is not None:
            for wfid, w in list(inst.sysdb.workflows.items()):
                if w["status"] == "PENDING" and w["name"] in _registry and wfid not in inst.tasks:
                    inst.tasks[wfid] = inst._loop.create_task(inst._execute(wfid))

    @classmethod
    def destroy(cls, **_kw: Any) -> None:
        global _instance
        _instance = None

    # ---------------------------------------------------------------- change notification (process local)
    def _changed(self) -> None:
        def fire() -> None:
            ws, self._waiters = self._waiters, []
            for f in ws:
                if not f.done():
                    f.set_result(None)

        if self._loop is not None and threading.get_ident() != self._thread:
            self._loop.call_soon_threadsafe(fire)
        else:
            fire()

    async def _wait_change(self, timeout: float | None = None) -> None:
        fut = asyncio.get_running_loop().create_future()
        self._waiters.append(fut)
        try:
            if timeout is None:
                await fut
            else:
                try:
                    await asyncio.wait_for(fut, timeout)
                except (asyncio.TimeoutError, TimeoutError):
                    pass
        finally:
            if fut in self._waiters:
                self._waiters.remove(fut)

    # ---------------------------------------------------------------- workflows
    @staticmethod
    def workflow(name: str | None = None, **_kw: Any) -> Callable[[Callable[..., Any]], Callable[..., Any]]:
        def deco(fn: Callable[..., Any]) -> Callable[..., Any]:
            if not inspect.iscoroutinefunction(fn):
                raise TypeError("stand-in DBOS.workflow supports async functions only")
            wname = name or fn.__qualname__
            _registry[wname] = fn
            fn._dbos_workflow_name = wname  # type: ignore[attr-defined]
            return fn

        return deco

    async def _execute(self, wfid: str) -> None:
        w = self.sysdb.workflows[wfid]
        fn = _registry[w["name"]]
        _ctx.set(DBOSContext(workflow_id=wfid, function_id=0))
        _next_wfid.set(None)
        try:
            result = await fn(*copy.deepcopy(w["inputs"]))
        except asyncio.CancelledError:
            raise  # process stop: the workflow stays PENDING
        except Exception as e:  # noqa: BLE001 - recorded as the workflow's error
            self.sysdb.finish_workflow(wfid, "ERROR", error=e)
        else:
            self.sysdb.finish_workflow(wfid, "SUCCESS", result=result)
        self._changed()

    @classmethod
    async def start_workflow_async(cls, fn: Callable[..., Any], *args: Any, **kwargs: Any) -> WorkflowHandleAsync[Any]:
        inst = _get_dbos_instance()
        if kwargs:
            raise TypeError("stand-in start_workflow_async: positional inputs only")
        name = getattr(fn, "_dbos_workflow_name", None)
        if name is None or name not in _registry:
            raise RuntimeError("function is not a registered DBOS workflow")
        wfid = _next_wfid.get() or str(uuid.uuid4())
        if wfid not in inst.sysdb.workflows:
            inst.sysdb.init_workflow(wfid, name, tuple(args))
            inst.tasks[wfid] = asyncio.get_running_loop().create_task(inst._execute(wfid))
        return WorkflowHandleAsync(wfid)

    @classmethod
    async def retrieve_workflow_async(cls, wfid: str, existing_workflow: bool = True) -> WorkflowHandleAsync[Any]:
        inst = _get_dbos_instance()
        if wfid not in inst.sysdb.workflows:
            raise DBOSNonExistentWorkflowError(wfid)
        return WorkflowHandleAsync(wfid)

    @classmethod
    async def delete_workflow_async(cls, wfid: str, **_kw: Any) -> None:
        _get_dbos_instance().sysdb.delete_workflow(wfid)

    # ---------------------------------------------------------------- steps
    @staticmethod
    def step(name: str | None = None, **_kw: Any) -> Callable[[Callable[..., Any]], Callable[..., Any]]:
        def deco(fn: Callable[..., Any]) -> Callable[..., Any]:
            fname = name or fn.__qualname__

            def _begin() -> tuple[DBOSContext, int] | None:
                ctx = _ctx.get()
                if ctx is None or ctx.is_step() or _instance is None:
                    return None
                ctx.function_id += 1
                return ctx, ctx.function_id

            def _recorded(ctx: DBOSContext, fid: int) -> tuple[bool, Any]:
                rec = _get_dbos_instance().sysdb.lookup(ctx.workflow_id, fid)
                if rec is None:
                    return False, None
                rname, kind, value = rec
                if rname != fname:
                    raise DBOSUnexpectedStepError(ctx.workflow_id, fid, fname, rname)
                if kind == "err":
                    raise value
                return True, value

            if inspect.iscoroutinefunction(fn):

                @functools.wraps(fn)
                async def awrapper(*a: Any, **k: Any) -> Any:
                    b = _begin()
                    if b is None:
                        return await fn(*a, **k)
                    ctx, fid = b
                    await asyncio.sleep(0)  # recorded-output lookup: a database round trip in DBOS
                    hit, value = _recorded(ctx, fid)
                    if hit:
                        return value
                    inst = _get_dbos_instance()
                    tok = _ctx.set(DBOSContext(workflow_id=ctx.workflow_id, function_id=fid, step_fid=fid))
                    inst.inflight_steps.add(fid)
                    try:
                        try:
                            out = await fn(*a, **k)
                        except Exception as e:  # noqa: BLE001
                            inst.sysdb.record(ctx.workflow_id, fid, fname, "err", e)
                            raise
                        finally:
                            _ctx.reset(tok)
                        inst.sysdb.record(ctx.workflow_id, fid, fname, "ok", out)
                    finally:
                        inst.inflight_steps.discard(fid)
                    return out

                return awrapper

            @functools.wraps(fn)
            def wrapper(*a: Any, **k: Any) -> Any:
                b = _begin()
                if b is None:
                    return fn(*a, **k)
                ctx, fid = b
                hit, value = _recorded(ctx, fid)
                if hit:
                    return value
                tok = _ctx.set(DBOSContext(workflow_id=ctx.workflow_id, function_id=fid, step_fid=fid))
                try:
                    out = fn(*a, **k)
                except Exception as e:  # noqa: BLE001
                    _get_dbos_instance().sysdb.record(ctx.workflow_id, fid, fname, "err", e)
                    raise
                finally:
                    _ctx.reset(tok)
                _get_dbos_instance().sysdb.record(ctx.workflow_id, fid, fname, "ok", out)
                return out

            return wrapper

        return deco

    # ---------------------------------------------------------------- messages
    @classmethod
    def send(cls, destination_id: str, message: Any, topic: str | None = None, **_kw: Any) -> None:
        inst = _get_dbos_instance()
        ctx = _ctx.get()
        if ctx is not None and not ctx.is_step():
            raise NotImplementedError("stand-in: DBOS.send from workflow level (memoised send) is not used by llama_agents.dbos")
        if ctx is not None and ctx.is_step():
            raise RuntimeError("DBOS.send called from within a step")
        if destination_id not in inst.sysdb.workflows:
            raise DBOSNonExistentWorkflowError(destination_id)
        inst.sysdb.push_message(destination_id, topic, message)
        inst._changed()

    @classmethod
    async def send_async(cls, destination_id: str, message: Any, topic: str | None = None, **_kw: Any) -> None:
        cls.send(destination_id, message, topic)

    @classmethod
    async def recv_async(cls, topic: str | None = None, timeout_seconds: float = 60) -> Any:
        inst = _get_dbos_instance()
        ctx = _ctx.get()
        if ctx is None or ctx.is_step():
            raise RuntimeError("recv() must be called from within a workflow")
        ctx.function_id += 1
        fid = ctx.function_id
        ctx.function_id += 1
        tfid = ctx.function_id
        await asyncio.sleep(0)
        rec = inst.sysdb.lookup(ctx.workflow_id, fid)
        if rec is not None:
            if rec[0] != "DBOS.recv":
                raise DBOSUnexpectedStepError(ctx.workflow_id, fid, "DBOS.recv", rec[0])
            return rec[2]
        loop = asyncio.get_running_loop()
        drec = inst.sysdb.lookup(ctx.workflow_id, tfid)
        if drec is not None:
            if drec[0] != "DBOS.sleep":
                raise DBOSUnexpectedStepError(ctx.workflow_id, tfid, "DBOS.sleep", drec[0])
            deadline = drec[2]
        else:
            deadline = loop.time() + timeout_seconds
            inst.sysdb.record(ctx.workflow_id, tfid, "DBOS.sleep", "ok", deadline)
        while True:
            if inst.sysdb.has_message(ctx.workflow_id, topic):
                return inst.sysdb.consume_message(ctx.workflow_id, topic, fid)
            remaining = deadline - loop.time()
            if remaining <= 0:
                inst.sysdb.record(ctx.workflow_id, fid, "DBOS.recv", "ok", None)
                return None
            await inst._wait_change(remaining)

    # ---------------------------------------------------------------- streams
    @classmethod
    async def write_stream_async(cls, key: str, value: Any) -> None:
        inst = _get_dbos_instance()
        ctx = _ctx.get()
        if ctx is None:
            raise RuntimeError("write_stream() must be called from within a workflow or step")
        if ctx.is_step():
            inst.sysdb.stream_append(ctx.workflow_id, key, value, None, step_fid=ctx.step_fid)
            inst._changed()
            return
        ctx.function_id += 1
        fid = ctx.function_id
        await asyncio.sleep(0)
        rec = inst.sysdb.lookup(ctx.workflow_id, fid)
        if rec is not None:
            if rec[0] != "DBOS.writeStream":
                raise DBOSUnexpectedStepError(ctx.workflow_id, fid, "DBOS.writeStream", rec[0])
            return
        inst.sysdb.stream_append(ctx.workflow_id, key, value, fid)
        inst._changed()

    @classmethod
    async def read_stream_async(cls, workflow_id: str, key: str) -> AsyncIterator[Any]:
        inst = _get_dbos_instance()
        i = 0
        while True:
            items = inst.sysdb.streams.get((workflow_id, key), [])
            while i < len(items):
                yield copy.deepcopy(items[i])
                i += 1
                items = inst.sysdb.streams.get((workflow_id, key), [])
            if workflow_id in inst.sysdb.closed:
                return
            await inst._wait_change()
