import WfModel.IterDebounce
/-! Invariant of the `Debouncer` timer model (helper lemmas for C29). -/
set_option linter.unusedSimpArgs false
namespace IterUtils
open Deb

theorem debFires_iff (r : Int) : debFires r = true ↔ r ≤ 0 := by
  simp [debFires, Gen.debFireLE]

structure DebInv (s : Deb) : Prop where
  maxcEq : s.maxc = s.start + s.w
  startNow : s.start ≤ s.now
  touchNow : s.lastTouch ≤ s.now
  startTouch : s.start ≤ s.lastTouch
  extsLe : ∀ u ∈ s.exts, u ≤ s.lastTouch
  compl : s.fired = none → s.complete = s.lastTouch + s.d
  late0 : 0 ≤ s.late
  wake : s.fired = none → s.wakeAt ≤ max s.start (min s.complete s.maxc)
  fireLo : ∀ t, s.fired = some t → min (s.lastTouch + s.d) s.maxc ≤ t ∧ s.start ≤ t
  fireHi : ∀ t, s.fired = some t → t ≤ max s.start (min (s.lastTouch + s.d) s.maxc) + s.late
  cntStale : s.fired = none → s.wakeAt = min s.complete s.maxc → s.wakes ≤ s.exts.length + 1
  cntFresh : s.fired = none → s.wakeAt ≠ min s.complete s.maxc → s.wakes ≤ s.exts.length
  cntFired : s.fired ≠ none → s.wakes ≤ s.exts.length + 2

theorem deb_init_inv (d w start : Int) : DebInv (Deb.init d w start) := by
  refine ⟨rfl, ?_, ?_, ?_, ?_, ?_, ?_, ?_, ?_, ?_, ?_, ?_, ?_⟩ <;>
    simp [Deb.init, Deb.lastTouch] <;> omega

theorem deb_step_params {s s' : Deb} {a : DebAct} (h : s.step a = some s') :
    s'.d = s.d ∧ s'.w = s.w ∧ s'.start = s.start ∧ s'.maxc = s.maxc := by
  cases a with
  | extend t =>
    simp only [Deb.step] at h
    split at h
    · cases h; simp
    · cases h
  | loop t =>
    simp only [Deb.step] at h
    split at h
    · split at h <;> (cases h; simp)
    · cases h

theorem deb_step_inv {s s' : Deb} {a : DebAct} (hi : DebInv s) (h : s.step a = some s') : DebInv s' := by
  cases a with
  | extend t =>
    simp only [Deb.step] at h
    split at h
    · rename_i hnow
      cases h
      have h1 := hi.maxcEq; have h2 := hi.startNow; have h3 := hi.touchNow; have h4 := hi.startTouch
      cases hf : s.fired with
      | none =>
        have hc := hi.compl hf
        have hw := hi.wake hf
        have hs := hi.cntStale hf
        have hr := hi.cntFresh hf
        refine ⟨h1, ?_, ?_, ?_, ?_, ?_, hi.late0, ?_, ?_, ?_, ?_, ?_, ?_⟩
        · simp; omega
        · simp [Deb.lastTouch, hf]
        · simp [Deb.lastTouch, hf]; omega
        · intro u hu
          simp [hf] at hu
          simp only [Deb.lastTouch, hf, Option.isNone_none, if_true, List.headD_cons]
          rcases hu with rfl | hu
          · exact Int.le_refl _
          · have := hi.extsLe u hu; omega
        · intro _; simp [Deb.lastTouch, hf]
        · intro _; simp only; omega
        · intro t' ht'; simp [hf] at ht'
        · intro t' ht'; simp [hf] at ht'
        · intro _ hst
          simp only [hf, Option.isNone_none, if_true, List.length_cons]
          simp only at hst
          by_cases hq : s.wakeAt = min s.complete s.maxc
          · have := hs hq; omega
          · have := hr hq; omega
        · intro _ _
          simp only [hf, Option.isNone_none, if_true, List.length_cons]
          by_cases hq : s.wakeAt = min s.complete s.maxc
          · have := hs hq; omega
          · have := hr hq; omega
        · intro hne; simp [hf] at hne
      | some tf =>
        have hlo := hi.fireLo tf hf
        have hhi := hi.fireHi tf hf
        have hcn := hi.cntFired (by simp [hf])
        refine ⟨h1, ?_, ?_, ?_, ?_, ?_, hi.late0, ?_, ?_, ?_, ?_, ?_, ?_⟩
        · simp; omega
        · simp [Deb.lastTouch, hf]; simp [Deb.lastTouch] at h3; omega
        · simpa [Deb.lastTouch, hf] using h4
        · intro u hu
          simp [hf] at hu
          simpa [Deb.lastTouch, hf] using hi.extsLe u hu
        · intro hn; simp [hf] at hn
        · intro hn; simp [hf] at hn
        · intro t' ht'
          simp [hf] at ht'; subst ht'
          simpa [Deb.lastTouch, hf] using hlo
        · intro t' ht'
          simp [hf] at ht'; subst ht'
          simpa [Deb.lastTouch, hf] using hhi
        · intro hn; simp [hf] at hn
        · intro hn; simp [hf] at hn
        · intro _; simpa [hf] using hcn
    · cases h
  | loop t =>
    simp only [Deb.step] at h
    split at h
    · rename_i hen
      obtain ⟨hfn, hnow, hwk⟩ := hen
      have hf : s.fired = none := by simpa using hfn
      have h1 := hi.maxcEq; have h2 := hi.startNow; have h3 := hi.touchNow; have h4 := hi.startTouch
      have hc := hi.compl hf
      have hw := hi.wake hf
      have hl := hi.late0
      split at h
      · rename_i hfire
        rw [debFires_iff] at hfire
        cases h
        refine ⟨h1, ?_, ?_, h4, hi.extsLe, ?_, ?_, ?_, ?_, ?_, ?_, ?_, ?_⟩
        · simp; omega
        · simp [Deb.lastTouch]; simp [Deb.lastTouch] at h3; omega
        · intro hn; simp at hn
        · simp; omega
        · intro hn; simp at hn
        · intro t' ht'
          simp at ht'; subst ht'
          simp only [Deb.lastTouch] at hc h4 ⊢
          constructor <;> omega
        · intro t' ht'
          simp at ht'; subst ht'
          simp only [Deb.lastTouch] at hc ⊢
          omega
        · intro hn; simp at hn
        · intro hn; simp at hn
        · intro _
          simp only
          by_cases hq : s.wakeAt = min s.complete s.maxc
          · have := hi.cntStale hf hq; omega
          · have := hi.cntFresh hf hq; omega
      · rename_i hfire
        rw [debFires_iff] at hfire
        cases h
        have hfresh : s.wakeAt ≠ min s.complete s.maxc := by omega
        have hcnt := hi.cntFresh hf hfresh
        refine ⟨h1, ?_, ?_, h4, hi.extsLe, ?_, ?_, ?_, ?_, ?_, ?_, ?_, ?_⟩
        · simp; omega
        · simp [Deb.lastTouch]; simp [Deb.lastTouch] at h3; omega
        · intro _; simpa [Deb.lastTouch] using hc
        · simp; omega
        · intro _; simp only; omega
        · intro t' ht'; simp [hf] at ht'
        · intro t' ht'; simp [hf] at ht'
        · intro _ _; simp only; omega
        · intro _ hne; simp only at hne; omega
        · intro hne; simp [hf] at hne
    · cases h

theorem deb_exec_inv {s s' : Deb} (hi : DebInv s) (acts : List DebAct) (h : s.exec acts = some s') : DebInv s' := by
  induction acts generalizing s with
  | nil => simp [Deb.exec] at h; exact h ▸ hi
  | cons a as ih =>
    simp only [Deb.exec] at h
    split at h
    · rename_i s1 hs1; exact ih (deb_step_inv hi hs1) h
    · cases h

theorem deb_exec_params {s s' : Deb} (acts : List DebAct) (h : s.exec acts = some s') :
    s'.d = s.d ∧ s'.w = s.w ∧ s'.start = s.start ∧ s'.maxc = s.maxc := by
  induction acts generalizing s with
  | nil => simp [Deb.exec] at h; subst h; simp
  | cons a as ih =>
    simp only [Deb.exec] at h
    split at h
    · rename_i s1 hs1
      have := deb_step_params hs1
      have := ih h
      omega
    · cases h

/-- while the signal is not set, the ghost list is the list of all `extend_window` calls so far -/
theorem deb_step_exts {s s' : Deb} {a : DebAct} (h : s.step a = some s') (hn : s'.fired = none) :
    s.fired = none ∧ s'.exts = a.extOf.toList ++ s.exts := by
  cases a with
  | extend t =>
    simp only [Deb.step] at h
    split at h
    · cases h
      simp only at hn
      simp [hn, DebAct.extOf]
    · cases h
  | loop t =>
    simp only [Deb.step] at h
    split at h
    · rename_i hen
      split at h
      · cases h; simp at hn
      · cases h; simp at hn; simp [hn, DebAct.extOf]
    · cases h

theorem deb_exec_exts {s s' : Deb} (acts : List DebAct) (h : s.exec acts = some s') (hn : s'.fired = none) :
    s.fired = none ∧ s'.exts = (acts.filterMap DebAct.extOf).reverse ++ s.exts := by
  induction acts generalizing s with
  | nil => simp [Deb.exec] at h; subst h; simp [hn]
  | cons a as ih =>
    simp only [Deb.exec] at h
    split at h
    · rename_i s1 hs1
      obtain ⟨h1, h2⟩ := ih h
      obtain ⟨h3, h4⟩ := deb_step_exts hs1 h1
      refine ⟨h3, ?_⟩
      rw [h2, h4]
      cases a <;> simp [DebAct.extOf, List.filterMap_cons]
    · cases h

/-- the loop task can always run when it is due, and sets the signal when the quiet period / max window is over -/
theorem deb_loop_enabled (s : Deb) (hf : s.fired = none) (t : Int) (hn : s.now ≤ t) (hw : s.wakeAt ≤ t) :
    ∃ s', s.step (.loop t) = some s' ∧ (min s.complete s.maxc ≤ t → s'.fired = some t)
      ∧ (t < min s.complete s.maxc → s'.fired = none ∧ s'.wakeAt = min s.complete s.maxc) := by
  simp only [Deb.step, hf, Option.isNone_none, hn, hw, and_self, if_true]
  by_cases hq : debFires (min s.complete s.maxc - t) = true
  · simp only [hq, if_true]
    rw [debFires_iff] at hq
    exact ⟨_, rfl, fun _ => rfl, fun hlt => by omega⟩
  · simp only [hq]
    rw [debFires_iff] at hq
    refine ⟨_, rfl, fun hle => by omega, fun _ => ⟨rfl, by simp only; omega⟩⟩

end IterUtils
