"""C06 — retry delays follow the wait strategy in documented order."""
from __future__ import annotations

from .. import policy
from ..engine import monitors, suite
from ..runner import Env, Outcome

THEOREMS = ["C06_delayed_retry_parked", "C06_not_before_delay", "C06_only_timer_releases", "C06_refuted_witness",
            "C06_refuted", "C06_delay_index_actual"]
LEAN_TARGETS = ["WfProps.C06"]
EXPLANATION = (
    "Proved on the runner LTS: a retry granted with delay d>0 at time t is parked in the timer heap for t+d and only the "
    "timer action releases it, and only when the clock has reached t+d. The documented-order clause (tenacity indexing: "
    "k-th retry uses index k-1) is REFUTED on the model regenerated from the source (C06_refuted: wait_chain(3,1,2) "
    "first waits 1) and replayed on the real engine: known finding C06/retry_delay_index_off_by_one; what the code does "
    "is proved as C06_delay_index_actual. Any retry starting earlier than the value the code's own index gives is a "
    "VIOLATION (C06/retry_too_early)."
)
ASSUMPTIONS = suite.ENGINE_ASSUMPTIONS


def run(env: Env) -> Outcome:
    out = Outcome()
    out.rule = ("policy specs (exact) + live retry-heavy scripted workflows with delays under virtual time; non-trivial = more than 2 ticks; "
                "distinct by (spec, schedule)")
    policy.correspondence(env, out, env.budget(3000, 60000))
    policy.units_stream(env, out, env.budget(150, 3000))
    suite.direct_corr(env, out, env.budget(1500, 30000))
    suite.live_runs(env, out, env.budget(150, 3000), [monitors.mon_c06], extra_specs=suite.load_corpus("C06"))
    suite.live_runs(env, out, env.budget(300, 6000), [monitors.mon_c06], gen_kwargs={"family": "retry"})
    # collecting steps (2..3 workers) with non-constant wait strategies whose retried invocation is re-run on a stale
    # snapshot between two of its failures: retries are numbered by failures, a collect re-run is not one
    trs = suite.live_runs(env, out, env.budget(150, 3000), [monitors.mon_c06], gen_kwargs={"family": "collect_retry"})
    for tr in trs:
        for shape in monitors.c06_rerun_shapes(tr):
            out.count("live:c06:" + shape)
    return out
