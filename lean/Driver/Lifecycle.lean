import WfModel.Lifecycle
import Driver.Util
open Lifecycle Drv

/-! Line protocol for M7 (model name `lifecycle`).

(A) in-process idle release, one run per `init`:
  `init|<tau>`  `adv|<dt>`
  `put|<t>` `pull` `reduce` `done` `tset` `tfire` `mark` `spawn|<j>`
  `sync|<work 0/1>|<retry>`   engine observation: the shortest engine action sequence
                              (`eTimerSet`*, `eTimerFire`*, `eDone`) that makes the model's
                              reducer-visible work / pending retries equal the observed ones
  `scall|i` `sacq|i` `sclear|i` `squery|i` `slog|i` `sstart|i` `srclear|i` `sdeliver|i`
  `tacq|j` `tquery|j` `tdecide|j`
  → `ok <state>` | `disabled <state>`; `adv` answers `ok now=<n>`, `sync` answers `ok|bad-sync work=<w> retry=<r>`
(B) lifecycle row, one row per run id:
  `db|<run>|create|<now>` `db|<run>|begin|<now>` `db|<run>|complete|<now>`
  `db|<run>|resume|<now>|<crash timeout | ->`  `db|<run>|resume2|…` (two-statement form)
  → `<result> row=<state>@<updated_at> | row=-`
  protocol: `binit` `btick|dt` `bcreate` `rspawn|i` `rbegin|i` `rsend|i` `rcomplete|i` `rcrash|i`
  `uspawn|k` `utry|k` `usend|k` `ufinish|k` `wfstep` → `ok|disabled <sys>` -/
namespace Drv.Lifecycle

structure St where
  s : S := init 0
  sids : List Nat := []
  tids : List Nat := []
  dbs : List (Nat × DB) := []
  sys : Sys := {}
  rids : List Nat := []
  uids : List Nat := []

def insertId (k : Nat) : List Nat → List Nat
  | [] => [k]
  | x :: r => if k < x then k :: x :: r else if k = x then x :: r else x :: insertId k r

def nats (l : List Nat) : String := ",".intercalate (l.map toString)

def showSPc (lk : Option Hold) (i : Nat) : SPc → String
  | .absent => "absent" | .waiting => "waiting" | .done => "done" | .failed => "failed"
  | .locked =>
    match lk with
    | some (.sClear i') => if i' = i then "clear" else "locked"
    | some (.sQuery i') => if i' = i then "query" else "locked"
    | some (.sLog i') => if i' = i then "log" else "locked"
    | some (.sStart i' snap) => if i' = i then s!"start({snap.length})" else "locked"
    | some (.sRClear i') => if i' = i then "rclear" else "locked"
    | some (.sDeliver i') => if i' = i then "deliver" else "locked"
    | _ => "locked"

def showOpt : Option Nat → String
  | none => "-" | some n => toString n

def showTPc (lk : Option Hold) (j : Nat) : TPc → String
  | .absent => "absent" | .sleeping d => s!"sleep@{d}" | .done => "done"
  | .locked =>
    match lk with
    | some (.tQuery j') => if j' = j then "query" else "locked"
    | some (.tDecide j' seen) => if j' = j then s!"decide({showOpt seen})" else "locked"
    | _ => "locked"

def showLoop : Option Loop → String
  | none => "-"
  | some l => s!"{l.inc}/start:{l.start.length}/mb:{nats l.mailbox}/buf:{nats l.buf}/retry:{l.retry}/mark:{if l.marking then 1 else 0}"

def showLock : Option Hold → String
  | none => "-"
  | some (.sClear i) | some (.sQuery i) | some (.sLog i) | some (.sStart i _) | some (.sRClear i) | some (.sDeliver i) => s!"s{i}"
  | some (.tQuery j) | some (.tDecide j _) => s!"t{j}"

def b01 (b : Bool) : String := if b then "1" else "0"

def showState (st : St) : String :=
  let s := st.s
  let ss := ",".intercalate (st.sids.map fun i => s!"{i}:{showSPc s.lock i (s.senders i)}")
  let ts := ",".intercalate (st.tids.map fun j => s!"{j}:{showTPc s.lock j (s.timers j)}")
  s!"now={s.now} act={b01 s.active} idle={showOpt s.idleSince} loop={showLoop s.cur} work={b01 s.work} log={nats s.log} lock={showLock s.lock} S={ss} T={ts} sent={nats s.sent} lost={nats s.lost} started={s.started} aborted={s.aborted} busy={s.busyReleases} errs={s.errs} early={s.earlyReleases} quiet={b01 s.quiet}"

def applyA (st : St) (a : Act) : St × String :=
  match Lifecycle.step st.s a with
  | some s' => let st' := { st with s := s' }; (st', "ok " ++ showState st')
  | none => (st, "disabled " ++ showState st)

/-- engine observation → model actions -/
def syncEngine (s : S) (work : Bool) (retry : Nat) : Option S :=
  match s.cur with
  | none => if s.work == work && retry == 0 then some s else none
  | some l =>
    -- more retries than the model knows: they were scheduled while a step result was reduced
    let rec addT (s : S) (n : Nat) : Option S :=
      match n with
      | 0 => some s
      | n + 1 => match Lifecycle.step s .eTimerSet with | some s' => addT s' n | none => none
    let rec fireT (s : S) (n : Nat) : Option S :=
      match n with
      | 0 => some s
      | n + 1 => match Lifecycle.step s .eTimerFire with | some s' => fireT s' n | none => none
    let s1 := if retry > l.retry then addT s (retry - l.retry) else if retry < l.retry then fireT s (l.retry - retry) else some s
    match s1 with
    | none => none
    | some s1 =>
      if s1.work == work then some s1
      else if s1.work && !work then Lifecycle.step s1 .eDone
      else none

def showRow : DB → String
  | none => "row=-"
  | some r => s!"row={r.st.name}@{r.upd}"

def showRes : Option LState → String
  | none => "None" | some x => x.name

def getDb (st : St) (run : Nat) : DB := (st.dbs.lookup run).getD none
def setDb (st : St) (run : Nat) (db : DB) : St :=
  { st with dbs := (run, db) :: st.dbs.filter (fun p => p.1 != run) }

def showRPc : RPc → String
  | .absent => "absent" | .start => "start" | .won t => s!"won@{t}" | .sentRelease t inc => s!"sent@{t}/{inc}" | .done => "done" | .lostCas => "lost"
def showUPc : UPc → String
  | .absent => "absent" | .start => "start" | .pass => "pass" | .waiting => "waiting" | .owner => "owner" | .done => "done"
def showMsg : Msg → String
  | .tick k => s!"t{k}" | .idleRelease => "IR"
def showWin : Win → String
  | .created => "C" | .release i => s!"R{i}" | .resume k tk => s!"U{k}{if tk then "!" else ""}"

def showSys (st : St) : String :=
  let s := st.sys
  let rs := ",".intercalate (st.rids.map fun i => s!"{i}:{showRPc (s.rel i)}{if s.crashed i then "x" else ""}")
  let us := ",".intercalate (st.uids.map fun k => s!"{k}:{showUPc (s.res k)}")
  s!"now={s.now} {showRow s.db} up={b01 s.wfUp}/{s.wfInc} inbox={",".intercalate (s.inbox.map showMsg)} processed={nats s.processed} stranded={nats s.stranded} R={rs} U={us} wins={",".intercalate (s.wins.reverse.map showWin)} holder={showOpt s.holder} takeovers={s.takeovers.length} busyStops={s.busyStops}"

def applyB (st : St) (a : BAct) : St × String :=
  match Lifecycle.bstep st.sys a with
  | some s' => let st' := { st with sys := s' }; (st', "ok " ++ showSys st')
  | none => (st, "disabled " ++ showSys st)

def step (st : St) (line : String) : St × String :=
  match line.splitOn "|" with
  | ["init", t] =>
    match parseNat? t with
    | some tau => let st' : St := { st with s := init tau, sids := [], tids := [] }; (st', "ok " ++ showState st')
    | none => (st, "bad-op")
  | ["adv", d] =>
    match parseNat? d with
    | some dt => let r := applyA st (.advance dt); (r.1, s!"ok now={r.1.s.now}")
    | none => (st, "bad-op")
  | ["put", t] => match parseNat? t with | some t => applyA st (.ePut t) | none => (st, "bad-op")
  | ["pull"] => applyA st .ePull
  | ["reduce"] => applyA st .eReduce
  | ["done"] => applyA st .eDone
  | ["tset"] => applyA st .eTimerSet
  | ["tfire"] => applyA st .eTimerFire
  | ["mark"] => applyA st .eMark
  | ["spawn", j] =>
    match parseNat? j with
    | some j => applyA { st with tids := insertId j st.tids } (.eSpawn j)
    | none => (st, "bad-op")
  | ["sync", w, r] =>
    match parseBool? w, parseNat? r with
    | some w, some r =>
      let showEng (s : S) := s!"work={b01 s.work} retry={match s.cur with | some l => l.retry | none => 0}"
      match syncEngine st.s w r with
      | some s' => let st' := { st with s := s' }; (st', "ok " ++ showEng s')
      | none => (st, "bad-sync " ++ showEng st.s)
    | _, _ => (st, "bad-op")
  | [name, x] =>
    match parseNat? x with
    | none => (st, "bad-op")
    | some n =>
      let sA (a : Act) := applyA { st with sids := insertId n st.sids } a
      let tA (a : Act) := applyA { st with tids := insertId n st.tids } a
      let rB (a : BAct) := applyB { st with rids := insertId n st.rids } a
      let uB (a : BAct) := applyB { st with uids := insertId n st.uids } a
      match name with
      | "scall" => sA (.sCall n) | "sacq" => sA (.sAcq n) | "sclear" => sA (.sClear n) | "squery" => sA (.sQuery n)
      | "slog" => sA (.sLog n) | "sstart" => sA (.sStart n) | "srclear" => sA (.sRClear n) | "sdeliver" => sA (.sDeliver n)
      | "tacq" => tA (.tAcq n) | "tquery" => tA (.tQuery n) | "tdecide" => tA (.tDecide n)
      | "btick" => applyB st (.tick n)
      | "rspawn" => rB (.rSpawn n) | "rbegin" => rB (.rBegin n) | "rsend" => rB (.rSend n) | "rcomplete" => rB (.rComplete n)
      | "rcrash" => rB (.rCrash n)
      | "uspawn" => uB (.uSpawn n) | "utry" => uB (.uTry n) | "usend" => uB (.uSend n) | "ufinish" => uB (.uFinish n)
      | _ => (st, "bad-op")
  | ["binit"] => let st' : St := { st with sys := {}, rids := [], uids := [] }; (st', "ok " ++ showSys st')
  | ["bcreate"] => applyB st .create
  | ["wfstep"] => applyB st .wfStep
  | ["db", run, "create", now] =>
    match parseNat? run, parseNat? now with
    | some r, some n => let db := dbCreate (getDb st r) n; (setDb st r db, "None " ++ showRow db)
    | _, _ => (st, "bad-op")
  | ["db", run, "begin", now] =>
    match parseNat? run, parseNat? now with
    | some r, some n => let x := dbBeginRelease (getDb st r) n; (setDb st r x.1, (if x.2 then "True " else "False ") ++ showRow x.1)
    | _, _ => (st, "bad-op")
  | ["db", run, "complete", now] =>
    match parseNat? run, parseNat? now with
    | some r, some n => let db := dbCompleteRelease (getDb st r) n; (setDb st r db, "None " ++ showRow db)
    | _, _ => (st, "bad-op")
  | ["db", run, kind, now, ct] =>
    match parseNat? run, parseNat? now with
    | some r, some n =>
      let cto : Option (Option Nat) := if ct == "-" then some none else (parseNat? ct).map some
      match cto with
      | none => (st, "bad-op")
      | some c =>
        if kind == "resume" then
          let x := dbTryBeginResume (getDb st r) n c; (setDb st r x.1, showRes x.2 ++ " " ++ showRow x.1)
        else if kind == "resume2" then
          let x := dbTryBeginResumeTwoStatements (getDb st r) n c; (setDb st r x.1, showRes x.2 ++ " " ++ showRow x.1)
        else (st, "bad-op")
    | _, _ => (st, "bad-op")
  | _ => (st, "bad-op")

end Drv.Lifecycle
