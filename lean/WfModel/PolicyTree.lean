import WfModel.Policy
/-!
M2 (continued) — **nested** combinator trees and `Context.retry_info()`.

`stop_any` / `stop_all` (and `|` / `&`, which the module defines as exactly these: `Gen.RP.sugar_*`)
take arbitrary stop conditions, so a policy's stop condition is a tree of any depth
(`stop_any(stop_all(a, b), c)`, `(a | b) & c`); likewise `retry_any` / `retry_all`.  `Policy.SSpec` /
`Policy.CSpec` describe the two-level shapes only; here are the trees, evaluated with the SAME
regenerated bodies `Gen.RP.stopAny` / `stopAll` / `retryAny` / `retryAll`.

`retryInfo` is `InternalContext.retry_info()` over the `RetryAttempt` that `run_worker` hands to a
step invocation (its condition and arithmetic are pinned to the source by `GenRetryAcct`).
-/
namespace Policy
open Gen.RP

inductive STree
  | leaf (l : SLeaf)
  | any (ts : List STree)
  | all (ts : List STree)
deriving Repr

mutual
def STree.eval : STree → Stop
  | .leaf l => l.eval
  | .any ts => stopAny (STree.evalList ts)
  | .all ts => stopAll (STree.evalList ts)
def STree.evalList : List STree → List Stop
  | [] => []
  | t :: ts => t.eval :: STree.evalList ts
end

/-- the two-level shapes are trees -/
def SSpec.toTree : SSpec → STree
  | .leaf l => .leaf l
  | .any ls => .any (ls.map .leaf)
  | .all ls => .all (ls.map .leaf)

inductive CTree
  | leaf (l : CLeaf)
  | any (ts : List CTree)
  | all (ts : List CTree)
deriving Repr

mutual
def CTree.eval : CTree → Cond
  | .leaf l => l.eval
  | .any ts => retryAny (CTree.evalList ts)
  | .all ts => retryAll (CTree.evalList ts)
def CTree.evalList : List CTree → List Cond
  | [] => []
  | t :: ts => t.eval :: CTree.evalList ts
end

/-- a policy whose retry and stop components are trees -/
structure TSpec where
  retry : Option CTree
  wait : WSpec
  stop : STree
deriving Repr

def TSpec.eval (p : TSpec) : Composed :=
  { retry := p.retry.map CTree.eval, wait := p.wait.eval, stop := p.stop.eval }


/-! ### attempt bounds of a stop tree (executable; their meaning is proved in `WfProofs/PolicyBudget.lean`)

`thr q = ⌈q⌉`: `stop_after_attempt(q)` answers `attempts >= q`.  Extended naturals `Option Nat` with `none = ∞`:
`stop_any` takes the least bound of its operands, `stop_all` the greatest (`stop_any()` never stops: `∞`; `stop_all()`
always stops: `0`).  `STree.cap`: from this failure count on the tree is true whatever the clock says; `STree.lo`: below
this failure count it is false whatever the clock says. -/

def thr (q : Rat) : Nat := q.ceil.toNat

def emin : Option Nat → Option Nat → Option Nat
  | some a, some b => some (min a b)
  | some a, none => some a
  | none, b => b

def emax : Option Nat → Option Nat → Option Nat
  | some a, some b => some (max a b)
  | _, _ => none

mutual
def STree.bound (lb : SLeaf → Option Nat) : STree → Option Nat
  | .leaf l => lb l
  | .any ts => STree.boundAny lb ts
  | .all ts => STree.boundAll lb ts
def STree.boundAny (lb : SLeaf → Option Nat) : List STree → Option Nat
  | [] => none
  | t :: ts => emin (t.bound lb) (STree.boundAny lb ts)
def STree.boundAll (lb : SLeaf → Option Nat) : List STree → Option Nat
  | [] => some 0
  | t :: ts => emax (t.bound lb) (STree.boundAll lb ts)
end

def capLeaf : SLeaf → Option Nat
  | .afterAttempt q => some (thr q)
  | _ => none

def loLeaf : SLeaf → Option Nat
  | .afterAttempt q => some (thr q)
  | .never => none
  | _ => some 0

/-- from `cap` failures on the stop condition holds, on every clock -/
def STree.cap : STree → Option Nat := STree.bound capLeaf
/-- below `lo` failures the stop condition does not hold, on any clock -/
def STree.lo : STree → Option Nat := STree.bound loLeaf

/-! ### `Context.retry_info()` -/

/-- `RetryAttempt` (the part `retry_info` reads): `first_attempt_at` is a float defaulting to `0.0` -/
structure RetryAttempt where
  retryNumber : Int := 0
  firstAt : Rat := 0
  lastExc : Option Nat := none
  lastFailedAt : Option Rat := none
deriving Repr, DecidableEq

/-- `RetryInfo` -/
structure RetryInfo where
  retryNumber : Int
  elapsed : Rat
  lastExc : Option Nat
  lastFailedAt : Option Rat
deriving Repr, DecidableEq

/-- `InternalContext.retry_info()` at wall-clock `now`:
`if retry.retry_number <= 0 or not retry.first_attempt_at: elapsed = 0.0 else: elapsed = max(0.0, time.time() - retry.first_attempt_at)` -/
def retryInfo (ra : RetryAttempt) (now : Rat) : RetryInfo :=
  { retryNumber := ra.retryNumber,
    elapsed := if ra.retryNumber ≤ 0 ∨ ra.firstAt = 0 then 0 else max 0 (now - ra.firstAt),
    lastExc := ra.lastExc,
    lastFailedAt := ra.lastFailedAt }

end Policy
