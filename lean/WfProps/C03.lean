import WfProofs.EngineIdle
import WfProofs.EngineTelemetry
import WfModel.Runner
import WfProofs.RunnerAnnounce
import WfModel.GenIdleShape
import WfModel.GenLifecycleShape
import WfModel.GenLifecycle
import WfModel.Lifecycle
/-!
# C03 — queued work never stalls; idleness is reported only when truly idle

First sentence (work conservation): **proved** for every tick history.
Second sentence (idle soundness): the part the reducer can see is **proved**
(`C03_idle_reducer_sound`); the full statement — which also speaks of scheduled
retries and of events already delivered to the run — is **refuted** on the
faithful runner model by two machine-checked witnesses that replay on the real
code (known findings C03/idle_with_pending_retry_timer and
C03/idle_with_undelivered_event).
-/
open Engine

def C03.reach (cfg : Cfg) (pol : Policy) (st0 : State) (now0 : Int) (ticks : List (Tick × Int)) :
    State × Bool :=
  ticks.foldl (fun acc tn =>
      let r := reduce cfg pol tn.1 acc.1 tn.2
      (r.1, acc.2 || r.2.any Cmd.isExit))
    ((rewind cfg st0 now0).1, false)

/-- **Work conservation**: along any tick history, as long as no tick has ended the run,
every step with a non-empty queue has all `num_workers` slots busy. -/
theorem C03_work_conserving (cfg : Cfg) (hwf : cfg.WF) (pol : Policy) (st0 : State) (now0 : Int)
    (ticks : List (Tick × Int)) (hlive : (C03.reach cfg pol st0 now0 ticks).2 = false) :
    ∀ c ∈ cfg.steps,
      ((C03.reach cfg pol st0 now0 ticks).1.workers c.name).queue ≠ [] →
        ((C03.reach cfg pol st0 now0 ticks).1.workers c.name).inProg.length = c.numWorkers := by
  unfold C03.reach at hlive ⊢
  have hq0 : QInv cfg (rewind cfg st0 now0).1 := by
    intro c hc
    unfold rewind
    exact rewindLoop_qOk now0 (sortedSteps cfg) st0 []
      ((sortedSteps_names_perm cfg).nodup_iff.mpr hwf) c (mem_sortedSteps_iff.mpr hc)
  have hi0 : IdsInv cfg (rewind cfg st0 now0).1 := rewind_idsInv_fresh cfg hwf st0 now0
  suffices h : ∀ (st : State) (b : Bool), QInv cfg st → IdsInv cfg st →
      (ticks.foldl (fun acc tn => let r := reduce cfg pol tn.1 acc.1 tn.2
        (r.1, acc.2 || r.2.any Cmd.isExit)) (st, b)).2 = false →
      QInv cfg (ticks.foldl (fun acc tn => let r := reduce cfg pol tn.1 acc.1 tn.2
        (r.1, acc.2 || r.2.any Cmd.isExit)) (st, b)).1 ∧
      IdsInv cfg (ticks.foldl (fun acc tn => let r := reduce cfg pol tn.1 acc.1 tn.2
        (r.1, acc.2 || r.2.any Cmd.isExit)) (st, b)).1 by
    obtain ⟨hq, hi⟩ := h _ false hq0 hi0 hlive
    intro c hc hne
    exact Nat.le_antisymm (hi c hc).length_le (hq c hc hne)
  clear hlive
  induction ticks with
  | nil => intro st b hq hi _; exact ⟨hq, hi⟩
  | cons tn rest ih =>
    intro st b hq hi hl
    simp only [List.foldl_cons] at hl ⊢
    have hb : (b || (reduce cfg pol tn.1 st tn.2).2.any Cmd.isExit) = false := by
      -- the flag is monotone: if it were true here it would stay true
      cases hflag : (b || (reduce cfg pol tn.1 st tn.2).2.any Cmd.isExit) with
      | false => rfl
      | true =>
        rw [hflag] at hl
        have hmono : ∀ (l : List (Tick × Int)) (s : State),
            (l.foldl (fun acc tn => let r := reduce cfg pol tn.1 acc.1 tn.2
              (r.1, acc.2 || r.2.any Cmd.isExit)) (s, true)).2 = true := by
          intro l
          induction l with
          | nil => intro s; rfl
          | cons x xs ihx => intro s; simp only [List.foldl_cons, Bool.true_or]; exact ihx _
        rw [hmono] at hl; cases hl
    simp only [Bool.or_eq_false_iff] at hb
    exact ih _ _ (reduce_qInv cfg hwf pol tn.1 st tn.2 hq hb.2)
      (reduce_idsInv cfg hwf pol tn.1 st tn.2 hi) hl

/-- **Idle announcements are sound as far as the reducer can see**: whenever a tick emits
`WorkflowIdleEvent` or `UnhandledEvent(idle=True)`, the run is marked running and every
step's queue and in-progress table is empty. -/
theorem C03_idle_reducer_sound (cfg : Cfg) (pol : Policy) (tick : Tick) (st : State) (now : Int)
    (h : (reduce cfg pol tick st now).2.any isIdlePub = true) :
    (reduce cfg pol tick st now).1.isRunning = true ∧
      ∀ c ∈ cfg.steps, ((reduce cfg pol tick st now).1.workers c.name).queue = [] ∧
        ((reduce cfg pol tick st now).1.workers c.name).inProg = [] :=
  checkIdle_quiet (reduce_idle_quiet cfg pol tick st now h)

/-! ## The full idle-soundness statement and its refutation -/

def C03.isAddEvent : Tick → Bool | .addEvent _ _ => true | _ => false

/-- nothing can happen without new external input: no delayed retry in the timer heap,
no delivered-but-unprocessed event in the mailbox or the buffer -/
def C03.TrulyIdle (r : Runner) : Bool :=
  !(r.heap.any (fun t => C03.isAddEvent t.tick)) && !(r.mailbox.any C03.isAddEvent) &&
    !(r.buf.any C03.isAddEvent)

/-- the property's second sentence on the runner model: whenever an action appends an idle
announcement to the stream, the run is truly idle -/
def C03_idle_sound_statement : Prop :=
  ∀ (cfg : Cfg) (pol : Policy) (start : Ev) (acts : List Act) (a : Act),
    let r := Runner.run cfg pol (Runner.init cfg initState 0 (some start) none) acts
    let r' := r.step cfg pol a
    r'.stream = r.stream ++ [.idle] → C03.TrulyIdle r' = true

def C03.w1Cfg : Cfg := { steps := [{ name := 0, accepted := [0], numWorkers := 1, hasRetry := true }] }
def C03.startEv : Ev := { ty := 0, kind := .start, uid := 1 }
def C03.w1Acts : List Act := [.drain, .workerDone 0 0 [.failed 7 0], .drain]
def C03.w2Cfg : Cfg :=
  { steps := [{ name := 0, accepted := [0], numWorkers := 1, hasRetry := false },
              { name := 1, accepted := [5], numWorkers := 1, hasRetry := false }] }
def C03.xEv : Ev := { ty := 5, kind := .plain, uid := 2 }
def C03.w2Acts : List Act :=
  [.drain, .external (.addEvent { ev := C03.xEv } none), .workerDone 0 0 [.result none], .drain]

/-- W1 (F05): a step fails, its retry is scheduled 3 s ahead, and the idle check that was
queued by the same tick announces idleness while the retry sits in the timer heap. -/
theorem C03_refuted_timer :
    let r := Runner.run C03.w1Cfg (fun _ _ _ _ => .retry 3) (Runner.init C03.w1Cfg initState 0 (some C03.startEv) none) C03.w1Acts
    let r' := r.step C03.w1Cfg (fun _ _ _ _ => .retry 3) .drain
    r'.stream = r.stream ++ [.idle] ∧ C03.TrulyIdle r' = false := by decide

/-- W2 (F06): a step did `ctx.send_event(X)`; the tick is in the mailbox when the step's
result is reduced, but the idle check is processed before the next mailbox pull. -/
theorem C03_refuted_mailbox :
    let r := Runner.run C03.w2Cfg (fun _ _ _ _ => .stop) (Runner.init C03.w2Cfg initState 0 (some C03.startEv) none) C03.w2Acts
    let r' := r.step C03.w2Cfg (fun _ _ _ _ => .stop) .drain
    r'.stream = r.stream ++ [.idle] ∧ C03.TrulyIdle r' = false := by decide

theorem C03_refuted : ¬ C03_idle_sound_statement := by
  intro h
  have h1 := h C03.w1Cfg (fun _ _ _ _ => .retry 3) C03.startEv C03.w1Acts .drain
  have h2 := C03_refuted_timer
  simp only at h1 h2
  rw [h1 h2.1] at h2
  exact absurd h2.2 (by decide)

/-! Non-vacuity of the positive theorems -/
example : C03.w2Cfg.WF := by simp [Cfg.WF, Cfg.names, C03.w2Cfg]
example :
    let r := C03.reach C03.w2Cfg (fun _ _ _ _ => .stop) initState 0
      [(.addEvent { ev := C03.xEv } none, 0), (.addEvent { ev := { C03.xEv with uid := 3 } } none, 0)]
    (r.2, ((r.1.workers 1).queue.length, (r.1.workers 1).inProg.length)) = (false, (1, 1)) := by decide

/-! # The runner level: every reachable state of every run, fresh or resumed

`C03.runFrom` starts a run as `_ControlLoopRunner.__init__` + the head of `run()` do (rehydrate,
queue the start event, schedule the timeout, **rewind** the state the run is resumed from) and then
follows an arbitrary schedule of the loop's actions.  `st0` is the state handed to the loop: the
fresh `BrokerState.from_workflow`, or whatever a snapshot / tick replay produced. -/

abbrev C03.runFrom (cfg : Cfg) (pol : Policy) (st0 : State) (now : Int) (start : Option Ev)
    (timeout : Option Nat) (acts : List Act) : Runner :=
  Runner.run cfg pol (Runner.init cfg st0 now start timeout) acts

/-- **Work conservation at every reachable runner state, also for resumed runs**: whatever state
the run is started from (no assumption on `st0`: the rewind repairs it), with or without a start
event or timeout, after any schedule — as long as the run has no outcome, a step with a non-empty
queue has exactly `num_workers` invocations in progress. -/
theorem C03_work_conserving_runner (cfg : Cfg) (hwf : cfg.WF) (pol : Policy) (st0 : State) (now : Int)
    (start : Option Ev) (timeout : Option Nat) (acts : List Act)
    (hlive : (C03.runFrom cfg pol st0 now start timeout acts).outcome = none) :
    ∀ c ∈ cfg.steps,
      ((C03.runFrom cfg pol st0 now start timeout acts).st.workers c.name).queue ≠ [] →
        ((C03.runFrom cfg pol st0 now start timeout acts).st.workers c.name).inProg.length = c.numWorkers := by
  have hi : IdsInv cfg (C03.runFrom cfg pol st0 now start timeout acts).st := by
    apply run_idsInv cfg hwf pol
    rw [init_st]; exact rewind_idsInv_fresh cfg hwf st0 now
  have hq : QInv cfg (C03.runFrom cfg pol st0 now start timeout acts).st := by
    apply run_qInv cfg hwf pol acts _ _ hlive
    intro _
    rw [init_st]
    intro c hc
    unfold rewind
    exact rewindLoop_qOk now (sortedSteps cfg) st0 []
      ((sortedSteps_names_perm cfg).nodup_iff.mpr hwf) c (mem_sortedSteps_iff.mpr hc)
  intro c hc hne
  exact Nat.le_antisymm (hi c hc).length_le (hq c hc hne)

/-- **The rewind, exactly** (resumed runs): per step, the pending invocations of the state a run is
resumed from are its former in-progress rows (each re-inserted at the head of the queue, hence
reversed) followed by its former queue; the first `min(num_workers, #pending)` are started, in
that order, the others stay queued in order.  Nothing is lost or duplicated and no slot stays
free while an invocation waits. -/
theorem C03_rewind_exact (cfg : Cfg) (hwf : cfg.WF) (st0 : State) (now : Int) (c : StepCfg)
    (hc : c ∈ cfg.steps) :
    let pending := ((st0.workers c.name).inProg.map inProgToAttempt).reverse ++ (st0.workers c.name).queue
    let k := min c.numWorkers pending.length
    let ss := (rewind cfg st0 now).1.workers c.name
    ss.inProg.map (·.ev) = (pending.take k).map (·.ev) ∧ ss.queue = pending.drop k ∧
      ss.inProg.length = k ∧ ss.collected = (st0.workers c.name).collected ∧
      ss.waiters = (st0.workers c.name).waiters := by
  intro pending k ss
  have hs : ss = (rewindStep c (st0.workers c.name) now).1 := rewind_spec cfg hwf st0 now c hc
  obtain ⟨h1, h2, h3, h4, h5⟩ := rewindStep_spec c (st0.workers c.name) now
  rw [hs]
  exact ⟨h2, h1, h3, h4, h5⟩

/-- **In-progress means live** (the converse of C01's clause 1): in every reachable state of an open
run every in-progress row of a configured step is backed by a live worker task with that step and
worker id — or its own result tick is the (only) tick in the buffer, about to be reduced — or a
`StopEvent` result is in the buffer (the runner has cancelled all tasks; the next reduction ends the
run, `C02_stop_result_ends_run`).  A row is never a stale mark. -/
theorem C03_in_progress_is_live (cfg : Cfg) (hwf : cfg.WF) (pol : Policy) (st0 : State)
    (now : Int) (start : Option Ev) (timeout : Option Nat) (acts : List Act)
    (hlive : (C03.runFrom cfg pol st0 now start timeout acts).outcome = none) :
    ∀ c ∈ cfg.steps, ∀ ip ∈ ((C03.runFrom cfg pol st0 now start timeout acts).st.workers c.name).inProg,
      (∃ x ∈ (C03.runFrom cfg pol st0 now start timeout acts).running, x.step = c.name ∧ x.wid = ip.wid) ∨
      (∃ ev res, (C03.runFrom cfg pol st0 now start timeout acts).buf = [.stepResult c.name ip.wid ev res]) ∨
      (∃ s w ev res, (C03.runFrom cfg pol st0 now start timeout acts).buf = [.stepResult s w ev res] ∧
        hasStopResult res = true) := by
  intro c hc ip hip
  exact (reach_c03Inv cfg hwf pol st0 now start timeout acts).live hlive c.name
    (List.mem_map_of_mem hc) ip hip

/-- **Queued work runs at the full worker limit, for real**: whenever the loop is waiting (empty
buffer: the only states in which time passes) and a step has queued events, exactly `num_workers`
worker tasks of that step are alive. -/
theorem C03_full_limit_live (cfg : Cfg) (hwf : cfg.WF) (pol : Policy) (st0 : State)
    (now : Int) (start : Option Ev) (timeout : Option Nat) (acts : List Act)
    (hlive : (C03.runFrom cfg pol st0 now start timeout acts).outcome = none)
    (hwait : (C03.runFrom cfg pol st0 now start timeout acts).buf = []) :
    ∀ c ∈ cfg.steps,
      ((C03.runFrom cfg pol st0 now start timeout acts).st.workers c.name).queue ≠ [] →
        ((C03.runFrom cfg pol st0 now start timeout acts).running.filter (fun w => w.step == c.name)).length
          = c.numWorkers := by
  intro c hc hne
  have hI := reach_c03Inv cfg hwf pol st0 now start timeout acts
  have hcount := C03_work_conserving_runner cfg hwf pol st0 now start timeout acts hlive c hc hne
  unfold C03.runFrom at hlive hwait hne hcount ⊢
  generalize Runner.run cfg pol (Runner.init cfg st0 now start timeout) acts = r at *
  have hn1 : ((r.running.filter (fun w => w.step == c.name)).map (·.wid)).Nodup :=
    nodup_wids_of_slots c.name r.running hI.run.nodup
  have hn2 : (usedIds (r.st.workers c.name)).Nodup := (hI.run.ids c hc).1
  have hsub1 : (r.running.filter (fun w => w.step == c.name)).map (·.wid) ⊆ usedIds (r.st.workers c.name) := by
    intro w hw
    obtain ⟨x, hx, rfl⟩ := List.mem_map.mp hw
    obtain ⟨hxr, hxs⟩ := List.mem_filter.mp hx
    have hxs' : x.step = c.name := by simpa using hxs
    obtain ⟨_, ip, hip, hwid, _⟩ := hI.run.sub x hxr
    rw [hxs'] at hip
    exact mem_usedIds.mpr ⟨ip, hip, hwid⟩
  have hsub2 : usedIds (r.st.workers c.name) ⊆ (r.running.filter (fun w => w.step == c.name)).map (·.wid) := by
    intro w hw
    obtain ⟨ip, hip, rfl⟩ := mem_usedIds.mp hw
    obtain ⟨x, hx, hxs, hxw⟩ := hI.live.of_buf_ne hlive (by intro _ _ _ _ hb; rw [hwait] at hb; cases hb)
      c.name (List.mem_map_of_mem hc) ip hip
    exact List.mem_map.mpr ⟨x, List.mem_filter.mpr ⟨hx, by simp [hxs]⟩, hxw⟩
  have l1 := List.Nodup.length_le_of_subset hn1 hsub1
  have l2 := List.Nodup.length_le_of_subset hn2 hsub2
  simp only [List.length_map, usedIds] at l1 l2
  omega

/-- **The deferred idle check, exactly**: in every reachable state `_idle_check_pending` is true
exactly when a `TickIdleCheck` is in the tick buffer; there is at most one, it is the last tick of
the buffer (everything buffered is reduced before it), and neither the timer heap nor the mailbox
ever holds one. -/
theorem C03_idle_check_exact (cfg : Cfg) (hwf : cfg.WF) (pol : Policy) (st0 : State)
    (now : Int) (start : Option Ev) (timeout : Option Nat) (acts : List Act) :
    let r := C03.runFrom cfg pol st0 now start timeout acts
    (r.idlePending = true ↔ Tick.idleCheck ∈ r.buf) ∧ r.buf.count .idleCheck ≤ 1 ∧
      (∀ pre post, r.buf = pre ++ Tick.idleCheck :: post → post = []) ∧
      (∀ tm ∈ r.heap, tm.tick ≠ .idleCheck) ∧ (∀ t ∈ r.mailbox, t ≠ .idleCheck) := by
  intro r
  have hI := (reach_c03Inv cfg hwf pol st0 now start timeout acts).idle
  refine ⟨?_, ?_, ?_, fun tm htm => isTimerKind_ne_idleCheck (hI.heap tm htm),
    fun t ht => isExternal_ne_idleCheck (hI.mbox t ht)⟩
  · rcases hI.form with ⟨hp, hn⟩ | ⟨hp, pre, hb, hn⟩
    · constructor
      · intro h; rw [hp] at h; cases h
      · intro h; exact absurd rfl (hn _ h)
    · constructor
      · intro _; rw [hb]; simp
      · intro _; exact hp
  · rcases hI.form with ⟨hp, hn⟩ | ⟨hp, pre, hb, hn⟩
    · rw [List.count_eq_zero_of_not_mem (fun h => absurd rfl (hn _ h))]; omega
    · rw [hb, List.count_append, List.count_eq_zero_of_not_mem (fun h => absurd rfl (hn _ h))]
      simp
  · intro pre' post hb'
    rcases hI.form with ⟨hp, hn⟩ | ⟨hp, pre, hb, hn⟩
    · exact absurd rfl (hn .idleCheck (by rw [hb']; simp))
    · rw [hb] at hb'
      -- `pre ++ [ic] = pre' ++ ic :: post` with no `ic` in `pre`
      cases post with
      | nil => rfl
      | cons q post' =>
        exfalso
        have hlen := congrArg List.length hb'
        simp only [List.length_append, List.length_cons, List.length_nil] at hlen
        have hmem : Tick.idleCheck ∈ pre := by
          have h1 : pre' ++ Tick.idleCheck :: q :: post' = (pre' ++ [Tick.idleCheck]) ++ (q :: post') := by simp
          rw [h1] at hb'
          have h2 := List.append_eq_append_iff.mp hb'
          rcases h2 with ⟨a', ha1, ha2⟩ | ⟨c', hc1, hc2⟩
          · -- pre' ++ [ic] = pre ++ a', [ic] = a' ++ q :: post'
            cases a' with
            | nil => rw [List.append_nil] at ha1; rw [← ha1]; simp
            | cons x xs =>
              exfalso
              simp only [List.cons_append, List.cons.injEq] at ha2
              have : xs ++ q :: post' = [] := ha2.2.symm
              simp at this
          · rw [hc1]; simp
        exact absurd rfl (hn _ hmem)

/-! ## The strongest true idle theorem on the runner, and the two exceptions, exactly -/

/-- **Idle announcements on the runner**: take any reachable state `r` of any run and any action
`a` of the loop (a step's own stream write may not forge an idle announcement), and suppose the
action appends `new` to the published stream with an idle announcement (`WorkflowIdleEvent`, or
`UnhandledEvent(idle=True)`) in it.  Then in the state `r'` right after it
* the action was a `drain`: only the loop itself announces;
* the run is marked running and every step's queue and in-progress table are empty;
* **no worker task is alive**;
* the announcement queued nothing: the buffer is what was behind the announcing tick, plus at most
  the idle check; it holds no step result;
* for `WorkflowIdleEvent` the buffer is **empty** and the idle-check flag is down.
What may still be pending is therefore confined to the timer heap and the mailbox (and, for
`UnhandledEvent(idle=True)`, the rest of the batch the unhandled event arrived in) — see
`C03_idle_exceptions_exact`. -/
theorem C03_idle_runner_sound (cfg : Cfg) (hwf : cfg.WF) (pol : Policy) (st0 : State)
    (now : Int) (start : Option Ev) (timeout : Option Nat) (acts : List Act)
    (a : Act) (ha : ∀ p, a = .stepWrite p → p.isIdleAnn = false) (new : List Pub)
    (hnew : ((C03.runFrom cfg pol st0 now start timeout acts).step cfg pol a).stream
      = (C03.runFrom cfg pol st0 now start timeout acts).stream ++ new)
    (hidle : new.any Pub.isIdleAnn = true) :
    let r := C03.runFrom cfg pol st0 now start timeout acts
    let r' := r.step cfg pol a
    a = .drain ∧
    r'.st.isRunning = true ∧
    (∀ c ∈ cfg.steps, (r'.st.workers c.name).queue = [] ∧ (r'.st.workers c.name).inProg = []) ∧
    r'.running = [] ∧
    (r'.buf = r.buf.tail ∨ r'.buf = r.buf.tail ++ [.idleCheck]) ∧
    (∀ t ∈ r'.buf, t.isStepResult = false) ∧
    (Pub.idle ∈ new → r'.buf = [] ∧ r'.idlePending = false) := by
  intro r r'
  have hI : C03Inv cfg r := reach_c03Inv cfg hwf pol st0 now start timeout acts
  have hI' : C03Inv cfg r' := step_c03Inv cfg hwf pol r a hI
  have hne : new ≠ [] := by intro h; rw [h] at hidle; cases hidle
  rcases step_stream cfg pol r a with hs | ⟨p, rfl, hs⟩ | ⟨t, rest, rfl, ho, hb, hc, he⟩
  · exfalso
    have : r.stream ++ new = r.stream ++ [] := by rw [← hnew, List.append_nil]; exact hs
    exact hne (List.append_cancel_left this)
  · exfalso
    have : r.stream ++ new = r.stream ++ [p] := by rw [← hnew]; exact hs
    have hn := List.append_cancel_left this
    rw [hn] at hidle
    simp only [List.any_cons, List.any_nil, Bool.or_false] at hidle
    rw [ha p rfl] at hidle; cases hidle
  · obtain ⟨new', hs1, hs2⟩ := execCmds_stream (reduce cfg pol t r.st r.now).2
      (r.logged t rest (reduce cfg pol t r.st r.now).1)
    have hnn : new = new' := by
      have : r.stream ++ new = r.stream ++ new' := by
        rw [← hnew]; show (r.step cfg pol .drain).stream = _; rw [he]; exact hs1
      exact List.append_cancel_left this
    subst hnn
    obtain ⟨p, hp, hpi⟩ := List.any_eq_true.mp hidle
    have hany : (reduce cfg pol t r.st r.now).2.any isIdlePub = true :=
      List.any_eq_true.mpr ⟨_, hs2 p hp, by rw [isIdlePub_publish]; exact hpi⟩
    have hquiet := checkIdle_quiet (reduce_idle_quiet cfg pol t r.st r.now hany)
    have hst : r'.st = (reduce cfg pol t r.st r.now).1 := by
      show (r.step cfg pol .drain).st = _; rw [he, execCmds_st]; rfl
    have hnsr : t.isStepResult = false := reduce_idlePub_not_stepResult cfg pol t r.st r.now hany
    obtain ⟨_, extra, _, hx2, hx3⟩ := drain_shape cfg pol False r t rest hI.run hb hI.idle.form
    have hextra := hx2 hnsr
    rw [hextra, List.append_nil] at hx3
    have hbuf' : r'.buf = rest ∨ r'.buf = rest ++ [.idleCheck] := by
      show (r.step cfg pol .drain).buf = _ ∨ (r.step cfg pol .drain).buf = _
      rw [he]; exact hx3
    have hrest : ∀ x ∈ rest, x.isStepResult = false := by
      rcases hI.run.buf with hn | ⟨s, w, ev, res, hb', _⟩
      · intro x hx; exact hn x (by rw [hb]; simp [hx])
      · rw [hb] at hb'; simp only [List.cons.injEq] at hb'
        rw [hb'.2]; intro x hx; cases hx
    refine ⟨rfl, ?_, ?_, ?_, ?_, ?_, ?_⟩
    · rw [hst]; exact hquiet.1
    · rw [hst]; exact hquiet.2
    · apply List.eq_nil_iff_forall_not_mem.mpr
      intro x hx
      obtain ⟨hname, ip, hip, _, _⟩ := hI'.run.sub x hx
      obtain ⟨c, hc', hcn⟩ := List.mem_map.mp hname
      have := (hquiet.2 c hc').2
      rw [hst, ← hcn, this] at hip
      cases hip
    · rw [hb]; exact hbuf'
    · intro x hx
      rcases hbuf' with h | h
      · rw [h] at hx; exact hrest x hx
      · rw [h] at hx
        rcases List.mem_append.mp hx with hx | hx
        · exact hrest x hx
        · simp only [List.mem_singleton] at hx; subst hx; rfl
    · intro hidlepub
      have htick : t = .idleCheck := reduce_pub_idle_tick cfg pol t r.st r.now (hs2 _ hidlepub)
      subst htick
      have hf := hI.idle.form
      rw [hb] at hf
      have hrest0 : rest = [] := hf.pop.2.1 rfl
      subst hrest0
      show (r.step cfg pol .drain).buf = [] ∧ (r.step cfg pol .drain).idlePending = false
      rw [he]
      simp only [reduce]
      split <;> simp [execCmds, execCmd, Runner.logged]

/-- **The two exceptions, exactly.**  When `WorkflowIdleEvent` is announced, the run is *not* truly
idle (`C03.TrulyIdle`: something can still happen without new external input) **iff** a delayed retry
waits in the timer heap (known finding `C03/idle_with_pending_retry_timer`, `C03_refuted_timer`)
or an event already sent to the run waits in the mailbox (known finding
`C03/idle_with_undelivered_event`, `C03_refuted_mailbox`).  Nothing else: the buffer is empty, no
task is alive, queues and in-progress tables are empty (`C03_idle_runner_sound`); the heap holds only
delayed retries, waiter timeouts and the run's timeout, the mailbox only what another party put. -/
theorem C03_idle_exceptions_exact (cfg : Cfg) (hwf : cfg.WF) (pol : Policy) (st0 : State)
    (now : Int) (start : Option Ev) (timeout : Option Nat) (acts : List Act)
    (a : Act) (ha : ∀ p, a = .stepWrite p → p.isIdleAnn = false) (new : List Pub)
    (hnew : ((C03.runFrom cfg pol st0 now start timeout acts).step cfg pol a).stream
      = (C03.runFrom cfg pol st0 now start timeout acts).stream ++ new)
    (hidle : Pub.idle ∈ new) :
    let r' := (C03.runFrom cfg pol st0 now start timeout acts).step cfg pol a
    (C03.TrulyIdle r' = false ↔
      (r'.heap.any (fun t => C03.isAddEvent t.tick) = true ∨ r'.mailbox.any C03.isAddEvent = true)) ∧
    (∀ tm ∈ r'.heap, tm.tick.isTimerKind = true) ∧ (∀ t ∈ r'.mailbox, t.isExternal = true) := by
  intro r'
  have hany : new.any Pub.isIdleAnn = true := List.any_eq_true.mpr ⟨_, hidle, rfl⟩
  obtain ⟨_, _, _, _, _, _, hb⟩ :=
    C03_idle_runner_sound cfg hwf pol st0 now start timeout acts a ha new hnew hany
  have hbuf : r'.buf = [] := (hb hidle).1
  have hI' : C03Inv cfg r' := step_c03Inv cfg hwf pol _ a (reach_c03Inv cfg hwf pol st0 now start timeout acts)
  refine ⟨?_, hI'.idle.heap, hI'.idle.mbox⟩
  simp only [C03.TrulyIdle, hbuf, List.any_nil, Bool.not_false, Bool.and_true]
  cases h1 : r'.heap.any (fun t => C03.isAddEvent t.tick) <;> cases h2 : r'.mailbox.any C03.isAddEvent <;> simp

/-! ### `UnhandledEvent(idle=True)`: why the empty-buffer clause is claimed for `WorkflowIdleEvent` only

For the `UnhandledEvent(idle=True)` form `C03_idle_runner_sound` leaves "the rest of the batch the unhandled tick
arrived in" in the buffer, and that rest can be pending work: W3 below.  A two-worker step hands `collect_events` an
event of a type it does not accept; the collect re-run therefore runs with that event (C01's guarded clause); the re-run
fails and is retried after 3 s — and so is another invocation of the step, due at the same instant.  The timer puts both
retries into the buffer; the first is not accepted by its own step, so `UnhandledEvent(idle=True)` is published — with the
other due retry still buffered, nothing in the heap, nothing in the mailbox.  A third way, distinct from the two known
findings, in which an idle announcement is made while a retry waits; it replays on the real engine (reported; spec in
`harness/corpus/c03_unhandled_idle_batch.json`). -/

def C03.w3Cfg' : Cfg := { steps := [{ name := 0, accepted := [0], numWorkers := 2, hasRetry := true }] }
def C03.plain0 (u : Nat) : Ev := { ty := 0, kind := .plain, uid := u }
def C03.foreign (u : Nat) : Ev := { ty := 9, kind := .plain, uid := u }
def C03.w3Acts' : List Act :=
  [.drain,
   .external (.addEvent { ev := C03.plain0 2 } none), .pull, .drain,
   .workerDone 0 0 [.addCollected 1 (C03.foreign 7)], .drain,
   .workerDone 0 1 [.addCollected 1 (C03.foreign 8)], .drain,
   .workerDone 0 1 [.failed 7 0], .drain, .drain,
   .external (.addEvent { ev := C03.plain0 3 } none), .pull, .drain,
   .workerDone 0 0 [.failed 7 0], .drain, .drain,
   .advance 3, .timer]

/-- W3: `UnhandledEvent(idle=True)` announced with a due retry in the tick buffer (heap and mailbox empty, no task alive) -/
theorem C03_refuted_unhandled_batch :
    let r := C03.runFrom C03.w3Cfg' (fun _ _ _ _ => .retry 3) initState 0 (some C03.startEv) none C03.w3Acts'
    let r' := r.step C03.w3Cfg' (fun _ _ _ _ => .retry 3) .drain
    r'.stream = r.stream ++ [.unhandled 9 (some 0) true] ∧ r'.heap = [] ∧ r'.mailbox = [] ∧ r'.running = [] ∧
      r'.buf.any C03.isAddEvent = true ∧ C03.TrulyIdle r' = false := by decide

/-- **Truly idle is quiescent**: after a `WorkflowIdleEvent` announcement with an empty timer heap
and an empty mailbox, whatever the loop tries on its own (drain, pull, timer, a worker finishing,
time passing — everything but an external `send_event`) changes nothing but the clock: only new
external input can make anything happen. -/
theorem C03_truly_idle_is_quiescent (cfg : Cfg) (hwf : cfg.WF) (pol : Policy) (st0 : State)
    (now : Int) (start : Option Ev) (timeout : Option Nat) (acts : List Act)
    (a : Act) (ha : ∀ p, a = .stepWrite p → p.isIdleAnn = false) (new : List Pub)
    (hnew : ((C03.runFrom cfg pol st0 now start timeout acts).step cfg pol a).stream
      = (C03.runFrom cfg pol st0 now start timeout acts).stream ++ new)
    (hidle : Pub.idle ∈ new) (more : List Act) (hint : ∀ b ∈ more, b.isInternal = true) :
    let r' := (C03.runFrom cfg pol st0 now start timeout acts).step cfg pol a
    r'.heap = [] → r'.mailbox = [] → r'.sameButClock (Runner.run cfg pol r' more) := by
  intro r' hh hm
  have hany : new.any Pub.isIdleAnn = true := List.any_eq_true.mpr ⟨_, hidle, rfl⟩
  obtain ⟨_, _, _, hrun, _, _, hb⟩ :=
    C03_idle_runner_sound cfg hwf pol st0 now start timeout acts a ha new hnew hany
  exact run_quiescent cfg pol more r' hint (hb hidle).1 hrun hh hm

/-! Non-vacuity of the runner-level theorems -/

/-- a two-worker step with three events delivered: two invocations live, one queued, the loop waiting -/
def C03.w3Cfg : Cfg := { steps := [{ name := 1, accepted := [5], numWorkers := 2, hasRetry := false }] }
def C03.w3Acts : List Act :=
  [.external (.addEvent { ev := { C03.xEv with uid := 1 } } none), .pull, .drain,
   .external (.addEvent { ev := { C03.xEv with uid := 2 } } none), .pull, .drain,
   .external (.addEvent { ev := { C03.xEv with uid := 3 } } none), .pull, .drain]

example : C03.w3Cfg.WF := by simp [Cfg.WF, Cfg.names, C03.w3Cfg]
example :
    let r := C03.runFrom C03.w3Cfg (fun _ _ _ _ => .stop) initState 0 none none C03.w3Acts
    (r.outcome.isNone, r.buf.length, ((r.st.workers 1).queue.length, (r.st.workers 1).inProg.length),
      (r.running.filter (fun w => w.step == 1)).length) = (true, 0, (1, 2), 2) := by decide

/-- a resumed state: three in-progress rows (more than the step now has workers) and one queued event -/
def C03.resumedState : State :=
  { isRunning := true,
    workers := fun s => if s = 1 then
      { queue := [{ ev := { C03.xEv with uid := 9 } }],
        inProg := [{ ev := { C03.xEv with uid := 1 }, wid := 0, snapEvents := [], snapWaiters := [], attempts := 0, firstAt := 0 },
                   { ev := { C03.xEv with uid := 2 }, wid := 1, snapEvents := [], snapWaiters := [], attempts := 1, firstAt := 0 },
                   { ev := { C03.xEv with uid := 3 }, wid := 2, snapEvents := [], snapWaiters := [], attempts := 0, firstAt := 0 }] }
      else {} }

example :
    let ss := (rewind C03.w3Cfg C03.resumedState 5).1.workers 1
    (ss.inProg.map (·.ev.uid), ss.queue.map (·.ev.uid)) = ([3, 2], [1, 9]) := by decide

example :
    let r := C03.runFrom C03.w3Cfg (fun _ _ _ _ => .stop) C03.resumedState 5 none none []
    (r.outcome.isNone, (r.st.workers 1).queue.length, r.running.map (fun w => (w.wid, w.ev.uid))) =
      (true, 2, [(0, 3), (1, 2)]) := by decide

/-- the idle check is buffered behind the tick that made the state quiet, and the flag is up -/
example :
    let r := C03.runFrom C03.w2Cfg (fun _ _ _ _ => .stop) initState 0 (some C03.startEv) none
      [.drain, .workerDone 0 0 [.result none], .drain]
    (r.buf, r.idlePending) = ([Tick.idleCheck], true) := by decide

/-- a truthful announcement: the step returns `None`, the idle check is reduced, `WorkflowIdleEvent`
is published with nothing left anywhere — the hypotheses of `C03_idle_runner_sound`,
`C03_idle_exceptions_exact` and `C03_truly_idle_is_quiescent` hold on this run -/
example :
    let r := C03.runFrom C03.w2Cfg (fun _ _ _ _ => .stop) initState 0 (some C03.startEv) none
      [.drain, .workerDone 0 0 [.result none], .drain]
    let r' := r.step C03.w2Cfg (fun _ _ _ _ => .stop) .drain
    r'.stream = r.stream ++ [.idle] ∧ C03.TrulyIdle r' = true ∧ r'.heap = [] ∧ r'.mailbox = [] ∧
      r'.running = [] ∧ r'.buf = [] := by decide

/-! # The anchored source, as found on this run

`harness/gen/idle_shape.py` re-reads `_check_idle_state`, the loops that refill free worker slots, the
deferred idle check and the server's idle marker from the current sources into `WfModel/GenIdleShape.lean`:
conditions are *translated* into Lean functions, statement skeletons are emitted as text.  The theorems
below say that the model the C03 theorems are about IS that code; an edit of any of these places
(another field in the quiescence test, another refill condition or guard, an idle check scheduled or
reset elsewhere, another event treated as "idle" by the server) stops them from checking. -/

theorem C03.all_and_eq (l : List Nat) (q p : Nat → Bool) :
    l.all (fun s => q s && p s) = !(l.any fun s => (!q s || !p s)) := by
  induction l with
  | nil => rfl
  | cons x xs ih => simp only [List.all_cons, List.any_cons, ih]; cases q x <;> cases p x <;> simp

/-- the model's quiescence test is `_check_idle_state` as written: not running ⇒ not idle; otherwise
idle iff no step is busy, where "busy" is the translated per-step test of the source -/
theorem C03_check_idle_is_source (cfg : Cfg) (st : State) :
    checkIdle cfg st = (st.isRunning && !(cfg.names.any fun s =>
      GenIdleShape.stepBusy (!(st.workers s).queue.isEmpty) (!(st.workers s).inProg.isEmpty)
        (!(st.workers s).waiters.isEmpty) (!(st.workers s).collected.isEmpty))) := by
  unfold checkIdle
  congr 1
  simp only [stepQuiet, GenIdleShape.stepBusy]
  exact C03.all_and_eq _ _ _

/-- the model's refill loop (`drain`, used by the rewind and after every step result) stops and
continues exactly under the source's loop conditions, the two loops have the same condition, the
step-result loop is skipped exactly when the tick ends the run, and an event starts at once exactly
under the source's `has_space` -/
theorem C03_refill_guard_is_source :
    (∀ (step nw : Nat) (now : Int) (fuel : Nat) (ss : StepState),
      GenIdleShape.rewindDrainContinues ss.queue.length ss.inProg.length nw = false →
        drain step nw now fuel ss = (ss, [])) ∧
    (∀ (step nw : Nat) (now : Int) (fuel : Nat) (ss : StepState),
      GenIdleShape.resultDrainContinues ss.queue.length ss.inProg.length nw = true →
        ∃ a q, ss.queue = a :: q ∧ drain step nw now (fuel + 1) ss =
          ((drain step nw now fuel (addOrEnqueue a step { ss with queue := q } nw now).1).1,
            (addOrEnqueue a step { ss with queue := q } nw now).2 ++
              (drain step nw now fuel (addOrEnqueue a step { ss with queue := q } nw now).1).2)) ∧
    (∀ a b c, GenIdleShape.rewindDrainContinues a b c = GenIdleShape.resultDrainContinues a b c) ∧
    (∀ ic dc sn, GenIdleShape.resultDrainGuard ic dc sn = !ic) ∧
    GenIdleShape.isCompletedExpr = "len([x for x in commands if indicates_exit(x)]) > 0" ∧
    (∀ (att : Attempt) (step : Nat) (ss : StepState) (nw : Nat) (now : Int),
      (GenIdleShape.hasSpace ss.queue.length ss.inProg.length nw = false →
        addOrEnqueue att step ss nw now =
          ({ ss with queue := ss.queue ++ [att] }, [.publish (.stepState .preparing step att.ev.ty .unset none)])) ∧
      (GenIdleShape.hasSpace ss.queue.length ss.inProg.length nw = true →
        (addOrEnqueue att step ss nw now).1.queue = ss.queue)) := by
  refine ⟨?_, ?_, fun _ _ _ => rfl, fun _ _ _ => rfl, rfl, ?_⟩
  · intro step nw now fuel ss h
    cases fuel with
    | zero => rfl
    | succ f =>
      unfold drain
      split
      · rfl
      · rename_i a q hq
        simp only [GenIdleShape.rewindDrainContinues, hq, List.length_cons, Bool.and_eq_false_iff,
          decide_eq_false_iff_not] at h
        split
        · rename_i hlt; omega
        · rfl
  · intro step nw now fuel ss h
    simp only [GenIdleShape.resultDrainContinues, Bool.and_eq_true, decide_eq_true_eq] at h
    cases hq : ss.queue with
    | nil => rw [hq] at h; simp at h
    | cons a q =>
      refine ⟨a, q, rfl, ?_⟩
      rw [drain]
      simp only [hq, h.2, ↓reduceIte]
  · intro att step ss nw now
    simp only [GenIdleShape.hasSpace, decide_eq_false_iff_not, decide_eq_true_eq]
    constructor
    · intro h; unfold addOrEnqueue; rw [if_neg h]
    · intro h; unfold addOrEnqueue; rw [if_pos h]; split <;> rfl

/-- the skeletons of the anchored code, and the model clauses that transcribe them -/
theorem C03_source_shape :
    -- `_check_idle_state`
    GenIdleShape.checkIdleSkeleton = ["if not v0.is_running", "return False", "endif",
      "for v1 in v0.workers.values()", "if v1.queue or v1.in_progress", "return False", "endif", "endfor",
      "return True"] ∧
    -- `_reduce_tick`: the `TickIdleCheck` branch, the idle check scheduled after every other tick
    GenIdleShape.idleCheckBranch = ["if _check_idle_state(v0)",
      "return (v0, [CommandPublishEvent(WorkflowIdleEvent())])", "endif", "return (v0, [])"] ∧
    (∀ cfg pol st now, reduce cfg pol .idleCheck st now =
      if checkIdle cfg st then (st, [.publish .idle]) else (st, [])) ∧
    GenIdleShape.reduceTail = ["if _check_idle_state(v0)", "v1.append(CommandScheduleIdleCheck())", "endif",
      "return (v0, v1)"] ∧
    GenIdleShape.idleEventBuiltIn = ["_reduce_tick"] ∧
    GenIdleShape.unhandledIdleArgs = ["_check_idle_state(state)"] ∧
    -- `process_command`: at most one idle check buffered
    GenIdleShape.scheduleIdleCheckBranch = ["if not self._idle_check_pending",
      "self.tick_buffer.append(TickIdleCheck())", "self._idle_check_pending = True", "endif", "return None"] ∧
    (∀ r : Runner, execCmd r .scheduleIdleCheck =
      if r.idlePending then r else { r with buf := r.buf ++ [.idleCheck], idlePending := true }) ∧
    -- `run()`: FIFO drain; the flag goes down when the idle check is taken off the buffer
    GenIdleShape.drainLoop = ["while self.tick_buffer", "v0 = self.tick_buffer.pop(0)",
      "if isinstance(v0, TickIdleCheck)", "self._idle_check_pending = False", "endif",
      "v1 = await self._process_tick(v0)", "if v1 is not None", "return v1", "endif", "endwhile"] ∧
    -- `rewind_in_progress`
    GenIdleShape.rewindFacts = ["iter:sorted-by-name", "requeue:.queue.insert@0 for .in_progress",
      "carried:attempts,event,first_attempt_at,last_exception,last_failed_at,recovery_counts",
      "assign:.in_progress=[]", "while:pop@0->_add_or_enqueue_event"] ∧
    (∀ c ss now, rewindStep c ss now = drain c.name c.numWorkers now
      ((ss.inProg.map inProgToAttempt).reverse ++ ss.queue).length
      { ss with queue := (ss.inProg.map inProgToAttempt).reverse ++ ss.queue, inProg := [] }) ∧
    -- the server side (idle_release_runtime.py): only `WorkflowIdleEvent` marks the run idle
    -- (`UnhandledEvent(idle=True)` does not); the mark is written before the event is forwarded and the
    -- release timer is armed after; a release needs idle_since set, `idle_timeout` elapsed since it and the
    -- run still active; a send to an active run withdraws the mark
    GenIdleShape.idleMarkClasses = ["WorkflowIdleEvent"] ∧
    GenLifecycleShape.shape_ir_write = ["if(;WorkflowIdleEvent)", "call(datetime.now)",
      "await(self._store.update_handler_status;status='running',idle_since=*)", "endif", "call(super)",
      "await(super().write_to_event_stream)", "if(;WorkflowIdleEvent)", "call(self._runtime._deferred_release)",
      "call(self._runtime._spawn_task)", "endif"] ∧
    GenLifecycleShape.shape_ir_deferred = ["await(asyncio.sleep)", "await(self._release_idle_handler)"] ∧
    GenLifecycleShape.shape_ir_release = ["with(self._reload_lock)", "await(self._store.query)",
      "if(Is,NotEq,Or;idle_since,None)", "return", "endif", "call(?.total_seconds)", "call(datetime.now)",
      "if(Lt;_idle_timeout)", "return", "endif", "if(NotIn;_active_run_ids)", "return", "endif",
      "call(self._abort_inner_run)", "call(self._active_run_ids.discard)", "endwith"] ∧
    (∀ a b, GenLifecycle.elapsedTooShort a b = decide (a < b)) ∧
    GenLifecycleShape.shape_ir_send = ["with(self._runtime._reload_lock)",
      "if(NotIn;_active_run_ids,_runtime,run_id)", "await(self._runtime._ensure_active_run_locked)", "else",
      "await(self._runtime._store.update_handler_status;idle_since=None)", "endif",
      "await(self._decorated.send_event)", "endwith"] := by
  refine ⟨by decide, by decide, fun _ _ _ _ => rfl, by decide, by decide, by decide, by decide,
    fun _ => rfl, by decide, by decide, fun _ _ _ => rfl, by decide, by decide, by decide, by decide,
    fun _ _ => rfl, by decide⟩

/-- non-vacuity: the translated busy test separates a busy step from a quiet one, the refill
condition a full step from one with a free slot -/
example : GenIdleShape.stepBusy true false false false = true ∧ GenIdleShape.stepBusy false false true true = false ∧
    GenIdleShape.rewindDrainContinues 2 1 2 = true ∧ GenIdleShape.rewindDrainContinues 2 2 2 = false ∧
    GenIdleShape.hasSpace 0 1 2 = true := by decide

/-! # The server side of the property, on model M7

`WfModel/Lifecycle.lean` (A) is the `IdleReleaseDecorator` with every await-free section as an action; C26 / C36
tie it action by action to the real in-process stack.  The three theorems below are what C03 needs from it:
what the server *treats as idle* and *when it releases* on the strength of it.  They are single-step facts, for
every state (reachable or not) and every action. -/

theorem C03.release_idleSince (s : Lifecycle.S) (t : Nat) : (Lifecycle.release s t).idleSince = s.idleSince := by
  unfold Lifecycle.release; simp only; split <;> rfl

/-- **What the server treats as idle**: the handler's `idle_since` changes only in two ways — it is set, to the
current time, by the engine's idle announcement (`write_to_event_stream(WorkflowIdleEvent)`), which the engine
makes only when the reducer sees no work (`C03_idle_reducer_sound`); or it is cleared by a `send_event` (to the
run in memory, or after a reload).  Nothing else marks a run idle. -/
theorem C03_server_idle_mark_origin (s s' : Lifecycle.S) (a : Lifecycle.Act) (h : Lifecycle.step s a = some s')
    (hne : s'.idleSince ≠ s.idleSince) :
    (a = .eMark ∧ s.work = false ∧ s'.idleSince = some s.now) ∨
      (s'.idleSince = none ∧ ∃ i, a = .sClear i ∨ a = .sRClear i) := by
  cases a <;> simp only [Lifecycle.step] at h
  all_goals
    (repeat' split at h) <;> first
      | (cases h; done)
      | (simp only [Option.some.injEq] at h; subst h; first
          | exact (hne rfl).elim
          | exact (hne (C03.release_idleSince _ _)).elim
          | (left; refine ⟨rfl, ?_, rfl⟩; simp_all)
          | (right; exact ⟨rfl, _, Or.inl rfl⟩)
          | (right; exact ⟨rfl, _, Or.inr rfl⟩))

/-- **When it releases**: the run leaves the active set (and its control loop is aborted) only in the decision
step of a `_deferred_release` task that read, under the reload lock, an idle mark `t0` that is at least
`idle_timeout` old (`GenLifecycle.elapsedTooShort`, the comparison as written in the source). -/
theorem C03_server_release_needs_mark (s s' : Lifecycle.S) (a : Lifecycle.Act) (h : Lifecycle.step s a = some s')
    (hrel : s.active = true ∧ s'.active = false) :
    ∃ j t0, a = .tDecide j ∧ s.lock = some (.tDecide j (some t0)) ∧ s.tau ≤ s.now - t0 := by
  cases a <;> simp only [Lifecycle.step] at h
  all_goals
    (repeat' split at h) <;> first
      | (cases h; done)
      | (simp only [Option.some.injEq] at h; subst h; first
          | (exfalso; simp_all; done)
          | skip)
  rename_i j _ j' hj _ t0 heq hel _
  refine ⟨j, t0, rfl, by rw [heq, hj], ?_⟩
  simpa [GenLifecycle.elapsedTooShort] using hel

/-- … and the mark a release task decides on is the one in the store when it queried it (under the lock). -/
theorem C03_server_release_reads_mark (s s' : Lifecycle.S) (j : Nat) (h : Lifecycle.step s (.tQuery j) = some s') :
    s'.lock = some (.tDecide j s.idleSince) := by
  simp only [Lifecycle.step] at h
  split at h
  · simp only [Option.some.injEq] at h; subst h; rfl
  · cases h

/-- non-vacuity: an idle announcement marks the run, the timer decides on that mark after `tau`, the run is released -/
example :
    let s := Lifecycle.run (Lifecycle.init 5) [.eDone, .eMark, .eSpawn 0, .advance 5, .tAcq 0, .tQuery 0]
    (s.idleSince, s.active, (Lifecycle.stepD s (.tDecide 0)).active) = (some 0, true, false) := by decide
