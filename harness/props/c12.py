"""C12 — pausing to a serialized context and resuming gives the same result."""
from __future__ import annotations

import copy
import random

from ..engine import c12x, live, monitors, specgen, suite
from ..runner import Env, Outcome, Violation

THEOREMS = ["C12_roundtrip_stable", "C12_resumed_step", "C12_resumed_slots_ok", "C12_queued_keep_retry_state", "C12_waiting_keep_retry_state",
            "C12_refuted_inprogress_budget", "C12_inprogress_budget_partial", "C12_refuted_scheduled_retry",
            "C12_resumed_run_restarts_pending", "C12_resumed_run_retry_records", "C12_parked_resume_same_future",
            "C12_pause_while_waiting_same_future",
            "C12_roundtrip_iterate", "C12_payload_stable", "C12_todict_read_back", "C12_v0_resumed_step",
            "C12_foreign_version_reads_nothing", "C12_source_shape"]
EXPLANATION = (
    "Lean (model Serial = to_serialized -> JSON -> from_serialized): the serialised form is stable after one round trip for every "
    "state; the resumed queue is the queued invocations followed by the in-progress ones, nothing is in progress (worker-limit "
    "invariant holds), buffers and waiters are kept; queued invocations keep attempts, first-attempt time, last exception and "
    "recovery counts; for in-progress invocations the 'existing retry count and recovery budget' clause is refuted (F11, known "
    "finding) and proved for invocations that had not failed yet; work that exists only as a timer (retry waiting out its delay) "
    "is provably absent from the serialised context (known finding). Tie: serde ops (real to_serialized -> model_dump_json -> "
    "from_serialized twice on generated states incl. retry info, recovery counts, waiters, buffers), reducer correspondence. "
    "Search: deterministic workflows (result and store independent of the schedule) are run uninterrupted and, separately, "
    "paused by ctx.to_dict -> JSON at a scheduler-chosen point (queued, running, collecting, retrying), resumed with "
    "Context.from_dict and run to the end: result, state-store contents, completion, and the retry number seen by re-executed "
    "invocations are compared. "
    "Second half. Lean: for every state, clock and timeout the runner resumed from the serialised context has, per step, started the first "
    "min(num_workers, #pending) of queued ++ in-progress with a worker each and kept the rest queued in order, and the retry records / recovery "
    "counts they are started with are the queued invocations' own followed by fresh ones for the formerly running ones (run-level form of the "
    "budget clause); for every run, every schedule before and after: a run serialised while it only waits for input (nothing buffered, queued, "
    "running or timed) resumes into the same state, outcome, workers, timers and publishes the same from the pause on (every control-loop action "
    "commutes with prefixing history; no name outside the workflow's steps ever gets state); any number of round trips equals one; every payload "
    "from_dict_auto accepts (defaults, legacy requirements, V0 format, any version marker) loads into a fixed point of the round trip; to_dict "
    "output is read back as the current format; V0 payloads and foreign version markers characterised; the written/read fields, defaults, version "
    "markers and statements of to_serialized / from_serialized / from_dict_auto / from_v0 / PreContext / from_dict / to_dict are regenerated "
    "from the sources (GenSerialShape) and pinned next to the model equations. Tie: driver serialctx -- raw payloads not written by to_serialized "
    "through JSON, the real PreContext and from_serialized, then one more real round trip; generated states through the to_dict path, then the real "
    "rewind_in_progress against the closed form of the run-level theorems. Search: payload stability and no lost invocation on the implementation "
    "alone; counts, records and free slots of the resumed run; a human-in-the-loop workflow snapshotted while the run goes on: outcome, result, "
    "store and, for snapshots taken while waiting with nothing in flight, the exact sequence published from the pause on."
)
ASSUMPTIONS = suite.ENGINE_ASSUMPTIONS + [
    "'deterministic workflow' = the generated family whose result and store contents do not depend on the schedule (checked on every run by comparing two uninterrupted schedules) and whose store writes are idempotent per input event, since in-progress invocations are re-executed by design",
    "event payload / exception round trips are property C18; the state store's own serialisation is C19",
]


def _buffers(state) -> dict:
    """{(step, buffer id): [(type id, uid), ...]} of the non-empty collect_events buffers of a broker state"""
    from ..engine import evtypes as ET
    res = {}
    for nm, ws in state.workers.items():
        for b, evs in ws.collected_events.items():
            if evs:
                res[(nm, b)] = [(ET.TY_ID.get(type(e), -1), getattr(e, "uid", None)) for e in evs]
    return res


def _pause_resume(env: Env, out: Outcome, n: int, corpus: list[dict] | None, n_join: int = 0) -> None:
    """corpus is not None: the replayed case and the corpus cases only (first thing of the run; draws nothing from env.rng);
    corpus is None: the generated families"""
    seed0 = env.rng.randrange(1 << 30) if corpus is None else 0
    rng = random.Random(seed0)
    jobs = []
    if corpus is not None and env.replay is not None and isinstance(env.replay.get("payload", {}).get("case"), dict) and "pause" in env.replay["payload"]["case"]:
        c = env.replay["payload"]["case"]["pause"]
        jobs.append((c["spec"], c["seed"], c.get("actions1"), c.get("actions2")))
    for item in corpus or []:
        if "pause" in item:
            c = item["pause"]
            jobs.append((c["spec"], c["seed"], c.get("actions1"), c.get("actions2")))
    for _ in range(n):
        spec = specgen.gen_det_spec(rng, delays=rng.random() < 0.25)
        jobs.append((spec, rng.randrange(1 << 30), None, None))
    # join steps that collect events they built themselves (types the collecting step does not accept, a subclass of an accepted
    # type, a mix): own generator stream, so the family above is what it was
    rng_j = random.Random(seed0 ^ 0x0C12)
    for _ in range(n_join):
        spec = specgen.gen_det_join_spec(rng_j, delays=rng_j.random() < 0.2)
        jobs.append((spec, rng_j.randrange(1 << 30), None, None, rng_j.randint(0, 9)))
    resumed: list = []
    for spec, seed, a1, a2, *more in jobs:
        # the uninterrupted run: the same workflow without the pause (corpus / replay cases carry their snapshot_stop in the spec)
        base_spec = copy.deepcopy(spec)
        base_spec["externals"] = [e for e in spec.get("externals", []) if e.get("op") != "snapshot_stop"]
        base = live.run_spec(base_spec, seed=seed + 17)
        out.evaluations += 1
        if base.outcome[0] != "result":
            out.count("pause:baseline:" + base.outcome[0])
            continue
        want = (repr(getattr(base.outcome[1], "result", base.outcome[1])), base.final_store)  # type: ignore[attr-defined]
        spec1 = copy.deepcopy(spec)
        if a1 is None:
            spec1["externals"] = [{"op": "snapshot_stop", "after_quiet": more[0] if more else rng.randint(0, 7)}]
        else:
            spec1["externals"] = [e for e in spec.get("externals", [])] or [{"op": "snapshot_stop", "after_quiet": 0}]
        tr1 = live.run_spec(spec1, seed=seed, replay_actions=a1)
        snaps = [s for s in tr1.snapshots if s.get("stopped")]
        if not snaps:
            out.count("pause:finished_before_snapshot")
            if tr1.outcome[0] == "result":
                got = (repr(getattr(tr1.outcome[1], "result", tr1.outcome[1])), tr1.final_store)  # type: ignore[attr-defined]
                if got != want:
                    out.violations.append(Violation("C12/not_deterministic", f"two uninterrupted schedules differ: {want} vs {got}", {"spec": spec}))
            continue
        snap = snaps[0]
        rc = [c for c in tr1.calls[: snap["at_call"]] if c.after is not None]
        live_state = rc[-1].after if rc else None
        inprog = []
        if live_state is not None:
            for nm, ws in live_state.workers.items():
                inprog += [(nm, getattr(ip.event, "uid", None), ip.attempts, dict(ip.recovery_counts)) for ip in ws.in_progress]
        pending_timers = [h for h in snap.get("heap", []) if h[0] == "TickAddEvent"]
        in_flight = [b for b in snap.get("buffer", []) + snap.get("mailbox", [])]
        spec2 = copy.deepcopy(spec)
        spec2["externals"] = []
        spec2["_resumed"] = True
        tr2 = live.run_spec(spec2, seed=seed + 1, replay_actions=a2, resume_from=snap["dict"])
        resumed.append(tr2)
        case = {"pause": {"spec": spec1, "seed": seed, "actions1": tr1.actions, "actions2": tr2.actions}}
        out.count("pause:resumed")
        # collecting snapshot points: what the steps had buffered through ctx.collect_events when the context was serialised
        # (the live broker state behind the snapshot) is what the context restored from the JSON holds -- whatever the event types
        live_buf = _buffers(live_state) if live_state is not None else {}
        accepts = {sd["name"]: set(sd["accepts"]) for sd in spec["steps"]}
        foreign = sorted({t for (nm, _b), evs in live_buf.items() for t, _u in evs if t not in accepts.get(nm, set())})
        out.count("pause:buffered:" + ("none" if not live_buf else "foreign_types" if foreign else "own_types"))
        first2 = next((c for c in tr2.calls if c.before is not None), None)
        if live_state is not None and first2 is not None:
            got_buf = _buffers(first2.before)
            if got_buf != live_buf:
                lost = {f"{nm}/{b}": [e for e in evs if e not in got_buf.get((nm, b), [])] for (nm, b), evs in live_buf.items()}
                lost = {kk: v for kk, v in lost.items() if v}
                extra = {f"{nm}/{b}": [e for e in evs if e not in live_buf.get((nm, b), [])] for (nm, b), evs in got_buf.items()}
                extra = {kk: v for kk, v in extra.items() if v}
                kind = "lost" if lost and not extra else "added" if extra and not lost else "changed"
                out.violations.append(Violation(
                    f"C12/collect_buffer_{kind}_on_resume:" + ("foreign_event_types" if foreign else "accepted_event_types"),
                    f"collect_events buffers (step/buffer: [(type id, uid)]) when the context was serialised: "
                    f"{ {f'{a}/{b}': v for (a, b), v in live_buf.items()} }; in the context restored from it: "
                    f"{ {f'{a}/{b}': v for (a, b), v in got_buf.items()} }; lost {lost}, not there before {extra}; "
                    f"types accepted by the collecting step(s): { {nm: sorted(accepts.get(nm, [])) for (nm, _b) in live_buf} }", case))
        out.count(f"pause:inprog:{min(len(inprog), 3)}")
        out.count("pause:timers" if pending_timers else "pause:no_timers")
        out.count("pause:resumed_outcome:" + tr2.outcome[0])
        out.nontrivial((repr(spec1), tuple(tr1.actions)))
        if len(out.samples) < 3:
            out.sample({"spec": spec1, "snapshot_at_tick": snap["at_call"], "in_progress": inprog, "result": want[0], "resumed": tr2.outcome[0]})
        tag = ""
        if pending_timers:
            tag = "C12/pending_retry_timer_lost"
        elif in_flight:
            tag = "C12/undelivered_tick_lost"
        if tr2.outcome[0] != "result":
            out.violations.append(Violation(tag or "C12/resumed_run_does_not_finish",
                                            f"uninterrupted run returns {want[0]}; resumed run ended as {tr2.outcome[0]} ({tr2.outcome[1]!r}); timers at snapshot {pending_timers}, undelivered {in_flight}", case))
        else:
            got = (repr(getattr(tr2.outcome[1], "result", tr2.outcome[1])), tr2.final_store)  # type: ignore[attr-defined]
            if got[0] != want[0]:
                out.violations.append(Violation(tag or "C12/result_differs", f"uninterrupted {want[0]}, resumed {got[0]}", case))
            elif got[1] != want[1]:
                out.violations.append(Violation(tag or "C12/store_differs", f"uninterrupted store {want[1]}, resumed {got[1]}", case))
        # re-executed invocations see their existing retry count
        for nm, uid, attempts, rcnt in inprog:
            first = next((r for r in tr2.steps if r[0] == "enter" and r[1] == nm and r[2] == uid), None)
            if first is not None and first[3] != attempts:
                out.violations.append(Violation("C12/inprogress_retry_count_reset" if first[3] == 0 else "C12/inprogress_retry_count_wrong",
                                                f"invocation ({nm}, {uid}) was in progress on attempt {attempts}; after resume it runs as attempt {first[3]}", case))
        # queued invocations keep theirs
        if live_state is not None:
            for nm, ws in live_state.workers.items():
                for a in ws.queue:
                    uid = getattr(a.event, "uid", None)
                    first = next((r for r in tr2.steps if r[0] == "enter" and r[1] == nm and r[2] == uid), None)
                    if first is not None and first[3] != (a.attempts or 0):
                        out.violations.append(Violation("C12/queued_retry_count_changed", f"queued invocation ({nm}, {uid}) had attempts {a.attempts}; resumed as attempt {first[3]}", case))

    # the resumed runs against the runner LTS (rinit without a start event)
    suite.runner_corr(out, resumed, "engine-runner-resumed")


def run(env: Env) -> Outcome:
    out = Outcome()
    out.rule = ("serde: generated broker states, two round trips; pause: deterministic fan-out/collect workflows with retries (25% with retry delays), "
                "snapshot_stop at a random quiet point, resume from JSON; plus fan-out/join workflows whose join step collects events it derived from its input "
                "(types it does not accept / a subclass / mixed; default or named buffer); non-trivial = the run was actually paused; distinct by (spec, schedule); "
                "payload: raw current-format / V0 dicts (omitted fields, legacy requirements, unknown steps, waiting ids, version markers 1/0/2/none, ~5% malformed), "
                "non-trivial = something pending, buffered or waiting was loaded; todict: generated states (40% with a backlog) through to_dict -> JSON -> from_dict -> rewind; "
                "parked: sequential ask/reply workflows, snapshot at the first quiet point(s), non-trivial = snapshot while waiting with nothing in flight")
    corpus = suite.load_corpus("C12")
    _pause_resume(env, out, 0, corpus)  # the replayed case and the hand-picked ones first
    suite.serde_corr(env, out, env.budget(1500, 30000), stability_sig="C12/roundtrip_not_stable")
    suite.direct_corr(env, out, env.budget(800, 16000))
    _pause_resume(env, out, env.budget(160, 3200), None, env.budget(60, 1200))
    # runs snapshotted while invocations are suspended in wait_for_event (several waiters of one step, requirements that do not
    # survive serialisation): every such invocation is re-registered on resume (shared with C10's resume family)
    from .c10 import _resume_runs as _wait_resume

    before = len(out.violations)
    _wait_resume(env, out, env.budget(40, 800), [])
    kept = []
    for v in out.violations[before:]:
        # C10's own rules (delivery vs requirement, at-most-once) are judged -- with their known findings -- by the C10 check;
        # here only the re-registration of suspended invocations counts
        if v.signature == "C10/waiter_not_repinged_on_resume":
            v.signature = "C12/suspended_invocation_not_reregistered"
            kept.append(v)
    del out.violations[before:]
    out.violations.extend(kept)
    # second half (after everything above, so that the streams above are what they were): payloads that to_serialized did not
    # write, the full to_dict -> JSON -> from_dict path with the resumed run's closed form, pause points with nothing in flight
    c12x.payload_stream(env, out, env.budget(400, 8000))
    c12x.todict_stream(env, out, env.budget(200, 5000))
    parked = c12x.parked_runs(env, out, env.budget(24, 500), corpus)
    suite.runner_corr(out, parked, "engine-runner-resumed-parked")
    return out
