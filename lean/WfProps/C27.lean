import WfModel.GenJournal
import WfModel.GenJournalTable
import WfProofs.JournalWait
import WfProofs.JournalWitness
import WfProofs.JournalReplaying
import WfProofs.JournalHistory
import WfProofs.JournalCrashes
import WfProofs.JournalCrashesSim
import WfProofs.JournalPurgeOnce
/-!
# C27 — DBOS recovery replays a run to the same execution   (PARTIAL: DBOS itself is trusted)

Model: `WfModel/Journal.lean`.  A fresh process is a transition system over `World` (control
configuration of a *deterministic* loop `L` + durable journal / memo / mailbox); recovery is the
function `Loop.recover` (replay of the journal from the initial configuration, then the orphan
purge).  Hypotheses, each explicit:

* determinism of the control loop — `L.step` is a function (tied: engine correspondence, C11);
* memoisation — the value of a task is looked up in the durable memo by function id (TRUSTED: DBOS);
* write order — `record` precedes `actOn` (tied: `C27_source_shape`, AST extraction);
* `KeysDistinct L` — in-flight tasks have pairwise distinct journal keys (tied: monitor);
* `noTimeout w.hist` — guard of the replay theorem: no scheduled wakeup was acted upon
  (false in general: `C27_refuted_timer`);
* `PurgeSafe L w`   — guard of the continuation theorem (false in general: `C27_refuted_purge`).
-/
open Journal

set_option maxRecDepth 8000 in
/-- The shapes of the real code the model is cut along, re-extracted on every run:
call-site order of `wait_for_next_task`, the write-ordering fact (`await journal.record(key)` is the
statement directly before the final `return WaitForNextTaskResult(completed, started)`), the order
inside `TaskJournal.record`, the SQL, the key formats. -/
theorem C27_source_shape :
    GenJournal.waitSites =
      ["get_journal", "load", "next_expected_key", "purge", "start_pending", "yield", "return(None,started)",
       "find_by_key", "wait_for_target", "shield", "return(None,started)", "advance",
       "return(target_task,started)", "wait_first_completed", "return(None,started)", "pop_done", "get_key",
       "record", "return(completed,started)"] ∧
    GenJournal.recordAwaitedBeforeFinalReturn = true ∧ GenJournal.advanceBetweenWaitAndReturn = true ∧
    GenJournal.replayTimeoutReturnsNone = true ∧ GenJournal.startYields = true ∧
    GenJournal.purgeGuard = "expected_key is None and (not self._orphan_purge_done)" ∧
    GenJournal.purgeSkipsEmptyJournal = true ∧ GenJournal.purgeUsesCurrentFid = true ∧ GenJournal.purgeOnce = true ∧
    GenJournal.recordSites = ["seq=len(self._entries)", "append(key)", "indexAdd=1", "insert(self._run_id,seq_num,key)",
      "order:seq-first,insert-last"] ∧
    GenJournal.advanceBody = "self._replay_index += 1" ∧
    GenJournal.nextExpectedBody =
      "if self._entries is None or self._replay_index >= len(self._entries): return None ; return self._entries[self._replay_index]" ∧
    GenJournal.purgeStaleBody =
      "if not self.has_entries or self._crud is None or self._entries is None: return ; await self._crud.purge_operations_from(self._run_id, current_fid) ; await self._crud.truncate_from(self._run_id, len(self._entries))" ∧
    GenJournal.workerKey = "{self.step_name}:{self.worker_id}" ∧ GenJournal.pullKey = "{PULL_PREFIX}:{self.sequence}" ∧
    GenJournal.pendingWorkerKey = GenJournal.workerKey ∧ GenJournal.pendingPullKey = GenJournal.pullKey ∧
    GenJournal.pullPrefix = "__pull__" ∧
    GenJournal.sqlite_insert = "INSERT INTO T (run_id, seq_num, task_key) VALUES (?, ?, ?)" ∧
    GenJournal.sqlite_load = "SELECT task_key FROM T WHERE run_id = ? ORDER BY seq_num ASC" ∧
    GenJournal.sqlite_truncate_from = "DELETE FROM T WHERE run_id = ? AND seq_num >= ?" ∧
    GenJournal.sqlite_purge_operations_from = "DELETE FROM OPS WHERE workflow_uuid = ? AND function_id > ?" ∧
    GenJournal.pg_insert = "INSERT INTO T (run_id, seq_num, task_key) VALUES ($1, $2, $3)" ∧
    GenJournal.pg_load = "SELECT task_key FROM T WHERE run_id = $1 ORDER BY seq_num ASC" ∧
    GenJournal.pg_truncate_from = "DELETE FROM T WHERE run_id = $1 AND seq_num >= $2" ∧
    GenJournal.pg_purge_operations_from = "DELETE FROM OPS WHERE workflow_uuid = $1 AND function_id > $2" := by
  decide

section
variable {σ κ ν ο : Type} [DecidableEq κ]

/-! ## the journal is written before the completion is acted upon -/

/-- At **every** point of **every** fresh execution (timeouts included): the durable journal is exactly
the sequence of completions the control loop has acted upon, plus at most one completion that is
recorded and not yet returned.  No acted-upon completion is ever missing from the journal. -/
theorem C27_write_order (L : Loop σ κ ν ο) (w : World σ κ ν ο) (hr : Reach L w) :
    w.jr = actedKeys w.hist ++ (match w.pend with | none => [] | some t => [t.key]) :=
  jr_of_reach L hr

example : ∃ w, Reach Witness.Lp w ∧ w.jr = [0] ∧ w.pend = some Witness.t0 :=
  ⟨Witness.wp2, .step (.step .init (Step.finish _ Witness.t0 5 (by decide) rfl rfl))
    (Step.record Witness.wp1 Witness.t0 5 rfl (by decide) rfl), rfl, rfl⟩

/-! ## replay reproduces the recorded execution -/

/-- **C27, replayed part.**  For every deterministic loop, every fresh execution prefix in which no
scheduled wakeup was acted upon, and every stop point `w` (between any two atomic actions, in
particular between the journal INSERT and the return): replaying the durable journal from the initial
configuration with the durable memo succeeds; the tasks it observes are, in order, exactly the tasks
the crashed process acted upon (followed by the one recorded-but-unacted task, if any) — the recorded
completion order; and it reaches the very configuration (state, in-flight tasks, function-id counter)
and the very output sequence (ticks processed, events published) of the crashed process (after also
acting on the recorded-but-unacted completion). -/
theorem C27_journal_replay (L : Loop σ κ ν ο) (hk : KeysDistinct L) (w : World σ κ ν ο)
    (hr : Reach L w) (hnt : noTimeout w.hist = true) :
    L.replay w.memo L.cfg0 w.jr =
      .ok ((settled L w).c, (settled L w).outs, actedTasks (settled L w).hist) ∧
    (actedTasks (settled L w).hist).map (·.key) = w.jr := by
  have hi := inv_of_reach L hk hr hnt
  have hkeys : ∀ h : List (Option (Journal.Task κ × ν)), (actedTasks h).map (·.key) = actedKeys h := by
    intro h; induction h with
    | nil => rfl
    | cons x xs ih => cases x with
      | none => simpa [actedTasks, actedKeys] using ih
      | some p => obtain ⟨a, b⟩ := p; simp [actedTasks, actedKeys, ih]
  cases hp : w.pend with
  | none =>
    have e : settled L w = w := by simp [settled, hp]
    have hjr := hi.jr; rw [hp] at hjr; simp at hjr
    rw [e, hjr]; exact ⟨hi.rep, hkeys _⟩
  | some t =>
    obtain ⟨hmem, v, hv⟩ := hi.pend t hp
    have e : settled L w = actedWorld L w t v := by simp [settled, hp, hv]
    have hjr := hi.jr; rw [hp] at hjr
    have hf := find_of_mem_nodup w.c.fl t hmem (hk w hr)
    rw [e, hjr]
    simp only [actedWorld, actedTasks_snoc_some]
    refine ⟨replay_snoc L w.memo _ _ _ _ _ _ t v hi.rep hf hv, ?_⟩
    simp [hkeys]

/-- non-vacuity: a process with a non-empty journal, a started pull task and no timeout -/
example : KeysDistinct Witness.Lp ∧ Reach Witness.Lp Witness.wp ∧ noTimeout Witness.wp.hist = true ∧
    Witness.wp.jr = [0] := ⟨Witness.Lp_keys, Witness.wp_reach, by decide, rfl⟩

/-! ## after the replay the recovered process can do whatever the uninterrupted one can -/

/-- **C27, continuation.**  If moreover the orphan purge deletes no recorded receive of an in-flight
pull task, recovery yields a process `wr` that *simulates* the crashed one (`Sim`: same configuration,
journal, mailbox, history, outputs; a sub-memo): every further execution of the uninterrupted process
is matched, action by action, by the recovered process (forgotten step outputs are produced again),
ending in related worlds — same configuration, same outputs, hence the same result. -/
theorem C27_recovered_continues (L : Loop σ κ ν ο) (hk : KeysDistinct L) (w w2 : World σ κ ν ο)
    (hr : Reach L w) (hnt : noTimeout w.hist = true) (hsafe : PurgeSafe L w)
    (hcont : Steps L (settled L w) w2) :
    ∃ wr wr2, L.recover w.jr w.memo w.mbox = .ok wr ∧ Sim (settled L w) wr ∧
      Steps L wr wr2 ∧ Sim w2 wr2 := by
  obtain ⟨wr, hrec, hsim⟩ := recover_sim L hk hr hnt hsafe
  obtain ⟨wr2, hs2, hsim2⟩ := sim_steps L (settled_reach L hr) hsim hcont
  exact ⟨wr, wr2, hrec, hsim, hs2, hsim2⟩

/-- non-vacuity: stopping right after the pull task was started (before any message arrives) is purge-safe -/
example : KeysDistinct Witness.Lp ∧ Reach Witness.Lp Witness.wp4 ∧ noTimeout Witness.wp4.hist = true ∧
    PurgeSafe Witness.Lp Witness.wp4 ∧ Witness.wp4.jr ≠ [] := by
  refine ⟨Witness.Lp_keys, ?_, by decide, ?_, by decide⟩
  · exact .step (.step (.step (.step .init (Step.finish _ Witness.t0 5 (by decide) rfl rfl))
      (Step.record Witness.wp1 Witness.t0 5 rfl (by decide) rfl)) (Step.actOn Witness.wp2 Witness.t0 5 rfl rfl))
      (Step.send Witness.wp3 9)
  · right
    intro t ht _ _
    have : t = Witness.p1 := by
      have h : (settled Witness.Lp Witness.wp4).c.fl = [Witness.p1] := by decide
      rw [h] at ht; simpa using ht
    subst this; rfl

end

/-! ## the table and the two branches of `wait_for_next_task` -/

/-- what `record` INSERTs is what `load` returns, in order (`seq_num = len(entries)`, `ORDER BY seq_num`) -/
theorem C27_record_roundtrip {κ : Type} (j : TJ κ) (db : Db κ) (run : String) (key : κ)
    (hw : WF db run) (hs : Sync j db run) :
    ((j.record db run key).2).load run = db.load run ++ [key] ∧
    WF (j.record db run key).2 run ∧ Sync (j.record db run key).1 (j.record db run key).2 run :=
  record_roundtrip j db run key hw hs

example : WF ({} : Db Nat) "r" ∧ Sync (TJ.load {} ({} : Db Nat) "r") {} "r" := ⟨rfl, rfl⟩

/-- replay branch: the recorded task is returned even if others finished first; nothing is written -/
theorem C27_wait_replay_exact {κ : Type} [DecidableEq κ] (a : Adapter κ) (db : Db κ) (run : String) (fid : Nat)
    (inflight done : List κ) (timedOut : Bool) (choice : Option κ) (k : κ)
    (hk : (a.tj.load db run).nextExpected = some k) (hin : inflight.contains k = true)
    (hdone : done.contains k = true) :
    (waitNext a db run fid inflight done timedOut choice).2.2.out = .replayed k ∧
    (waitNext a db run fid inflight done timedOut choice).2.1.rows = db.rows ∧
    (waitNext a db run fid inflight done timedOut choice).1.tj.idx = (a.tj.load db run).idx + 1 :=
  wait_replay a db run fid inflight done timedOut choice k hk hin hdone

example : (waitNext ({} : Adapter Nat) (({} : Db Nat).insert "r" 0 7) "r" 3 [5, 7] [5, 7] false (some 5)).2.2.out
    = .replayed 7 := by decide

/-- fresh branch: the completion is INSERTed before the call returns -/
theorem C27_wait_fresh_records {κ : Type} [DecidableEq κ] (a : Adapter κ) (db : Db κ) (run : String) (fid : Nat)
    (inflight done : List κ) (timedOut : Bool) (k : κ)
    (hw : WF db run) (hs : Sync (a.tj.load db run) db run)
    (hk : (a.tj.load db run).nextExpected = none) (hpd : a.purgeDone = true)
    (hin : inflight.contains k = true) (hdone : done.contains k = true) :
    (waitNext a db run fid inflight done timedOut (some k)).2.2.out = .fresh k (db.load run).length ∧
    (waitNext a db run fid inflight done timedOut (some k)).2.1.load run = db.load run ++ [k] :=
  wait_fresh a db run fid inflight done timedOut k hw hs hk hpd hin hdone

example : (waitNext ({ purgeDone := true } : Adapter Nat) ({} : Db Nat) "r" 3 [5, 7] [7] false (some 7)).2.1.load "r"
    = [7] := by decide

/-! ## which ticks' published events a recovered process persists

The server adapter (`_ServerInternalRunAdapter.write_to_event_stream`) appends a published event to the
workflow store iff `is_replaying()` is `false` at that moment.  The crashed process committed the journal
row of a completion *before* it published that completion's tick, so the tick of the LAST recorded
completion may never have been published: the recovered process has to persist it. -/

set_option maxRecDepth 8000 in
/-- The shapes this part of the model is cut along, re-extracted on every run: `TaskJournal.is_replaying`
is the cursor test, `InternalDBOSAdapter.is_replaying` is that and nothing else once a database is
configured, and the server adapter persists (status update, `append_event`) exactly under
`not self.is_replaying()` while always forwarding to the inner adapter. -/
theorem C27_replaying_source_shape :
    GenJournal.isReplayingBody =
      "if self._entries is None: return False ; return self._replay_index < len(self._entries)" ∧
    GenJournal.hasEntriesBody = "return self._entries is not None and len(self._entries) > 0" ∧
    GenJournal.adapterIsReplayingBody =
      "if self._journal is None and self._resolved_pool is None and (self._db_path is None): return False ; journal = self._get_or_create_journal() ; return journal.is_replaying()" ∧
    GenJournal.serverPersistGuard =
      ["flag=self.is_replaying()", "if-not-flag:status,status,status,status,append", "else:none", "forward:always",
       "append-outside-guard:0"] := by
  decide

/-- after the call that replays a recorded completion, `is_replaying()` answers whether entries remain
AFTER it: while the tick of the last recorded completion is processed it is `false` (persist), while the
tick of an earlier one is processed it is `true` (skip: the crashed process published that tick before it
journaled the next completion) -/
theorem C27_last_replayed_tick_live {κ : Type} [DecidableEq κ] (a : Adapter κ) (db : Db κ) (run : String) (fid : Nat)
    (inflight done : List κ) (timedOut : Bool) (choice : Option κ) (k : κ)
    (hk : (a.tj.load db run).nextExpected = some k) (hin : inflight.contains k = true)
    (hdone : done.contains k = true) :
    (waitNext a db run fid inflight done timedOut choice).1.isReplaying =
      decide ((a.tj.load db run).idx + 1 < ((a.tj.load db run).entries.getD []).length) :=
  wait_replay_flag a db run fid inflight done timedOut choice k hk hin hdone

example : (waitNext ({} : Adapter Nat) (({} : Db Nat).insert "r" 0 7) "r" 3 [5, 7] [5, 7] false none).1.isReplaying
    = false := by decide
example : (waitNext ({} : Adapter Nat) ((({} : Db Nat).insert "r" 0 7).insert "r" 1 5) "r" 3 [5, 7] [5, 7] false none).1.isReplaying
    = true := by decide

/-- once the replay is over, no later call turns `is_replaying()` on again (every fresh tick is persisted) -/
theorem C27_replay_over_stays_over {κ : Type} [DecidableEq κ] (a : Adapter κ) (db : Db κ) (run : String) (fid : Nat)
    (inflight done : List κ) (timedOut : Bool) (choice : Option κ)
    (h : (a.tj.load db run).isReplaying = false) :
    (waitNext a db run fid inflight done timedOut choice).1.isReplaying = false :=
  wait_replay_over a db run fid inflight done timedOut choice h

example : (({} : Adapter Nat).tj.load ({} : Db Nat) "r").isReplaying = false ∧
    (waitNext ({} : Adapter Nat) ({} : Db Nat) "r" 3 [5, 7] [7] false (some 7)).1.isReplaying = false := by decide

/-- a new process that replays a recorded journal of any length: `is_replaying()` is `true` after each
replayed completion except the last, so with `Adapter.persist` exactly the last tick's events are stored -/
theorem C27_replay_flags {κ : Type} [DecidableEq κ] (db : Db κ) (run : String) :
    replayFlags ({} : Adapter κ) db run (db.load run) =
      (List.range (db.load run).length).map (fun j => decide (j + 1 < (db.load run).length)) :=
  replayFlags_spec run (db.load run) (db.load run) {} db 0 rfl rfl rfl

example : replayFlags ({} : Adapter Nat) (((({} : Db Nat).insert "r" 0 7).insert "r" 1 9).insert "r" 2 4) "r" [7, 9, 4]
    = [true, true, false] := by decide
example : ({ tj := { entries := some [7], idx := 1 } } : Adapter Nat).persist [1, 2] [3] = [1, 2, 3] ∧
    ({ tj := { entries := some [7, 9], idx := 1 } } : Adapter Nat).persist [1, 2] [3] = [1, 2] := by decide

/-! ## the full statements, and why they are false of the code -/

/-- replay clause at full strength: no guard on timeouts -/
def C27_statement_replay : Prop :=
  ∀ (σ κ ν ο : Type) [DecidableEq κ] (L : Loop σ κ ν ο) (w : World σ κ ν ο),
    KeysDistinct L → Reach L w →
    ∃ ts, L.replay w.memo L.cfg0 w.jr = .ok ((settled L w).c, (settled L w).outs, ts)

/-- **Finding (timer order is not journaled).**  A timeout result of `wait_for_next_task` is acted upon
but never recorded; on recovery the memoised task is returned before the wakeup fires, so the loop
sees `completion` where the crashed process saw `timeout, completion`. -/
theorem C27_refuted_timer : ¬ C27_statement_replay := by
  intro h
  obtain ⟨ts, hts⟩ := h _ _ _ _ Witness.Lt Witness.wt Witness.Lt_keys Witness.wt_reach
  obtain ⟨c, hc, hs⟩ := Witness.wt_replay
  rw [hc] at hts
  have : c = (settled Witness.Lt Witness.wt).c := by injection hts with h; injection h
  rw [this] at hs
  revert hs; decide

/-- the strongest true part is `C27_journal_replay` (guard `noTimeout`) -/
theorem C27_replay_partial {σ κ ν ο : Type} [DecidableEq κ] (L : Loop σ κ ν ο) (hk : KeysDistinct L)
    (w : World σ κ ν ο) (hr : Reach L w) (hnt : noTimeout w.hist = true) :
    ∃ ts, L.replay w.memo L.cfg0 w.jr = .ok ((settled L w).c, (settled L w).outs, ts) :=
  ⟨_, (C27_journal_replay L hk w hr hnt).1⟩

/-- continuation clause at full strength: no guard on the purge -/
def C27_statement_continuation : Prop :=
  ∀ (σ κ ν ο : Type) [DecidableEq κ] (L : Loop σ κ ν ο) (w : World σ κ ν ο),
    KeysDistinct L → Reach L w → noTimeout w.hist = true →
    ∃ wr, L.recover w.jr w.memo w.mbox = .ok wr ∧ Sim (settled L w) wr

/-- **Finding (received message purged).**  The pull task's `recv` (function id beyond the counter at
the entry of the wait call that started it) consumed a message; the process stops before that
completion is journaled; recovery's orphan purge deletes the recorded receive: the message is in
neither the mailbox nor the memo any more, and the recovered process cannot simulate the crashed one. -/
theorem C27_refuted_purge : ¬ C27_statement_continuation ∧
    (∃ wr, Witness.Lp.recover Witness.wp.jr Witness.wp.memo Witness.wp.mbox = .ok wr ∧
      Witness.wp.memo 2 = some 9 ∧ wr.mbox = [] ∧ wr.memo 2 = none ∧ Witness.p1 ∈ wr.c.fl) := by
  refine ⟨?_, ⟨_, rfl, rfl, rfl, rfl, by decide⟩⟩
  intro h
  obtain ⟨wr, hrec, hsim⟩ := h _ _ _ _ Witness.Lp Witness.wp Witness.Lp_keys Witness.wp_reach (by decide)
  have e : settled Witness.Lp Witness.wp = Witness.wp := rfl
  rw [e] at hsim
  have hp := hsim.pulls Witness.p1 (by decide) rfl
  have hr2 : Witness.Lp.recover Witness.wp.jr Witness.wp.memo Witness.wp.mbox =
      .ok { c := Witness.wp.c, jr := [0], memo := purgeMemo Witness.wp.memo [0] 1, mbox := [], pend := none,
            hist := _, outs := _ } := rfl
  rw [hr2] at hrec
  injection hrec with hrec
  subst hrec
  revert hp; decide

/-- the strongest true part is `C27_recovered_continues` (guard `PurgeSafe`) -/
theorem C27_continuation_partial {σ κ ν ο : Type} [DecidableEq κ] (L : Loop σ κ ν ο) (hk : KeysDistinct L)
    (w : World σ κ ν ο) (hr : Reach L w) (hnt : noTimeout w.hist = true) (hsafe : PurgeSafe L w) :
    ∃ wr, L.recover w.jr w.memo w.mbox = .ok wr ∧ Sim (settled L w) wr :=
  recover_sim L hk hr hnt hsafe

/-! ## a run that is stopped and recovered ANY number of times

`Reach` is one never-stopped process; `ReachC` adds the transition "stop here, recover from the durable state,
go on from the recovered world" (any number of times, at any points, also in the middle of a replayed prefix's
aftermath).  `KeysDistinctCfg` is the key-allocation hypothesis stated on the loop's configurations alone; it
implies `KeysDistinct`. -/

section
variable {σ κ ν ο : Type} [DecidableEq κ]

/-- **write order, any number of stops** (no guard, timeouts included): in every world of a run that was
stopped and recovered any number of times, the durable journal is exactly the completions acted upon (as the
current process knows them: replayed + fresh) plus at most one recorded-unacted completion. -/
theorem C27_write_order_any_stops (L : Loop σ κ ν ο) (w : World σ κ ν ο) (hr : ReachC L w) :
    w.jr = actedKeys w.hist ++ (match w.pend with | none => [] | some t => [t.key]) :=
  jr_of_reachC L hr

/-- **replayed part, any number of stops.**  If no wait-timeout was acted upon since the most recent recovery
(timeouts in earlier lives do not matter), then at every stop point of the k-th life the next recovery replays
the journal successfully, observes the recorded completion order and reaches the configuration and the outputs
of the process that was stopped. -/
theorem C27_replay_after_any_stops (L : Loop σ κ ν ο) (hk : KeysDistinctCfg L) (w : World σ κ ν ο)
    (hr : ReachC L w) (hnt : noTimeout w.hist = true) :
    L.replay w.memo L.cfg0 w.jr =
      .ok ((settled L w).c, (settled L w).outs, actedTasks (settled L w).hist) ∧
    (actedTasks (settled L w).hist).map (·.key) = w.jr :=
  replay_of_reachC L hk w hr hnt

/-- … hence recovery never fails there (neither "key not in flight" nor "not memoised"), and the recovered
process starts from the stopped one's configuration, outputs and journal. -/
theorem C27_recovery_succeeds_after_any_stops (L : Loop σ κ ν ο) (hk : KeysDistinctCfg L) (w : World σ κ ν ο)
    (hr : ReachC L w) (hnt : noTimeout w.hist = true) :
    ∃ wr, L.recover w.jr w.memo w.mbox = .ok wr ∧ wr.c = (settled L w).c ∧
      wr.outs = (settled L w).outs ∧ wr.jr = w.jr :=
  recover_ok_of_reachC L hk w hr hnt

/-- the hypothesis on configurations implies the one the single-stop theorems use -/
theorem C27_keys_cfg_implies_keys (L : Loop σ κ ν ο) (h : KeysDistinctCfg L) : KeysDistinct L :=
  keysDistinct_of_cfg L h

/-- non-vacuity: the pull-task loop satisfies `KeysDistinctCfg`; a world recovered TWICE (stop between the
journal INSERT and the return; recover; a message arrives; stop; recover) with a non-empty journal -/
example : KeysDistinctCfg Witness.Lp ∧
    (∃ w, ReachC Witness.Lp w ∧ w.jr = [0] ∧ noTimeout w.hist = true ∧ w.hist ≠ []) :=
  ⟨Witness.Lp_keysCfg, Witness.wpr2_reachC⟩

/-- **a recovered process is self-consistent, whatever it was recovered from** (no hypothesis on the stopped
process: timeouts, several lives, anything): whenever recovery succeeds, the world it produces replays — with
the memo the orphan purge left — to exactly its own configuration, outputs and observed tasks; its journal is
exactly what it observed; a stop before its first action recovers to the same configuration again
(recovery is idempotent). -/
theorem C27_recovered_world_replays_to_itself (L : Loop σ κ ν ο) (w wr : World σ κ ν ο)
    (h : L.recover w.jr w.memo w.mbox = .ok wr) :
    L.replay wr.memo L.cfg0 wr.jr = .ok (wr.c, wr.outs, actedTasks wr.hist) ∧
    wr.jr = actedKeys wr.hist ∧ noTimeout wr.hist = true ∧
    (∃ wr2, L.recover wr.jr wr.memo wr.mbox = .ok wr2 ∧ wr2.c = wr.c ∧ wr2.outs = wr.outs ∧ wr2.jr = wr.jr) := by
  obtain ⟨hi, hnt⟩ := invC_of_recover L h
  have hp : wr.pend = none := by
    simp only [Loop.recover] at h
    split at h
    · cases h
    · injection h with h; subst h; rfl
  have hjr : wr.jr = actedKeys wr.hist := by have := hi.jr; rw [hp] at this; simpa using this
  refine ⟨by rw [hjr]; exact hi.rep, hjr, hnt, ?_⟩
  refine ⟨{ c := wr.c, jr := wr.jr, memo := purgeMemo wr.memo wr.jr wr.c.base, mbox := wr.mbox, pend := none,
            hist := (actedTasks wr.hist).map (fun t => (wr.memo t.fid).map (fun v => (t, v))), outs := wr.outs },
          ?_, rfl, rfl, rfl⟩
  simp only [Loop.recover, hjr, hi.rep]

/-- non-vacuity: the timer witness (a timeout WAS acted upon before the stop) recovers successfully -/
example : ∃ wr, Witness.Lt.recover Witness.wt.jr Witness.wt.memo Witness.wt.mbox = .ok wr :=
  ⟨_, rfl⟩

end

/-! ## the table over whole histories: any number of lives, any calls -/

/-- **table invariant over all histories.**  Start from any table in which the run's rows are numbered
0,1,2,… (`WF`; the empty table is).  Run ANY number of process lives of the run (each: fresh adapter, then an
arbitrary sequence of `wait_for_next_task` calls — any in-flight sets, finishing orders, timeouts, scheduler
choices, the fallback included).  Then: the numbering invariant still holds; `load` returns the old journal
followed by exactly the completions the fresh branch handed to the control loop, in that order (nothing lost,
nothing duplicated, nothing reordered; in particular the orphan purge's `truncate_from` never removed a
row); and no other run's rows were touched. -/
theorem C27_journal_table_all_lives {κ : Type} [DecidableEq κ] (run : String) (db : Db κ)
    (lives : List (List (WaitIn κ))) (hw : WF db run) :
    WF (runLives run db lives).1 run ∧
    (runLives run db lives).1.load run = db.load run ++ freshKeys (runLives run db lives).2 ∧
    (∀ run', run' ≠ run → runRows (runLives run db lives).1 run' = runRows db run') :=
  runLives_good run lives db hw

example : WF ({} : Db Nat) "r" ∧
    (runLives "r" ({} : Db Nat)
      [[{ inflight := [5, 7], done := [7], choice := some 7 }],
       [{ inflight := [5, 7], done := [5, 7] }, { inflight := [5], done := [5], choice := some 5, fid := 3 }]]).1.load "r"
      = [7, 5] := ⟨rfl, by decide⟩

/-- **every call of every life keeps the mirror**: after each call the in-memory `_entries` is exactly what
`load` returns, the row numbering holds, and a fresh completion got `seq_num` = the number of entries before
it — so the per-call hypotheses `WF`/`Sync` of `C27_record_roundtrip` and `C27_wait_fresh_records` hold in
every state a process can be in. -/
theorem C27_mirror_every_call {κ : Type} [DecidableEq κ] (run : String) (db : Db κ) (calls : List (WaitIn κ))
    (hw : WF db run) :
    WF (runCalls run {} db calls).2.1 run ∧
    (calls ≠ [] → Sync (runCalls run {} db calls).1.tj (runCalls run {} db calls).2.1 run) ∧
    (runCalls run {} db calls).2.1.load run = db.load run ++ freshKeys (runCalls run {} db calls).2.2 := by
  obtain ⟨g1, _, g3, _, _⟩ := runCalls_good run calls {} db [] hw (Or.inl rfl)
  exact ⟨g1, fun hne => runCalls_loaded run calls {} db hw (Or.inl rfl) (Or.inr hne), g3⟩

example : (runCalls "r" {} (({} : Db Nat).insert "r" 0 7) [{ inflight := [5, 7], done := [5, 7] }]).1.tj.entries
    = some [7] := by decide

/-- **observed order = recorded order, for every call history of a life.**  In a life without the
"non-deterministic execution" fallback, after any sequence of calls, the completions handed to the control
loop so far are exactly the first `_replay_index` entries of the journal as it now stands (= the journal found
at start, then this life's own fresh completions): during the replay the loop has seen a prefix of the
recorded order, in order; once `is_replaying()` is false it has seen all of it and then exactly what it
recorded itself. -/
theorem C27_observed_order_is_journal_prefix {κ : Type} [DecidableEq κ] (run : String) (db : Db κ)
    (calls : List (WaitIn κ)) (hw : WF db run)
    (hnf : ∀ r, r ∈ (runCalls run {} db calls).2.2 → r.fallback = false) :
    returnedKeys (runCalls run {} db calls).2.2 =
      (db.load run ++ freshKeys (runCalls run {} db calls).2.2).take (runCalls run {} db calls).1.tj.idx ∧
    (runCalls run {} db calls).1.tj.idx ≤ (db.load run ++ freshKeys (runCalls run {} db calls).2.2).length ∧
    (calls ≠ [] → (runCalls run {} db calls).1.isReplaying = false →
      returnedKeys (runCalls run {} db calls).2.2 = db.load run ++ freshKeys (runCalls run {} db calls).2.2) := by
  obtain ⟨_, _, g3, _, g5⟩ := runCalls_good run calls {} db [] hw (Or.inl rfl)
  have ho := g5 hnf ⟨rfl, Nat.le_refl _⟩
  cases calls with
  | nil => exact ⟨by simp [runCalls, returnedKeys], by simp [runCalls], fun h => absurd rfl h⟩
  | cons i is =>
    have hl := runCalls_loaded run (i :: is) {} db hw (Or.inl rfl) (Or.inr (by simp))
    unfold Sync at hl
    obtain ⟨h1, h2⟩ := ho
    rw [hl, g3] at h1 h2
    simp only [Option.getD_some, List.nil_append] at h1 h2
    refine ⟨h1, h2, ?_⟩
    intro _ hrep
    simp only [Adapter.isReplaying, TJ.isReplaying, hl, g3, decide_eq_false_iff_not, Nat.not_lt] at hrep
    rw [h1, List.take_of_length_le hrep]

example : returnedKeys (runCalls "r" {} (({} : Db Nat).insert "r" 0 7)
      [{ inflight := [5, 7], done := [5, 7] }, { inflight := [5], done := [5], choice := some 5 }]).2.2 = [7, 5] := by
  decide

/-- the no-fallback guard is needed (code as it is): when the recorded key is not among the tasks the call
falls back to the fresh branch, whose `record` appends at the END of the journal and moves the cursor past an
entry that was never replayed — the loop has seen `[5]`, the first `_replay_index` entries are `[7]`. -/
theorem C27_observed_order_guard_needed :
    (runCalls "r" {} (({} : Db Nat).insert "r" 0 7) [{ inflight := [5], done := [5], choice := some 5 }]).2.2.map (·.fallback)
      = [true] ∧
    returnedKeys (runCalls "r" {} (({} : Db Nat).insert "r" 0 7) [{ inflight := [5], done := [5], choice := some 5 }]).2.2
      = [5] ∧
    ((runCalls "r" {} (({} : Db Nat).insert "r" 0 7) [{ inflight := [5], done := [5], choice := some 5 }]).2.1.load "r").take
      (runCalls "r" {} (({} : Db Nat).insert "r" 0 7) [{ inflight := [5], done := [5], choice := some 5 }]).1.tj.idx = [7] ∧
    (runCalls "r" {} (({} : Db Nat).insert "r" 0 7) [{ inflight := [5], done := [5], choice := some 5 }]).2.1.load "r"
      = [7, 5] := by
  decide

set_option maxRecDepth 8000 in
/-- The shapes the history theorems are cut along, re-extracted on every run: the DDL of `workflow_journal` in both
dialects (auto-incremented `id` primary key = `Db.insert`'s `nextId`; NO uniqueness constraint on `(run_id, seq_num)`,
so the row numbering `WF` is owed to the writers alone; one migration file touches the table); the initial state of a
process life (`{}` adapter of `runCalls` / `runLives`: `_entries = None`, `_replay_index = 0`, `_journal = None`,
`_orphan_purge_done = False`, one cached `TaskJournal(self._run_id, crud)` per adapter); `TaskJournal.load` (idempotent,
reads the table once); every writing method of `SqliteJournalCrud` is `execute ; commit` on its own connection (the row
is durable before `record` returns); `delete`'s SQL; table-name plumbing and identifier quoting. -/
theorem C27_table_source_shape :
    GenJournalTable.sqliteColumns =
      ["id INTEGER PRIMARY KEY AUTOINCREMENT", "run_id TEXT NOT NULL", "seq_num INTEGER NOT NULL", "task_key TEXT NOT NULL"] ∧
    GenJournalTable.pgColumns =
      ["id SERIAL PRIMARY KEY", "run_id VARCHAR(255) NOT NULL", "seq_num INTEGER NOT NULL", "task_key VARCHAR(512) NOT NULL"] ∧
    GenJournalTable.sqliteUnique = [] ∧ GenJournalTable.pgUnique = [] ∧
    GenJournalTable.sqliteOtherStatements = ["CREATE INDEX IF NOT EXISTS idx_workflow_journal_run_id ON workflow_journal (run_id)"] ∧
    GenJournalTable.pgOtherStatements = GenJournalTable.sqliteOtherStatements ∧
    GenJournalTable.sqliteFiles = ["0001_init.sql"] ∧ GenJournalTable.pgFiles = ["0001_init.sql"] ∧
    GenJournalTable.tjInit = ["_entries=None", "_replay_index=0"] ∧
    GenJournalTable.adapterInit = ["_journal=None", "_orphan_purge_done=False"] ∧
    GenJournalTable.getOrCreateJournalBody =
      "if self._journal is None: if self._resolved_pool is not None: crud = PostgresJournalCrud(pool=self._resolved_pool, table_name=self._journal_table_name, schema=self._schema) elif self._db_path is not None: crud = SqliteJournalCrud(db_path=self._db_path, table_name=self._journal_table_name) else: raise RuntimeError('No pool or db_path configured for journal.') self._journal = TaskJournal(self._run_id, crud) ; return self._journal" ∧
    GenJournal.loadBody =
      "if self._entries is not None: return ; if self._crud is None: self._entries = [] return ; self._entries = await self._crud.load(self._run_id)" ∧
    GenJournalTable.sqliteWriteShapes =
      ["insert=self._connect():execute,commit", "delete=self._connect():execute,commit",
       "truncate_from=self._connect():execute,commit", "purge_operations_from=self._connect():execute,commit"] ∧
    GenJournalTable.sqliteConnectBody = "conn = sqlite3.connect(self._db_path) ; try: yield conn finally: conn.close()" ∧
    GenJournalTable.sqliteCrudInit =
      ["_db_path=db_path", "_table_ref=_quote_identifier(table_name)", "_ops_table_ref=_quote_identifier('operation_outputs')"] ∧
    GenJournalTable.pgCrudInit =
      ["_pool=pool", "_table_ref=_qualified_table_ref(table_name, schema)", "_ops_table_ref=_qualified_table_ref('operation_outputs', schema)"] ∧
    GenJournal.sqlite_delete = "DELETE FROM T WHERE run_id = ?" ∧ GenJournal.pg_delete = "DELETE FROM T WHERE run_id = $1" ∧
    GenJournalTable.journalTableName = "'workflow_journal'" ∧ GenJournalTable.defaultJournalTableName = "JOURNAL_TABLE_NAME" ∧
    GenJournalTable.validIdentifier = "re.compile('^[A-Za-z_][A-Za-z0-9_]*$')" ∧
    GenJournalTable.quoteIdentifierBody =
      "if not _VALID_IDENTIFIER.match(name): msg = f'Invalid SQL identifier: {name!r}' raise ValueError(msg) ; return f'\"{name}\"'" ∧
    GenJournalTable.qualifiedTableRefBody =
      "ref = _quote_identifier(table_name) ; if schema: ref = f'{_quote_identifier(schema)}.{ref}' ; return ref" := by
  and_intros <;> rfl

/-! ## continuation after any number of stops; the orphan purge over a whole life -/

/-- **C27, continuation, any number of stops** (loops that never arm a wait timeout).  At every point of a run that
was stopped and recovered any number of times, if the orphan purge deletes no recorded receive of an in-flight pull
task, the next recovery yields a process that simulates the stopped one: every further execution of the stopped
process is matched action by action, ending in related worlds (same configuration, outputs — hence the same
result); and the recovered worlds are again worlds of such a run, so the statement applies to them in turn. -/
theorem C27_recovered_continues_any_stops {σ κ ν ο : Type} [DecidableEq κ] (L : Loop σ κ ν ο)
    (hk : KeysDistinctCfg L) (hna : NeverArmed L) (w w2 : World σ κ ν ο) (hr : ReachC L w)
    (hsafe : PurgeSafe L w) (hcont : Steps L (settled L w) w2) :
    ∃ wr wr2, L.recover w.jr w.memo w.mbox = .ok wr ∧ Sim (settled L w) wr ∧ Steps L wr wr2 ∧ Sim w2 wr2 ∧
      ReachC L wr ∧ ReachC L wr2 :=
  recovered_continues_reachC L hk hna w w2 hr hsafe hcont

/-- non-vacuity: the already once-recovered world `wpr` (non-empty journal, pull task in flight) is purge-safe -/
example : KeysDistinctCfg Witness.Lp ∧ NeverArmed Witness.Lp ∧ ReachC Witness.Lp Witness.wpr ∧
    PurgeSafe Witness.Lp Witness.wpr ∧ Witness.wpr.jr = [0] :=
  ⟨Witness.Lp_keysCfg, Witness.Lp_neverArmed, Witness.wpr_reachC, Witness.wpr_purgeSafe, rfl⟩

/-- **the orphan purge over a whole life**, any calls: `operation_outputs` is purged at most once per process life,
with the function id of the one call that purged (`function_id > fid` of that call, nothing else ever changes the
table), and never in a call that hands out a replayed completion — only once `next_expected_key()` is `None`. -/
theorem C27_orphan_purge_once_per_life {κ : Type} [DecidableEq κ] (run : String) (db : Db κ) (calls : List (WaitIn κ)) :
    ((runCalls run {} db calls).2.2.filter (·.purged)).length ≤ 1 ∧
    (runCalls run {} db calls).2.1.ops =
      (match purgeFid calls (runCalls run {} db calls).2.2 with
       | none => db.ops
       | some f => (db.purgeOpsFrom run f).ops) ∧
    (∀ x, x ∈ (runCalls run {} db calls).2.2 → x.purged = true → ∀ k, x.out ≠ .replayed k) :=
  let h := runCalls_purge_once run calls {} db
  ⟨h.1, h.2.1, h.2.2.1⟩

example : (runCalls "r" {} ({ rows := [⟨1, "r", 0, 7⟩], nextId := 2, ops := [⟨"r", 2, "x"⟩, ⟨"r", 9, "y"⟩, ⟨"q", 9, "z"⟩] } : Db Nat)
      [{ inflight := [5, 7], done := [5, 7], fid := 3 }, { inflight := [5], done := [5], choice := some 5, fid := 4 },
       { inflight := [6], done := [6], choice := some 6, fid := 1 }]).2.1.ops = [⟨"r", 2, "x"⟩, ⟨"q", 9, "z"⟩] := by
  decide
