import WfProofs.JournalWait
/-! C27: what `is_replaying()` answers around a `wait_for_next_task` call.  The server adapter persists a
published event iff it answers `false`, so these facts decide which ticks' events reach the workflow
store in a recovered process. -/
namespace Journal

section replaying
variable {κ : Type} [DecidableEq κ]

omit [DecidableEq κ] in
theorem nextExpected_some_entries (j : TJ κ) (k : κ) (h : j.nextExpected = some k) :
    ∃ es, j.entries = some es ∧ j.idx < es.length := by
  unfold TJ.nextExpected at h
  cases he : j.entries with
  | none => simp [he] at h
  | some es =>
    refine ⟨es, rfl, ?_⟩
    simp [he] at h
    exact h.1

/-- Replay branch: after the call that returned the recorded task, `is_replaying()` is `true` iff entries
remain after it.  In particular it is `false` while the tick of the LAST recorded completion is processed. -/
theorem wait_replay_flag (a : Adapter κ) (db : Db κ) (run : String) (fid : Nat) (inflight done : List κ)
    (timedOut : Bool) (choice : Option κ) (k : κ)
    (hk : (a.tj.load db run).nextExpected = some k) (hin : inflight.contains k = true)
    (hdone : done.contains k = true) :
    (waitNext a db run fid inflight done timedOut choice).1.isReplaying =
      decide ((a.tj.load db run).idx + 1 < ((a.tj.load db run).entries.getD []).length) := by
  have hne : inflight.isEmpty = false := by
    cases inflight with
    | nil => simp at hin
    | cons x xs => rfl
  have hin' : k ∈ inflight := by simpa using hin
  have hdone' : k ∈ done := by simpa using hdone
  obtain ⟨es, hes, _⟩ := nextExpected_some_entries _ k hk
  unfold waitNext
  generalize a.tj.load db run = j at *
  simp [hk, hin', hdone', hne, TJ.advance, Adapter.isReplaying, TJ.isReplaying, hes]

/-- the adapter after a replayed call: entries unchanged, index + 1 (and `load` is then the identity) -/
theorem wait_replay_tj (a : Adapter κ) (db : Db κ) (run : String) (fid : Nat) (inflight done : List κ)
    (timedOut : Bool) (choice : Option κ) (k : κ) (db' : Db κ)
    (hk : (a.tj.load db run).nextExpected = some k) (hin : inflight.contains k = true)
    (hdone : done.contains k = true) :
    (waitNext a db run fid inflight done timedOut choice).1.tj.load db' run =
      { entries := (a.tj.load db run).entries, idx := (a.tj.load db run).idx + 1 } := by
  have hne : inflight.isEmpty = false := by
    cases inflight with
    | nil => simp at hin
    | cons x xs => rfl
  have hin' : k ∈ inflight := by simpa using hin
  have hdone' : k ∈ done := by simpa using hdone
  obtain ⟨es, hes, _⟩ := nextExpected_some_entries _ k hk
  unfold waitNext
  generalize a.tj.load db run = j at *
  simp [hk, hin', hdone', hne, TJ.advance, TJ.load, hes]

/-- A recovering process that replays the recorded entries `ks` (what is left of the journal `es` from
index `i`): `is_replaying()` is `true` after every replayed completion but the last one. -/
theorem replayFlags_spec (run : String) (es : List κ) :
    ∀ (ks : List κ) (a : Adapter κ) (db : Db κ) (i : Nat),
      (a.tj.load db run).entries = some es → (a.tj.load db run).idx = i → es.drop i = ks →
      replayFlags a db run ks = (List.range ks.length).map (fun j => decide (j + 1 < ks.length)) := by
  intro ks
  induction ks with
  | nil => intros; rfl
  | cons k ks ih =>
    intro a db i he hi hd
    have hlt : i < es.length := by
      apply Decidable.byContradiction
      intro hge
      have : es.drop i = [] := List.drop_eq_nil_of_le (Nat.le_of_not_lt hge)
      rw [this] at hd
      cases hd
    have hget : es[i]? = some k := by
      have h0 : (es.drop i)[0]? = es[i + 0]? := List.getElem?_drop
      rw [hd] at h0
      simpa using h0.symm
    have hdrop : es.drop (i + 1) = ks := by
      have h1 : (es.drop i).drop 1 = es.drop (i + 1) := by rw [List.drop_drop]
      rw [hd] at h1
      simpa using h1.symm
    have hk : (a.tj.load db run).nextExpected = some k := by
      unfold TJ.nextExpected
      rw [he, hi]
      simp [hlt]
      have := List.getElem?_eq_getElem hlt
      rw [hget] at this
      exact (Option.some.inj this).symm
    have hlen : es.length = i + 1 + ks.length := by
      have := congrArg List.length hd
      simp at this
      omega
    have hflag := wait_replay_flag a db run 0 [k] [k] false none k hk (by simp) (by simp)
    have htj := wait_replay_tj a db run 0 [k] [k] false none k
      (waitNext a db run 0 [k] [k] false none).2.1 hk (by simp) (by simp)
    have ih' := ih (waitNext a db run 0 [k] [k] false none).1 (waitNext a db run 0 [k] [k] false none).2.1
      (i + 1) (by rw [htj, he]) (by rw [htj, hi]) hdrop
    simp only [replayFlags]
    rw [ih', hflag, he, hi]
    simp only [Option.getD_some, List.length_cons, List.range_succ_eq_map, List.map_cons, List.map_map]
    congr 1
    · simp [hlen]
    · apply List.map_congr_left
      intro j _
      simp

/-- Once the replay is over it stays over: no later call (fresh completion, timeout, nothing to wait for)
makes `is_replaying()` true again. -/
theorem wait_replay_over (a : Adapter κ) (db : Db κ) (run : String) (fid : Nat) (inflight done : List κ)
    (timedOut : Bool) (choice : Option κ)
    (h : (a.tj.load db run).isReplaying = false) :
    (waitNext a db run fid inflight done timedOut choice).1.isReplaying = false := by
  unfold waitNext
  generalize a.tj.load db run = j at *
  have hn : j.nextExpected = none := by
    unfold TJ.isReplaying at h
    unfold TJ.nextExpected
    cases he : j.entries with
    | none => rfl
    | some es =>
      simp [he] at h
      simp [Nat.not_lt.mpr h]
  simp only [hn]
  unfold TJ.isReplaying at h
  cases he : j.entries with
  | none =>
    cases choice with
    | none => by_cases hi : inflight.isEmpty <;> by_cases ht : timedOut <;>
        simp [hi, ht, Adapter.isReplaying, TJ.isReplaying, he]
    | some c => by_cases hi : inflight.isEmpty <;> by_cases hc : (c ∈ done ∧ c ∈ inflight) <;>
        simp [hi, hc, Adapter.isReplaying, TJ.isReplaying, TJ.record, he]
  | some es =>
    simp [he] at h
    cases choice with
    | none => by_cases hi : inflight.isEmpty <;> by_cases ht : timedOut <;>
        simp [hi, ht, Adapter.isReplaying, TJ.isReplaying, he, h]
    | some c => by_cases hi : inflight.isEmpty <;> by_cases hc : (c ∈ done ∧ c ∈ inflight) <;>
        simp [hi, hc, Adapter.isReplaying, TJ.isReplaying, TJ.record, he, h] <;> omega
end replaying
end Journal
