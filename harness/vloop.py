"""Virtual-time asyncio loop with a quiescence hook.

`VLoop.time()` is virtual.  When no handle is ready the loop first asks the
*quiescence hook* (the scheduler) whether it wants to act (open a gate, deliver
an external event, ...); only if the hook declines does the loop jump its clock
to the next timer.  Part of the trusted base (relies on CPython 3.12 private
attributes `_ready`, `_scheduled`, `_run_once`).
"""
from __future__ import annotations

import asyncio
import heapq
import selectors
from typing import Any, Callable, Coroutine


CURRENT: "VLoop | None" = None


class _NoBlockSelector(selectors.SelectSelector):
    """Never blocks: virtual time makes real waiting meaningless."""

    def select(self, timeout: float | None = None):  # type: ignore[override]
        return super().select(0)


class VLoop(asyncio.SelectorEventLoop):
    def __init__(self, start: float = 1000.0) -> None:
        super().__init__(_NoBlockSelector())
        self._vt = float(start)
        self.quiescence_hook: Callable[[], bool] | None = None
        self.deadlock = False
        self.max_time: float | None = None
        self.idle_spins = 0

    def time(self) -> float:  # type: ignore[override]
        return self._vt

    def _run_once(self) -> None:  # type: ignore[override]
        sched = self._scheduled  # type: ignore[attr-defined]
        while sched and sched[0]._cancelled:
            h = heapq.heappop(sched)
            h._scheduled = False
        if not self._ready:  # type: ignore[attr-defined]
            acted = False
            if self.quiescence_hook is not None:
                acted = bool(self.quiescence_hook())
            if not acted and not self._ready:  # type: ignore[attr-defined]
                while sched and sched[0]._cancelled:
                    h = heapq.heappop(sched)
                    h._scheduled = False
                if sched:
                    when = sched[0]._when
                    if self.max_time is not None and when > self.max_time:
                        self.deadlock = True
                        self.stop()
                    elif when > self._vt:
                        self._vt = when
                    self.idle_spins = 0
                else:
                    # nothing ready, nothing scheduled, hook declined: only
                    # executor threads (sync steps) could still wake us
                    self.idle_spins += 1
                    if self.idle_spins > 2000:
                        self.deadlock = True
                        self.stop()
                    else:
                        import time as _t

                        _t.sleep(0.0005)
        else:
            self.idle_spins = 0
        super()._run_once()


def run_virtual(main: Callable[[VLoop], Coroutine[Any, Any, Any]], *, start: float = 1000.0,
                max_time: float | None = None, hook_factory: Callable[[VLoop], Callable[[], bool]] | None = None) -> Any:
    """Run `main(loop)` to completion on a fresh virtual loop."""
    global CURRENT
    loop = VLoop(start)
    loop.max_time = max_time
    asyncio.set_event_loop(loop)
    CURRENT = loop
    try:
        if hook_factory is not None:
            loop.quiescence_hook = hook_factory(loop)
        task = loop.create_task(main(loop))
        task.add_done_callback(lambda _t: loop.stop())
        loop.run_forever()
        if not task.done():
            task.cancel()
            try:
                loop.run_until_complete(asyncio.gather(task, return_exceptions=True))
            except Exception:
                pass
            raise TimeoutError("virtual loop deadlocked (nothing runnable, no timer before max_time)")
        return task.result()
    finally:
        try:
            pending = [t for t in asyncio.all_tasks(loop) if not t.done()]
            for t in pending:
                t.cancel()
            if pending:
                loop.quiescence_hook = None
                loop.max_time = None
                loop.run_until_complete(asyncio.gather(*pending, return_exceptions=True))
            loop.run_until_complete(loop.shutdown_asyncgens())
        except Exception:
            pass
        asyncio.set_event_loop(None)
        CURRENT = None
        loop.close()


class VClock:
    """Stand-in for the `time` module inside target modules: epoch == virtual."""

    def __init__(self) -> None:
        self._real = __import__("time")

    def _loop(self) -> VLoop | None:
        return CURRENT

    def time(self) -> float:
        l = self._loop()
        return l.time() if l is not None else self._real.time()

    def monotonic(self) -> float:
        # like a real system: the monotonic clock has a different origin than the epoch clock,
        # so code that mixes the two is exposed
        return self.time() - 900.0

    def __getattr__(self, name: str) -> Any:
        return getattr(self._real, name)
