import WfModel.Replay
import WfModel.TickStream
import WfModel.TickTable
import WfModel.GenReplay
import Driver.Engine
/-! Line protocol for the restart model (`WfModel/Replay.lean`); every op of the `engine`
driver is accepted too (same parsers/printers, same state), so a resumed runner can be driven on.

    legacy _ | legacy <state> | legacy-current      set / clear the legacy ctx state (after `cfg`); -current = the engine state
    replay <now0> <now> <policy> <n> <tick>*n       replay_ticks_stream from legacy-or-from_workflow
    status                                          handler_status_from_exit_command of the last replay
    ctx <now0> <now> <policy> <n> <tick>*n          context_from_ticks
    restart <now0> <now> <nowR> <start ev|_> <timeout|_> <policy> <n> <tick>*n   one handler of _on_server_start
    pick <registered> <active> <resuming runs> <rows>   which handlers _on_server_start acts on
    persist <tick>                                  what is read back from the store for a processed tick
    stream <page> <n> <sequence>*n                  what SqliteWorkflowStore.stream_ticks yields for a run with these rows
    rowmark <n> <I|S|R|P>*n                         the handler row's idle marker / the run in memory after these events
    restartrow <n> <I|S|R|P>*n <restart arguments>  one handler of _on_server_start on the stack with the idle-release layer
    c13table <sql|mem> <run> <n> (<run> <data>)*n   get_ticks(run) of that store after these append_tick calls on an empty store: <seq>:<data> rows
                                                    (constants of the statement / the list rule: GenReplay, i.e. the current source)
-/
open Engine

namespace Drv.Replay

open Drv.Engine

structure RState where
  eng : Drv.Engine.DState := {}
  legacy : Option State := none
  last : Option Replayed := none

def sStatus : Status → String
  | .running => "running" | .completed => "completed" | .failed => "failed" | .cancelled => "cancelled"

def sErr : ErrMsg → String
  | .exc x => s!"e{x}" | .timedOut => "timeout" | .noState => "nostate" | .resumeError => "error"

def sFinal (f : Final) : String :=
  let r := match f.result with | some p => sPub p | none => "_"
  let e := match f.error with | some e => sErr e | none => "_"
  s!"{sStatus f.status} result {r} error {e}"

def sExit : Option Cmd → String
  | none => "_"
  | some c => sCmd c

def ticksP : P (List Tick) := counted tick

def statusP : P Status := do
  match ← tok with
  | "running" => pure .running
  | "completed" => pure .completed
  | "failed" => pure .failed
  | "cancelled" => pure .cancelled
  | _ => fun _ => none

def rowP : P HandlerRow := do
  let hid ← nat; let wf ← nat; let status ← statusP; let runId ← optNat; let idle ← bool
  pure { hid, wf, status, runId, idle }

def rowEvP : P RowEv := do
  match ← tok with
  | "I" => pure .idleAnnounced
  | "S" => pure .sendDone
  | "R" => pure .released
  | "P" => pure .processStop
  | _ => fun _ => none

def sMark (m : RowMark) : String := s!"idle {if m.idle then 1 else 0} mem {if m.inMemory then 1 else 0}"

def sPick : Nat × Pick → String
  | (h, .notSelected) => s!"{h} not-selected"
  | (h, .noRunId) => s!"{h} no-run-id"
  | (h, .alreadyActive) => s!"{h} already-active"
  | (h, .restart r) => s!"{h} restart {r}"

def step (d : RState) (line : String) : RState × String :=
  match tokens line with
  | "cfg" :: _ =>
    let (e, out) := Drv.Engine.step d.eng line
    ({ d with eng := e, legacy := none, last := none }, out)
  | ["legacy", "_"] => ({ d with legacy := none }, "ok")
  | ["legacy-current"] => ({ d with legacy := some d.eng.st }, sState d.eng.cfg d.eng.st)
  | "legacy" :: ts =>
    match stateP d.eng.cfg ts with
    | some (s, []) => ({ d with legacy := some s }, sState d.eng.cfg s)
    | _ => (d, "bad-op")
  | "replay" :: ts =>
    match (do let now0 ← int; let now ← int; let p ← policy; let tk ← ticksP; pure (now0, now, p, tk)) ts with
    | some ((now0, now, p, tk), []) =>
      match replayTicks d.eng.cfg p (d.legacy.getD initState) now0 (fun _ => now) tk with
      | none => ({ d with last := none }, "crash")
      | some rep => ({ d with last := some rep, eng := { d.eng with st := rep.st } },
                     sExit rep.exit ++ " ;; " ++ sState d.eng.cfg rep.st)
    | _ => (d, "bad-op")
  | ["status"] =>
    match d.last with
    | none => (d, "no-replay")
    | some rep =>
      match rep.exit with
      | none => (d, "resume")
      | some c => match statusOfExit c with
        | none => (d, "resume")
        | some f => (d, sFinal f)
  | "ctx" :: ts =>
    match (do let now0 ← int; let now ← int; let p ← policy; let tk ← ticksP; pure (now0, now, p, tk)) ts with
    | some ((now0, now, p, tk), []) =>
      match contextFromTicks d.eng.cfg p d.legacy tk now0 (fun _ => now) with
      | .nothing => (d, "none")
      | .raised => (d, "raised")
      | .ok st exit => ({ d with eng := { d.eng with st := st } }, sExit exit ++ " ;; " ++ sState d.eng.cfg st)
    | _ => (d, "bad-op")
  | "restart" :: ts =>
    match (do let now0 ← int; let now ← int; let nowR ← int; let st ← opt ev; let tmo ← optNat
              let p ← policy; let tk ← ticksP; pure (now0, now, nowR, st, tmo, p, tk)) ts with
    | some ((now0, now, nowR, st, tmo, p, tk), []) =>
      match restartRun d.eng.cfg p d.legacy tk now0 (fun _ => now) nowR st tmo with
      | .skip => (d, "skip")
      | .markFailed e => (d, "markfailed " ++ sErr e)
      | .finalize f => (d, "finalize " ++ sFinal f)
      | .resume r => ({ d with eng := { d.eng with run := r, st := r.st } },
                      "resume " ++ sRunner r ++ " ;; " ++ sState d.eng.cfg r.st)
    | _ => (d, "bad-op")
  | "rowmark" :: ts =>
    match (counted rowEvP) ts with
    | some (evs, []) => (d, sMark (RowMark.run {} evs))
    | _ => (d, "bad-op")
  | "restartrow" :: ts =>
    match (do let evs ← counted rowEvP; let now0 ← int; let now ← int; let nowR ← int; let st ← opt ev; let tmo ← optNat
              let p ← policy; let tk ← ticksP; pure (evs, now0, now, nowR, st, tmo, p, tk)) ts with
    | some ((evs, now0, now, nowR, st, tmo, p, tk), []) =>
      match restartHandler (RowMark.run {} evs).idle d.eng.cfg p d.legacy tk now0 (fun _ => now) nowR st tmo with
      | .skip => (d, "skip")
      | .markFailed e => (d, "markfailed " ++ sErr e)
      | .finalize f => (d, "finalize " ++ sFinal f)
      | .resume r => ({ d with eng := { d.eng with run := r, st := r.st } },
                      "resume " ++ sRunner r ++ " ;; " ++ sState d.eng.cfg r.st)
    | _ => (d, "bad-op")
  | "persist" :: ts =>
    match tick ts with
    | some (t, []) => (d, sTick t.persist)
    | _ => (d, "bad-op")
  | "stream" :: ts =>
    match (do let page ← nat; let rows ← counted nat; pure (page, rows)) ts with
    | some ((page, rows), []) =>
      if page == 0 then (d, "bad-op") else (d, sList toString (TickStream.streamTicks page rows))
    | _ => (d, "bad-op")
  | "c13table" :: ts =>
    match (do let kind ← tok; let run ← nat; let h ← counted (do let r ← nat; let x ← nat; pure (r, x)); pure (kind, run, h)) ts with
    | some ((kind, run, h), []) =>
      let sRow := fun (r : TickTable.Row) => s!"{r.seq}:{r.data}"
      if kind == "sql" then
        (d, sList sRow (TickTable.sqlGetTicks (TickTable.sqlRun GenReplay.sqlAppendCoalesce GenReplay.sqlAppendInc [] h) run))
      else if kind == "mem" then
        (d, sList sRow (TickTable.memGetTicks (TickTable.memRun GenReplay.memAppendFirst GenReplay.memAppendInc [] h) run))
      else (d, "bad-op")
    | _ => (d, "bad-op")
  | "pick" :: ts =>
    match (do let reg ← counted nat; let act ← counted nat; let res ← counted nat; let rows ← counted rowP
              pure (reg, act, res, rows)) ts with
    | some ((reg, act, res, rows), []) => (d, sList sPick (pickHandlers reg (fun r => res.contains r) act rows))
    | _ => (d, "bad-op")
  | _ =>
    let (e, out) := Drv.Engine.step d.eng line
    ({ d with eng := e }, out)

end Drv.Replay
