import WfModel.GenSseClient

/-!
# SseClient — the client's auto-reconnecting event stream (property C17)

Executable model of

* the server's choice of what to stream (`_resolve_event_stream`: 204 test on all remaining events,
  `include_internal` filter on the subscription) and its rendering as an SSE character stream, exactly as
  `_WorkflowAPI._stream_events.format_stream` frames it
  (`f"id: {sequence}\ndata: {payload}\n\n"`, heartbeat comments `": heartbeat\n\n"` in between,
  HTTP 204 when nothing is left and the run is complete; the literal pieces come from
  `Gen.SseClient`, re-extracted from the sources on every run);
* one connection = a prefix of that rendering cut after an arbitrary number of **bytes**
  (UTF-8; an incomplete trailing character never reaches the reader), or a refusal, a timeout,
  a bare status code;
* the client's line reader (`_iter_sse_lines`: lines end at the characters of
  `Gen.SseClient.lineBreaks`; the unterminated tail is dropped when the connection breaks and
  flushed at a clean end of stream) -- the splitter is a parameter of the model;
* the frame parser of `WorkflowClient.get_workflow_events.reader` (`strip`, `id:` / `data:`
  prefixes, `int(current_id)`, validation of the JSON before `last_sequence` moves, one queued
  event per `data:` line, unknown lines ignored);
* the reconnect loop: `after_sequence=str(last_sequence)`, `attempts` reset to 0 once a response
  with an acceptable status has arrived, `attempts += 1` per transport error,
  `ConnectionError` when `attempts > max_reconnect_attempts`, `TimeoutError` for timeouts,
  validation errors and HTTP status errors end the stream.

Not modelled: the `"now"` cursor, cancellation (`aclose`).
JSON validation (`EventEnvelopeWithMetadata.model_validate_json`) is the parameter `valid`.
-/

namespace SseClient
open Gen.SseClient

/-! ## text -/

/-- `str.isspace` (what `str.strip()` removes) -/
def isSpace (c : Char) : Bool := pySpace.contains c.toNat

def stripL (s : List Char) : List Char := s.dropWhile isSpace

/-- Python `str.strip()` -/
def strip (s : List Char) : List Char := (stripL (stripL s).reverse).reverse

/-- value of a decimal digit (any Unicode `Nd` character, as `int()` accepts them) -/
def digitVal? (c : Char) : Option Nat :=
  decimalRanges.findSome? fun r => if r.1 ≤ c.toNat && c.toNat ≤ r.2 then some ((c.toNat - r.1) % 10) else none

def isDigit (c : Char) : Bool := (digitVal? c).isSome

def digitChar (d : Nat) : Char := Char.ofNat (48 + d)

def decimalAux : Nat → Nat → List Char → List Char
  | 0, _, acc => acc
  | f + 1, n, acc =>
    if n < 10 then digitChar n :: acc else decimalAux f (n / 10) (digitChar (n % 10) :: acc)

/-- Python `str(n)` for a natural number -/
def decimal (n : Nat) : List Char := decimalAux (n + 1) n []

def valOf (ds : List Char) : Nat := ds.foldl (fun a c => a * 10 + (digitVal? c).getD 0) 0

/-- after the first digit: digits, with single underscores strictly between digits -/
def digitsTail : Bool → List Char → Bool
  | us, [] => !us
  | us, c :: cs =>
    if isDigit c then digitsTail false cs
    else if c == '_' && !us then digitsTail true cs
    else false

/-- what `int()` skips around the number: not quite `str.isspace` (U+001C..U+001F stay) -/
def isIntSpace (c : Char) : Bool := pyIntSpace.contains c.toNat

def stripIntL (s : List Char) : List Char := s.dropWhile isIntSpace

def stripInt (s : List Char) : List Char := (stripIntL (stripIntL s).reverse).reverse

/-- Python `int(s)`: surrounding whitespace (its own notion), an optional sign, decimal digits (of
any script) with single underscores between them. -/
def pyInt? (s : List Char) : Option Int :=
  let t := stripInt s
  let neg := t.head? == some '-'
  let body := if t.head? == some '-' || t.head? == some '+' then t.tail else t
  match body with
  | [] => none
  | c :: cs =>
    if isDigit c && digitsTail false cs then
      let v : Int := (valOf (body.filter isDigit) : Nat)
      some (if neg then -v else v)
    else none

/-! ## server side -/

structure Ev where
  seq : Nat
  payload : List Char
  terminal : Bool
  /-- `InternalDispatchEvent` is the envelope's type or among its `types` -/
  internal : Bool := false
  deriving DecidableEq, Repr

structure Server where
  log : List Ev
  /-- the handler's persisted status is terminal -/
  statusDone : Bool := false
  /-- the `include_internal` query flag of the stream's requests (the reader sends the same one
  on every connection) -/
  inclInternal : Bool := true
  deriving Repr

/-- `subscribe_events`: stop right after the first terminal event -/
def takeThrough (p : α → Bool) : List α → List α
  | [] => []
  | x :: xs => if p x then [x] else x :: takeThrough p xs

/-- `query_events(run_id, after_sequence=c)` -/
def Server.later (s : Server) (c : Int) : List Ev := s.log.filter fun e => c < (e.seq : Int)

def Server.complete (s : Server) : Bool :=
  s.statusDone || (match s.log.getLast? with | some e => e.terminal | none => false)

/-- one SSE frame -/
def frame (e : Ev) : List Char := framePre ++ decimal e.seq ++ frameMid ++ e.payload ++ framePost

def beats (n : Nat) : List Char := (List.replicate n heartbeat).flatten

/-- the body: before the i-th frame, `hb[i]` heartbeat comments (absent entries are 0);
after the last frame `hb[len]` more -/
def render : List Ev → List Nat → List Char
  | [], hb => beats (hb.headD 0)
  | e :: es, hb => beats (hb.headD 0) ++ frame e ++ render es hb.tail

inductive Resp where
  | status (code : Nat)
  | stream (body : List Char) (closes : Bool)
  deriving Repr, DecidableEq

/-- `event_gen` of `_resolve_event_stream`: `if not include_internal and "InternalDispatchEvent" in types: continue` -/
def Server.shows (s : Server) (e : Ev) : Bool := s.inclInternal || !e.internal

/-- `_stream_events` + `_resolve_event_stream` for a numeric cursor: the 204 test looks at all the
remaining events, the subscription ends with the first terminal one, internal events are left
out of the frames unless asked for -/
def Server.serve (s : Server) (c : Int) (hb : List Nat) : Resp :=
  let later := s.later c
  if later.isEmpty && s.complete then .status 204
  else
    let evs := takeThrough (·.terminal) later
    .stream (render (evs.filter s.shows) hb) (evs.any (·.terminal))

/-! ## transport -/

def utf8Len (c : Char) : Nat :=
  if c.toNat < 0x80 then 1 else if c.toNat < 0x800 then 2 else if c.toNat < 0x10000 then 3 else 4

/-- the characters that are complete within the first `n` bytes of the UTF-8 encoding -/
def takeBytes : Nat → List Char → List Char
  | _, [] => []
  | n, c :: cs => if utf8Len c ≤ n then c :: takeBytes (n - utf8Len c) cs else []

inductive Fault where
  /-- nothing goes wrong on this connection -/
  | none
  /-- transport error before any response (`httpx.ConnectError`) -/
  | refuse
  /-- response arrives, `n` body bytes are delivered, then `httpx.ReadError` -/
  | dropAt (n : Nat)
  /-- `httpx.ConnectTimeout` -/
  | timeoutConn
  /-- `n` body bytes, then `httpx.ReadTimeout` -/
  | timeoutAt (n : Nat)
  /-- the peer answers with this status code instead -/
  | status (code : Nat)
  deriving Repr, DecidableEq

structure Conn where
  fault : Fault
  hb : List Nat := []
  /-- malformed-stream runs: answer with this instead of asking the server model -/
  raw : Option Resp := none
  deriving Repr

/-! ## the reader -/

/-- complete lines and the unterminated tail -/
def splitLines (brk : Char → Bool) : List Char → List (List Char) × List Char
  | [] => ([], [])
  | c :: cs =>
    let r := splitLines brk cs
    if brk c then ([] :: r.1, r.2)
    else match r.1 with
      | [] => ([], c :: r.2)
      | l :: ls => ((c :: l) :: ls, r.2)

/-- the reader of the current sources ends a line at these characters -/
def isBreak (c : Char) : Bool := lineBreaks.contains c

structure RState where
  cur : Option (List Char) := none
  last : Int
  /-- queued `(sequence, data)` items, oldest first -/
  out : List (Int × List Char) := []
  err : Bool := false
  deriving Repr

def procLine (valid : List Char → Bool) (s : RState) (line : List Char) : RState :=
  if s.err then s else
  let t := strip line
  if t.isEmpty then s
  else if idTag.isPrefixOf t then { s with cur := some (strip (t.drop idSkip)) }
  else if dataTag.isPrefixOf t then
    let d := strip (t.drop dataSkip)
    if valid d then
      let last' := match s.cur with
        | some i => (pyInt? i).getD s.last
        | none => s.last
      { s with last := last', out := s.out ++ [(last', d)], cur := none }
    else { s with err := true }
  else s

def procLines (valid : List Char → Bool) (s : RState) (ls : List (List Char)) : RState :=
  ls.foldl (procLine valid) s

/-! ## the reconnect loop -/

inductive Res where
  | done | pending | more
  | errConn | errTimeout | errParse | errStatus | errNotFound
  deriving Repr, DecidableEq

structure Params where
  valid : List Char → Bool
  brk : Char → Bool
  maxR : Nat

structure CState where
  last : Int
  attempts : Nat := 0
  out : List (Int × List Char) := []
  /-- the `after_sequence` values sent, oldest first -/
  reqs : List Int := []
  deriving Repr, DecidableEq

def fail (maxR : Nat) (st : CState) (a : Nat) : CState × Option Res :=
  ({ st with attempts := a + 1 }, if a + 1 > maxR then some .errConn else none)

def onStatus (st : CState) (code : Nat) : CState × Option Res :=
  if code = 404 then (st, some .errNotFound)
  else if code = 204 then (st, some .done)
  else if 200 ≤ code ∧ code < 300 then ({ st with attempts := 0 }, some .done)
  else (st, some .errStatus)

/-- one pass through the `while True` body of `reader`; `none` = go round again -/
def connect (P : Params) (st0 : CState) (resp : Resp) (f : Fault) : CState × Option Res :=
  let st := { st0 with reqs := st0.reqs ++ [st0.last] }
  match f with
  | .refuse => fail P.maxR st st.attempts
  | .timeoutConn => (st, some .errTimeout)
  | .status code => onStatus st code
  | _ =>
    match resp with
    | .status code => onStatus st code
    | .stream body closes =>
      let delivered := match f with
        | .dropAt n => takeBytes n body
        | .timeoutAt n => takeBytes n body
        | _ => body
      let sp := splitLines P.brk delivered
      let eof := f == .none && closes
      let ls := if eof && !sp.2.isEmpty then sp.1 ++ [sp.2] else sp.1
      let s := procLines P.valid { last := st.last, out := st.out } ls
      let st := { st with last := s.last, out := s.out, attempts := 0 }
      if s.err then (st, some .errParse)
      else match f with
        | .dropAt _ => fail P.maxR st 0
        | .timeoutAt _ => (st, some .errTimeout)
        | _ => (st, some (if closes then .done else .pending))

def respFor (srv : Server) (st : CState) (c : Conn) : Resp :=
  c.raw.getD (srv.serve st.last c.hb)

/-- the scripted connections, one after the other; `.more` = script exhausted while the reader
is about to connect again -/
def run (P : Params) (srv : Server) : CState → List Conn → CState × Res
  | st, [] => (st, .more)
  | st, c :: cs =>
    match connect P st (respFor srv st c) c.fault with
    | (st', some r) => (st', r)
    | (st', none) => run P srv st' cs

/-! ## a log that grows while the client is streaming -/

/-- The scripted connections, each paired with the run's log (and handler status) as the server
knows it by the time that connection ends: events appended between two connections, or while a
connection is open, show up in the later snapshot.  `run` is the special case of one constant
snapshot. -/
def runLive (P : Params) : CState → List (Server × Conn) → CState × Res
  | st, [] => (st, .more)
  | st, (srv, c) :: cs =>
    match connect P st (respFor srv st c) c.fault with
    | (st', some r) => (st', r)
    | (st', none) => runLive P st' cs

/-! ## the client's own line iterator, chunk by chunk -/

/-- `_iter_sse_lines`, one pass of `async for text in response.aiter_text()`:
`buffer += text; *lines, buffer = buffer.split(sep)` -- the complete lines are yielded, the
unterminated rest is kept -/
def feedChunk (brk : Char → Bool) (buffer text : List Char) : List (List Char) × List Char :=
  splitLines brk (buffer ++ text)

/-- all the lines yielded while the chunks arrive, and the buffer that is left -/
def iterLines (brk : Char → Bool) : List Char → List (List Char) → List (List Char) × List Char
  | buffer, [] => ([], buffer)
  | buffer, text :: rest =>
    let r := feedChunk brk buffer text
    let r' := iterLines brk r.2 rest
    (r.1 ++ r'.1, r'.2)

/-- what the frame parser is fed from one connection whose decoded text arrived in `chunks`:
the trailing `if buffer: yield buffer` runs only when `aiter_text` ends without an exception -/
def chunkedLines (brk : Char → Bool) (eof : Bool) (chunks : List (List Char)) : List (List Char) :=
  let r := iterLines brk [] chunks
  if eof && !r.2.isEmpty then r.1 ++ [r.2] else r.1

/-! ## the two ends of the cursor -/

/-- Python `str(n)` of an `int`: what the reader sends as `after_sequence` -/
def pyStr (n : Int) : List Char := if n < 0 then '-' :: decimal n.natAbs else decimal n.natAbs

/-- `EventStream._iterate`: `self._last_sequence = item.sequence` right before `yield item.event`;
`last_sequence` as the consumer reads it once `k` items have been yielded -/
def streamLast (init : Int) (queued : List (Int × List Char)) (k : Nat) : Int :=
  ((queued.take k).getLast?.map (·.1)).getD init

/-! ## what should come out -/

/-- events after `c0` through the first terminal one, those the `include_internal` flag lets through -/
def expected (srv : Server) (c0 : Int) : List Ev := (takeThrough (·.terminal) (srv.later c0)).filter srv.shows

/-- what the stream yields for an event, with the `last_sequence` it shows afterwards -/
def emit (evs : List Ev) : List (Int × List Char) := evs.map fun e => ((e.seq : Int), e.payload)

def lastOf (c : Int) (evs : List Ev) : Int :=
  match evs.getLast? with
  | some e => e.seq
  | none => c

/-- the failure counter after one more failed connection -/
def Fault.counter (a : Nat) : Fault → Nat
  | .refuse => a + 1
  | .dropAt _ => 1
  | _ => a

/-- the highest value the failure counter reaches along a script, starting from `a` -/
def peakFailures : Nat → List Fault → Nat
  | a, [] => a
  | a, f :: fs => max a (peakFailures (f.counter a) fs)

end SseClient
