import WfProofs.SerialLemmas
/-!
Time erasure for the reducer (shared by C11/C13 — replay of the tick log — and C14 — reload at
another clock).

Replay (`replay_ticks_stream`) runs `_reduce_tick` at the clock of the replay, not at the clock at
which the tick was processed.  The reducer's clock enters the state in one place,
`first_attempt_at` of a freshly started in-progress invocation (`first_attempt_at or now`).  From
there the value travels with the invocation: into the waiter it registers when it suspends in
`ctx.wait_for_event` (the repair of C08/lineage_suspended_in_wait keeps the attempt record there),
into the attempt that replays the waiter (queued or started) and into the retry it schedules.  It
is read back only as the `elapsed_time` handed to the retry policy and in time fields of commands.

Hence: for retry policies that do not look at the elapsed time, two states that agree up to
*every* `first_attempt_at` (queued attempts, in-progress invocations and their waiter snapshots,
waiters) are mapped, by the same tick at two different clocks, to two states that agree in the
same sense, and the two command lists agree up to time-derived payloads (`cE`).  Serialisation
keeps the relation.
-/
set_option linter.unusedVariables false
set_option linter.unusedSimpArgs false

namespace Engine

/-- the policy's decision does not depend on the elapsed time (attempt-count based policies) -/
def TimeFree (pol : Policy) : Prop := ∀ s e e' f x, pol s e f x = pol s e' f x

def eraseA (a : Attempt) : Attempt := { a with firstAt := none }
def eraseW (w : Waiter) : Waiter := { w with firstAt := none }
def eraseIP (ip : InProg) : InProg := { ip with firstAt := 0, snapWaiters := ip.snapWaiters.map eraseW }

/-- agreement of two step states up to `first_attempt_at` -/
structure SimSS (a b : StepState) : Prop where
  queue : a.queue.map eraseA = b.queue.map eraseA
  collected : a.collected = b.collected
  waiters : a.waiters.map eraseW = b.waiters.map eraseW
  inProg : a.inProg.map eraseIP = b.inProg.map eraseIP

structure SimSt (a b : State) : Prop where
  running : a.isRunning = b.isRunning
  workers : ∀ n, SimSS (a.workers n) (b.workers n)

/-- commands up to time-derived payloads (retry info of re-queued events, elapsed seconds in
failure telemetry); exit commands and the crash marker are kept as they are -/
def cE : Cmd → Cmd
  | .queueEvent _ _ _ => .scheduleIdleCheck
  | .publish _ => .scheduleIdleCheck
  | c => c

theorem SimSS.refl (a : StepState) : SimSS a a := ⟨rfl, rfl, rfl, rfl⟩
theorem SimSt.refl (a : State) : SimSt a a := ⟨rfl, fun _ => SimSS.refl _⟩
theorem SimSS.symm {a b : StepState} (h : SimSS a b) : SimSS b a :=
  ⟨h.queue.symm, h.collected.symm, h.waiters.symm, h.inProg.symm⟩
theorem SimSt.symm {a b : State} (h : SimSt a b) : SimSt b a :=
  ⟨h.running.symm, fun n => (h.workers n).symm⟩
theorem SimSS.trans {a b c : StepState} (h : SimSS a b) (g : SimSS b c) : SimSS a c :=
  ⟨h.queue.trans g.queue, h.collected.trans g.collected, h.waiters.trans g.waiters, h.inProg.trans g.inProg⟩
theorem SimSt.trans {a b c : State} (h : SimSt a b) (g : SimSt b c) : SimSt a c :=
  ⟨h.running.trans g.running, fun n => (h.workers n).trans (g.workers n)⟩

theorem SimSS.length {a b : StepState} (h : SimSS a b) : a.inProg.length = b.inProg.length := by
  have := congrArg List.length h.inProg
  simpa using this

theorem SimSS.queueLength {a b : StepState} (h : SimSS a b) : a.queue.length = b.queue.length := by
  have := congrArg List.length h.queue
  simpa using this

theorem SimSS.wids {a b : StepState} (h : SimSS a b) : usedIds a = usedIds b := by
  have := congrArg (List.map (·.wid)) h.inProg
  simpa [Engine.usedIds, List.map_map, Function.comp_def, eraseIP] using this

theorem SimSS.freeIds {a b : StepState} (h : SimSS a b) (nw : Nat) : freeIds a nw = freeIds b nw := by
  simp [Engine.freeIds, h.wids]

theorem SimSS.isEmpty {a b : StepState} (h : SimSS a b) : a.inProg.isEmpty = b.inProg.isEmpty := by
  have := h.length
  cases ha : a.inProg <;> cases hb : b.inProg <;> simp_all

theorem SimSS.queueIsEmpty {a b : StepState} (h : SimSS a b) : a.queue.isEmpty = b.queue.isEmpty := by
  have := h.queueLength
  cases ha : a.queue <;> cases hb : b.queue <;> simp_all

theorem SimSt.set {a b : State} (h : SimSt a b) (s : Nat) {x y : StepState} (hx : SimSS x y) :
    SimSt (a.set s x) (b.set s y) := by
  refine ⟨h.running, fun n => ?_⟩
  simp only [State.set]
  split
  · exact hx
  · exact h.workers n

/-! ### what erased equality of attempts, waiters and invocations says -/

theorem eraseA_eq {x y : Attempt} (h : eraseA x = eraseA y) :
    x.ev = y.ev ∧ x.attempts = y.attempts ∧ x.lastExc = y.lastExc ∧ x.lastFailedAt = y.lastFailedAt ∧
      x.rc = y.rc :=
  ⟨(congrArg Attempt.ev h : (eraseA x).ev = (eraseA y).ev), (congrArg Attempt.attempts h : (eraseA x).attempts = (eraseA y).attempts), (congrArg Attempt.lastExc h : (eraseA x).lastExc = (eraseA y).lastExc),
    (congrArg Attempt.lastFailedAt h : (eraseA x).lastFailedAt = (eraseA y).lastFailedAt), (congrArg Attempt.rc h : (eraseA x).rc = (eraseA y).rc)⟩

theorem eraseW_eq {x y : Waiter} (h : eraseW x = eraseW y) :
    x.wid = y.wid ∧ x.ev = y.ev ∧ x.waitTy = y.waitTy ∧ x.req = y.req ∧ x.hasReq = y.hasReq ∧
      x.resolved = y.resolved ∧ x.timedOut = y.timedOut ∧ x.attempts = y.attempts ∧ x.lastExc = y.lastExc ∧
      x.lastFailedAt = y.lastFailedAt ∧ x.rc = y.rc :=
  ⟨(congrArg Waiter.wid h : (eraseW x).wid = (eraseW y).wid), (congrArg Waiter.ev h : (eraseW x).ev = (eraseW y).ev), (congrArg Waiter.waitTy h : (eraseW x).waitTy = (eraseW y).waitTy), (congrArg Waiter.req h : (eraseW x).req = (eraseW y).req),
    (congrArg Waiter.hasReq h : (eraseW x).hasReq = (eraseW y).hasReq), (congrArg Waiter.resolved h : (eraseW x).resolved = (eraseW y).resolved), (congrArg Waiter.timedOut h : (eraseW x).timedOut = (eraseW y).timedOut),
    (congrArg Waiter.attempts h : (eraseW x).attempts = (eraseW y).attempts), (congrArg Waiter.lastExc h : (eraseW x).lastExc = (eraseW y).lastExc), (congrArg Waiter.lastFailedAt h : (eraseW x).lastFailedAt = (eraseW y).lastFailedAt),
    (congrArg Waiter.rc h : (eraseW x).rc = (eraseW y).rc)⟩

theorem eraseIP_eq {x y : InProg} (h : eraseIP x = eraseIP y) :
    x.ev = y.ev ∧ x.wid = y.wid ∧ x.snapEvents = y.snapEvents ∧
      x.snapWaiters.map eraseW = y.snapWaiters.map eraseW ∧
      x.attempts = y.attempts ∧ x.lastExc = y.lastExc ∧ x.lastFailedAt = y.lastFailedAt ∧ x.rc = y.rc :=
  ⟨(congrArg InProg.ev h : (eraseIP x).ev = (eraseIP y).ev), (congrArg InProg.wid h : (eraseIP x).wid = (eraseIP y).wid), (congrArg InProg.snapEvents h : (eraseIP x).snapEvents = (eraseIP y).snapEvents),
    (congrArg InProg.snapWaiters h : (eraseIP x).snapWaiters = (eraseIP y).snapWaiters), (congrArg InProg.attempts h : (eraseIP x).attempts = (eraseIP y).attempts), (congrArg InProg.lastExc h : (eraseIP x).lastExc = (eraseIP y).lastExc),
    (congrArg InProg.lastFailedAt h : (eraseIP x).lastFailedAt = (eraseIP y).lastFailedAt), (congrArg InProg.rc h : (eraseIP x).rc = (eraseIP y).rc)⟩

theorem eraseW_wid (w : Waiter) : (eraseW w).wid = w.wid := rfl
theorem eraseIP_wid (ip : InProg) : (eraseIP ip).wid = ip.wid := rfl

theorem replay_erase {x y : Waiter} (h : eraseW x = eraseW y) : eraseA x.replay = eraseA y.replay := by
  obtain ⟨_, h2, _, _, _, _, _, h8, h9, h10, h11⟩ := eraseW_eq h
  simp only [eraseA, Waiter.replay, h2, h8, h9, h10, h11]

theorem waiterMatches_erase {x y : Waiter} (h : eraseW x = eraseW y) (ev : Ev) :
    waiterMatches x ev = waiterMatches y ev := by
  obtain ⟨_, _, h3, h4, _, h6, h7, _⟩ := eraseW_eq h
  simp only [waiterMatches, h3, h4, h6, h7]

theorem newWaiter_erase {x y : InProg} (h : eraseIP x = eraseIP y) (wid ty : Nat) (req : Option Nat) :
    eraseW (newWaiter x wid ty req) = eraseW (newWaiter y wid ty req) := by
  obtain ⟨h1, _, _, _, h5, h6, h7, h8⟩ := eraseIP_eq h
  simp only [eraseW, newWaiter, h1, h5, h6, h7, h8]

theorem map_modifyFirst {α β : Type} (g : α → β) (p : α → Bool) (p' : β → Bool) (f : α → α) (f' : β → β)
    (hp : ∀ x, p' (g x) = p x) (hf : ∀ x, g (f x) = f' (g x)) :
    ∀ (l : List α), (modifyFirst p f l).map g = modifyFirst p' f' (l.map g)
  | [] => rfl
  | x :: xs => by
    simp only [modifyFirst, List.map_cons, hp]
    split
    · simp [hf]
    · simp [map_modifyFirst g p p' f f' hp hf xs]

theorem map_modifyFirst_eraseW (wid : Nat) (f f' : Waiter → Waiter) (hf : ∀ x, eraseW (f x) = f' (eraseW x))
    (l : List Waiter) :
    (modifyFirst (fun x => x.wid == wid) f l).map eraseW = modifyFirst (fun x => x.wid == wid) f' (l.map eraseW) :=
  map_modifyFirst eraseW (fun x => x.wid == wid) (fun x => x.wid == wid) f f' (fun _ => rfl) hf l

theorem map_modifyFirst_eraseIP (k : Nat) (f f' : InProg → InProg) (hf : ∀ x, eraseIP (f x) = f' (eraseIP x))
    (l : List InProg) :
    (modifyFirst (fun x => x.wid == k) f l).map eraseIP = modifyFirst (fun x => x.wid == k) f' (l.map eraseIP) :=
  map_modifyFirst eraseIP (fun x => x.wid == k) (fun x => x.wid == k) f f' (fun _ => rfl) hf l

theorem cons_of_map_eq_cons {α β : Type} (g : α → β) {x : α} {xs l : List α}
    (h : (x :: xs).map g = l.map g) : ∃ y ys, l = y :: ys ∧ g x = g y ∧ xs.map g = ys.map g := by
  cases l with
  | nil => simp at h
  | cons y ys =>
    simp only [List.map_cons, List.cons.injEq] at h
    exact ⟨y, ys, rfl, h.1, h.2⟩

theorem nil_of_map_eq_nil {α β : Type} (g : α → β) {l : List α} (h : ([] : List α).map g = l.map g) : l = [] := by
  cases l with
  | nil => rfl
  | cons y ys => simp at h

/-! ### `_add_or_enqueue_event`, the queue drain, waiter resolution -/

theorem addOrEnqueue_sim {att att' : Attempt} (hatt : eraseA att = eraseA att') (step : Nat) {a b : StepState}
    (nw : Nat) (n n' : Int) (h : SimSS a b) :
    SimSS (addOrEnqueue att step a nw n).1 (addOrEnqueue att' step b nw n').1 ∧
      (addOrEnqueue att step a nw n).2 = (addOrEnqueue att' step b nw n').2 := by
  obtain ⟨e1, e2, e3, e4, e5⟩ := eraseA_eq hatt
  unfold addOrEnqueue
  rw [h.length, h.freeIds nw]
  split
  · split
    · refine ⟨⟨h.queue, h.collected, h.waiters, ?_⟩, by rw [e1]⟩
      simp only [List.map_append, h.inProg, List.map_cons, List.map_nil, eraseIP, h.collected, h.waiters,
        e1, e2, e3, e4, e5]
    · exact ⟨h, rfl⟩
  · refine ⟨⟨?_, h.collected, h.waiters, h.inProg⟩, by rw [e1]⟩
    simp only [List.map_append, h.queue, List.map_cons, List.map_nil, hatt]

theorem drain_sim (step nw : Nat) (n n' : Int) : ∀ (fuel : Nat) {a b : StepState}, SimSS a b →
    SimSS (drain step nw n fuel a).1 (drain step nw n' fuel b).1 ∧
      (drain step nw n fuel a).2 = (drain step nw n' fuel b).2
  | 0, a, b, h => by simpa [drain] using h
  | fuel + 1, a, b, h => by
    unfold drain
    have hq := h.queue
    cases ha : a.queue with
    | nil =>
      rw [ha] at hq
      rw [nil_of_map_eq_nil eraseA hq]
      exact ⟨h, rfl⟩
    | cons x q =>
      rw [ha] at hq
      obtain ⟨y, q', hb, hxy, hqq⟩ := cons_of_map_eq_cons eraseA hq
      rw [hb]
      simp only
      rw [h.length]
      split
      · have hab : SimSS { a with queue := q } { b with queue := q' } := ⟨hqq, h.collected, h.waiters, h.inProg⟩
        obtain ⟨h1, c1⟩ := addOrEnqueue_sim hxy step nw n n' hab
        obtain ⟨h2, c2⟩ := drain_sim step nw n n' fuel h1
        exact ⟨h2, by rw [c1, c2]⟩
      · exact ⟨h, rfl⟩

theorem resolveLoop_sim (ev : Ev) (step nw : Nat) (n n' : Int) :
    ∀ (rest rest' done done' : List Waiter) {a b : StepState} (cmds : List Cmd) (hd : Bool),
      rest.map eraseW = rest'.map eraseW → done.map eraseW = done'.map eraseW → SimSS a b →
      SimSS (resolveLoop ev step nw n done rest a cmds hd).1 (resolveLoop ev step nw n' done' rest' b cmds hd).1 ∧
        (resolveLoop ev step nw n done rest a cmds hd).2 = (resolveLoop ev step nw n' done' rest' b cmds hd).2
  | [], rest', done, done', a, b, cmds, hd, hr, hdn, h => by
    rw [nil_of_map_eq_nil eraseW hr]
    simp only [resolveLoop, and_true]
    exact ⟨h.queue, h.collected, hdn, h.inProg⟩
  | x :: rest, rest', done, done', a, b, cmds, hd, hr, hdn, h => by
    obtain ⟨y, rest'', hb, hxy, hrr⟩ := cons_of_map_eq_cons eraseW hr
    subst hb
    unfold resolveLoop
    rw [waiterMatches_erase hxy ev]
    have hres : eraseW { x with resolved := some ev } = eraseW { y with resolved := some ev } := by
      obtain ⟨h1, h2, h3, h4, h5, _, h7, h8, h9, h10, h11⟩ := eraseW_eq hxy
      simp only [eraseW, h1, h2, h3, h4, h5, h7, h8, h9, h10, h11]
    split
    · have hab : SimSS { a with waiters := done ++ { x with resolved := some ev } :: rest }
          { b with waiters := done' ++ { y with resolved := some ev } :: rest'' } :=
        ⟨h.queue, h.collected, by simp only [List.map_append, List.map_cons, hdn, hres, hrr], h.inProg⟩
      obtain ⟨h1, c1⟩ := addOrEnqueue_sim (replay_erase hxy) step nw n n' hab
      simp only [c1]
      exact resolveLoop_sim ev step nw n n' rest rest'' _ _ _ true hrr
        (by simp only [List.map_append, List.map_cons, List.map_nil, hdn, hres]) h1
    · exact resolveLoop_sim ev step nw n n' rest rest'' _ _ cmds hd hrr
        (by simp only [List.map_append, List.map_cons, List.map_nil, hdn, hxy]) h

/-! ### `_process_add_event_tick` -/

structure SimAdd (x y : AddAcc) : Prop where
  st : SimSt x.st y.st
  cmds : x.cmds = y.cmds
  handled : x.handled = y.handled
  woken : x.woken = y.woken

theorem addEventWaiters_sim (cfg : Cfg) (ev : Ev) (target : Option Nat) (n n' : Int) :
    ∀ (cs : List StepCfg) {a b : AddAcc}, SimAdd a b →
      SimAdd (addEventWaiters cfg ev target n cs a) (addEventWaiters cfg ev target n' cs b)
  | [], a, b, h => by simpa [addEventWaiters] using h
  | c :: cs, a, b, h => by
    unfold addEventWaiters
    split
    · exact addEventWaiters_sim cfg ev target n n' cs h
    · simp only []
      have hs := h.st.workers c.name
      obtain ⟨h1, c1⟩ := resolveLoop_sim ev c.name c.numWorkers n n' (a.st.workers c.name).waiters
        (b.st.workers c.name).waiters [] [] [] false hs.waiters rfl hs
      apply addEventWaiters_sim cfg ev target n n' cs
      rw [c1]
      split
      · exact ⟨h.st.set c.name h1, by rw [h.cmds], rfl, by rw [h.woken]⟩
      · exact h

theorem addEventRoute_sim (att : Attempt) (target : Option Nat) (n n' : Int) :
    ∀ (cs : List StepCfg) {a b : AddAcc}, SimAdd a b →
      SimAdd (addEventRoute att target n cs a) (addEventRoute att target n' cs b)
  | [], a, b, h => by simpa [addEventRoute] using h
  | c :: cs, a, b, h => by
    unfold addEventRoute
    rw [← h.woken]
    split
    · exact addEventRoute_sim att target n n' cs h
    · split
      · obtain ⟨h1, c1⟩ := addOrEnqueue_sim (rfl : eraseA att = eraseA att) c.name c.numWorkers n n'
          (h.st.workers c.name)
        apply addEventRoute_sim att target n n' cs
        exact ⟨h.st.set c.name h1, by rw [h.cmds, c1], rfl, rfl⟩
      · exact addEventRoute_sim att target n n' cs h

theorem stepQuiet_sim {a b : StepState} (h : SimSS a b) : stepQuiet a = stepQuiet b := by
  simp only [stepQuiet, h.queueIsEmpty, h.isEmpty]

theorem checkIdle_sim (cfg : Cfg) {a b : State} (h : SimSt a b) : checkIdle cfg a = checkIdle cfg b := by
  unfold checkIdle
  rw [h.running]
  congr 1
  apply List.all_congr rfl
  intro s
  exact stepQuiet_sim (h.workers s)

theorem addEventStart_sim (att : Attempt) {a b : State} (h : SimSt a b) :
    SimSt (addEventStart att a) (addEventStart att b) := by
  unfold addEventStart
  split
  · exact ⟨rfl, h.workers⟩
  · exact h

theorem processAddEvent_sim (cfg : Cfg) (att : Attempt) (target : Option Nat) {a b : State} (n n' : Int)
    (h : SimSt a b) :
    SimSt (processAddEvent cfg att target a n).1 (processAddEvent cfg att target b n').1 ∧
      (processAddEvent cfg att target a n).2 = (processAddEvent cfg att target b n').2 := by
  have h0 : SimAdd { st := addEventStart att a } { st := addEventStart att b } :=
    ⟨addEventStart_sim att h, rfl, rfl, rfl⟩
  have h1 := addEventWaiters_sim cfg att.ev target n n' cfg.steps h0
  have h2 := addEventRoute_sim att target n n' cfg.steps h1
  simp only [processAddEvent]
  refine ⟨h2.st, ?_⟩
  rw [h2.cmds]
  congr 1
  unfold unhandledCmds
  rw [h2.handled, checkIdle_sim cfg h2.st]

/-! ### `_process_step_result_tick` -/

structure SimAcc (x y : ResAcc) : Prop where
  st : SimSt x.st y.st
  cmds : x.cmds.map cE = y.cmds.map cE
  out : x.out = y.out
  still : x.stillInProgress = y.stillInProgress
  exec : eraseIP x.exec = eraseIP y.exec

theorem retryDecision_timeFree (cfg : Cfg) {pol : Policy} (hpol : TimeFree pol) (step : Nat) (e e' : Int)
    (f x : Nat) : retryDecision cfg pol step e f x = retryDecision cfg pol step e' f x := by
  unfold retryDecision
  split
  · split
    · exact hpol _ _ _ _ _
    · rfl
  · rfl

theorem clearAll_sim {a b : State} (h : SimSt a b) :
    SimSt (clearAll { a with isRunning := false }) (clearAll { b with isRunning := false }) := by
  refine ⟨rfl, fun n => ?_⟩
  have := h.workers n
  exact ⟨this.queue, rfl, rfl, this.inProg⟩

theorem any_wid_erase (wid : Nat) (l : List Waiter) :
    (l.map eraseW).any (fun x => x.wid == wid) = l.any (fun x => x.wid == wid) := by
  simp [List.any_map, Function.comp_def, eraseW]

theorem applyRes_sim (cfg : Cfg) {pol : Policy} (hpol : TimeFree pol) (step : Nat) (tickEv : Ev) (dc : Bool)
    {a b : ResAcc} (h : SimAcc a b) (res : Res) :
    SimAcc (applyRes cfg pol step tickEv dc a res) (applyRes cfg pol step tickEv dc b res) := by
  obtain ⟨e1, e2, e3, e4, e5, e6, e7, e8⟩ := eraseIP_eq h.exec
  have hs := h.st.workers step
  cases res with
  | result r =>
    cases r with
    | none => exact ⟨h.st, h.cmds, rfl, h.still, h.exec⟩
    | some ev =>
      simp only [applyRes]
      split
      · exact ⟨clearAll_sim h.st, by simp [List.map_append, h.cmds], rfl, h.still, h.exec⟩
      · exact ⟨h.st, by simp [List.map_append, h.cmds, cE], rfl, h.still, h.exec⟩
  | failed exc failedAt =>
    simp only [applyRes]
    by_cases hb : b.stillInProgress = true
    · have ha : a.stillInProgress = true := h.still.trans hb
      simp only [ha, hb, ↓reduceIte]
      exact h
    have ha : ¬ a.stillInProgress = true := fun hx => hb (h.still.symm.trans hx)
    rw [if_neg ha, if_neg hb]
    rw [retryDecision_timeFree cfg hpol step (failedAt - a.exec.firstAt) (failedAt - b.exec.firstAt), e5]
    cases retryDecision cfg pol step (failedAt - b.exec.firstAt) (b.exec.attempts + 1) exc with
    | retry d => exact ⟨h.st, by simp [List.map_append, h.cmds, cE], h.out, h.still, h.exec⟩
    | raise | stop =>
      simp only
      cases handlerOwner cfg step with
      | none =>
        exact ⟨⟨rfl, h.st.workers⟩, by simp [List.map_append, h.cmds, cE], h.out, h.still, h.exec⟩
      | some hm =>
        obtain ⟨hh, maxRec⟩ := hm
        simp only [e8]
        split
        · exact ⟨h.st, by simp [List.map_append, h.cmds, cE], h.out, h.still, h.exec⟩
        · exact ⟨⟨rfl, h.st.workers⟩, by simp [List.map_append, h.cmds, cE], h.out, h.still, h.exec⟩
  | addCollected buf ev =>
    simp only [applyRes, hs.collected, e3, e2, h.still]
    split
    · exact h
    split
    · refine ⟨h.st.set step ⟨hs.queue, rfl, hs.waiters, hs.inProg⟩, by simp [List.map_append, h.cmds, cE],
        h.out, rfl, ?_⟩
      simp only [eraseIP, InProg.mk.injEq, e1, e2, e4, e5, e6, e7, e8, and_self]
    · exact ⟨h.st.set step ⟨hs.queue, rfl, hs.waiters, hs.inProg⟩, h.cmds, h.out, rfl, h.exec⟩
  | deleteCollected buf =>
    simp only [applyRes]
    split
    · exact ⟨h.st.set step ⟨hs.queue, by rw [hs.collected], hs.waiters, hs.inProg⟩, h.cmds, h.out, h.still, h.exec⟩
    · exact h
  | addWaiter wid waiterEv req timeout ty =>
    have hnew := newWaiter_erase h.exec wid ty req
    have hany : (a.st.workers step).waiters.any (fun x => x.wid == wid) =
        (b.st.workers step).waiters.any (fun x => x.wid == wid) := by
      rw [← any_wid_erase wid (a.st.workers step).waiters, hs.waiters, any_wid_erase]
    simp only [applyRes, hany]
    split
    · have hw : (modifyFirst (fun x => x.wid == wid) (fun _ => newWaiter a.exec wid ty req)
            (a.st.workers step).waiters).map eraseW =
          (modifyFirst (fun x => x.wid == wid) (fun _ => newWaiter b.exec wid ty req)
            (b.st.workers step).waiters).map eraseW := by
        rw [map_modifyFirst_eraseW wid _ (fun _ => eraseW (newWaiter a.exec wid ty req)) (fun _ => rfl),
            map_modifyFirst_eraseW wid _ (fun _ => eraseW (newWaiter b.exec wid ty req)) (fun _ => rfl),
            hs.waiters, hnew]
      exact ⟨h.st.set step ⟨hs.queue, hs.collected, hw, hs.inProg⟩, h.cmds, h.out, h.still, h.exec⟩
    · refine ⟨h.st.set step ⟨hs.queue, hs.collected, ?_, hs.inProg⟩, by simp [List.map_append, h.cmds],
        h.out, h.still, h.exec⟩
      simp only [List.map_append, List.map_cons, List.map_nil, hs.waiters, hnew]
  | deleteWaiter wid =>
    simp only [applyRes]
    split
    · refine ⟨h.st.set step ⟨hs.queue, hs.collected, ?_, hs.inProg⟩, h.cmds, h.out, h.still, h.exec⟩
      have e : ∀ l : List Waiter, (l.eraseP (fun x => x.wid == wid)).map eraseW =
          (l.map eraseW).eraseP (fun x => x.wid == wid) := by
        intro l; rw [List.eraseP_map]; rfl
      rw [e, e, hs.waiters]
    · exact h

theorem foldl_applyRes_sim (cfg : Cfg) {pol : Policy} (hpol : TimeFree pol) (step : Nat) (tickEv : Ev) (dc : Bool) :
    ∀ (res : List Res) {a b : ResAcc}, SimAcc a b →
      SimAcc (res.foldl (applyRes cfg pol step tickEv dc) a) (res.foldl (applyRes cfg pol step tickEv dc) b)
  | [], a, b, h => h
  | r :: rs, a, b, h => foldl_applyRes_sim cfg hpol step tickEv dc rs (applyRes_sim cfg hpol step tickEv dc h r)

theorem map_eraseP_eraseIP (k : Nat) (l : List InProg) :
    (l.eraseP (fun w => w.wid == k)).map eraseIP = (l.map eraseIP).eraseP (fun w => w.wid == k) := by
  rw [List.eraseP_map]
  rfl

theorem cE_isExit (c : Cmd) : (cE c).isExit = c.isExit := by cases c <;> rfl

theorem any_isExit_cE (cmds : List Cmd) : cmds.any Cmd.isExit = (cmds.map cE).any Cmd.isExit := by
  simp [List.any_map, Function.comp_def, cE_isExit]

theorem settle_sim {a b : ResAcc} (h : SimAcc a b) (step worker : Nat) (tickEv : Ev) :
    SimSS (settle a step worker tickEv).1 (settle b step worker tickEv).1 ∧
      (settle a step worker tickEv).2.map cE = (settle b step worker tickEv).2.map cE := by
  have hs := h.st.workers step
  unfold settle
  rw [h.still]
  split
  · have hi : (modifyFirst (fun w => w.wid == worker) (fun _ => a.exec) (a.st.workers step).inProg).map eraseIP =
        (modifyFirst (fun w => w.wid == worker) (fun _ => b.exec) (b.st.workers step).inProg).map eraseIP := by
      rw [map_modifyFirst_eraseIP worker _ (fun _ => eraseIP a.exec) (fun _ => rfl),
          map_modifyFirst_eraseIP worker _ (fun _ => eraseIP b.exec) (fun _ => rfl), hs.inProg, h.exec]
    exact ⟨⟨hs.queue, hs.collected, hs.waiters, hi⟩, h.cmds⟩
  · refine ⟨⟨hs.queue, hs.collected, hs.waiters, ?_⟩, ?_⟩
    · simp only [map_eraseP_eraseIP, hs.inProg]
    · simp [h.cmds, h.out, cE]

theorem processStepResult_sim (cfg : Cfg) {pol : Policy} (hpol : TimeFree pol) (step worker : Nat) (tickEv : Ev)
    (res : List Res) {a b : State} (n n' : Int) (h : SimSt a b) :
    SimSt (processStepResult cfg pol step worker tickEv res a n).1
        (processStepResult cfg pol step worker tickEv res b n').1 ∧
      (processStepResult cfg pol step worker tickEv res a n).2.map cE =
        (processStepResult cfg pol step worker tickEv res b n').2.map cE := by
  unfold processStepResult
  split
  · exact ⟨h, rfl⟩
  · have hs := h.workers step
    have hf : ((a.workers step).inProg.find? (fun w => w.wid == worker)).map eraseIP =
        ((b.workers step).inProg.find? (fun w => w.wid == worker)).map eraseIP := by
      have := congrArg (List.find? (fun w : InProg => w.wid == worker)) hs.inProg
      simpa [List.find?_map, Function.comp_def, eraseIP] using this
    cases h1 : (a.workers step).inProg.find? (fun w => w.wid == worker) with
    | none =>
      rw [h1] at hf
      cases h2 : (b.workers step).inProg.find? (fun w => w.wid == worker) with
      | none => exact ⟨h, rfl⟩
      | some y => rw [h2] at hf; simp at hf
    | some x =>
      rw [h1] at hf
      cases h2 : (b.workers step).inProg.find? (fun w => w.wid == worker) with
      | none => rw [h2] at hf; simp at hf
      | some y =>
        rw [h2] at hf
        simp only [Option.map_some, Option.some.injEq] at hf
        simp only
        have hacc := foldl_applyRes_sim cfg hpol step tickEv (res.any isResult) res
          (a := { st := a, exec := x }) (b := { st := b, exec := y }) ⟨h, rfl, rfl, rfl, hf⟩
        obtain ⟨hset, hcm⟩ := settle_sim hacc step worker tickEv
        rw [any_isExit_cE, hacc.cmds, ← any_isExit_cE]
        split
        · exact ⟨hacc.st.set step hset, hcm⟩
        · rw [hset.queueLength]
          obtain ⟨hd, hdc⟩ := drain_sim step (cfg.nw step) n n'
            (settle (res.foldl (applyRes cfg pol step tickEv (res.any isResult)) { st := b, exec := y }) step worker tickEv).1.queue.length hset
          exact ⟨hacc.st.set step hd, by simp [List.map_append, hcm, hdc]⟩

theorem processWaiterTimeout_sim (cfg : Cfg) (step waiter : Nat) {a b : State} (n n' : Int) (h : SimSt a b) :
    SimSt (processWaiterTimeout cfg step waiter a n).1 (processWaiterTimeout cfg step waiter b n').1 ∧
      (processWaiterTimeout cfg step waiter a n).2 = (processWaiterTimeout cfg step waiter b n').2 := by
  have hs := h.workers step
  unfold processWaiterTimeout
  split
  · exact ⟨h, rfl⟩
  · have hf : ((a.workers step).waiters.find? (fun w => w.wid == waiter)).map eraseW =
        ((b.workers step).waiters.find? (fun w => w.wid == waiter)).map eraseW := by
      have := congrArg (List.find? (fun w : Waiter => w.wid == waiter)) hs.waiters
      simpa [List.find?_map, Function.comp_def, eraseW] using this
    simp only
    cases h1 : (a.workers step).waiters.find? (fun w => w.wid == waiter) with
    | none =>
      rw [h1] at hf
      cases h2 : (b.workers step).waiters.find? (fun w => w.wid == waiter) with
      | none => exact ⟨h, rfl⟩
      | some y => rw [h2] at hf; simp at hf
    | some x =>
      rw [h1] at hf
      cases h2 : (b.workers step).waiters.find? (fun w => w.wid == waiter) with
      | none => rw [h2] at hf; simp at hf
      | some y =>
        rw [h2] at hf
        simp only [Option.map_some, Option.some.injEq] at hf
        simp only
        rw [(eraseW_eq hf).2.2.2.2.2.1]
        split
        · exact ⟨h, rfl⟩
        · have hw : (modifyFirst (fun x => x.wid == waiter) (fun x => { x with timedOut := true })
                (a.workers step).waiters).map eraseW =
              (modifyFirst (fun x => x.wid == waiter) (fun x => { x with timedOut := true })
                (b.workers step).waiters).map eraseW := by
            rw [map_modifyFirst_eraseW waiter _ (fun x => { x with timedOut := true }) (fun _ => rfl),
                map_modifyFirst_eraseW waiter _ (fun x => { x with timedOut := true }) (fun _ => rfl), hs.waiters]
          have hab : SimSS
              { a.workers step with waiters := modifyFirst (fun x => x.wid == waiter) (fun x => { x with timedOut := true }) (a.workers step).waiters }
              { b.workers step with waiters := modifyFirst (fun x => x.wid == waiter) (fun x => { x with timedOut := true }) (b.workers step).waiters } :=
            ⟨hs.queue, hs.collected, hw, hs.inProg⟩
          obtain ⟨h1', c1⟩ := addOrEnqueue_sim (replay_erase hf) step (cfg.nw step) n n' hab
          exact ⟨h.set step h1', c1⟩

theorem activeSteps_sim (cfg : Cfg) {a b : State} (h : SimSt a b) : activeSteps cfg a = activeSteps cfg b := by
  unfold activeSteps
  apply List.filter_congr
  intro s _
  rw [(h.workers s).isEmpty]

/-- **one tick, two clocks** -/
theorem reduce_sim (cfg : Cfg) {pol : Policy} (hpol : TimeFree pol) (t : Tick) {a b : State} (n n' : Int)
    (h : SimSt a b) :
    SimSt (reduce cfg pol t a n).1 (reduce cfg pol t b n').1 ∧
      (reduce cfg pol t a n).2.map cE = (reduce cfg pol t b n').2.map cE := by
  have wi : ∀ {r r' : State × List Cmd}, SimSt r.1 r'.1 → r.2.map cE = r'.2.map cE →
      SimSt (if checkIdle cfg r.1 then (r.1, r.2 ++ [Cmd.scheduleIdleCheck]) else r).1
          (if checkIdle cfg r'.1 then (r'.1, r'.2 ++ [Cmd.scheduleIdleCheck]) else r').1 ∧
        (if checkIdle cfg r.1 then (r.1, r.2 ++ [Cmd.scheduleIdleCheck]) else r).2.map cE =
          (if checkIdle cfg r'.1 then (r'.1, r'.2 ++ [Cmd.scheduleIdleCheck]) else r').2.map cE := by
    intro r r' hs hc
    rw [checkIdle_sim cfg hs]
    split
    · exact ⟨hs, by simp [List.map_append, hc]⟩
    · exact ⟨hs, hc⟩
  cases t with
  | stepResult s w e rs =>
    obtain ⟨h1, c1⟩ := processStepResult_sim cfg hpol s w e rs n n' h
    exact wi h1 c1
  | addEvent att tgt =>
    obtain ⟨h1, c1⟩ := processAddEvent_sim cfg att tgt n n' h
    exact wi h1 (by rw [c1])
  | cancelRun => exact wi (r := (a, _)) (r' := (b, _)) h rfl
  | idleRelease => exact ⟨h, rfl⟩
  | publish ev => exact wi (r := (a, _)) (r' := (b, _)) h rfl
  | timeout tt =>
    exact wi (r := ({ a with isRunning := false }, _)) (r' := ({ b with isRunning := false }, _)) ⟨rfl, h.workers⟩
      (by simp [activeSteps_sim cfg h])
  | waiterTimeout s w =>
    obtain ⟨h1, c1⟩ := processWaiterTimeout_sim cfg s w n n' h
    exact wi h1 (by rw [c1])
  | idleCheck =>
    simp only [reduce]
    rw [checkIdle_sim cfg h]
    split <;> exact ⟨h, rfl⟩

/-! ### commands: what `cE` keeps -/

theorem cE_crash (c : Cmd) : (cE c == Cmd.crash) = (c == Cmd.crash) := by cases c <;> rfl

theorem contains_crash_cE : ∀ (cmds : List Cmd), cmds.contains .crash = (cmds.map cE).contains .crash
  | [] => rfl
  | c :: cs => by
    simp only [List.map_cons, List.contains_cons]
    rw [contains_crash_cE cs]
    have h1 : (Cmd.crash == c) = (c == Cmd.crash) := by cases c <;> rfl
    have h2 : (Cmd.crash == cE c) = (cE c == Cmd.crash) := by cases c <;> rfl
    rw [h1, h2, cE_crash]

theorem cE_exit_id {c : Cmd} (h : c.isExit = true) : cE c = c := by cases c <;> simp_all [Cmd.isExit, cE]

/-! ### the serialised form -/

theorem serAttempt_erase (a : Attempt) : eraseA (serAttempt a) = serAttempt (eraseA a) := rfl

theorem deser_ser_waiter_erase (w : Waiter) :
    eraseW (deserWaiter (serWaiter w)) = deserWaiter (serWaiter (eraseW w)) := rfl

theorem deser_ser_step_sim {a b : StepState} (h : SimSS a b) :
    SimSS (deserStep (serStep a)) (deserStep (serStep b)) := by
  have hev : a.inProg.map (·.ev) = b.inProg.map (·.ev) := by
    have := congrArg (List.map (·.ev)) h.inProg
    simpa [List.map_map, Function.comp_def, eraseIP] using this
  refine ⟨?_, h.collected, ?_, rfl⟩
  · have e : ∀ l : List Attempt, (l.map serAttempt).map eraseA = (l.map eraseA).map serAttempt := by
      intro l; simp [List.map_map, Function.comp_def, serAttempt_erase]
    have e2 : ∀ l : List InProg, (l.map (·.ev)).map (fun e => ({ ev := e, attempts := some 0, firstAt := none } : Attempt)) =
        l.map (fun ip => ({ ev := ip.ev, attempts := some 0, firstAt := none } : Attempt)) := by
      intro l; simp [List.map_map, Function.comp_def]
    simp only [deserStep, serStep, List.map_append, e, h.queue, hev]
  · have e : ∀ l : List Waiter, ((l.map serWaiter).map deserWaiter).map eraseW =
        ((l.map eraseW).map serWaiter).map deserWaiter := by
      intro l; simp [List.map_map, Function.comp_def, deser_ser_waiter_erase]
    simp only [deserStep, serStep, e, h.waiters]

/-- `to_serialized` keeps every `first_attempt_at` except those of in-progress invocations (written
as bare events): the reloaded contexts agree up to `first_attempt_at` again -/
theorem roundtrip_sim (cfg : Cfg) {a b : State} (h : SimSt a b) : SimSt (roundtrip cfg a) (roundtrip cfg b) := by
  refine ⟨?_, fun n => ?_⟩
  · simp only [roundtrip, deser, ser, h.running]
  · rw [roundtrip_workers, roundtrip_workers]
    split
    · exact deser_ser_step_sim (h.workers n)
    · exact SimSS.refl _

end Engine
