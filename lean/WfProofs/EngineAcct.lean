import WfProofs.EngineRerun
import WfModel.Runner
/-!
Retry accounting (C05) as an invariant of the reducer: every attempt record anywhere in the engine state — queued,
in progress, kept in a waiter — is *accounted for*:

* a record with retry number `0` carries no previous exception and no failure time;
* a record with retry number `k ≠ 0` carries the first-attempt time `t0`, the time `tf` and the exception `exc` of its
  last failure, `0 < t0 ≤ tf ≤ now`, and **the step's retry policy granted this retry**: asked with
  `(elapsed = tf − t0, failures = k, exc)` it answered with a delay — and so it did for every retry number `1, …, k − 1`
  before it, at non-decreasing elapsed times (`Granted`: retry numbers are never skipped).

Consequently no invocation ever runs with a retry number its policy did not grant, whatever the policy is; budgets
(`stop_after_attempt`, `stop_after_delay`, trees of them) are corollaries in `WfProps/C05.lean`.
Every failure report (`WorkflowFailedEvent`, `StepFailedEvent`) carries `attempts = k + 1` for such a record, the
elapsed time `failed_at − t0 ≥ 0`, and is issued only when the policy refused at exactly these numbers.
-/
set_option linter.unusedSimpArgs false
set_option linter.unusedVariables false

namespace Engine

/-- the accounting fields of an attempt record -/
structure Acct where
  k : Nat
  f : Option Int
  x : Option Nat
  l : Option Int
deriving DecidableEq, Repr

def Attempt.acct (a : Attempt) : Acct := ⟨orNat a.attempts 0, a.firstAt, a.lastExc, a.lastFailedAt⟩
def InProg.acct (ip : InProg) : Acct := ⟨ip.attempts, some ip.firstAt, ip.lastExc, ip.lastFailedAt⟩
def Waiter.acct (w : Waiter) : Acct := ⟨w.attempts, w.firstAt, w.lastExc, w.lastFailedAt⟩

theorem orNat_some_zero (k : Nat) : orNat (some k) 0 = k := by
  unfold orNat; split <;> simp_all

theorem newWaiter_acct (x : InProg) (wid ty : Nat) (req : Option Nat) : (newWaiter x wid ty req).acct = x.acct := rfl
theorem replay_acct (w : Waiter) : w.replay.acct = w.acct := by
  simp [Waiter.replay, Attempt.acct, Waiter.acct, orNat_some_zero]
theorem inProgToAttempt_acct (ip : InProg) : (inProgToAttempt ip).acct = ip.acct := by
  simp [inProgToAttempt, Attempt.acct, InProg.acct, orNat_some_zero]
theorem acct_of_retryRec {a b : InProg} (h : a.retryRec = b.retryRec) : a.acct = b.acct := by
  simp only [InProg.retryRec, RetryRec.mk.injEq] at h
  simp [InProg.acct, h]

/-- retry number `k ≥ 1` was reached through GRANTED retries `1, …, k`, asked at non-negative, non-decreasing elapsed
times; the last one for exception `exc` at elapsed time `el` -/
def Granted (cfg : Cfg) (pol : Policy) (s : Nat) : Nat → Int → Nat → Prop
  | 0, _, _ => False
  | k + 1, el, exc => 0 ≤ el ∧ (∃ d, retryDecision cfg pol s el (k + 1) exc = .retry d) ∧
      (k = 0 ∨ ∃ el' exc', el' ≤ el ∧ Granted cfg pol s k el' exc')

theorem Granted.head {cfg : Cfg} {pol : Policy} {s k : Nat} {el : Int} {exc : Nat} (h : Granted cfg pol s k el exc) :
    k ≠ 0 ∧ 0 ≤ el ∧ ∃ d, retryDecision cfg pol s el k exc = .retry d := by
  cases k with
  | zero => exact absurd h (by simp [Granted])
  | succ k => exact ⟨by omega, h.1, h.2.1⟩

/-- every retry number up to `k` was granted, at an elapsed time not after the last one -/
theorem Granted.all {cfg : Cfg} {pol : Policy} {s : Nat} : ∀ {k : Nat} {el : Int} {exc : Nat}, Granted cfg pol s k el exc →
    ∀ j, 1 ≤ j → j ≤ k → ∃ el' exc' d, 0 ≤ el' ∧ el' ≤ el ∧ retryDecision cfg pol s el' j exc' = .retry d
  | 0, _, _, h, _, _, _ => absurd h (by simp [Granted])
  | k + 1, el, exc, h, j, h1, h2 => by
    by_cases hj : j = k + 1
    · subst hj
      obtain ⟨d, hd⟩ := h.2.1
      exact ⟨el, exc, d, h.1, Int.le_refl _, hd⟩
    · rcases h.2.2 with hk | ⟨el', exc', hle, hg⟩
      · omega
      · obtain ⟨el'', exc'', d, a1, a2, a3⟩ := Granted.all hg j h1 (by omega)
        exact ⟨el'', exc'', d, a1, by omega, a3⟩

/-- the record `r`, held for step `s`, is accounted for at clock `now` -/
def RecOk (cfg : Cfg) (pol : Policy) (now : Int) (s : Nat) (r : Acct) : Prop :=
  (∀ t0, r.f = some t0 → 0 < t0 ∧ t0 ≤ now) ∧
  (r.k = 0 → r.x = none ∧ r.l = none) ∧
  (r.k ≠ 0 → ∃ t0 tf exc, r.f = some t0 ∧ r.l = some tf ∧ r.x = some exc ∧ t0 ≤ tf ∧ tf ≤ now ∧
      Granted cfg pol s r.k (tf - t0) exc)

theorem RecOk.mono {cfg : Cfg} {pol : Policy} {now now' : Int} {s : Nat} {r : Acct} (h : RecOk cfg pol now s r)
    (hn : now ≤ now') : RecOk cfg pol now' s r := by
  refine ⟨fun t0 ht => ⟨(h.1 t0 ht).1, by have := (h.1 t0 ht).2; omega⟩, h.2.1, fun hk => ?_⟩
  obtain ⟨t0, tf, exc, h1, h2, h3, h4, h5, h6⟩ := h.2.2 hk
  exact ⟨t0, tf, exc, h1, h2, h3, h4, by omega, h6⟩

/-- a record that never failed and was never started: what `ctx.send_event`, a step's returned event, the start
event and a `StepFailedEvent` routed to its handler carry -/
theorem recOk_fresh (cfg : Cfg) (pol : Policy) (now : Int) (s : Nat) : RecOk cfg pol now s ⟨0, none, none, none⟩ := by
  simp [RecOk]

/-- starting an accounted attempt (`_add_or_enqueue_event`: `attempts or 0`, `first_attempt_at or now`) -/
theorem RecOk.start {cfg : Cfg} {pol : Policy} {now : Int} {s : Nat} {a : Attempt} (h : RecOk cfg pol now s a.acct)
    (hnow : 0 < now) :
    RecOk cfg pol now s ⟨orNat a.attempts 0, some (orInt a.firstAt now), a.lastExc, a.lastFailedAt⟩ := by
  have hf : ∀ t0, a.firstAt = some t0 → orInt a.firstAt now = t0 := by
    intro t0 ht
    have := (h.1 t0 ht).1
    simp only [ht, orInt]
    split
    · omega
    · rfl
  refine ⟨?_, h.2.1, fun hk => ?_⟩
  · intro t0 ht
    simp only [Option.some.injEq] at ht
    cases hfa : a.firstAt with
    | none => simp only [hfa, orInt] at ht; subst ht; exact ⟨hnow, Int.le_refl _⟩
    | some v => rw [hf v hfa] at ht; subst ht; exact h.1 v hfa
  · obtain ⟨t0, tf, exc, h1, h2, h3, h4, h5, h6⟩ := h.2.2 hk
    exact ⟨t0, tf, exc, by simp only [Attempt.acct] at h1; simp [hf t0 h1], h2, h3, h4, h5, h6⟩

def AcctSS (cfg : Cfg) (pol : Policy) (now : Int) (s : Nat) (ss : StepState) : Prop :=
  (∀ a ∈ ss.queue, RecOk cfg pol now s a.acct) ∧ (∀ ip ∈ ss.inProg, RecOk cfg pol now s ip.acct) ∧
    (∀ w ∈ ss.waiters, RecOk cfg pol now s w.acct)

def AcctSt (cfg : Cfg) (pol : Policy) (now : Int) (st : State) : Prop := ∀ s, AcctSS cfg pol now s (st.workers s)

theorem acctSt_init (cfg : Cfg) (pol : Policy) (now : Int) : AcctSt cfg pol now initState := by
  intro s; simp [AcctSS, initState]

theorem AcctSS.mono {cfg : Cfg} {pol : Policy} {now now' : Int} {s : Nat} {ss : StepState}
    (h : AcctSS cfg pol now s ss) (hn : now ≤ now') : AcctSS cfg pol now' s ss :=
  ⟨fun a ha => (h.1 a ha).mono hn, fun a ha => (h.2.1 a ha).mono hn, fun a ha => (h.2.2 a ha).mono hn⟩

theorem AcctSt.set {cfg : Cfg} {pol : Policy} {now : Int} {st : State} (h : AcctSt cfg pol now st) (s : Nat)
    {ss : StepState} (hs : AcctSS cfg pol now s ss) : AcctSt cfg pol now (st.set s ss) := by
  intro t
  simp only [State.set]
  split
  · rename_i ht; subst ht; exact hs
  · exact h t

/-- an attempt that may be delivered to step `s`: `target` is that step, or nobody in particular -/
def AttFor (cfg : Cfg) (pol : Policy) (now : Int) (att : Attempt) (target : Option Nat) : Prop :=
  ∀ s, (target = none ∨ target = some s) → RecOk cfg pol now s att.acct

/-- what a failure report says: `attempts ≥ 1`, a non-negative elapsed time, issued only when the step's policy
(if any) refused a retry at exactly `(elapsed, attempts, exc)`, and — unless it is the first failure — the policy had
granted the retries `1, …, attempts − 1` -/
def FailRep (cfg : Cfg) (pol : Policy) (s exc a : Nat) (el : Int) : Prop :=
  1 ≤ a ∧ 0 ≤ el ∧ (∀ d, retryDecision cfg pol s el a exc ≠ .retry d) ∧
    (a ≠ 1 → ∃ el' exc', el' ≤ el ∧ Granted cfg pol s (a - 1) el' exc')

/-- commands that carry retry accounting carry accounted records; the reducer's own failure reports are exact -/
def CmdOk (cfg : Cfg) (pol : Policy) (now : Int) : Cmd → Prop
  | .queueEvent att target delay =>
    AttFor cfg pol now att target ∧
      (∀ h fi, target = some h → delay = none → att.ev.fail = some fi → FailRep cfg pol fi.step fi.exc fi.attempts fi.elapsed)
  | .publish (.failed s exc a el) => FailRep cfg pol s exc a el
  | _ => True

theorem addOrEnqueue_acct (cfg : Cfg) (pol : Policy) (att : Attempt) (step : Nat) (ss : StepState) (nw : Nat) (now : Int)
    (hnow : 0 < now) (h : AcctSS cfg pol now step ss) (ha : RecOk cfg pol now step att.acct) :
    AcctSS cfg pol now step (addOrEnqueue att step ss nw now).1 := by
  unfold addOrEnqueue
  split
  · split
    · refine ⟨h.1, ?_, h.2.2⟩
      intro ip hip
      simp only [List.mem_append, List.mem_singleton] at hip
      rcases hip with hip | hip
      · exact h.2.1 ip hip
      · subst hip; exact ha.start hnow
    · exact h
  · refine ⟨?_, h.2⟩
    intro a hmem
    simp only [List.mem_append, List.mem_singleton] at hmem
    rcases hmem with hmem | hmem
    · exact h.1 a hmem
    · subst hmem; exact ha

theorem addOrEnqueue_cmds_acct (cfg : Cfg) (pol : Policy) (att : Attempt) (step : Nat) (ss : StepState) (nw : Nat) (now : Int) :
    ∀ c ∈ (addOrEnqueue att step ss nw now).2, CmdOk cfg pol now c := by
  unfold addOrEnqueue
  split
  · split
    · intro c hc
      simp only [List.mem_cons, List.mem_nil_iff, or_false] at hc
      rcases hc with hc | hc <;> subst hc <;> trivial
    · intro c hc; simp only [List.mem_singleton] at hc; subst hc; trivial
  · intro c hc; simp only [List.mem_singleton] at hc; subst hc; trivial

theorem drain_acct (cfg : Cfg) (pol : Policy) (step nw : Nat) (now : Int) (hnow : 0 < now) :
    ∀ (fuel : Nat) (ss : StepState), AcctSS cfg pol now step ss → AcctSS cfg pol now step (drain step nw now fuel ss).1
  | 0, ss, h => by simpa [drain] using h
  | fuel + 1, ss, h => by
    unfold drain
    split
    · exact h
    · rename_i a q hq
      split
      · apply drain_acct cfg pol step nw now hnow fuel
        apply addOrEnqueue_acct cfg pol _ _ _ _ _ hnow
        · exact ⟨fun x hx => h.1 x (by rw [hq]; simp [hx]), h.2⟩
        · exact h.1 a (by rw [hq]; simp)
      · exact h

theorem drain_cmds_acct (cfg : Cfg) (pol : Policy) (step nw : Nat) (now : Int) :
    ∀ (fuel : Nat) (ss : StepState), ∀ c ∈ (drain step nw now fuel ss).2, CmdOk cfg pol now c
  | 0, ss => by simp [drain]
  | fuel + 1, ss => by
    unfold drain
    split
    · simp
    · split
      · intro c hc
        rcases List.mem_append.mp hc with hc | hc
        · exact addOrEnqueue_cmds_acct cfg pol _ _ _ _ _ c hc
        · exact drain_cmds_acct cfg pol step nw now fuel _ c hc
      · simp

/-! ### `_process_add_event_tick` -/

theorem resolveLoop_acct (cfg : Cfg) (pol : Policy) (ev : Ev) (step nw : Nat) (now : Int) (hnow : 0 < now) :
    ∀ (rest done : List Waiter) (ss : StepState) (cmds : List Cmd) (hd : Bool),
      (∀ a ∈ ss.queue, RecOk cfg pol now step a.acct) → (∀ ip ∈ ss.inProg, RecOk cfg pol now step ip.acct) →
      (∀ w ∈ done, RecOk cfg pol now step w.acct) → (∀ w ∈ rest, RecOk cfg pol now step w.acct) →
      AcctSS cfg pol now step (resolveLoop ev step nw now done rest ss cmds hd).1
  | [], done, ss, cmds, hd, hq, hi, hdn, _ => by simp only [resolveLoop]; exact ⟨hq, hi, hdn⟩
  | w :: rest, done, ss, cmds, hd, hq, hi, hdn, hr => by
    have hw : RecOk cfg pol now step w.acct := hr w (by simp)
    have hrest : ∀ x ∈ rest, RecOk cfg pol now step x.acct := fun x hx => hr x (by simp [hx])
    have hdone' : ∀ (w' : Waiter), w'.acct = w.acct → ∀ x ∈ done ++ [w'], RecOk cfg pol now step x.acct := by
      intro w' hw' x hx
      rcases List.mem_append.mp hx with hx | hx
      · exact hdn x hx
      · simp only [List.mem_singleton] at hx; subst hx; rw [hw']; exact hw
    unfold resolveLoop
    split
    · have hall : ∀ x ∈ done ++ { w with resolved := some ev } :: rest, RecOk cfg pol now step x.acct := by
        intro x hx
        rcases List.mem_append.mp hx with hx | hx
        · exact hdn x hx
        · rcases List.mem_cons.mp hx with hx | hx
          · subst hx; exact hw
          · exact hrest x hx
      have h1 := addOrEnqueue_acct cfg pol w.replay step
        { ss with waiters := done ++ { w with resolved := some ev } :: rest } nw now hnow ⟨hq, hi, hall⟩
        (by rw [replay_acct]; exact hw)
      exact resolveLoop_acct cfg pol ev step nw now hnow rest _ _ _ _ h1.1 h1.2.1 (hdone' _ rfl) hrest
    · exact resolveLoop_acct cfg pol ev step nw now hnow rest _ ss cmds hd hq hi (hdone' _ rfl) hrest

theorem resolveLoop_cmds_acct (cfg : Cfg) (pol : Policy) (ev : Ev) (step nw : Nat) (now : Int) :
    ∀ (rest done : List Waiter) (ss : StepState) (cmds : List Cmd) (hd : Bool),
      (∀ c ∈ cmds, CmdOk cfg pol now c) →
      ∀ c ∈ (resolveLoop ev step nw now done rest ss cmds hd).2.1, CmdOk cfg pol now c
  | [], done, ss, cmds, hd, h => by simpa [resolveLoop] using h
  | w :: rest, done, ss, cmds, hd, h => by
    unfold resolveLoop
    split
    · apply resolveLoop_cmds_acct
      intro c hc
      rcases List.mem_append.mp hc with hc | hc
      · exact h c hc
      · exact addOrEnqueue_cmds_acct cfg pol _ _ _ _ _ c hc
    · exact resolveLoop_cmds_acct cfg pol ev step nw now rest _ ss cmds hd h

theorem addEventWaiters_acct (cfg : Cfg) (pol : Policy) (ev : Ev) (target : Option Nat) (now : Int) (hnow : 0 < now) :
    ∀ (cs : List StepCfg) (acc : AddAcc), AcctSt cfg pol now acc.st → (∀ c ∈ acc.cmds, CmdOk cfg pol now c) →
      AcctSt cfg pol now (addEventWaiters cfg ev target now cs acc).st ∧
      ∀ c ∈ (addEventWaiters cfg ev target now cs acc).cmds, CmdOk cfg pol now c
  | [], acc, h, hc => by simp only [addEventWaiters]; exact ⟨h, hc⟩
  | c :: cs, acc, h, hc => by
    unfold addEventWaiters
    split
    · exact addEventWaiters_acct cfg pol ev target now hnow cs acc h hc
    · apply addEventWaiters_acct cfg pol ev target now hnow cs
      · split
        · exact AcctSt.set h _ (resolveLoop_acct cfg pol _ _ _ _ hnow _ _ _ _ _ (h c.name).1 (h c.name).2.1
            (fun _ hx => by simp at hx) (h c.name).2.2)
        · exact h
      · split
        · intro x hx
          rcases List.mem_append.mp hx with hx | hx
          · exact hc x hx
          · exact resolveLoop_cmds_acct cfg pol ev c.name c.numWorkers now _ [] _ [] false (by simp) x hx
        · exact hc

theorem addEventRoute_acct (cfg : Cfg) (pol : Policy) (att : Attempt) (target : Option Nat) (now : Int) (hnow : 0 < now)
    (ha : AttFor cfg pol now att target) :
    ∀ (cs : List StepCfg) (acc : AddAcc), AcctSt cfg pol now acc.st → (∀ c ∈ acc.cmds, CmdOk cfg pol now c) →
      AcctSt cfg pol now (addEventRoute att target now cs acc).st ∧
      ∀ c ∈ (addEventRoute att target now cs acc).cmds, CmdOk cfg pol now c
  | [], acc, h, hc => by simp only [addEventRoute]; exact ⟨h, hc⟩
  | c :: cs, acc, h, hc => by
    unfold addEventRoute
    split
    · exact addEventRoute_acct cfg pol att target now hnow ha cs acc h hc
    · split
      · rename_i hcond
        apply addEventRoute_acct cfg pol att target now hnow ha cs
        · refine AcctSt.set h _ (addOrEnqueue_acct cfg pol _ _ _ _ _ hnow (h c.name) (ha c.name ?_))
          simp only [Bool.and_eq_true, Bool.or_eq_true] at hcond
          rcases hcond.2 with ht | ht
          · left; cases target <;> simp_all
          · right; simpa using ht
        · intro x hx
          rcases List.mem_append.mp hx with hx | hx
          · exact hc x hx
          · exact addOrEnqueue_cmds_acct cfg pol _ _ _ _ _ x hx
      · exact addEventRoute_acct cfg pol att target now hnow ha cs acc h hc

theorem processAddEvent_acct (cfg : Cfg) (pol : Policy) (att : Attempt) (target : Option Nat) (st : State) (now : Int)
    (hnow : 0 < now) (h : AcctSt cfg pol now st) (ha : AttFor cfg pol now att target) :
    AcctSt cfg pol now (processAddEvent cfg att target st now).1 ∧
      ∀ c ∈ (processAddEvent cfg att target st now).2, CmdOk cfg pol now c := by
  have h0 : AcctSt cfg pol now (addEventStart att st) := by unfold addEventStart; split <;> exact h
  have h1 := addEventWaiters_acct cfg pol att.ev target now hnow cfg.steps { st := addEventStart att st } h0 (by simp)
  have h2 := addEventRoute_acct cfg pol att target now hnow ha cfg.steps _ h1.1 h1.2
  unfold processAddEvent
  refine ⟨h2.1, ?_⟩
  intro c hc
  rcases List.mem_append.mp hc with hc | hc
  · exact h2.2 c hc
  · unfold unhandledCmds at hc
    split at hc
    · simp at hc
    · split at hc
      · simp at hc
      · simp only [List.mem_singleton] at hc; subst hc; trivial

/-! ### `_process_step_result_tick` -/

/-- a failure result is stamped on the engine's clock: not in the future, and not before the times the executing
record carries (the record is accounted for at the stamp itself) -/
def ResOk (cfg : Cfg) (pol : Policy) (now : Int) (step : Nat) (exec : InProg) (r : Res) : Prop :=
  ∀ exc t, r = .failed exc t → t ≤ now ∧ RecOk cfg pol t step exec.acct

theorem failRep_of {cfg : Cfg} {pol : Policy} {t : Int} {step exc : Nat} {exec : InProg}
    (h : RecOk cfg pol t step exec.acct)
    (hno : ∀ d, retryDecision cfg pol step (t - exec.firstAt) (exec.attempts + 1) exc ≠ .retry d) :
    FailRep cfg pol step exc (exec.attempts + 1) (t - exec.firstAt) := by
  have h1 := h.1 exec.firstAt rfl
  refine ⟨by omega, by omega, hno, fun hk => ?_⟩
  have hk' : exec.acct.k ≠ 0 := by simp only [InProg.acct]; omega
  obtain ⟨t0, tf, exc', e1, e2, e3, e4, e5, e6⟩ := h.2.2 hk'
  simp only [InProg.acct, Option.some.injEq] at e1 e6
  subst e1
  exact ⟨tf - exec.firstAt, exc', by omega, by simpa using e6⟩

theorem retry_record_ok {cfg : Cfg} {pol : Policy} {now t : Int} {step exc d : Nat} {exec : InProg} {ev : Ev} {rc : RC}
    (h : RecOk cfg pol t step exec.acct) (ht : t ≤ now)
    (hd : retryDecision cfg pol step (t - exec.firstAt) (exec.attempts + 1) exc = .retry d) :
    RecOk cfg pol now step
      ({ ev := ev, attempts := some (exec.attempts + 1), firstAt := some exec.firstAt, lastExc := some exc,
         lastFailedAt := some t, rc := rc } : Attempt).acct := by
  have h1 := h.1 exec.firstAt rfl
  simp only [Attempt.acct, orNat_some_zero]
  refine ⟨?_, fun hk => by simp at hk, fun _ => ⟨exec.firstAt, t, exc, rfl, rfl, rfl, h1.2, ht, ?_⟩⟩
  · intro t0 ht0
    simp only [Option.some.injEq] at ht0; subst ht0
    exact ⟨h1.1, by omega⟩
  · refine ⟨by omega, ⟨d, hd⟩, ?_⟩
    by_cases hk : exec.attempts = 0
    · exact Or.inl hk
    · have hk' : exec.acct.k ≠ 0 := by simpa [InProg.acct] using hk
      obtain ⟨t0, tf, exc', e1, e2, e3, e4, e5, e6⟩ := h.2.2 hk'
      simp only [InProg.acct, Option.some.injEq] at e1 e6
      subst e1
      exact Or.inr ⟨tf - exec.firstAt, exc', by omega, e6⟩

theorem applyRes_acct (cfg : Cfg) (pol : Policy) (step : Nat) (tickEv : Ev) (dc : Bool) (acc : ResAcc) (r : Res)
    (now : Int) (hst : AcctSt cfg pol now acc.st) (hex : RecOk cfg pol now step acc.exec.acct)
    (hcm : ∀ c ∈ acc.cmds, CmdOk cfg pol now c) (hr : ResOk cfg pol now step acc.exec r) :
    AcctSt cfg pol now (applyRes cfg pol step tickEv dc acc r).st ∧
      ∀ c ∈ (applyRes cfg pol step tickEv dc acc r).cmds, CmdOk cfg pol now c := by
  have app : ∀ (l : List Cmd), (∀ c ∈ l, CmdOk cfg pol now c) → ∀ c ∈ acc.cmds ++ l, CmdOk cfg pol now c := by
    intro l hl c hc
    rcases List.mem_append.mp hc with hc | hc
    · exact hcm c hc
    · exact hl c hc
  have hset : ∀ (ss : StepState), AcctSS cfg pol now step ss → AcctSt cfg pol now (acc.st.set step ss) :=
    fun ss hss => AcctSt.set hst step hss
  have hfresh : ∀ (ev : Ev) (rc : RC) (tgt : Option Nat), AttFor cfg pol now { ev := ev, rc := rc } tgt :=
    fun ev rc tgt s _ => recOk_fresh cfg pol now s
  cases r with
  | result r =>
    cases r with
    | none => exact ⟨hst, hcm⟩
    | some ev =>
      simp only [applyRes]
      split
      · refine ⟨?_, ?_⟩
        · intro s
          refine ⟨(hst s).1, (hst s).2.1, ?_⟩
          intro w hw; simp [clearAll] at hw
        · apply app; intro c hc
          simp only [List.mem_cons, List.mem_nil_iff, or_false] at hc
          rcases hc with hc | hc <;> subst hc <;> trivial
      · refine ⟨hst, ?_⟩
        simp only [List.append_assoc]
        apply app; intro c hc
        simp only [List.mem_append, List.mem_singleton] at hc
        rcases hc with hc | hc
        · split at hc
          · simp only [List.mem_singleton] at hc; subst hc; trivial
          · simp at hc
        · subst hc
          exact ⟨hfresh _ _ _, fun h fi ht => by cases ht⟩
  | failed exc t =>
    obtain ⟨htn, hrec⟩ := hr exc t rfl
    simp only [applyRes]
    split
    · exact ⟨hst, hcm⟩
    cases hdec : retryDecision cfg pol step (t - acc.exec.firstAt) (acc.exec.attempts + 1) exc with
    | retry d =>
      simp only
      refine ⟨hst, ?_⟩
      apply app; intro c hc
      simp only [List.mem_singleton] at hc; subst hc
      refine ⟨?_, fun h fi _ hd => by cases hd⟩
      intro s hs
      rcases hs with hs | hs
      · cases hs
      · simp only [Option.some.injEq] at hs; subst hs
        exact retry_record_ok hrec htn hdec
    | stop =>
      have hrep := failRep_of (exc := exc) hrec (by rw [hdec]; intro d hd; cases hd)
      simp only
      split
      · split
        · refine ⟨hst, ?_⟩
          apply app; intro c hc
          simp only [List.mem_singleton] at hc; subst hc
          refine ⟨hfresh _ _ _, ?_⟩
          intro h fi _ _ hfi
          simp only [Option.some.injEq] at hfi; subst hfi
          exact hrep
        · refine ⟨hst, ?_⟩
          apply app; intro c hc
          simp only [List.mem_cons, List.mem_nil_iff, or_false] at hc
          rcases hc with hc | hc <;> subst hc
          · exact hrep
          · trivial
      · refine ⟨hst, ?_⟩
        apply app; intro c hc
        simp only [List.mem_cons, List.mem_nil_iff, or_false] at hc
        rcases hc with hc | hc <;> subst hc
        · exact hrep
        · trivial
    | raise =>
      have hrep := failRep_of (exc := exc) hrec (by rw [hdec]; intro d hd; cases hd)
      simp only
      split
      · split
        · refine ⟨hst, ?_⟩
          apply app; intro c hc
          simp only [List.mem_singleton] at hc; subst hc
          refine ⟨hfresh _ _ _, ?_⟩
          intro h fi _ _ hfi
          simp only [Option.some.injEq] at hfi; subst hfi
          exact hrep
        · refine ⟨hst, ?_⟩
          apply app; intro c hc
          simp only [List.mem_cons, List.mem_nil_iff, or_false] at hc
          rcases hc with hc | hc <;> subst hc
          · exact hrep
          · trivial
      · refine ⟨hst, ?_⟩
        apply app; intro c hc
        simp only [List.mem_cons, List.mem_nil_iff, or_false] at hc
        rcases hc with hc | hc <;> subst hc
        · exact hrep
        · trivial
  | addCollected buf ev =>
    simp only [applyRes]
    split
    · exact ⟨hst, hcm⟩
    split
    · refine ⟨hset _ (hst step), ?_⟩
      apply app; intro c hc; simp only [List.mem_singleton] at hc; subst hc; trivial
    · exact ⟨hset _ (hst step), hcm⟩
  | deleteCollected buf =>
    simp only [applyRes]
    split
    · exact ⟨hset _ (hst step), hcm⟩
    · exact ⟨hst, hcm⟩
  | addWaiter wid waiterEv req timeout ty =>
    simp only [applyRes]
    have hnew : RecOk cfg pol now step (newWaiter acc.exec wid ty req).acct := by rw [newWaiter_acct]; exact hex
    split
    · refine ⟨hset _ ⟨(hst step).1, (hst step).2.1, ?_⟩, hcm⟩
      have : ∀ (l : List Waiter), (∀ x ∈ l, RecOk cfg pol now step x.acct) →
          ∀ x ∈ modifyFirst (fun x => x.wid == wid) (fun _ => newWaiter acc.exec wid ty req) l,
            RecOk cfg pol now step x.acct := by
        intro l
        induction l with
        | nil => intro _ x hx; simp [modifyFirst] at hx
        | cons a as ih =>
          intro hl x hx
          simp only [modifyFirst] at hx
          split at hx
          · rcases List.mem_cons.mp hx with hx | hx
            · subst hx; exact hnew
            · exact hl x (by simp [hx])
          · rcases List.mem_cons.mp hx with hx | hx
            · subst hx; exact hl x (by simp)
            · exact ih (fun y hy => hl y (by simp [hy])) x hx
      exact this _ (hst step).2.2
    · refine ⟨hset _ ⟨(hst step).1, (hst step).2.1, ?_⟩, ?_⟩
      · intro w hw
        simp only [List.mem_append, List.mem_singleton] at hw
        rcases hw with hw | hw
        · exact (hst step).2.2 w hw
        · subst hw; exact hnew
      · simp only [List.append_assoc]
        apply app; intro c hc
        simp only [List.mem_append] at hc
        rcases hc with hc | hc
        · cases waiterEv with
          | none => simp at hc
          | some e => simp only [List.mem_singleton] at hc; subst hc; trivial
        · cases timeout with
          | none => simp at hc
          | some t => simp only [List.mem_singleton] at hc; subst hc; trivial
  | deleteWaiter wid =>
    simp only [applyRes]
    split
    · exact ⟨hset _ ⟨(hst step).1, (hst step).2.1, fun w hw => (hst step).2.2 w (List.mem_of_mem_eraseP hw)⟩, hcm⟩
    · exact ⟨hst, hcm⟩

theorem foldl_applyRes_acct (cfg : Cfg) (pol : Policy) (step : Nat) (tickEv : Ev) (dc : Bool) (now : Int) (exec : InProg) :
    ∀ (res : List Res) (acc : ResAcc), acc.exec.acct = exec.acct → AcctSt cfg pol now acc.st →
      RecOk cfg pol now step exec.acct → (∀ c ∈ acc.cmds, CmdOk cfg pol now c) →
      (∀ r ∈ res, ResOk cfg pol now step exec r) →
      AcctSt cfg pol now (res.foldl (applyRes cfg pol step tickEv dc) acc).st ∧
        (∀ c ∈ (res.foldl (applyRes cfg pol step tickEv dc) acc).cmds, CmdOk cfg pol now c) ∧
        (res.foldl (applyRes cfg pol step tickEv dc) acc).exec.acct = exec.acct
  | [], acc, he, hst, hex, hcm, _ => ⟨hst, hcm, he⟩
  | r :: rs, acc, he, hst, hex, hcm, hres => by
    simp only [List.foldl_cons]
    have hr : ResOk cfg pol now step acc.exec r := by
      intro exc t hrt
      have := hres r (by simp) exc t hrt
      rw [he]; exact this
    have h1 := applyRes_acct cfg pol step tickEv dc acc r now hst (by rw [he]; exact hex) hcm hr
    exact foldl_applyRes_acct cfg pol step tickEv dc now exec rs _
      ((acct_of_retryRec (applyRes_retryRec cfg pol step tickEv dc acc r)).trans he) h1.1 hex h1.2
      (fun r' hr' => hres r' (by simp [hr']))

theorem processStepResult_acct (cfg : Cfg) (pol : Policy) (step worker : Nat) (tickEv : Ev) (res : List Res)
    (st : State) (now : Int) (hnow : 0 < now) (h : AcctSt cfg pol now st)
    (hres : ∀ exc t, Res.failed exc t ∈ res → t ≤ now ∧
      ∀ ip ∈ (st.workers step).inProg, ip.wid = worker → RecOk cfg pol t step ip.acct) :
    AcctSt cfg pol now (processStepResult cfg pol step worker tickEv res st now).1 ∧
      ∀ c ∈ (processStepResult cfg pol step worker tickEv res st now).2, CmdOk cfg pol now c := by
  unfold processStepResult
  split
  · exact ⟨h, by intro c hc; simp only [List.mem_singleton] at hc; subst hc; trivial⟩
  · split
    · exact ⟨h, by intro c hc; simp only [List.mem_singleton] at hc; subst hc; trivial⟩
    · rename_i exec hfind
      have hmem : exec ∈ (st.workers step).inProg := List.mem_of_find?_eq_some hfind
      have hwid : exec.wid = worker := find?_wid hfind
      have hexec : RecOk cfg pol now step exec.acct := (h step).2.1 exec hmem
      have hresok : ∀ r ∈ res, ResOk cfg pol now step exec r := by
        intro r hr exc t hrt
        subst hrt
        obtain ⟨h1, h2⟩ := hres exc t hr
        exact ⟨h1, h2 exec hmem hwid⟩
      obtain ⟨hst, hcmds, hacct⟩ := foldl_applyRes_acct cfg pol step tickEv (res.any isResult) now exec res
        { st := st, exec := exec } rfl h hexec (by simp) hresok
      simp only
      generalize (res.foldl (applyRes cfg pol step tickEv (res.any isResult)) { st := st, exec := exec }) = acc
        at hst hcmds hacct
      have hsettle : AcctSS cfg pol now step (settle acc step worker tickEv).1 ∧
          ∀ c ∈ (settle acc step worker tickEv).2, CmdOk cfg pol now c := by
        unfold settle
        simp only
        split
        · refine ⟨⟨(hst step).1, ?_, (hst step).2.2⟩, hcmds⟩
          have : ∀ (l : List InProg), (∀ x ∈ l, RecOk cfg pol now step x.acct) →
              ∀ x ∈ modifyFirst (fun w => w.wid == worker) (fun _ => acc.exec) l, RecOk cfg pol now step x.acct := by
            intro l
            induction l with
            | nil => intro _ x hx; simp [modifyFirst] at hx
            | cons a as ih =>
              intro hl x hx
              simp only [modifyFirst] at hx
              split at hx
              · rcases List.mem_cons.mp hx with hx | hx
                · subst hx; rw [hacct]; exact hexec
                · exact hl x (by simp [hx])
              · rcases List.mem_cons.mp hx with hx | hx
                · subst hx; exact hl x (by simp)
                · exact ih (fun y hy => hl y (by simp [hy])) x hx
          exact this _ (hst step).2.1
        · refine ⟨⟨(hst step).1, fun ip hip => (hst step).2.1 ip (List.mem_of_mem_eraseP hip), (hst step).2.2⟩, ?_⟩
          intro c hc
          rcases List.mem_cons.mp hc with hc | hc
          · subst hc; trivial
          · exact hcmds c hc
      split
      · exact ⟨AcctSt.set hst _ hsettle.1, hsettle.2⟩
      · refine ⟨AcctSt.set hst _ (drain_acct cfg pol _ _ _ hnow _ _ hsettle.1), ?_⟩
        intro c hc
        rcases List.mem_append.mp hc with hc | hc
        · exact hsettle.2 c hc
        · exact drain_cmds_acct cfg pol _ _ _ _ _ c hc

/-- ticks that bring retry accounting into the reducer bring accounted records; a result tick's failure stamps lie
between the times of the record it reports on and the clock -/
def TickOk (cfg : Cfg) (pol : Policy) (now : Int) (st : State) : Tick → Prop
  | .addEvent att target => AttFor cfg pol now att target
  | .stepResult step worker _ res => ∀ exc t, Res.failed exc t ∈ res → t ≤ now ∧
      ∀ ip ∈ (st.workers step).inProg, ip.wid = worker → RecOk cfg pol t step ip.acct
  | _ => True

/-- **retry accounting, one tick**: the state stays accounted for and every command (re-queued retries, failure
reports) is accounted for, for every tick, policy and configuration -/
theorem reduce_acct (cfg : Cfg) (pol : Policy) (tick : Tick) (st : State) (now : Int) (hnow : 0 < now)
    (h : AcctSt cfg pol now st) (ht : TickOk cfg pol now st tick) :
    AcctSt cfg pol now (reduce cfg pol tick st now).1 ∧ ∀ c ∈ (reduce cfg pol tick st now).2, CmdOk cfg pol now c := by
  have wrap : ∀ (r : State × List Cmd), (AcctSt cfg pol now r.1 ∧ ∀ c ∈ r.2, CmdOk cfg pol now c) →
      AcctSt cfg pol now (if checkIdle cfg r.1 then (r.1, r.2 ++ [Cmd.scheduleIdleCheck]) else r).1 ∧
      ∀ c ∈ (if checkIdle cfg r.1 then (r.1, r.2 ++ [Cmd.scheduleIdleCheck]) else r).2, CmdOk cfg pol now c := by
    intro r ⟨h1, h2⟩
    split
    · refine ⟨h1, ?_⟩
      intro c hc
      rcases List.mem_append.mp hc with hc | hc
      · exact h2 c hc
      · simp only [List.mem_singleton] at hc; subst hc; trivial
    · exact ⟨h1, h2⟩
  unfold reduce
  cases tick with
  | stepResult step worker ev res =>
    simp only
    apply wrap
    exact processStepResult_acct cfg pol step worker ev res st now hnow h ht
  | addEvent att target =>
    simp only
    apply wrap
    exact processAddEvent_acct cfg pol att target st now hnow h ht
  | cancelRun =>
    simp only
    apply wrap (st, _)
    exact ⟨h, by intro c hc; simp only [List.mem_cons, List.mem_nil_iff, or_false] at hc; rcases hc with hc | hc <;> subst hc <;> trivial⟩
  | idleRelease =>
    exact ⟨h, by intro c hc; simp only [List.mem_singleton] at hc; subst hc; trivial⟩
  | publish ev =>
    simp only
    apply wrap (st, _)
    exact ⟨h, by intro c hc; simp only [List.mem_singleton] at hc; subst hc; trivial⟩
  | timeout t =>
    simp only
    apply wrap ({ st with isRunning := false }, _)
    exact ⟨h, by intro c hc; simp only [List.mem_cons, List.mem_nil_iff, or_false] at hc; rcases hc with hc | hc <;> subst hc <;> trivial⟩
  | waiterTimeout step waiter =>
    simp only
    apply wrap
    unfold processWaiterTimeout
    split
    · exact ⟨h, by simp⟩
    · dsimp only
      split
      · exact ⟨h, by simp⟩
      · rename_i w hfindw
        have hw : RecOk cfg pol now step w.acct := (h step).2.2 w (List.mem_of_find?_eq_some hfindw)
        split
        · exact ⟨h, by simp⟩
        · refine ⟨AcctSt.set h _ (addOrEnqueue_acct cfg pol _ _ _ _ _ hnow ?_ (by rw [replay_acct]; exact hw)),
            addOrEnqueue_cmds_acct cfg pol _ _ _ _ _⟩
          refine ⟨(h step).1, (h step).2.1, ?_⟩
          have : ∀ (l : List Waiter), (∀ x ∈ l, RecOk cfg pol now step x.acct) →
              ∀ x ∈ modifyFirst (fun x => x.wid == waiter) (fun x => { x with timedOut := true }) l,
                RecOk cfg pol now step x.acct := by
            intro l
            induction l with
            | nil => intro _ x hx; simp [modifyFirst] at hx
            | cons a as ih =>
              intro hl x hx
              simp only [modifyFirst] at hx
              split at hx
              · rcases List.mem_cons.mp hx with hx | hx
                · subst hx; exact hl a (by simp)
                · exact hl x (by simp [hx])
              · rcases List.mem_cons.mp hx with hx | hx
                · subst hx; exact hl x (by simp)
                · exact ih (fun y hy => hl y (by simp [hy])) x hx
          exact this _ (h step).2.2
  | idleCheck =>
    simp only
    split
    · exact ⟨h, by intro c hc; simp only [List.mem_singleton] at hc; subst hc; trivial⟩
    · exact ⟨h, by simp⟩

/-! ### `rewind_in_progress` -/

theorem rewindStep_acct (cfg : Cfg) (pol : Policy) (c : StepCfg) (ss : StepState) (now : Int) (hnow : 0 < now)
    (h : AcctSS cfg pol now c.name ss) : AcctSS cfg pol now c.name (rewindStep c ss now).1 := by
  unfold rewindStep
  apply drain_acct cfg pol _ _ _ hnow
  refine ⟨?_, by simp, h.2.2⟩
  intro a ha
  simp only [List.mem_append, List.mem_reverse, List.mem_map] at ha
  rcases ha with ⟨ip, hip, rfl⟩ | ha
  · rw [inProgToAttempt_acct]; exact h.2.1 ip hip
  · exact h.1 a ha

theorem rewindLoop_acct (cfg : Cfg) (pol : Policy) (now : Int) (hnow : 0 < now) :
    ∀ (cs : List StepCfg) (st : State) (cmds : List Cmd), AcctSt cfg pol now st → (∀ c ∈ cmds, CmdOk cfg pol now c) →
      AcctSt cfg pol now (rewindLoop now cs st cmds).1 ∧ ∀ c ∈ (rewindLoop now cs st cmds).2, CmdOk cfg pol now c
  | [], st, cmds, h, hc => by simpa [rewindLoop] using ⟨h, hc⟩
  | d :: ds, st, cmds, h, hc => by
    unfold rewindLoop
    apply rewindLoop_acct cfg pol now hnow ds
    · exact AcctSt.set h _ (rewindStep_acct cfg pol d _ now hnow (h d.name))
    · intro c hcm
      rcases List.mem_append.mp hcm with hcm | hcm
      · exact hc c hcm
      · unfold rewindStep at hcm; exact drain_cmds_acct cfg pol _ _ _ _ _ c hcm

theorem rewind_acct (cfg : Cfg) (pol : Policy) (st : State) (now : Int) (hnow : 0 < now) (h : AcctSt cfg pol now st) :
    AcctSt cfg pol now (rewind cfg st now).1 ∧ ∀ c ∈ (rewind cfg st now).2, CmdOk cfg pol now c := by
  unfold rewind
  exact rewindLoop_acct cfg pol now hnow _ _ _ h (by simp)

end Engine
