import WfModel.StreamGate
import Driver.Util
open StreamGate Drv

/-! Line protocol for the stream-gate model (configuration = the one extracted from the current source).
  `reset`                      → `reset`
  `arrive|<c>|<lim or ->`      consumer `c` (an id not used before) starts iterating; `lim` ≥ 1
  `publish|<n>` / `publish|T`  the run publishes note `n` / its terminal item
  `complete`                   the run's task is done
  `finish`                     the consumer that has the terminal item asks for more
each followed by running the enabled internal actions (`wake`, `take`) to quiescence, as the event loop does
between two outside events; answer `<ok|disabled> locked=<0|1> qsize=<n> held=<c|-> pending=<c,..> done=<c:fin;..>
log=<c:item,..>` (`pending`: holder and waiters, ascending; `done`: ascending by id; `log`: deliveries in order).
`disabled`: the action is not possible in this state (nothing is published after the terminal item; the task ends
after the terminal item was published; nobody has the terminal item; id in use) and the state is unchanged. -/
namespace Drv.StreamGate

def showItem : Item → String
  | .note n => toString n
  | .term => "T"

def showFin : Fin → String
  | .ended => "ended" | .refused => "refused" | .left => "left"

def insertSorted (x : Nat × String) : List (Nat × String) → List (Nat × String)
  | [] => [x]
  | y :: r => if x.1 ≤ y.1 then x :: y :: r else y :: insertSorted x r

def sortNat (l : List Nat) : List Nat :=
  (l.foldl (fun acc x => insertSorted (x, "") acc) []).map (·.1)

def showState (s : St) : String :=
  let held := match s.holder with
    | some ⟨c, _, .heldTerm⟩ => toString c
    | _ => "-"
  let pend := sortNat ((match s.holder with | some h => [h.id] | none => []) ++ s.waiters.map (·.1))
  let done := s.done.foldl (fun acc (x : Nat × Fin) => insertSorted (x.1, showFin x.2) acc) []
  s!"locked={if s.holder.isSome then 1 else 0} qsize={s.queue.length} held={held} " ++
  s!"pending={",".intercalate (pend.map toString)} done={";".intercalate (done.map fun x => s!"{x.1}:{x.2}")} " ++
  s!"log={",".intercalate (s.log.map fun x => s!"{x.1}:{showItem x.2}")}"

def used (s : St) (c : Nat) : Bool :=
  (match s.holder with | some h => h.id == c | none => false) || s.waiters.any (·.1 == c) || s.done.any (·.1 == c)

def apply (s : St) (a : Act) : St :=
  let s1 := StreamGate.step srcCfg s a
  settle srcCfg (s1.waiters.length + s1.queue.length + 1) s1

def answer (ok : Bool) (s : St) : St × String := (s, (if ok then "ok " else "disabled ") ++ showState s)

def parseLim? (x : String) : Option (Option Nat) :=
  if x == "-" then some none else
  match parseNat? x with
  | some 0 => none
  | some n => some (some n)
  | none => none

def step (s : St) (line : String) : St × String :=
  match line.splitOn "|" with
  | ["reset"] => ({}, "reset")
  | ["arrive", cs, ls] =>
    match parseNat? cs, parseLim? ls with
    | some c, some lim => if used s c then answer false s else answer true (apply s (.arrive c lim))
    | _, _ => (s, "bad-op")
  | ["publish", x] =>
    if x == "T" then (if s.termPublished then answer false s else answer true (apply s (.publish .term)))
    else match parseNat? x with
      | some n => if s.termPublished then answer false s else answer true (apply s (.publish (.note n)))
      | none => (s, "bad-op")
  | ["complete"] => if s.termPublished then answer true (apply s .complete) else answer false s
  | ["finish"] => if holdsTerm s then answer true (apply s .finish) else answer false s
  | _ => (s, "bad-op")

end Drv.StreamGate
