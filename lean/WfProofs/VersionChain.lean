import WfProofs.VersionOrder
/-!
Order-theoretic facts about the PEP 440 order `Ver.Lt` (strict, transitive,
trichotomous up to the equivalence "same zero-padded release, same pre-release"),
the classification as a function of the first differing position among the first
three release components (`fd3`), and its behaviour along ascending chains of
versions (release histories).
-/
namespace Version

/-! ## equivalence of versions (what `Version.__eq__` identifies) -/

/-- `1.0` and `1.0.0`: same components once zero-padded, same pre-release -/
def VerEq (a b : Ver) : Prop := RelEq a.release b.release ∧ a.pre = b.pre

theorem VerEq.refl (a : Ver) : VerEq a a := ⟨fun _ => rfl, rfl⟩
theorem VerEq.symm {a b : Ver} (h : VerEq a b) : VerEq b a := ⟨fun j => (h.1 j).symm, h.2.symm⟩
theorem VerEq.trans {a b c : Ver} (h : VerEq a b) (g : VerEq b c) : VerEq a c :=
  ⟨fun j => (h.1 j).trans (g.1 j), h.2.trans g.2⟩

/-! ## `RelLt`, `PreLt`, `Ver.Lt` are strict orders -/

theorem RelLt.trans {a b c : List Nat} (h : RelLt a b) (g : RelLt b c) : RelLt a c := by
  obtain ⟨i, hp, hi⟩ := h
  obtain ⟨k, hq, hk⟩ := g
  rcases Nat.lt_trichotomy i k with hik | hik | hik
  · exact ⟨i, fun j hj => (hp j hj).trans (hq j (by omega)), by have := hq i hik; omega⟩
  · subst hik
    exact ⟨i, fun j hj => (hp j hj).trans (hq j hj), by omega⟩
  · exact ⟨k, fun j hj => (hp j (by omega)).trans (hq j hj), by have := hp k hik; omega⟩

theorem RelLt.of_eq_left {a b c : List Nat} (h : RelEq a b) (g : RelLt b c) : RelLt a c := by
  obtain ⟨k, hq, hk⟩ := g
  exact ⟨k, fun j hj => (h j).trans (hq j hj), by have := h k; omega⟩

theorem RelLt.of_eq_right {a b c : List Nat} (h : RelLt a b) (g : RelEq b c) : RelLt a c := by
  obtain ⟨k, hq, hk⟩ := h
  exact ⟨k, fun j hj => (hq j hj).trans (g j), by have := g k; omega⟩

theorem RelLt.irrefl (a : List Nat) : ¬ RelLt a a := fun h => h.asymm h

theorem PreLt.trans {x y z : Option (Label × Nat)} (h : PreLt x y) (g : PreLt y z) : PreLt x z := by
  rw [preLt_iff] at *
  omega

theorem PreLt.irrefl (x : Option (Label × Nat)) : ¬ PreLt x x := by
  rw [preLt_iff]; omega

theorem preKey_inj {x y : Option (Label × Nat)} (h1 : (preKey x).1 = (preKey y).1)
    (h2 : (preKey x).2 = (preKey y).2) : x = y := by
  cases x with
  | none =>
    cases y with
    | none => rfl
    | some q =>
      obtain ⟨m, k⟩ := q
      have := m.rank_lt_stable
      simp only [preKey] at h1; omega
  | some p =>
    obtain ⟨l, n⟩ := p
    cases y with
    | none =>
      have := l.rank_lt_stable
      simp only [preKey] at h1; omega
    | some q =>
      obtain ⟨m, k⟩ := q
      simp only [preKey] at h1 h2
      rw [Label.rank_inj h1, h2]

theorem PreLt.trichotomy (x y : Option (Label × Nat)) : PreLt x y ∨ x = y ∨ PreLt y x := by
  rw [preLt_iff, preLt_iff]
  by_cases h1 : (preKey x).1 = (preKey y).1
  · by_cases h2 : (preKey x).2 = (preKey y).2
    · exact Or.inr (Or.inl (preKey_inj h1 h2))
    · omega
  · omega

theorem RelLt.trichotomy (a b : List Nat) : RelLt a b ∨ RelEq a b ∨ RelLt b a := by
  cases h : relCmp a b with
  | lt => exact Or.inl ((relCmp_lt_iff a b).1 h)
  | eq => exact Or.inr (Or.inl ((relCmp_eq_iff a b).1 h))
  | gt => exact Or.inr (Or.inr ((relCmp_gt_iff a b).1 h))

theorem Ver.Lt.trans {a b c : Ver} (h : Ver.Lt a b) (g : Ver.Lt b c) : Ver.Lt a c := by
  rcases h with h | ⟨he, hp⟩
  · rcases g with g | ⟨ge, _⟩
    · exact Or.inl (h.trans g)
    · exact Or.inl (h.of_eq_right ge)
  · rcases g with g | ⟨ge, gp⟩
    · exact Or.inl (RelLt.of_eq_left he g)
    · exact Or.inr ⟨fun j => (he j).trans (ge j), hp.trans gp⟩

theorem Ver.Lt.irrefl (a : Ver) : ¬ Ver.Lt a a := by
  rintro (h | ⟨_, h⟩)
  · exact RelLt.irrefl _ h
  · exact PreLt.irrefl _ h

theorem Ver.Lt.asymm {a b : Ver} (h : Ver.Lt a b) : ¬ Ver.Lt b a := fun g => Ver.Lt.irrefl a (h.trans g)

theorem Ver.Lt.trichotomy (a b : Ver) : Ver.Lt a b ∨ VerEq a b ∨ Ver.Lt b a := by
  rcases RelLt.trichotomy a.release b.release with h | h | h
  · exact Or.inl (Or.inl h)
  · rcases PreLt.trichotomy a.pre b.pre with g | g | g
    · exact Or.inl (Or.inr ⟨h, g⟩)
    · exact Or.inr (Or.inl ⟨h, g⟩)
    · exact Or.inr (Or.inr (Or.inr ⟨fun j => (h j).symm, g⟩))
  · exact Or.inr (Or.inr (Or.inl h))

theorem VerEq.not_lt {a b : Ver} (h : VerEq a b) : ¬ Ver.Lt a b := by
  rintro (g | ⟨_, g⟩)
  · exact g.not_relEq h.1
  · rw [h.2] at g; exact PreLt.irrefl _ g

/-- the order only sees the equivalence class -/
theorem Ver.Lt.congr {a a' b b' : Ver} (ha : VerEq a a') (hb : VerEq b b') : Ver.Lt a b ↔ Ver.Lt a' b' := by
  have key : ∀ {x x' y y' : Ver}, VerEq x x' → VerEq y y' → Ver.Lt x y → Ver.Lt x' y' := by
    intro x x' y y' hx hy h
    rcases h with h | ⟨he, hp⟩
    · exact Or.inl ((RelLt.of_eq_left (fun j => (hx.1 j).symm) h).of_eq_right hy.1)
    · refine Or.inr ⟨fun j => ((hx.1 j).symm.trans (he j)).trans (hy.1 j), ?_⟩
      rw [← hx.2, ← hy.2]; exact hp
  exact ⟨key ha hb, key ha.symm hb.symm⟩

theorem verCmp_eq_iff (a b : Ver) : verCmp a b = .eq ↔ VerEq a b := by
  constructor
  · intro h
    rcases Ver.Lt.trichotomy a b with g | g | g
    · have := (verCmp_lt_iff a b).2 g; rw [h] at this; cases this
    · exact g
    · -- `verCmp a b = .eq` forces the release comparison to be `.eq` and then the pre comparison
      unfold verCmp at h
      cases hc : relCmp a.release b.release with
      | lt => rw [hc] at h; cases h
      | gt => rw [hc] at h; cases h
      | eq =>
        rw [hc] at h
        have he := (relCmp_eq_iff _ _).1 hc
        refine ⟨he, ?_⟩
        simp only [preCmp] at h
        apply preKey_inj
        · split at h
          · cases h
          · split at h
            · cases h
            · omega
        · split at h
          · cases h
          · split at h
            · cases h
            · split at h
              · cases h
              · split at h
                · cases h
                · omega
  · intro h
    unfold verCmp
    rw [(relCmp_eq_iff _ _).2 h.1, h.2]
    simp [preCmp]

theorem verLe_congr {a a' b b' : Ver} (ha : VerEq a a') (hb : VerEq b b') : verLe a b = verLe a' b' := by
  have h1 := verLe_iff_not_lt a b
  have h2 := verLe_iff_not_lt a' b'
  have h3 := Ver.Lt.congr hb ha
  cases h : verLe a b <;> cases h' : verLe a' b' <;> simp_all

/-! ## the classification as a function of the first differing position -/

/-- first position among major/minor/patch at which two releases differ; 3 = none of them -/
def fd3 (a b : List Nat) : Nat :=
  if comp a 0 ≠ comp b 0 then 0 else if comp a 1 ≠ comp b 1 then 1 else if comp a 2 ≠ comp b 2 then 2 else 3

/-- the answer for a greater version whose first differing position is `i` (3 = beyond
the third component or only the pre-release: the code's final `return "minor"`) -/
def changeName3 (i : Nat) : Change := if i < 3 then changeName i else .minor

theorem fd3_le (a b : List Nat) : fd3 a b ≤ 3 := by
  unfold fd3; split
  · omega
  · split
    · omega
    · split <;> omega

theorem fd3_spec (a b : List Nat) :
    (∀ j, j < fd3 a b → comp a j = comp b j) ∧ (fd3 a b < 3 → comp a (fd3 a b) ≠ comp b (fd3 a b)) := by
  unfold fd3
  by_cases h0 : comp a 0 = comp b 0
  · by_cases h1 : comp a 1 = comp b 1
    · by_cases h2 : comp a 2 = comp b 2
      · simp only [h0, h1, h2, ne_eq, not_true_eq_false, if_false]
        refine ⟨fun j hj => ?_, fun h => absurd h (by omega)⟩
        have : j = 0 ∨ j = 1 ∨ j = 2 := by omega
        rcases this with rfl | rfl | rfl <;> assumption
      · simp only [h0, h1, h2, ne_eq, not_true_eq_false, not_false_eq_true, if_false, if_true]
        refine ⟨fun j hj => ?_, fun _ => trivial⟩
        have : j = 0 ∨ j = 1 := by omega
        rcases this with rfl | rfl <;> assumption
    · simp only [h0, h1, ne_eq, not_true_eq_false, not_false_eq_true, if_false, if_true]
      refine ⟨fun j hj => ?_, fun _ => trivial⟩
      have : j = 0 := by omega
      subst this; assumption
  · simp only [h0, ne_eq, not_false_eq_true, if_true]
    exact ⟨fun j hj => absurd hj (by omega), fun _ => trivial⟩

/-- components of a greater version: below `fd3` equal, at `fd3` grown -/
theorem Ver.Lt.fd3_grows {p c : Ver} (h : Ver.Lt p c) (hlt : fd3 p.release c.release < 3) :
    comp p.release (fd3 p.release c.release) < comp c.release (fd3 p.release c.release) := by
  have hs := fd3_spec p.release c.release
  exact h.first_diff _ (fun j hj => (hs.1 j hj).symm) (fun e => hs.2 hlt e.symm)

theorem classify_of_lt {p c : Ver} (h : Ver.Lt p c) : classify c p = changeName3 (fd3 p.release c.release) := by
  have hle : verLe c p = false := by
    cases hv : verLe c p with
    | false => rfl
    | true => exact absurd h ((verLe_iff_not_lt c p).1 hv)
  have e0 := pad3_getD c.release 0 (by omega)
  have e1 := pad3_getD c.release 1 (by omega)
  have e2 := pad3_getD c.release 2 (by omega)
  have f0 := pad3_getD p.release 0 (by omega)
  have f1 := pad3_getD p.release 1 (by omega)
  have f2 := pad3_getD p.release 2 (by omega)
  have hs := fd3_spec p.release c.release
  have hg := h.fd3_grows
  unfold classify
  rw [hle, e0, e1, e2, f0, f1, f2]
  have hle3 := fd3_le p.release c.release
  have hcase : fd3 p.release c.release = 0 ∨ fd3 p.release c.release = 1 ∨ fd3 p.release c.release = 2 ∨
      fd3 p.release c.release = 3 := by omega
  rcases hcase with h0 | h0 | h0 | h0
  · rw [h0] at hg hs ⊢
    have := hg (by omega)
    simp [changeName3, changeName, this]
  · rw [h0] at hg hs ⊢
    have := hg (by omega)
    have q0 := hs.1 0 (by omega)
    have n0 : ¬ comp c.release 0 > comp p.release 0 := by omega
    simp [changeName3, changeName, this, n0]
  · rw [h0] at hg hs ⊢
    have := hg (by omega)
    have q0 := hs.1 0 (by omega)
    have q1 := hs.1 1 (by omega)
    have n0 : ¬ comp c.release 0 > comp p.release 0 := by omega
    have n1 : ¬ comp c.release 1 > comp p.release 1 := by omega
    simp [changeName3, changeName, this, n0, n1]
  · rw [h0] at hs ⊢
    have q0 := hs.1 0 (by omega)
    have q1 := hs.1 1 (by omega)
    have q2 := hs.1 2 (by omega)
    have n0 : ¬ comp c.release 0 > comp p.release 0 := by omega
    have n1 : ¬ comp c.release 1 > comp p.release 1 := by omega
    have n2 : ¬ comp c.release 2 > comp p.release 2 := by omega
    simp [changeName3, n0, n1, n2]

theorem classify_of_not_lt {p c : Ver} (h : ¬ Ver.Lt p c) : classify c p = .none := by
  have : verLe c p = true := (verLe_iff_not_lt c p).2 h
  simp [classify, this]

/-- two successive increases: the first differing position of the ends is the more
significant of the two steps' -/
theorem fd3_trans {p c d : Ver} (h : Ver.Lt p c) (g : Ver.Lt c d) :
    fd3 p.release d.release = min (fd3 p.release c.release) (fd3 c.release d.release) := by
  have s1 := fd3_spec p.release c.release
  have s2 := fd3_spec c.release d.release
  have s3 := fd3_spec p.release d.release
  have g1 := h.fd3_grows
  have g2 := g.fd3_grows
  have l1 := fd3_le p.release c.release
  have l2 := fd3_le c.release d.release
  have l3 := fd3_le p.release d.release
  -- name the three values
  generalize hi : fd3 p.release c.release = i at *
  generalize hk : fd3 c.release d.release = k at *
  generalize hm : fd3 p.release d.release = m at *
  -- m ≥ min i k: all positions below min i k agree
  have hge : min i k ≤ m := by
    apply Decidable.byContradiction
    intro hlt
    have hm3 : m < 3 := by omega
    have := s3.2 hm3
    have a1 := s1.1 m (by omega)
    have a2 := s2.1 m (by omega)
    omega
  -- m ≤ min i k: at min i k the ends differ (when < 3)
  have hle : m ≤ min i k := by
    apply Decidable.byContradiction
    intro hlt
    have hmin3 : min i k < 3 := by omega
    have a3 := s3.1 (min i k) (by omega)
    rcases Nat.lt_trichotomy i k with hik | hik | hik
    · have e : min i k = i := by omega
      rw [e] at a3
      have := g1 (by omega)
      have := s2.1 i hik
      omega
    · subst hik
      have e : min i i = i := by omega
      rw [e] at a3
      have := g1 (by omega)
      have := g2 (by omega)
      omega
    · have e : min i k = k := by omega
      rw [e] at a3
      have := g2 (by omega)
      have := s1.1 k hik
      omega
  omega

/-! ## ascending chains (release histories, oldest first) -/

def Ascending : List Ver → Prop
  | [] => True
  | [_] => True
  | a :: b :: rest => Ver.Lt a b ∧ Ascending (b :: rest)

/-- the most significant position touched by any step of the chain (3 = none of the
first three anywhere) -/
def minFd : List Ver → Nat
  | [] => 3
  | [_] => 3
  | a :: b :: rest => min (fd3 a.release b.release) (minFd (b :: rest))

/-- the step classifications of a chain, oldest step first -/
def stepChanges : List Ver → List Change
  | [] => []
  | [_] => []
  | a :: b :: rest => classify b a :: stepChanges (b :: rest)

/-- `none < patch < minor < major` -/
def Change.sev : Change → Nat
  | .none => 0
  | .patch => 1
  | .minor => 2
  | .major => 3

def maxSev : List Change → Nat
  | [] => 0
  | c :: cs => max c.sev (maxSev cs)

/-- every step touches one of the first three components -/
def Steps3 : List Ver → Prop
  | [] => True
  | [_] => True
  | a :: b :: rest => fd3 a.release b.release < 3 ∧ Steps3 (b :: rest)

theorem minFd_le (vs : List Ver) : minFd vs ≤ 3 := by
  match vs with
  | [] => simp [minFd]
  | [_] => simp [minFd]
  | a :: b :: rest =>
    have := minFd_le (b :: rest)
    simp only [minFd]; omega

theorem Ascending.lt_last {a : Ver} {vs : List Ver} (h : Ascending (a :: vs)) (hne : vs ≠ []) :
    Ver.Lt a ((a :: vs).getLast (by simp)) := by
  induction vs generalizing a with
  | nil => exact absurd rfl hne
  | cons b rest ih =>
    cases rest with
    | nil => simpa using h.1
    | cons c rest' =>
      have := ih h.2 (by simp)
      have e : (a :: b :: c :: rest').getLast (by simp) = (b :: c :: rest').getLast (by simp) := by simp
      rw [e]
      exact h.1.trans this

theorem Ascending.fd3_last {a : Ver} {vs : List Ver} (h : Ascending (a :: vs)) :
    fd3 a.release ((a :: vs).getLast (by simp)).release = if vs = [] then fd3 a.release a.release else minFd (a :: vs) := by
  induction vs generalizing a with
  | nil => simp
  | cons b rest ih =>
    cases rest with
    | nil => simp [minFd, fd3_le]
    | cons c rest' =>
      have hb := ih h.2
      simp only [reduceCtorEq, if_false] at hb ⊢
      have hlast := h.2.lt_last (by simp)
      have e : (a :: b :: c :: rest').getLast (by simp) = (b :: c :: rest').getLast (by simp) := by simp
      rw [e, fd3_trans h.1 hlast, hb]
      simp only [minFd]

theorem changeName3_sev (i : Nat) (h : i < 3) : (changeName3 i).sev = 3 - i := by
  have : i = 0 ∨ i = 1 ∨ i = 2 := by omega
  rcases this with rfl | rfl | rfl <;> rfl

theorem maxSev_steps {vs : List Ver} (h : Ascending vs) (h3 : Steps3 vs) (hlen : 2 ≤ vs.length) :
    maxSev (stepChanges vs) = 3 - minFd vs := by
  match vs, h, h3, hlen with
  | [a, b], h, h3, _ =>
    simp only [stepChanges, maxSev, minFd]
    rw [classify_of_lt h.1, changeName3_sev _ h3.1]
    have := fd3_le a.release b.release
    omega
  | a :: b :: c :: rest, h, h3, _ =>
    have ih := maxSev_steps (vs := b :: c :: rest) h.2 h3.2 (by simp)
    have hs : stepChanges (a :: b :: c :: rest) = classify b a :: stepChanges (b :: c :: rest) := rfl
    have hm : minFd (a :: b :: c :: rest) = min (fd3 a.release b.release) (minFd (b :: c :: rest)) := rfl
    rw [hs, hm]
    simp only [maxSev]
    rw [ih, classify_of_lt h.1, changeName3_sev _ h3.1]
    have := minFd_le (b :: c :: rest)
    omega

theorem mem_stepChanges_major {vs : List Ver} (h : Ascending vs) :
    Change.major ∈ stepChanges vs ↔ minFd vs = 0 := by
  match vs, h with
  | [], _ => simp [stepChanges, minFd]
  | [_], _ => simp [stepChanges, minFd]
  | a :: b :: rest, h =>
    have ih := mem_stepChanges_major (vs := b :: rest) h.2
    simp only [stepChanges, minFd, List.mem_cons]
    rw [ih, classify_of_lt h.1]
    have := fd3_le a.release b.release
    have hcase : fd3 a.release b.release = 0 ∨ fd3 a.release b.release = 1 ∨ fd3 a.release b.release = 2 ∨
        fd3 a.release b.release = 3 := by omega
    rcases hcase with h0 | h0 | h0 | h0 <;> rw [h0] <;> simp [changeName3, changeName] <;> omega

end Version
