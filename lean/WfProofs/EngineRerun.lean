import WfProofs.EngineReduce
/-! Collect re-runs (C06): no step result touches the retry record of the executing invocation; an
invocation that stays in progress after its result tick (stale `collect_events` snapshot) keeps it. -/
set_option linter.unusedSimpArgs false
set_option linter.unusedVariables false

namespace Engine

/-- what numbers the retries of an invocation: failures so far, first attempt, last failure, lineage budget -/
structure RetryRec where
  ev : Ev
  attempts : Nat
  firstAt : Int
  lastExc : Option Nat
  lastFailedAt : Option Int
  rc : RC
deriving DecidableEq, Repr

def InProg.retryRec (x : InProg) : RetryRec :=
  { ev := x.ev, attempts := x.attempts, firstAt := x.firstAt, lastExc := x.lastExc,
    lastFailedAt := x.lastFailedAt, rc := x.rc }

theorem applyRes_retryRec (cfg : Cfg) (pol : Policy) (step : Nat) (tickEv : Ev) (dc : Bool)
    (acc : ResAcc) (r : Res) :
    (applyRes cfg pol step tickEv dc acc r).exec.retryRec = acc.exec.retryRec := by
  cases r with
  | result r =>
    cases r with
    | none => simp [applyRes]
    | some ev =>
      simp only [applyRes]
      split <;> simp
  | failed exc failedAt =>
    simp only [applyRes]
    split
    · rfl
    split
    · simp
    all_goals
      split
      · split <;> simp
      · simp
  | addCollected buf ev =>
    simp only [applyRes]
    split
    · rfl
    split
    · rfl
    · rfl
  | deleteCollected buf =>
    simp only [applyRes]
    split <;> rfl
  | addWaiter wid waiterEv req timeout ty =>
    simp only [applyRes]
    split <;> rfl
  | deleteWaiter wid =>
    simp only [applyRes]
    split <;> rfl

theorem foldl_applyRes_retryRec (cfg : Cfg) (pol : Policy) (step : Nat) (tickEv : Ev) (dc : Bool) :
    ∀ (res : List Res) (acc : ResAcc),
      (res.foldl (applyRes cfg pol step tickEv dc) acc).exec.retryRec = acc.exec.retryRec
  | [], acc => by simp
  | r :: rs, acc => by
    simp only [List.foldl_cons]
    exact (foldl_applyRes_retryRec cfg pol step tickEv dc rs _).trans
      (applyRes_retryRec cfg pol step tickEv dc acc r)

theorem find?_modifyFirst (worker : Nat) (e : InProg) (he : e.wid = worker) :
    ∀ (l : List InProg) (x : InProg), l.find? (fun w => w.wid == worker) = some x →
      (modifyFirst (fun w => w.wid == worker) (fun _ => e) l).find? (fun w => w.wid == worker) = some e
  | [], x, h => by simp at h
  | y :: ys, x, h => by
    simp only [modifyFirst]
    by_cases hy : (y.wid == worker) = true
    · simp [hy, he]
    · simp only [hy, Bool.false_eq_true, ↓reduceIte]
      rw [List.find?_cons_of_neg (by simpa using hy)] at h ⊢
      exact find?_modifyFirst worker e he ys x h

theorem addOrEnqueue_find? (att : Attempt) (step : Nat) (ss : StepState) (nw : Nat) (now : Int)
    (p : InProg → Bool) (x : InProg) (h : ss.inProg.find? p = some x) :
    (addOrEnqueue att step ss nw now).1.inProg.find? p = some x := by
  unfold addOrEnqueue
  split
  · split
    · simp [List.find?_append, h]
    · exact h
  · exact h

theorem drain_find? (step nw : Nat) (now : Int) (p : InProg → Bool) (x : InProg) :
    ∀ (fuel : Nat) (ss : StepState), ss.inProg.find? p = some x →
      (drain step nw now fuel ss).1.inProg.find? p = some x
  | 0, ss, h => by simpa [drain] using h
  | fuel + 1, ss, h => by
    unfold drain
    split
    · exact h
    · split
      · exact drain_find? step nw now p x fuel _ (addOrEnqueue_find? _ _ _ _ _ p x h)
      · exact h

/-- **a collect re-run continues the invocation**: when the result tick of worker `worker` leaves its
invocation in progress (some `AddCollectedEvent` met a stale snapshot), the slot still holds the same
input event with the same retry record -- attempts, first attempt, last failure, budget --, whatever
else the tick carried and whatever the drain loop started afterwards. -/
theorem processStepResult_rerun_keeps_retryRec (cfg : Cfg) (pol : Policy) (step worker : Nat)
    (tickEv : Ev) (res : List Res) (st : State) (now : Int) (exec : InProg)
    (hs : cfg.hasStep step = true)
    (hf : (st.workers step).inProg.find? (fun w => w.wid == worker) = some exec)
    (hrr : (res.foldl (applyRes cfg pol step tickEv (res.any isResult))
              { st := st, exec := exec }).stillInProgress = true) :
    ∃ x, ((processStepResult cfg pol step worker tickEv res st now).1.workers step).inProg.find?
            (fun w => w.wid == worker) = some x ∧ x.retryRec = exec.retryRec := by
  unfold processStepResult
  simp only [hs, Bool.not_true, Bool.false_eq_true, ↓reduceIte, hf]
  have hfold := foldl_applyRes_inProg cfg pol step tickEv (res.any isResult) res { st := st, exec := exec }
  have hrec := foldl_applyRes_retryRec cfg pol step tickEv (res.any isResult) res { st := st, exec := exec }
  have hwid : (res.foldl (applyRes cfg pol step tickEv (res.any isResult))
      { st := st, exec := exec }).exec.wid = worker := by
    rw [hfold.2]; exact find?_wid hf
  have hin := hfold.1 step
  generalize (res.foldl (applyRes cfg pol step tickEv (res.any isResult))
      { st := st, exec := exec }) = acc at hrr hrec hwid hin
  simp only at hin hrec
  have hset : (settle acc step worker tickEv).1.inProg.find? (fun w => w.wid == worker) = some acc.exec := by
    unfold settle
    simp only [hrr, ↓reduceIte]
    rw [hin]
    exact find?_modifyFirst worker acc.exec hwid _ exec hf
  refine ⟨acc.exec, ?_, hrec⟩
  split
  · simp only [State.set, ↓reduceIte]
    exact hset
  · simp only [State.set, ↓reduceIte]
    exact drain_find? _ _ _ _ _ _ _ hset

end Engine
