import WfProofs.EngineAcct
import WfProofs.RunnerRecovery
/-!
Retry accounting on the runner LTS (C05): the reducer invariant of `EngineAcct` extends to the tick buffer, the mailbox,
the timer heap and the published stream, for every schedule in which

* a finishing worker stamps its failure with the runner's clock (`StepWorkerFailed.failed_at`: `time.time()` in the step
  wrapper / `adapter.get_now()` in `run_worker` — one clock, C05's clock assumption),
* other parties put only accounted records into the mailbox (`ctx.send_event` and external senders: fresh ones),
* a running step does not forge a `WorkflowFailedEvent` on the stream.
-/
set_option linter.unusedSimpArgs false
set_option linter.unusedVariables false

namespace Engine

def Tick.isSR : Tick → Bool
  | .stepResult _ _ _ _ => true
  | _ => false

/-- the state-independent part of `TickOk` -/
def TickRec (cfg : Cfg) (pol : Policy) (now : Int) : Tick → Prop
  | .addEvent att target => AttFor cfg pol now att target
  | _ => True

def PubOk (cfg : Cfg) (pol : Policy) : Pub → Prop
  | .failed s exc a el => FailRep cfg pol s exc a el
  | _ => True

theorem AttFor.mono {cfg : Cfg} {pol : Policy} {now now' : Int} {att : Attempt} {tgt : Option Nat}
    (h : AttFor cfg pol now att tgt) (hn : now ≤ now') : AttFor cfg pol now' att tgt :=
  fun s hs => (h s hs).mono hn

theorem TickRec.mono {cfg : Cfg} {pol : Policy} {now now' : Int} {t : Tick} (h : TickRec cfg pol now t) (hn : now ≤ now') :
    TickRec cfg pol now' t := by
  cases t <;> first | exact AttFor.mono h hn | trivial

/-- a result tick is alone in the buffer, and its failure stamps lie between the times of the record it reports on
and the clock -/
def SrOk (cfg : Cfg) (pol : Policy) (r : Runner) : Prop :=
  ∀ s w ev res, Tick.stepResult s w ev res ∈ r.buf → r.buf = [Tick.stepResult s w ev res] ∧
    ∀ exc t, Res.failed exc t ∈ res → t ≤ r.now ∧
      ∀ ip ∈ (r.st.workers s).inProg, ip.wid = w → RecOk cfg pol t s ip.acct

structure AcctCore (cfg : Cfg) (pol : Policy) (r : Runner) : Prop where
  now : 0 < r.now
  st : AcctSt cfg pol r.now r.st
  buf : ∀ t ∈ r.buf, TickRec cfg pol r.now t
  mbox : ∀ t ∈ r.mailbox, TickRec cfg pol r.now t ∧ t.isSR = false
  heap : ∀ tm ∈ r.heap, TickRec cfg pol r.now tm.tick ∧ tm.tick.isSR = false
  stream : ∀ p ∈ r.stream, PubOk cfg pol p

/-- **the accounting invariant of the runner** -/
structure AcctInv (cfg : Cfg) (pol : Policy) (r : Runner) : Prop extends AcctCore cfg pol r where
  sr : SrOk cfg pol r

theorem AcctCore.inv {cfg : Cfg} {pol : Policy} {r : Runner} (h : AcctCore cfg pol r) (hn : ∀ t ∈ r.buf, t.isSR = false) :
    AcctInv cfg pol r :=
  { h with sr := fun s w ev res hm => by have := hn _ hm; simp [Tick.isSR] at this }

theorem execCmd_core (cfg : Cfg) (pol : Policy) (r : Runner) (c : Cmd) (hc : CmdOk cfg pol r.now c)
    (h : AcctCore cfg pol r) (hn : ∀ t ∈ r.buf, t.isSR = false) :
    AcctCore cfg pol (execCmd r c) ∧ (∀ t ∈ (execCmd r c).buf, t.isSR = false) ∧ (execCmd r c).now = r.now ∧
      (execCmd r c).st = r.st := by
  have snoc : ∀ (t : Tick), TickRec cfg pol r.now t → t.isSR = false →
      (∀ x ∈ r.buf ++ [t], TickRec cfg pol r.now x) ∧ (∀ x ∈ r.buf ++ [t], x.isSR = false) := by
    intro t h1 h2
    constructor <;> intro x hx <;> rcases List.mem_append.mp hx with hx | hx
    · exact h.buf x hx
    · simp only [List.mem_singleton] at hx; subst hx; exact h1
    · exact hn x hx
    · simp only [List.mem_singleton] at hx; subst hx; exact h2
  cases c with
  | queueEvent att step delay =>
    have hatt : TickRec cfg pol r.now (.addEvent att step) := hc.1
    have hbuf := snoc (.addEvent att step) hatt rfl
    have hpush : AcctCore cfg pol (r.push (.addEvent att step) (r.now + 0)) := by
      refine { h with heap := ?_ }
      intro t ht
      simp only [Runner.push, List.mem_append, List.mem_singleton] at ht
      rcases ht with ht | ht
      · exact h.heap t ht
      · subst ht; exact ⟨hatt, rfl⟩
    simp only [execCmd]
    cases delay with
    | none => exact ⟨{ h with buf := hbuf.1 }, hbuf.2, rfl, rfl⟩
    | some d =>
      simp only
      split
      · refine ⟨{ h with heap := ?_ }, hn, rfl, rfl⟩
        intro t ht
        simp only [Runner.push, List.mem_append, List.mem_singleton] at ht
        rcases ht with ht | ht
        · exact h.heap t ht
        · subst ht; exact ⟨hatt, rfl⟩
      · exact ⟨{ h with buf := hbuf.1 }, hbuf.2, rfl, rfl⟩
  | runWorker s ev w => exact ⟨{ h with }, hn, rfl, rfl⟩
  | halt k => exact ⟨{ h with }, hn, rfl, rfl⟩
  | completeRun p => exact ⟨{ h with }, hn, rfl, rfl⟩
  | failWorkflow s x => exact ⟨{ h with }, hn, rfl, rfl⟩
  | publish p =>
    refine ⟨{ h with stream := ?_ }, hn, rfl, rfl⟩
    intro q hq
    simp only [execCmd, List.mem_append, List.mem_singleton] at hq
    rcases hq with hq | hq
    · exact h.stream q hq
    · rw [hq]
      cases p <;> first | exact hc | trivial
  | scheduleIdleCheck =>
    simp only [execCmd]
    split
    · exact ⟨h, hn, rfl, rfl⟩
    · have hbuf := snoc .idleCheck trivial rfl
      exact ⟨{ h with buf := hbuf.1 }, hbuf.2, rfl, rfl⟩
  | scheduleWaiterTimeout s w t =>
    refine ⟨{ h with heap := ?_ }, hn, rfl, rfl⟩
    intro x hx
    simp only [execCmd, Runner.push, List.mem_append, List.mem_singleton] at hx
    rcases hx with hx | hx
    · exact h.heap x hx
    · subst hx; exact ⟨trivial, rfl⟩
  | crash => exact ⟨{ h with }, hn, rfl, rfl⟩

theorem execCmds_core (cfg : Cfg) (pol : Policy) : ∀ (cmds : List Cmd) (r : Runner), (∀ c ∈ cmds, CmdOk cfg pol r.now c) →
    AcctCore cfg pol r → (∀ t ∈ r.buf, t.isSR = false) →
    AcctCore cfg pol (execCmds r cmds) ∧ (∀ t ∈ (execCmds r cmds).buf, t.isSR = false)
  | [], r, _, h, hn => by simpa [execCmds] using ⟨h, hn⟩
  | c :: cs, r, hc, h, hn => by
    simp only [execCmds]
    have h1 := execCmd_core cfg pol r c (hc c (by simp)) h hn
    split
    · exact ⟨h1.1, h1.2.1⟩
    · exact execCmds_core cfg pol cs _ (fun x hx => by rw [h1.2.2.1]; exact hc x (by simp [hx])) h1.1 h1.2.1

/-- what a schedule step may bring in, judged at the state it is taken in -/
def Act.acctOk (cfg : Cfg) (pol : Policy) (r : Runner) : Act → Prop
  | .workerDone _ _ res => ∀ exc t, Res.failed exc t ∈ res → t = r.now
  | .external t => TickRec cfg pol r.now t
  | .stepWrite p => PubOk cfg pol p
  | _ => True

/-- a fresh attempt (what `ctx.send_event`, `handler.ctx.send_event` and `run(start_event=…)` put into the mailbox) is
accounted for at every clock -/
theorem tickRec_fresh (cfg : Cfg) (pol : Policy) (now : Int) (ev : Ev) (rc : RC) (tgt : Option Nat) :
    TickRec cfg pol now (.addEvent { ev := ev, rc := rc } tgt) :=
  fun s _ => recOk_fresh cfg pol now s

theorem step_acct (cfg : Cfg) (pol : Policy) (r : Runner) (a : Act) (ha : Act.acctOk cfg pol r a) (h : AcctInv cfg pol r) :
    AcctInv cfg pol (r.step cfg pol a) := by
  unfold Runner.step
  split
  · exact h
  · cases a with
    | drain =>
      simp only
      cases hbuf : r.buf with
      | nil => simp only; exact h
      | cons t rest =>
        simp only
        have hrest : ∀ x ∈ rest, TickRec cfg pol r.now x := fun x hx => h.buf x (by simp [hbuf, hx])
        have hnosr : ∀ x ∈ rest, x.isSR = false := by
          intro x hx
          cases x with
          | stepResult s w ev res =>
            have := (h.sr s w ev res (by simp [hbuf, hx])).1
            rw [hbuf] at this
            simp only [List.cons.injEq] at this
            rw [this.2] at hx; simp at hx
          | _ => rfl
        have hcore1 : AcctCore cfg pol { r with buf := rest, idlePending := if t = Tick.idleCheck then false else r.idlePending } :=
          { h.toAcctCore with buf := hrest }
        split
        · exact AcctCore.inv { hcore1 with } hnosr
        · have htick : TickOk cfg pol r.now r.st t := by
            cases t with
            | addEvent att tgt => exact h.buf (.addEvent att tgt) (by simp [hbuf])
            | stepResult s w ev res => exact (h.sr s w ev res (by simp [hbuf])).2
            | _ => trivial
          have hr := reduce_acct cfg pol t r.st r.now h.now h.st htick
          have hc := execCmds_core cfg pol (reduce cfg pol t r.st r.now).2
            { r with buf := rest, idlePending := if t = Tick.idleCheck then false else r.idlePending,
                     st := (reduce cfg pol t r.st r.now).1, log := r.log ++ [(t, r.now)] }
            hr.2 { hcore1 with st := hr.1 } hnosr
          exact AcctCore.inv hc.1 hc.2
    | workerDone s w res =>
      simp only
      split
      · exact h
      · split
        · exact h
        · rename_i hbe x hfind
          refine { h.toAcctCore with buf := ?_, sr := ?_ }
          · intro t ht; simp only [List.mem_singleton] at ht; subst ht; trivial
          · intro s' w' ev' res' hm
            simp only [List.mem_singleton] at hm
            refine ⟨by rw [hm], ?_⟩
            injection hm with e1 e2 e3 e4
            subst e1; subst e2; subst e4
            intro exc t hf
            have := ha exc t hf
            subst this
            exact ⟨Int.le_refl _, fun ip hip _ => (h.st s').2.1 ip hip⟩
    | pull =>
      simp only
      split
      · exact h
      · split
        · exact h
        · rename_i t m hmb
          have ht := h.mbox t (by simp [hmb])
          apply AcctCore.inv
          · refine { h.toAcctCore with buf := ?_, mbox := fun x hx => h.mbox x (by simp [hmb, hx]) }
            intro x hx; simp only [List.mem_singleton] at hx; subst hx; exact ht.1
          · intro x hx; simp only [List.mem_singleton] at hx; subst hx; exact ht.2
    | timer =>
      simp only
      split
      · exact h
      · have hdue : ∀ x ∈ (sortTimers (r.heap.filter (fun t => t.at_ ≤ r.now))).map (·.tick),
            TickRec cfg pol r.now x ∧ x.isSR = false := by
          intro x hx
          simp only [List.mem_map] at hx
          obtain ⟨tm, htm, rfl⟩ := hx
          exact h.heap tm (List.mem_filter.mp (mem_sortTimers htm)).1
        apply AcctCore.inv
        · exact { h.toAcctCore with buf := fun x hx => (hdue x hx).1,
                                    heap := fun x hx => h.heap x (List.mem_filter.mp hx).1 }
        · exact fun x hx => (hdue x hx).2
    | advance dt =>
      have hle : r.now ≤ r.now + dt := by omega
      exact {
        now := by show 0 < r.now + dt; have := h.now; omega
        st := fun s => (h.st s).mono hle
        buf := fun t ht => (h.buf t ht).mono hle
        mbox := fun t ht => ⟨(h.mbox t ht).1.mono hle, (h.mbox t ht).2⟩
        heap := fun t ht => ⟨(h.heap t ht).1.mono hle, (h.heap t ht).2⟩
        stream := h.stream
        sr := fun s w ev res hm => by
          obtain ⟨h1, h2⟩ := h.sr s w ev res hm
          refine ⟨h1, fun exc t hf => ?_⟩
          obtain ⟨h3, h4⟩ := h2 exc t hf
          exact ⟨by show t ≤ r.now + dt; omega, h4⟩ }
    | external t =>
      simp only
      split
      · rename_i hext
        refine { h.toAcctCore with mbox := ?_, sr := h.sr }
        intro x hx
        rcases List.mem_append.mp hx with hx | hx
        · exact h.mbox x hx
        · simp only [List.mem_singleton] at hx; subst hx
          refine ⟨ha, ?_⟩
          cases x <;> simp_all [Tick.isExternal, Tick.isSR]
      · exact h
    | stepWrite p =>
      refine { h.toAcctCore with stream := ?_, sr := h.sr }
      intro q hq
      simp only [List.mem_append, List.mem_singleton] at hq
      rcases hq with hq | hq
      · exact h.stream q hq
      · subst hq; exact ha

/-- schedules whose steps are admissible at the states they are taken in -/
def AcctSched (cfg : Cfg) (pol : Policy) : Runner → List Act → Prop
  | _, [] => True
  | r, a :: as => Act.acctOk cfg pol r a ∧ AcctSched cfg pol (r.step cfg pol a) as

theorem run_acct (cfg : Cfg) (pol : Policy) : ∀ (acts : List Act) (r : Runner), AcctSched cfg pol r acts →
    AcctInv cfg pol r → AcctInv cfg pol (Runner.run cfg pol r acts)
  | [], r, _, h => h
  | a :: as, r, hs, h => by
    simp only [Runner.run, List.foldl_cons]
    exact run_acct cfg pol as _ hs.2 (step_acct cfg pol r a hs.1 h)

/-- the start of a run — fresh, or resumed from any accounted state (a serialised context): `rewind_in_progress`
re-queues the in-progress invocations with their records, the rehydration ticks carry the records kept in the waiters -/
theorem init_acct (cfg : Cfg) (pol : Policy) (st0 : State) (now : Int) (hnow : 0 < now) (h0 : AcctSt cfg pol now st0)
    (start : Option Ev) (timeout : Option Nat) : AcctInv cfg pol (Runner.init cfg st0 now start timeout) := by
  unfold Runner.init
  dsimp only
  have hrw := rewind_acct cfg pol st0 now hnow h0
  have hbuf : ∀ t ∈ rehydrateTicks cfg st0 ++
      (match start with | some e => [Tick.addEvent { ev := e } none] | none => []),
      TickRec cfg pol now t ∧ t.isSR = false := by
    intro t ht
    rcases List.mem_append.mp ht with ht | ht
    · obtain ⟨c, _, w, hw, rfl⟩ := mem_rehydrateTicks ht
      refine ⟨?_, rfl⟩
      intro s hs
      rcases hs with hs | hs
      · cases hs
      · simp only [Option.some.injEq] at hs; subst hs
        rw [replay_acct]; exact (h0 c.name).2.2 w hw
    · cases start with
      | none => simp at ht
      | some e => simp only [List.mem_singleton] at ht; subst ht; exact ⟨tickRec_fresh cfg pol now e [] none, rfl⟩
  have key : ∀ r1 : Runner, r1.now = now → AcctCore cfg pol r1 → (∀ t ∈ r1.buf, t.isSR = false) →
      AcctInv cfg pol (execCmds r1 (rewind cfg st0 now).2) := by
    intro r1 h3 h1 h2
    have hc := execCmds_core cfg pol (rewind cfg st0 now).2 r1 (by rw [h3]; exact hrw.2) h1 h2
    exact AcctCore.inv hc.1 hc.2
  cases timeout with
  | none =>
    apply key _ rfl
    · exact { now := hnow, st := hrw.1, buf := fun t ht => (hbuf t ht).1, mbox := by intro t ht; simp at ht,
              heap := by intro t ht; simp at ht, stream := by intro t ht; simp at ht }
    · exact fun t ht => (hbuf t ht).2
  | some tmo =>
    apply key _ rfl
    · exact { now := hnow, st := hrw.1, buf := fun t ht => (hbuf t ht).1, mbox := by intro t ht; simp [Runner.push] at ht,
              heap := by
                intro t ht
                simp only [Runner.push, List.nil_append, List.mem_singleton] at ht
                subst ht; exact ⟨trivial, rfl⟩,
              stream := by intro t ht; simp [Runner.push] at ht }
    · exact fun t ht => (hbuf t ht).2

end Engine
