import WfModel.IterUtils
import WfModel.IterDebounce
import Driver.Util
open IterUtils Drv

/-! Line protocol for the M12 model (`wfdriver iterutils`).

  minit <0|1> <n>            start a merge of n sources (flag = stop_on_first_completion)
  prod <i> <v> | fin <i> | err <i> <e> | batch <i,j,..> | resume
  dinit <gen|legacy|fixed>   start a debounced_sorted_prefix (items are key:uid pairs)
  dprod <key> <uid> | dend | derr <e> | fire | mark | dfin | dbatch <i,j,..> | dresume
  out                        everything yielded so far
  c29deb_init <d> <w> <start>   start a Debouncer (integers: clock ticks)
  c29deb_extend <t> | c29deb_loop <t>   extend_window() / one iteration of _loop at clock value t
  c29deb_state               fired / number of loop iterations / extend calls before the signal / lateness

  answers: `ok emit=<..> [yield=<..>] phase=<..>` / `disabled` (action not enabled) / `bad-op` -/
namespace Drv.IterUtils

inductive St where
  | none
  | merge (m : Merge Nat)
  | dsp (d : Dsp (Nat × Nat))
  | deb (b : Deb)

def showPhase : Phase α → String
  | .waiting => "wait"
  | .suspended _ _ => "susp"
  | .finished none => "fin:ok"
  | .finished (some e) => s!"fin:err:{e}"

def showTok : Tok (Nat × Nat) → String
  | .val (k, u) => s!"{k}:{u}"
  | .marker => "marker"

def showItems (l : List (Nat × Nat)) : String :=
  if l.isEmpty then "-" else ",".intercalate (l.map fun (k, u) => s!"{k}:{u}")

def key (p : Nat × Nat) : Nat := p.1

def mergeAct (st : St) (a : Act Nat) : St × String :=
  match st with
  | .merge m =>
    match m.step a with
    | some (m', em) =>
      let e := match em with | some (i, v) => s!"{i}:{v}" | none => "-"
      (.merge m', s!"ok emit={e} phase={showPhase m'.phase}")
    | none => (st, "disabled")
  | _ => (st, "bad-op")

def dspAct (st : St) (a : DAct (Nat × Nat)) : St × String :=
  match st with
  | .dsp d =>
    match d.step key a with
    | some (d', ys) =>
      let emitted := d'.m.out.drop d.m.out.length
      let e := match emitted with | (i, t) :: _ => s!"{i}:{showTok t}" | [] => "-"
      (.dsp d', s!"ok emit={e} yield={showItems ys} phase={showPhase d'.m.phase}")
    | none => (st, "disabled")
  | _ => (st, "bad-op")

def debAct (st : St) (a : DebAct) : St × String :=
  match st with
  | .deb b =>
    match b.step a with
    | some b' =>
      let r := match a with
        | .extend _ => s!"ok complete={b'.complete}"
        | .loop _ => match b'.fired with
          | some t => s!"ok fired={t}"
          | none => s!"ok sleep={b'.wakeAt}"
      (.deb b', r)
    | none => (st, "disabled")
  | _ => (st, "bad-op")

def step (st : St) (line : String) : St × String :=
  match line.splitOn " " with
  | ["c29deb_init", d, w, t0] =>
    match d.toInt?, w.toInt?, t0.toInt? with
    | some d, some w, some t0 => (.deb (Deb.init d w t0), s!"ok wake={t0}")
    | _, _, _ => (st, "bad-op")
  | ["c29deb_extend", t] =>
    match t.toInt? with
    | some t => debAct st (.extend t)
    | none => (st, "bad-op")
  | ["c29deb_loop", t] =>
    match t.toInt? with
    | some t => debAct st (.loop t)
    | none => (st, "bad-op")
  | ["c29deb_state"] =>
    match st with
    | .deb b =>
      let f := match b.fired with | some t => toString t | none => "-"
      (st, s!"state fired={f} wakes={b.wakes} exts={b.exts.length} late={b.late}")
    | _ => (st, "bad-op")
  | ["minit", f, n] =>
    match parseBool? f, parseNat? n with
    | some f, some n =>
      if n > 64 then (st, "bad-op") else
      let m : Merge Nat := Merge.init f n
      (.merge m, s!"ok phase={showPhase m.phase}")
    | _, _ => (st, "bad-op")
  | ["dinit", mode] =>
    let md : Option PassMode := match mode with
      | "gen" => some Gen.passMode
      | "legacy" => some .onIsComplete
      | "fixed" => some .onMarkerConsumed
      | _ => none
    match md with
    | some md =>
      let d : Dsp (Nat × Nat) := Dsp.init md
      (.dsp d, s!"ok phase={showPhase d.m.phase}")
    | none => (st, "bad-op")
  | ["prod", i, v] =>
    match parseNat? i, parseNat? v with
    | some i, some v => mergeAct st (.prod i v)
    | _, _ => (st, "bad-op")
  | ["fin", i] =>
    match parseNat? i with
    | some i => mergeAct st (.fin i)
    | none => (st, "bad-op")
  | ["err", i, e] =>
    match parseNat? i, parseNat? e with
    | some i, some e => mergeAct st (.err i e)
    | _, _ => (st, "bad-op")
  | ["batch", o] =>
    match parseNats? o with
    | some o => mergeAct st (.batch o)
    | none => (st, "bad-op")
  | ["resume"] => mergeAct st .resume
  | ["dprod", k, u] =>
    match parseNat? k, parseNat? u with
    | some k, some u => dspAct st (.prod (k, u))
    | _, _ => (st, "bad-op")
  | ["dend"] => dspAct st .fin
  | ["derr", e] =>
    match parseNat? e with
    | some e => dspAct st (.err e)
    | none => (st, "bad-op")
  | ["fire"] => dspAct st .fire
  | ["mark"] => dspAct st .mark
  | ["dfin"] => dspAct st .dfin
  | ["dbatch", o] =>
    match parseNats? o with
    | some o => dspAct st (.batch o)
    | none => (st, "bad-op")
  | ["dresume"] => dspAct st .resume
  | ["out"] =>
    match st with
    | .merge m => (st, "out " ++ (if m.out.isEmpty then "-" else ",".intercalate (m.out.map fun (i, v) => s!"{i}:{v}")))
    | .dsp d => (st, "out " ++ showItems d.dout)
    | _ => (st, "bad-op")
  | _ => (st, "bad-op")

end Drv.IterUtils
