import WfProofs.EventLogAgree
/-!
Last layer of helper lemmas for `WfProps/C16.lean`: state-level completeness,
machine-level resume, logs of the two machines under time passing, ordered ids.
-/
namespace EventLog

theorem mem_dropLast_or_last {α} {l : List α} {e : α} (h : e ∈ l) : e ∈ l.dropLast ∨ l.getLast? = some e := by
  cases hl : l.getLast? with
  | none =>
    have : l = [] := by simpa using hl
    subst this; simp at h
  | some x =>
    have hne : l ≠ [] := by intro h0; subst h0; simp at hl
    have hsplit : l.dropLast ++ [x] = l := by
      have h1 := List.dropLast_concat_getLast hne
      have h2 : l.getLast hne = x := by
        have := List.getLast?_eq_some_getLast hne
        rw [hl] at this
        exact (Option.some.inj this).symm
      rw [h2] at h1; exact h1
    rw [← hsplit] at h
    simp at h
    rcases h with h | h
    · exact Or.inl h
    · right; rw [h]

/-- the sequences a subscriber has yielded are `max (k+1) 0, +1, +2, …`: above `k`,
increasing, no gap, no duplicate -/
theorem sub_out_seq {b : Backend} {log : List Ev} {x : Sub} (hc : Consec 0 log) (h : SubInv b log x)
    (j : Nat) (hj : j < x.out.length) : x.out[j].seq = (startIdx x.after : Nat) + j := by
  obtain ⟨t, ht⟩ := h.pre
  have h1 : (log.drop (startIdx x.after))[j]? = some x.out[j] := by
    rw [← ht, List.getElem?_append_left hj]
    exact List.getElem?_eq_getElem hj
  rw [List.getElem?_drop] at h1
  have := consec_getElem? hc h1
  omega

theorem consec_pairwise {b : Int} {l : List Ev} (h : Consec b l) : l.Pairwise fun a c => a.seq < c.seq := by
  induction l generalizing b with
  | nil => exact List.Pairwise.nil
  | cons x xs ih =>
    obtain ⟨h1, h2⟩ := h
    refine List.Pairwise.cons ?_ (ih h2)
    intro y hy
    have := consec_mem_ge h2 hy
    omega

theorem stream_pairwise {log : List Ev} (hc : Consec 0 log) (k : Int) :
    (stream k log).Pairwise fun a c => a.seq < c.seq := by
  unfold stream
  exact ((consec_pairwise hc).sublist List.filter_sublist).sublist (cut_prefix _).sublist

theorem stream_gt {log : List Ev} (k : Int) {e : Ev} (he : e ∈ stream k log) : k < e.seq := by
  have := cut_mem he
  simp only [List.mem_filter, decide_eq_true_eq] at this
  omega

/-! ## completeness at state level -/

theorem complete_state {b : Backend} {s : St} (hs : StInv b s) (i : Nat) (x : Sub) (hx : s.subs[i]? = some x)
    (hl : x.phase ≠ .closed) (n : Nat) (hn : s.log.length < n) :
    (runFrom b s (rounds i n)).log = s.log ∧
    ∃ y, (runFrom b s (rounds i n)).subs[i]? = some y ∧ y.after = x.after ∧
      y.out = stream x.after s.log ∧ ((∃ e ∈ stream x.after s.log, e.terminal = true) → y.phase = .done) := by
  rw [runFrom_rounds]
  refine ⟨rfl, iter (subRound b s.log) n x, ?_, ?_⟩
  · simp [List.getElem?_modify, hx]
  · have hinv := hs.subs x (List.mem_of_getElem? hx)
    obtain ⟨hi, ha, hp⟩ := iter_progress hs.consec n x hinv hl
    have hset : Settled s.log (iter (subRound b s.log) n x) := by
      rcases hp with hp | hp
      · exact hp
      · exfalso
        have := hi.pre.length_le
        simp at this
        omega
    obtain ⟨h1, h2⟩ := settled_complete hs.consec hi hset
    rw [ha] at h1 h2
    exact ⟨ha, h1, h2⟩

/-! ## machine-level resume -/

theorem resume_state {b : Backend} {s : St} (hs : StInv b s) (x1 x2 : Sub) (h1 : x1 ∈ s.subs) (h2 : x2 ∈ s.subs)
    (e : Ev) (hlast : x1.out.getLast? = some e) (hnt : e.terminal = false) (hk : x2.after = e.seq) :
    x1.out ++ stream x2.after s.log = stream x1.after s.log ∧
      x1.out ++ x2.out <+: stream x1.after s.log := by
  have hc := hs.consec
  have i1 := hs.subs x1 h1
  have i2 := hs.subs x2 h2
  have hne : x1.out ≠ [] := by intro h0; rw [h0] at hlast; simp at hlast
  have hpos : 0 < x1.out.length := List.length_pos_iff.mpr hne
  -- the last yielded event sits at index startIdx + n - 1 of the log
  have hseq : e.seq = (startIdx x1.after : Nat) + (x1.out.length - 1 : Nat) := by
    have hj : x1.out.length - 1 < x1.out.length := by omega
    have := sub_out_seq hc i1 (x1.out.length - 1) hj
    rw [List.getLast?_eq_getElem?, List.getElem?_eq_getElem hj] at hlast
    rw [← Option.some.inj hlast]
    exact this
  have hstart : startIdx x2.after = startIdx x1.after + x1.out.length := by
    rw [hk, hseq]; simp only [startIdx]; omega
  have hall : ∀ y ∈ x1.out, y.terminal = false := by
    intro y hy
    rcases mem_dropLast_or_last hy with h | h
    · exact i1.noTermInit y h
    · rw [hlast] at h; rw [← Option.some.inj h]; exact hnt
  have hsplit := prefix_drop_split i1.pre
  rw [List.drop_drop] at hsplit
  have heq : x1.out ++ stream x2.after s.log = stream x1.after s.log := by
    rw [stream_eq hc x1.after, stream_eq hc x2.after, hsplit, cut_append_noterm hall, hstart]
  refine ⟨heq, ?_⟩
  rw [← heq]
  exact (List.prefix_append_right_inj _).mpr (sub_safe hc i2)

/-! ## the two logs when time may pass -/

theorem modify_map_inv {β} (l : List Sub) (i : Nat) (f : Sub → Sub) (g : Sub → β) (h : ∀ x, g (f x) = g x) :
    (l.modify i f).map g = l.map g := by
  induction l generalizing i with
  | nil => simp
  | cons a t ih =>
    cases i with
    | zero => simp [h]
    | succ i => simp [ih]

theorem init_after (b : Backend) (log : List Ev) (x : Sub) : (x.init b log).after = x.after := by
  unfold Sub.init; split <;> rfl
theorem read_after (b : Backend) (log : List Ev) (x : Sub) : (x.read b log).after = x.after := by
  unfold Sub.read; split
  · simp only; split <;> rfl
  · rfl
theorem emit_after (b : Backend) (x : Sub) : (x.emit b).after = x.after := by
  unfold Sub.emit; split
  · simp only; split
    · rfl
    · split <;> rfl
  · rfl
  · rfl
theorem wake_after (x : Sub) : x.wake.after = x.after := by unfold Sub.wake; split <;> rfl
theorem timeout_after (b : Backend) (x : Sub) : (x.timeout b).after = x.after := by
  unfold Sub.timeout; split <;> rfl
theorem cancel_after (x : Sub) : x.cancel.after = x.after := rfl
theorem notify_after (x : Sub) : x.notify.after = x.after := by unfold Sub.notify; split <;> rfl

structure RelA (sm sq : St) : Prop where
  log : sm.log = sq.log
  subs : sm.subs.map Sub.after = sq.subs.map Sub.after

theorem inproc_ok {a : Act} (h : a.inproc = true) : a.ok = true := by
  cases a <;> simp_all [Act.inproc, Act.ok]

theorem step_relA {sm sq : St} (hm : StInv .mem sm) (hq : StInv .sql sq) (hr : RelA sm sq) (a : Act)
    (ha : a.inproc = true) : RelA (step .mem sm a) (step .sql sq a) := by
  have hlog := hr.log
  have hsub := hr.subs
  cases a with
  | append tag ty tys =>
    constructor
    · simp only [step, mkEv]
      rw [nextSeq_consec .mem hm.consec, nextSeq_consec .sql hq.consec, hlog]
    · simp only [step, List.map_map]
      have : (Sub.after ∘ Sub.notify) = Sub.after := by funext x; exact notify_after x
      rw [this, hsub]
  | xappend _ _ _ => simp [Act.inproc] at ha
  | trim _ => simp [Act.inproc] at ha
  | openSub after => exact ⟨hlog, by simp [step, hsub]⟩
  | init i => exact ⟨hlog, by simp only [step]; rw [modify_map_inv _ _ _ _ (init_after _ _), modify_map_inv _ _ _ _ (init_after _ _), hsub]⟩
  | read i => exact ⟨hlog, by simp only [step]; rw [modify_map_inv _ _ _ _ (read_after _ _), modify_map_inv _ _ _ _ (read_after _ _), hsub]⟩
  | emit i => exact ⟨hlog, by simp only [step]; rw [modify_map_inv _ _ _ _ (emit_after _), modify_map_inv _ _ _ _ (emit_after _), hsub]⟩
  | wake i => exact ⟨hlog, by simp only [step]; rw [modify_map_inv _ _ _ _ wake_after, modify_map_inv _ _ _ _ wake_after, hsub]⟩
  | timeout i => exact ⟨hlog, by simp only [step]; rw [modify_map_inv _ _ _ _ (timeout_after _), modify_map_inv _ _ _ _ (timeout_after _), hsub]⟩
  | cancel i => exact ⟨hlog, by simp only [step]; rw [modify_map_inv _ _ _ _ cancel_after, modify_map_inv _ _ _ _ cancel_after, hsub]⟩

theorem runFrom_relA {sm sq : St} (hm : StInv .mem sm) (hq : StInv .sql sq) (hr : RelA sm sq)
    (acts : List Act) (hin : ∀ a ∈ acts, a.inproc = true) :
    RelA (runFrom .mem sm acts) (runFrom .sql sq acts) := by
  induction acts generalizing sm sq with
  | nil => exact hr
  | cons a rest ih =>
    have ha := hin a (by simp)
    simp only [runFrom, List.foldl_cons]
    exact ih (stinv_step hm a (inproc_ok ha)) (stinv_step hq a (inproc_ok ha)) (step_relA hm hq hr a ha)
      fun x hx => hin x (by simp [hx])

end EventLog
