/-!
M7 (C) — the deferred-release timer of `DBOSIdleReleaseDecorator` (DBOS server stack), one run.

The DBOS stack decides *when* to try a release differently from the in-process stack: there is no
`idle_since` / `elapsed` test inside the release; instead the decorator keeps **one** timer task per run in
`_deferred_release_tasks[run_id]` and maintains it synchronously:

* `_DBOSIdleReleaseInternalRunAdapter.write_to_event_stream(WorkflowIdleEvent)` → `_schedule_deferred_release`:
  cancel the registered task (if it is not done), create a new task `_deferred_release(run_id)` and register it;
* `_DBOSIdleReleaseInternalRunAdapter.wait_receive` returning a `WaitResultTick` → `_cancel_deferred_release`:
  pop the registered task, cancel it if it is not done; `_do_resume` starts with the same call;
* `_deferred_release`: `await asyncio.sleep(idle_timeout)`; `self._deferred_release_tasks.pop(run_id, None)`
  — pops *whatever* is registered under the run id —; `await self._release_idle_handler(run_id)` (whose first
  statement that matters is the `begin_release` CAS of machine (B), `WfModel/Lifecycle.lean`).

All three bodies are await-free apart from the sleep and the release itself, so the atomic actions are:
`idle`, `tick`, `resume` (the synchronous bookkeeping), `fire j` (task `j` wakes from its sleep, pops, and enters
`_release_idle_handler`: a release **attempt**), `finish j` (its `_release_idle_handler` has returned) and the
passing of time.  `task.cancel()` on a task whose sleep has already expired but which has not run yet still
cancels it (asyncio delivers the CancelledError at its next step), so a `sleeping` task can be cancelled
whatever its `due`.  A task that is past its pop is *not done*: were it still registered, `cancel` would reach
into the running release (ghost `abandoned`).
-/
set_option linter.unusedVariables false
namespace DbosTimer

def upd {α : Type} (f : Nat → α) (k : Nat) (v : α) : Nat → α := fun i => if i = k then v else f i

@[simp] theorem upd_same {α : Type} (f : Nat → α) (k : Nat) (v : α) : upd f k v k = v := by simp [upd]
theorem upd_apply {α : Type} (f : Nat → α) (k i : Nat) (v : α) : upd f k v i = if i = k then v else f i := rfl

/-- a `_deferred_release` task -/
inductive TSt
  | absent
  | sleeping (armed due : Nat)  -- inside `asyncio.sleep(idle_timeout)`, created at `armed`
  | releasing (armed : Nat)     -- past its pop, inside `_release_idle_handler`
  | cancelled                   -- `task.cancel()` reached it
  | done                        -- `_release_idle_handler` returned
deriving DecidableEq, Repr

/-- a release attempt: task `task` left its sleep and entered `_release_idle_handler` -/
structure Attempt where
  at_ : Nat               -- when
  idle : Option Nat       -- time of the last idle announcement at that moment
  ticks : Nat             -- ticks received by the run (and resumes) since that announcement
  task : Nat
deriving DecidableEq, Repr

structure S where
  tau : Nat                        -- idle_timeout
  now : Nat := 0
  reg : Option Nat := none         -- `_deferred_release_tasks.get(run_id)`
  tasks : Nat → TSt := fun _ => .absent
  next : Nat := 0                  -- timer tasks created so far
  -- ghosts
  lastIdle : Option Nat := none    -- time of the last WorkflowIdleEvent
  ticksSince : Nat := 0            -- ticks received / resumes since then
  pending : Bool := false          -- the last of {idle, tick, resume, fire} was an idle announcement
  attempts : List Attempt := []
  stray : Nat := 0                 -- pops that removed another task's registration
  abandoned : Nat := 0             -- cancels that hit a task inside `_release_idle_handler`

def init (tau : Nat) : S := { tau := tau }

inductive Act
  | advance (dt : Nat)
  | idle | tick | resume
  | fire (j : Nat) | finish (j : Nat)
deriving DecidableEq, Repr

/-- `_cancel_deferred_release`: `task = tasks.pop(run_id, None); if task is not None and not task.done(): task.cancel()` -/
def cancelReg (s : S) : S :=
  match s.reg with
  | none => s
  | some j =>
    match s.tasks j with
    | .sleeping _ _ => { s with reg := none, tasks := upd s.tasks j .cancelled }
    | .releasing _ => { s with reg := none, tasks := upd s.tasks j .cancelled, abandoned := s.abandoned + 1 }
    | _ => { s with reg := none }

def step (s : S) : Act → Option S
  | .advance dt => some { s with now := s.now + dt }
  | .idle =>
    -- `_schedule_deferred_release`: cancel, spawn, register
    let s1 := cancelReg s
    some { s1 with tasks := upd s1.tasks s1.next (.sleeping s1.now (s1.now + s1.tau)), reg := some s1.next, next := s1.next + 1,
                   lastIdle := some s1.now, ticksSince := 0, pending := true }
  | .tick => let s1 := cancelReg s; some { s1 with ticksSince := s1.ticksSince + 1, pending := false }
  | .resume => let s1 := cancelReg s; some { s1 with ticksSince := s1.ticksSince + 1, pending := false }
  | .fire j =>
    match s.tasks j with
    | .sleeping armed due =>
      if due ≤ s.now then
        some { s with reg := none, tasks := upd s.tasks j (.releasing armed),
                      stray := s.stray + (match s.reg with | some j' => if j' = j then 0 else 1 | none => 0),
                      attempts := s.attempts ++ [{ at_ := s.now, idle := s.lastIdle, ticks := s.ticksSince, task := j }],
                      pending := false }
      else none
    | _ => none
  | .finish j =>
    match s.tasks j with
    | .releasing _ => some { s with tasks := upd s.tasks j .done }
    | _ => none

def stepD (s : S) (a : Act) : S := (step s a).getD s

def run (s : S) (acts : List Act) : S := acts.foldl stepD s

end DbosTimer
