"""Facts about llama_agents/core/iter_utils.py re-extracted from the current source
for the C29 model (lean/WfModel/GenIterUtils.lean).

What is extracted (each with a sentinel when the expected shape is missing):
  * passMode     - which condition switches debounced_sorted_prefix to pass-through:
                   `debouncer.is_complete` (onIsComplete) or a local flag that is
                   initialised False and set True in the marker branch (onMarkerConsumed)
  * markerCmp / markerYield - what the consumer loop compares against and what the generator
                   merged as second source yields (a string literal or a module-level name)
  * markerInBand - the comparison is `==` against a literal (an item of `inner` can be equal to
                   it and is then swallowed) rather than `is` against a module-private object()
  * mergeDefaultStop - default of merge_generators(stop_on_first_completion=...)
  * dspMergeStop - the flag debounced_sorted_prefix passes to merge_generators
  * dspSources   - number of positional sources it passes (inner, debouncer.aiter())
  * waitFirstCompleted - asyncio.wait(..., return_when=asyncio.FIRST_COMPLETED)
  * sortStableByKey - the flush is `buffer.sort(key=key)` (list.sort is stable) followed by
                   yielding the buffer in order
  * dspYieldSites / bufferBranchHoldsBack - debounced_sorted_prefix hands items to its caller in exactly
                   two places (the flush loop of the marker branch, the pass-through statement) and the
                   buffering branch does nothing but `extend_window()` and `buffer.append(item)`: no yield,
                   no await, no other statement (a size- or time-dependent early hand-over lives there)

  * debFireLE / debLoopShape / debExtendFromNow / debInitShape - the timer arithmetic of `Debouncer` (model
                   `WfModel/IterDebounce.lean`): `_loop` is `while not signal.is_set(): now = get_time();
                   r = min(complete_time, max_complete_time) - now; if r <= 0: signal.set() else: await sleep(r)`
                   (the comparison operator itself is generated: `<=` / `<`), `extend_window` is
                   `complete_time = get_time() + debounce_seconds`, `__init__` sets `complete_time = start + debounce`,
                   `max_complete_time = start + max_window` and starts `_loop` as a task
  * dspDebouncerArgs - debounced_sorted_prefix builds `Debouncer(debounce_seconds, max_window_seconds)` from its own parameters
  * dspDefaultDebounceMs / dspDefaultMaxWindowMs / debDefaultDebounceMs / debDefaultMaxWindowMs - parameter defaults, in ms

`int_constants()` lists every integral numeric literal >= 2 of the module: the check feeds bursts whose
sizes straddle each of them (a threshold on the number of buffered items can only be one of these).
"""
from __future__ import annotations

import ast

from ..boot import repo_path

LEAN_MODULE = "GenIterUtils"
REL = "packages/llama-agents-core/src/llama_agents/core/iter_utils.py"


def _find_func(tree: ast.AST, name: str):
    for n in ast.walk(tree):
        if isinstance(n, (ast.AsyncFunctionDef, ast.FunctionDef)) and n.name == name:
            return n
    return None


def _lean_str(s: str | None) -> str:
    if s is None:
        return '"<missing>"'
    return '"' + s.replace("\\", "\\\\").replace('"', '\\"') + '"'


def extract() -> dict:
    """Returns the extracted facts (also used by the check itself)."""
    facts: dict = {"passMode": "unknown", "markerCmp": None, "markerYield": None, "markerInBand": True, "mergeDefaultStop": None,
                   "dspMergeStop": None, "dspSources": None, "waitFirstCompleted": False, "sortStableByKey": False,
                   "dspYieldSites": None, "bufferBranchHoldsBack": False,
                   "debFireLE": None, "debLoopShape": False, "debExtendFromNow": False, "debInitShape": False,
                   "dspDebouncerArgs": False, "dspDefaultDebounceMs": None, "dspDefaultMaxWindowMs": None,
                   "debDefaultDebounceMs": None, "debDefaultMaxWindowMs": None,
                   "notes": []}
    notes = facts["notes"]
    tree = ast.parse(open(repo_path(REL)).read())
    dsp = _find_func(tree, "debounced_sorted_prefix")
    mg = _find_func(tree, "merge_generators")
    deb = None
    for n in ast.walk(tree):
        if isinstance(n, ast.ClassDef) and n.name == "Debouncer":
            deb = n
    if dsp is None or mg is None or deb is None:
        notes.append("iterutils: debounced_sorted_prefix / merge_generators / Debouncer not found")
        return facts

    # ---- consumer loop of debounced_sorted_prefix
    loop = next((n for n in dsp.body if isinstance(n, ast.AsyncFor)), None)
    top_if = None
    if loop is not None and len(loop.body) == 1 and isinstance(loop.body[0], ast.If):
        top_if = loop.body[0]
    if top_if is None:
        notes.append("iterutils: consumer loop of debounced_sorted_prefix is not `async for ...: if item == MARK: ... else: ...`")
    else:
        t = top_if.test
        if (isinstance(t, ast.Compare) and len(t.ops) == 1 and isinstance(t.ops[0], ast.Eq)
                and isinstance(t.comparators[0], ast.Constant) and isinstance(t.comparators[0].value, str)):
            facts["markerCmp"] = "lit:" + t.comparators[0].value
        elif (isinstance(t, ast.Compare) and len(t.ops) == 1 and isinstance(t.ops[0], ast.Is)
                and isinstance(t.comparators[0], ast.Name)):
            name = t.comparators[0].id
            facts["markerCmp"] = "name:" + name
            # private marker: module-level `NAME = object()` (possibly annotated), assigned once
            assigns = [n for n in tree.body if (isinstance(n, ast.Assign) and any(isinstance(x, ast.Name) and x.id == name for x in n.targets))
                       or (isinstance(n, ast.AnnAssign) and isinstance(n.target, ast.Name) and n.target.id == name)]
            if (len(assigns) == 1 and isinstance(assigns[0].value, ast.Call) and isinstance(assigns[0].value.func, ast.Name)
                    and assigns[0].value.func.id == "object" and not assigns[0].value.args):
                facts["markerInBand"] = False
            else:
                notes.append(f"iterutils: marker name {name} is not a module-level `object()`")
        else:
            notes.append("iterutils: marker test is neither `item == <str literal>` nor `item is <NAME>`")
        # marker branch: sort(key=key), yield loop, buffer reset (, flag := True)
        mb = top_if.body
        sort_ok = any(isinstance(s, ast.Expr) and isinstance(s.value, ast.Call) and isinstance(s.value.func, ast.Attribute)
                      and s.value.func.attr == "sort" and [k.arg for k in s.value.keywords] == ["key"]
                      and isinstance(s.value.keywords[0].value, ast.Name) and s.value.keywords[0].value.id == "key"
                      for s in mb)
        sort_idx = next((i for i, s in enumerate(mb) if isinstance(s, ast.Expr) and isinstance(s.value, ast.Call)
                         and isinstance(s.value.func, ast.Attribute) and s.value.func.attr == "sort"), None)
        yield_ok = False
        if sort_idx is not None:
            for s in mb[sort_idx + 1:]:
                if (isinstance(s, ast.For) and isinstance(s.iter, ast.Name) and len(s.body) == 1
                        and isinstance(s.body[0], ast.Expr) and isinstance(s.body[0].value, ast.Yield)
                        and isinstance(s.body[0].value.value, ast.Name) and isinstance(s.target, ast.Name)
                        and s.body[0].value.value.id == s.target.id):
                    yield_ok = True
        facts["sortStableByKey"] = bool(sort_ok and yield_ok)
        if not facts["sortStableByKey"]:
            notes.append("iterutils: flush is not `buffer.sort(key=key)` followed by yielding the buffer in order")
        true_flags = {s.targets[0].id for s in mb if isinstance(s, ast.Assign) and len(s.targets) == 1
                      and isinstance(s.targets[0], ast.Name) and isinstance(s.value, ast.Constant) and s.value.value is True}
        false_init = {s.targets[0].id for s in dsp.body if isinstance(s, ast.Assign) and len(s.targets) == 1
                      and isinstance(s.targets[0], ast.Name) and isinstance(s.value, ast.Constant) and s.value.value is False}
        # every other assignment to a candidate flag disqualifies it
        assigned_elsewhere: set[str] = set()
        for n in ast.walk(dsp):
            if isinstance(n, (ast.Assign, ast.AugAssign, ast.AnnAssign)):
                tg = n.targets if isinstance(n, ast.Assign) else [n.target]
                for x in tg:
                    if isinstance(x, ast.Name) and n not in mb and n not in dsp.body:
                        assigned_elsewhere.add(x.id)
        # else branch: find the `if <cond>: yield item else: buffer.append`
        inner_if = next((s for s in top_if.orelse if isinstance(s, ast.If)), None)
        if inner_if is None:
            notes.append("iterutils: else branch has no pass-through test")
        else:
            c = inner_if.test
            yields = any(isinstance(s, ast.Expr) and isinstance(s.value, ast.Yield) for s in inner_if.body)
            appends = any(isinstance(s, ast.Expr) and isinstance(s.value, ast.Call) and isinstance(s.value.func, ast.Attribute)
                          and s.value.func.attr == "append" for s in inner_if.orelse)
            if not (yields and appends):
                notes.append("iterutils: pass-through test does not have the shape `if c: yield x else: ... buffer.append(x)`")
            elif isinstance(c, ast.Attribute) and c.attr == "is_complete":
                facts["passMode"] = "onIsComplete"
            elif (isinstance(c, ast.Name) and c.id in true_flags and c.id in false_init
                  and c.id not in assigned_elsewhere):
                facts["passMode"] = "onMarkerConsumed"
            else:
                notes.append("iterutils: pass-through condition is neither debouncer.is_complete nor a flag set in the marker branch")
            # the buffering branch holds the item back and does nothing else
            def _plain_call(s: ast.stmt, attr: str) -> bool:
                return (isinstance(s, ast.Expr) and isinstance(s.value, ast.Call) and isinstance(s.value.func, ast.Attribute)
                        and s.value.func.attr == attr and isinstance(s.value.func.value, ast.Name))
            bb = inner_if.orelse
            shape = sorted("extend" if _plain_call(s, "extend_window") else "append" if _plain_call(s, "append") else "other" for s in bb)
            effects = [n for s in bb for n in ast.walk(s) if isinstance(n, (ast.Yield, ast.YieldFrom, ast.Await))]
            facts["bufferBranchHoldsBack"] = bool(shape in (["append"], ["append", "extend"]) and not effects)
            if not facts["bufferBranchHoldsBack"]:
                notes.append("iterutils: the buffering branch of debounced_sorted_prefix is not just `extend_window(); buffer.append(item)` "
                             f"(statements: {shape}, yields/awaits inside: {len(effects)})")
    facts["dspYieldSites"] = sum(1 for n in ast.walk(dsp) if isinstance(n, (ast.Yield, ast.YieldFrom)))
    if facts["dspYieldSites"] != 2:
        notes.append(f"iterutils: debounced_sorted_prefix has {facts['dspYieldSites']} yield sites, expected 2 (flush loop, pass-through)")

    # ---- merge call inside debounced_sorted_prefix
    for n in ast.walk(dsp):
        if isinstance(n, ast.Call) and isinstance(n.func, ast.Name) and n.func.id == "merge_generators":
            facts["dspSources"] = len(n.args) if not any(isinstance(a, ast.Starred) for a in n.args) else None
            kw = {k.arg: k.value for k in n.keywords}
            if "stop_on_first_completion" in kw:
                v = kw["stop_on_first_completion"]
                facts["dspMergeStop"] = v.value if isinstance(v, ast.Constant) and isinstance(v.value, bool) else None
            else:
                facts["dspMergeStop"] = "default"
    # ---- merge_generators signature and wait mode
    kwd = {a.arg: d for a, d in zip(mg.args.kwonlyargs, mg.args.kw_defaults)}
    d = kwd.get("stop_on_first_completion")
    if isinstance(d, ast.Constant) and isinstance(d.value, bool):
        facts["mergeDefaultStop"] = d.value
    else:
        notes.append("iterutils: merge_generators has no bool default for stop_on_first_completion")
    if facts["dspMergeStop"] == "default":
        facts["dspMergeStop"] = facts["mergeDefaultStop"]
    for n in ast.walk(mg):
        if isinstance(n, ast.Call) and isinstance(n.func, ast.Attribute) and n.func.attr == "wait":
            for k in n.keywords:
                if k.arg == "return_when" and isinstance(k.value, ast.Attribute) and k.value.attr == "FIRST_COMPLETED":
                    facts["waitFirstCompleted"] = True
    if not facts["waitFirstCompleted"]:
        notes.append("iterutils: merge_generators does not wait with return_when=FIRST_COMPLETED")
    # ---- the generator merged as second source yields the marker
    marker_gen = None
    for n in ast.walk(dsp):
        if isinstance(n, ast.Call) and isinstance(n.func, ast.Name) and n.func.id == "merge_generators" and len(n.args) == 2:
            a = n.args[1]
            if isinstance(a, ast.Call) and isinstance(a.func, ast.Attribute) and a.func.attr == "aiter":
                marker_gen = _find_func(deb, "aiter")
            elif isinstance(a, ast.Call) and isinstance(a.func, ast.Name):
                marker_gen = next((f for f in tree.body if isinstance(f, ast.AsyncFunctionDef) and f.name == a.func.id), None)
    if marker_gen is not None:
        ys = [n for n in ast.walk(marker_gen) if isinstance(n, ast.Yield)]
        if len(ys) == 1 and isinstance(ys[0].value, ast.Constant) and isinstance(ys[0].value.value, str):
            facts["markerYield"] = "lit:" + ys[0].value.value
        elif len(ys) == 1 and isinstance(ys[0].value, ast.Name):
            facts["markerYield"] = "name:" + ys[0].value.id
    if facts["markerYield"] is None:
        notes.append("iterutils: the second merged source does not yield exactly one literal / module-level name")
    _extract_debouncer(facts, dsp, deb)
    return facts


def _self_attr(n: ast.AST, attr: str | None = None) -> str | None:
    """`self.<attr>` -> attr"""
    if isinstance(n, ast.Attribute) and isinstance(n.value, ast.Name) and n.value.id == "self" and (attr is None or n.attr == attr):
        return n.attr
    return None


def _is_get_time_call(n: ast.AST) -> bool:
    return isinstance(n, ast.Call) and not n.args and not n.keywords and _self_attr(n.func, "get_time") is not None


def _ms(v: ast.AST | None) -> int | None:
    if isinstance(v, ast.Constant) and isinstance(v.value, (int, float)) and not isinstance(v.value, bool):
        x = float(v.value) * 1000.0
        if x >= 0 and abs(x - round(x)) < 1e-9:
            return int(round(x))
    return None


def _extract_debouncer(facts: dict, dsp: ast.AST, deb: ast.ClassDef) -> None:
    """the timer arithmetic of `Debouncer` (tolerant of renamed locals and reordered independent statements)"""
    notes = facts["notes"]
    # ---- _loop
    lp = _find_func(deb, "_loop")
    wh = next((n for n in (lp.body if lp is not None else []) if isinstance(n, ast.While)), None)
    if wh is None:
        notes.append("iterutils: Debouncer._loop has no while loop")
    else:
        t = wh.test
        test_ok = (isinstance(t, ast.UnaryOp) and isinstance(t.op, ast.Not) and isinstance(t.operand, ast.Call)
                   and isinstance(t.operand.func, ast.Attribute) and t.operand.func.attr == "is_set"
                   and _self_attr(t.operand.func.value, "complete_signal") is not None)
        time_names = {s.targets[0].id for s in wh.body if isinstance(s, ast.Assign) and len(s.targets) == 1
                      and isinstance(s.targets[0], ast.Name) and _is_get_time_call(s.value)}
        rem_names = set()
        for s_ in wh.body:
            if (isinstance(s_, ast.Assign) and len(s_.targets) == 1 and isinstance(s_.targets[0], ast.Name)
                    and isinstance(s_.value, ast.BinOp) and isinstance(s_.value.op, ast.Sub)
                    and isinstance(s_.value.right, ast.Name) and s_.value.right.id in time_names
                    and isinstance(s_.value.left, ast.Call) and isinstance(s_.value.left.func, ast.Name)
                    and s_.value.left.func.id == "min" and not s_.value.left.keywords
                    and sorted(_self_attr(a) or "?" for a in s_.value.left.args) == ["complete_time", "max_complete_time"]):
                rem_names.add(s_.targets[0].id)
        iff = next((s_ for s_ in wh.body if isinstance(s_, ast.If)), None)
        branch_ok = False
        if iff is not None and isinstance(iff.test, ast.Compare) and len(iff.test.ops) == 1 and isinstance(iff.test.left, ast.Name) \
                and iff.test.left.id in rem_names and isinstance(iff.test.comparators[0], ast.Constant) \
                and iff.test.comparators[0].value == 0 and not isinstance(iff.test.comparators[0].value, bool):
            if isinstance(iff.test.ops[0], ast.LtE):
                facts["debFireLE"] = True
            elif isinstance(iff.test.ops[0], ast.Lt):
                facts["debFireLE"] = False
            sets = [s_ for s_ in iff.body if isinstance(s_, ast.Expr) and isinstance(s_.value, ast.Call)
                    and isinstance(s_.value.func, ast.Attribute) and s_.value.func.attr == "set"
                    and _self_attr(s_.value.func.value, "complete_signal") is not None]
            sleeps = [s_ for s_ in iff.orelse if isinstance(s_, ast.Expr) and isinstance(s_.value, ast.Await)
                      and isinstance(s_.value.value, ast.Call) and isinstance(s_.value.value.func, ast.Attribute)
                      and s_.value.value.func.attr == "sleep" and len(s_.value.value.args) == 1
                      and isinstance(s_.value.value.args[0], ast.Name) and s_.value.value.args[0].id in rem_names]
            branch_ok = len(sets) == 1 and len(iff.body) == 1 and len(sleeps) == 1 and len(iff.orelse) == 1
        n_await = sum(1 for n in ast.walk(lp) if isinstance(n, ast.Await))
        facts["debLoopShape"] = bool(test_ok and rem_names and branch_ok and n_await == 1 and len(wh.body) == 3
                                     and facts["debFireLE"] is not None)
        if not facts["debLoopShape"]:
            notes.append("iterutils: Debouncer._loop is not `while not signal.is_set(): now = get_time(); r = min(complete_time, "
                         "max_complete_time) - now; if r <= 0: signal.set() else: await sleep(r)`")
    # ---- extend_window
    ew = _find_func(deb, "extend_window")
    if ew is not None:
        body = [s_ for s_ in ew.body if not (isinstance(s_, ast.Expr) and isinstance(s_.value, ast.Constant))]
        tn = {s_.targets[0].id for s_ in body if isinstance(s_, ast.Assign) and len(s_.targets) == 1
              and isinstance(s_.targets[0], ast.Name) and _is_get_time_call(s_.value)}

        def _now(n: ast.AST) -> bool:
            return (isinstance(n, ast.Name) and n.id in tn) or _is_get_time_call(n)

        sets = [s_ for s_ in body if isinstance(s_, ast.Assign) and len(s_.targets) == 1 and _self_attr(s_.targets[0]) is not None]
        ok = (len(sets) == 1 and _self_attr(sets[0].targets[0]) == "complete_time" and isinstance(sets[0].value, ast.BinOp)
              and isinstance(sets[0].value.op, ast.Add)
              and ((_now(sets[0].value.left) and _self_attr(sets[0].value.right, "debounce_seconds") is not None)
                   or (_now(sets[0].value.right) and _self_attr(sets[0].value.left, "debounce_seconds") is not None))
              and len(body) == len(sets) + len(tn) and not any(isinstance(n, (ast.Await, ast.If, ast.While, ast.For)) for n in ast.walk(ew)))
        facts["debExtendFromNow"] = bool(ok)
    if not facts["debExtendFromNow"]:
        notes.append("iterutils: Debouncer.extend_window is not `complete_time = get_time() + debounce_seconds`")
    # ---- __init__
    ini = _find_func(deb, "__init__")
    if ini is not None:
        asg = {}
        for s_ in ini.body:
            if isinstance(s_, ast.Assign) and len(s_.targets) == 1 and _self_attr(s_.targets[0]) is not None:
                asg.setdefault(_self_attr(s_.targets[0]), []).append(s_.value)

        def _sum_of(v: ast.AST, a: str, b: str) -> bool:
            return (isinstance(v, ast.BinOp) and isinstance(v.op, ast.Add)
                    and sorted([_self_attr(v.left) or "?", _self_attr(v.right) or "?"]) == sorted([a, b]))

        def _param(v: ast.AST, name: str) -> bool:
            return isinstance(v, ast.Name) and v.id == name

        ok = (all(len(asg.get(k, [])) == 1 for k in ("start_time", "complete_time", "max_complete_time", "debounce_seconds",
                                                     "max_window_seconds", "get_time"))
              and _is_get_time_call(asg["start_time"][0])
              and _sum_of(asg["complete_time"][0], "start_time", "debounce_seconds")
              and _sum_of(asg["max_complete_time"][0], "start_time", "max_window_seconds")
              and _param(asg["debounce_seconds"][0], "debounce_seconds") and _param(asg["max_window_seconds"][0], "max_window_seconds")
              and _param(asg["get_time"][0], "get_time"))
        starts = [n for n in ast.walk(ini) if isinstance(n, ast.Call) and isinstance(n.func, ast.Attribute) and n.func.attr == "create_task"
                  and len(n.args) == 1 and isinstance(n.args[0], ast.Call) and _self_attr(n.args[0].func, "_loop") is not None]
        facts["debInitShape"] = bool(ok and len(starts) == 1)
        names = [a.arg for a in ini.args.args]
        dflt = dict(zip(names[len(names) - len(ini.args.defaults):], ini.args.defaults))
        facts["debDefaultDebounceMs"] = _ms(dflt.get("debounce_seconds"))
        facts["debDefaultMaxWindowMs"] = _ms(dflt.get("max_window_seconds"))
    if not facts["debInitShape"]:
        notes.append("iterutils: Debouncer.__init__ does not set complete_time = start + debounce, max_complete_time = start + max_window "
                     "and start exactly one `_loop` task")
    # ---- how debounced_sorted_prefix builds it, and its own defaults
    for n in ast.walk(dsp):
        if isinstance(n, ast.Call) and isinstance(n.func, ast.Name) and n.func.id == "Debouncer":
            pos = [a.id if isinstance(a, ast.Name) else "?" for a in n.args]
            kws = {k.arg: (k.value.id if isinstance(k.value, ast.Name) else "?") for k in n.keywords}
            full = dict(zip(["debounce_seconds", "max_window_seconds", "get_time"], pos))
            full.update(kws)
            facts["dspDebouncerArgs"] = full == {"debounce_seconds": "debounce_seconds", "max_window_seconds": "max_window_seconds"}
    if not facts["dspDebouncerArgs"]:
        notes.append("iterutils: debounced_sorted_prefix does not build Debouncer(debounce_seconds, max_window_seconds) from its parameters")
    kwd = {a.arg: d for a, d in zip(dsp.args.kwonlyargs, dsp.args.kw_defaults)}
    names = [a.arg for a in dsp.args.args]
    kwd.update(dict(zip(names[len(names) - len(dsp.args.defaults):], dsp.args.defaults)))
    facts["dspDefaultDebounceMs"] = _ms(kwd.get("debounce_seconds"))
    facts["dspDefaultMaxWindowMs"] = _ms(kwd.get("max_window_seconds"))
    for k in ("dspDefaultDebounceMs", "dspDefaultMaxWindowMs", "debDefaultDebounceMs", "debDefaultMaxWindowMs"):
        if facts[k] is None:
            notes.append(f"iterutils: no numeric default (whole milliseconds) found for {k}")


def int_constants() -> list[int]:
    """every integral numeric literal >= 2 in the current iter_utils.py, sorted, without duplicates"""
    try:
        tree = ast.parse(open(repo_path(REL)).read())
    except Exception:
        return []
    found: set[int] = set()
    for n in ast.walk(tree):
        if isinstance(n, ast.Constant) and not isinstance(n.value, bool) and isinstance(n.value, (int, float)):
            v = n.value
            if v == v and abs(v) != float("inf") and float(v).is_integer() and int(v) >= 2:
                found.add(int(v))
    return sorted(found)


def _b(v) -> str:
    return "true" if v is True else "false"


def generate(notes: list[str]) -> list[str]:
    f = extract()
    notes += f["notes"]
    mode = {"onIsComplete": ".onIsComplete", "onMarkerConsumed": ".onMarkerConsumed"}.get(f["passMode"], ".unknown")
    L = [
        "namespace IterUtils",
        "",
        "/-- What `debounced_sorted_prefix` tests to decide that an item is passed through. -/",
        "inductive PassMode where",
        "  | onIsComplete      -- `if debouncer.is_complete:` (the flag flips when the timer fires)",
        "  | onMarkerConsumed  -- a local flag set in the branch that consumes the marker",
        "  | unknown           -- the extractor did not recognise the source",
        "deriving DecidableEq, Repr",
        "",
        "namespace Gen",
        f"def passMode : PassMode := {mode}",
        f"def markerCmp : String := {_lean_str(f['markerCmp'])}",
        f"def markerYield : String := {_lean_str(f['markerYield'])}",
        f"def markerInBand : Bool := {_b(f['markerInBand'])}",
        f"def mergeDefaultStop : Bool := {_b(f['mergeDefaultStop'])}",
        f"def mergeDefaultStopKnown : Bool := {_b(isinstance(f['mergeDefaultStop'], bool))}",
        f"def dspMergeStop : Bool := {_b(f['dspMergeStop'])}",
        f"def dspMergeStopKnown : Bool := {_b(isinstance(f['dspMergeStop'], bool))}",
        f"def dspSources : Nat := {f['dspSources'] if isinstance(f['dspSources'], int) else 0}",
        f"def waitFirstCompleted : Bool := {_b(f['waitFirstCompleted'])}",
        f"def sortStableByKey : Bool := {_b(f['sortStableByKey'])}",
        f"def dspYieldSites : Nat := {f['dspYieldSites'] if isinstance(f['dspYieldSites'], int) else 0}",
        f"def bufferBranchHoldsBack : Bool := {_b(f['bufferBranchHoldsBack'])}",
        "/-- `if remaining <= 0:` in `Debouncer._loop` (false: `<`; unknown shapes are reported by `debLoopShape`) -/",
        f"def debFireLE : Bool := {_b(f['debFireLE'])}",
        f"def debLoopShape : Bool := {_b(f['debLoopShape'])}",
        f"def debExtendFromNow : Bool := {_b(f['debExtendFromNow'])}",
        f"def debInitShape : Bool := {_b(f['debInitShape'])}",
        f"def dspDebouncerArgs : Bool := {_b(f['dspDebouncerArgs'])}",
        f"def dspDefaultsKnown : Bool := {_b(all(isinstance(f[k], int) for k in ('dspDefaultDebounceMs', 'dspDefaultMaxWindowMs', 'debDefaultDebounceMs', 'debDefaultMaxWindowMs')))}",
        f"def dspDefaultDebounceMs : Int := {f['dspDefaultDebounceMs'] if isinstance(f['dspDefaultDebounceMs'], int) else 0}",
        f"def dspDefaultMaxWindowMs : Int := {f['dspDefaultMaxWindowMs'] if isinstance(f['dspDefaultMaxWindowMs'], int) else 0}",
        f"def debDefaultDebounceMs : Int := {f['debDefaultDebounceMs'] if isinstance(f['debDefaultDebounceMs'], int) else 0}",
        f"def debDefaultMaxWindowMs : Int := {f['debDefaultMaxWindowMs'] if isinstance(f['debDefaultMaxWindowMs'], int) else 0}",
        "end Gen",
        "end IterUtils",
    ]
    return L
