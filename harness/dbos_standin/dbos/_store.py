"""The stand-in's "system database": everything that survives a process stop.

* `operation_outputs` is a real table in the same SQLite file the repo's
  `SqliteJournalCrud` / `SqliteStateStore` use (columns as in DBOS's schema), so that the
  repo's own SQL (`purge_operations_from`: DELETE ... WHERE function_id > ?) acts on it.
  The recorded values themselves are Python objects kept beside the row (DBOS pickles
  them; here they are deep-copied on the way in and out).
* workflow status rows (name, inputs, status, result/error), notifications
  (`send`/`recv`), streams (`write_stream`/`read_stream`) are dictionaries.

`observers` are called *after* every persistent write with `(kind, info)`; the harness uses
them to take crash snapshots.  `snapshot()` / `from_snapshot()` copy the whole durable state
(SQLite file bytes + dictionaries): recovery = a new process (new `DBOS` instance, new event
loop) started on a restored copy.
"""
from __future__ import annotations

import copy
import os
import sqlite3
from typing import Any, Callable

OPS_DDL = (
    "CREATE TABLE IF NOT EXISTS operation_outputs ("
    "workflow_uuid TEXT NOT NULL, function_id INTEGER NOT NULL, function_name TEXT NOT NULL DEFAULT '', "
    "output TEXT, error TEXT, started_at_epoch_ms INTEGER, "
    "PRIMARY KEY (workflow_uuid, function_id))"
)


class SysDB:
    def __init__(self, db_path: str) -> None:
        self.db_path = db_path
        self.values: dict[tuple[str, int], tuple[str, Any]] = {}  # (wfid, fid) -> ("ok"|"err", value)
        self.workflows: dict[str, dict[str, Any]] = {}
        self.notifications: dict[tuple[str, str | None], list[Any]] = {}
        self.streams: dict[tuple[str, str], list[Any]] = {}
        self.stream_origin: dict[tuple[str, str], list[str]] = {}  # per item: "wf" (memoised write) | "step" (direct)
        self.closed: set[str] = set()  # workflow ids whose streams are closed (workflow terminated)
        self.observers: list[Callable[[str, dict], None]] = []
        self.writes = 0
        # one long-lived connection for the stand-in's own table (the repo code opens its own
        # connections on the same file; SQLite makes their committed writes visible here)
        self._conn = sqlite3.connect(self.db_path, check_same_thread=False)
        self._conn.execute("PRAGMA synchronous=OFF")
        self.ensure_tables()

    # -- sqlite side ---------------------------------------------------------
    def ensure_tables(self) -> None:
        self._conn.execute(OPS_DDL)
        self._conn.commit()

    def close(self) -> None:
        try:
            self._conn.close()
        except Exception:  # noqa: BLE001
            pass

    def _notify(self, kind: str, **info: Any) -> None:
        self.writes += 1
        for ob in list(self.observers):
            ob(kind, info)

    # -- operation outputs -----------------------------------------------------
    def lookup(self, wfid: str, fid: int) -> tuple[str, str, Any] | None:
        """-> (function_name, "ok"|"err", value) if an output is recorded at (wfid, fid)"""
        row = self._conn.execute(
            "SELECT function_name FROM operation_outputs WHERE workflow_uuid=? AND function_id=?", (wfid, fid)
        ).fetchone()
        if row is None:
            return None
        kind, value = self.values.get((wfid, fid), ("ok", None))
        return row[0], kind, copy.deepcopy(value)

    def record(self, wfid: str, fid: int, name: str, kind: str, value: Any, **extra: Any) -> None:
        self._conn.execute(
            "INSERT INTO operation_outputs (workflow_uuid, function_id, function_name, output, started_at_epoch_ms) "
            "VALUES (?, ?, ?, ?, 0)", (wfid, fid, name, kind))
        self._conn.commit()
        self.values[(wfid, fid)] = (kind, copy.deepcopy(value))
        self._notify("op_output", wfid=wfid, fid=fid, name=name, **extra)

    def recorded_fids(self, wfid: str) -> list[tuple[int, str]]:
        return [(r[0], r[1]) for r in self._conn.execute(
            "SELECT function_id, function_name FROM operation_outputs WHERE workflow_uuid=? ORDER BY function_id", (wfid,))]

    # -- workflow status -----------------------------------------------------
    def init_workflow(self, wfid: str, name: str, inputs: tuple) -> None:
        self.workflows[wfid] = {"name": name, "inputs": copy.deepcopy(inputs), "status": "PENDING", "result": None, "error": None}
        self._notify("wf_init", wfid=wfid)

    def finish_workflow(self, wfid: str, status: str, result: Any = None, error: BaseException | None = None) -> None:
        w = self.workflows[wfid]
        w["status"] = status
        w["result"] = copy.deepcopy(result)
        w["error"] = error
        self.closed.add(wfid)
        self._notify("wf_end", wfid=wfid, status=status)

    def delete_workflow(self, wfid: str) -> None:
        self.workflows.pop(wfid, None)
        for k in [k for k in self.values if k[0] == wfid]:
            del self.values[k]
        for d in (self.notifications, self.streams, self.stream_origin):
            for k in [k for k in d if k[0] == wfid]:
                del d[k]
        self.closed.discard(wfid)
        self._conn.execute("DELETE FROM operation_outputs WHERE workflow_uuid=?", (wfid,))
        self._conn.commit()
        self._notify("wf_delete", wfid=wfid)

    # -- notifications ---------------------------------------------------------
    def push_message(self, dest: str, topic: str | None, msg: Any) -> None:
        self.notifications.setdefault((dest, topic), []).append(copy.deepcopy(msg))
        self._notify("send", wfid=dest, topic=topic)

    def has_message(self, wfid: str, topic: str | None) -> bool:
        return bool(self.notifications.get((wfid, topic)))

    def consume_message(self, wfid: str, topic: str | None, fid: int) -> Any:
        """pop the oldest message and record it as the output of the recv at `fid` (one transaction)"""
        msg = self.notifications[(wfid, topic)].pop(0)
        self.record(wfid, fid, "DBOS.recv", "ok", msg, consumed=True)
        return copy.deepcopy(msg)

    # -- streams -----------------------------------------------------------------
    def stream_append(self, wfid: str, key: str, value: Any, fid: int | None, step_fid: int | None = None) -> None:
        self.streams.setdefault((wfid, key), []).append(copy.deepcopy(value))
        self.stream_origin.setdefault((wfid, key), []).append("wf" if fid is not None else "step")
        if fid is not None:
            self.record(wfid, fid, "DBOS.writeStream", "ok", None, stream=key)
        else:
            self._notify("stream", wfid=wfid, stream=key, step_fid=step_fid)

    # -- crash snapshots -----------------------------------------------------------
    def snapshot(self) -> dict[str, Any]:
        # the server's SQLite stores switch the file to WAL mode: fold the log into the main file first
        self._conn.execute("PRAGMA wal_checkpoint(TRUNCATE)").fetchall()
        with open(self.db_path, "rb") as f:
            data = f.read()
        for suffix in ("-wal", "-journal"):
            if os.path.exists(self.db_path + suffix) and os.path.getsize(self.db_path + suffix) > 0:
                raise RuntimeError("sqlite side file present while snapshotting: " + suffix)
        return {
            "sqlite": data,
            "values": copy.deepcopy(self.values),
            "workflows": copy.deepcopy(self.workflows),
            "notifications": copy.deepcopy(self.notifications),
            "streams": copy.deepcopy(self.streams),
            "stream_origin": copy.deepcopy(self.stream_origin),
            "closed": set(self.closed),
        }

    @classmethod
    def from_snapshot(cls, snap: dict[str, Any], db_path: str) -> "SysDB":
        with open(db_path, "wb") as f:
            f.write(snap["sqlite"])
        db = cls(db_path)
        db.values = copy.deepcopy(snap["values"])
        db.workflows = copy.deepcopy(snap["workflows"])
        db.notifications = copy.deepcopy(snap["notifications"])
        db.streams = copy.deepcopy(snap["streams"])
        db.stream_origin = copy.deepcopy(snap["stream_origin"])
        db.closed = set(snap["closed"])
        return db
