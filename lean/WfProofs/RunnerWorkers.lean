import WfProofs.EngineTelemetry
import WfProofs.RunnerTerminal
/-!
C01 on the runner: the live worker tasks (`Runner.running`) are a duplicate-free
sub-table of the reducer's `in_progress` tables.

Part 1 (reducer): every command list is *tracked* by the state it comes with — the
`(worker id, event)` rows a tick appends to a step's `in_progress` list are exactly the
`runWorker` commands it emits for that step, in order (`Track`).  The only rows a tick
removes are the row of a `stepResult` tick's own `(step, worker)`; a collect re-run keeps
that row and re-issues `runWorker` for it — at most once per tick: once the re-run is
scheduled the remaining `AddCollectedEvent` results of the tick are skipped
(`foldl_applyRes_rerun`; the reducer before that repair could re-issue the same slot twice,
see `WfProofs/EngineUnrepaired.lean` and `WfProps/C01.lean`).

Part 2 (runner): `RunInv`, preserved by every action.  Besides the inclusion it records where a
`stepResult` tick can be — only in the buffer, alone — and that the slot it reports on is a configured
step's and still in progress: with the worker-slot invariant that is all `reduce` needs to raise nothing
(`WfProofs/EngineNoCrash.lean`, `WfProofs/RunnerNoCrash.lean`, C04).
-/
set_option linter.unusedSimpArgs false
set_option linter.unusedVariables false

namespace Engine

/-! ### rows and started workers -/

/-- the `(worker id, event)` row of an in-progress entry -/
def InProg.key (ip : InProg) : Nat × Ev := (ip.wid, ip.ev)

def keys (ss : StepState) : List (Nat × Ev) := ss.inProg.map InProg.key

theorem keys_fst (ss : StepState) : (keys ss).map (·.1) = usedIds ss := by
  simp [keys, usedIds, InProg.key, List.map_map, Function.comp_def]

def startOf (s : Nat) : Cmd → Option (Nat × Ev)
  | .runWorker s' ev w => if s' = s then some (w, ev) else none
  | _ => none

/-- the rows a command list starts for step `s`, in order -/
def startK (s : Nat) (cmds : List Cmd) : List (Nat × Ev) := cmds.filterMap (startOf s)

theorem startK_append (s : Nat) (a b : List Cmd) : startK s (a ++ b) = startK s a ++ startK s b := by
  simp [startK, List.filterMap_append]

theorem startK_nil (s : Nat) : startK s [] = [] := rfl

def workerOf : Cmd → Option Worker
  | .runWorker s ev w => some { step := s, wid := w, ev := ev }
  | _ => none

/-- the worker tasks a command list starts, in order -/
def workersOf (cmds : List Cmd) : List Worker := cmds.filterMap workerOf

theorem workersOf_append (a b : List Cmd) : workersOf (a ++ b) = workersOf a ++ workersOf b := by
  simp [workersOf, List.filterMap_append]

theorem mem_workersOf {cmds : List Cmd} {n : Worker} :
    n ∈ workersOf cmds ↔ Cmd.runWorker n.step n.ev n.wid ∈ cmds := by
  simp only [workersOf, List.mem_filterMap]
  constructor
  · rintro ⟨c, hc, h⟩
    cases c <;> simp only [workerOf, reduceCtorEq, Option.some.injEq] at h
    subst h; exact hc
  · intro h; exact ⟨_, h, rfl⟩

theorem mem_startK {s : Nat} {cmds : List Cmd} {k : Nat × Ev} :
    k ∈ startK s cmds ↔ Cmd.runWorker s k.2 k.1 ∈ cmds := by
  simp only [startK, List.mem_filterMap]
  constructor
  · rintro ⟨c, hc, h⟩
    cases c <;> simp only [startOf, reduceCtorEq] at h
    rename_i s' ev w
    split at h
    · rename_i hs; subst hs
      simp only [Option.some.injEq] at h; subst h; exact hc
    · cases h
  · intro h; exact ⟨_, h, by simp [startOf]⟩

def Worker.slot (w : Worker) : Nat × Nat := (w.step, w.wid)

/-- no command of the list starts a worker -/
def NoStart (cmds : List Cmd) : Prop := ∀ s ev w, Cmd.runWorker s ev w ∉ cmds

theorem NoStart.startK {cmds : List Cmd} (h : NoStart cmds) (s : Nat) : startK s cmds = [] := by
  apply List.eq_nil_iff_forall_not_mem.mpr
  intro k hk; exact h _ _ _ (mem_startK.mp hk)

theorem NoStart.workersOf {cmds : List Cmd} (h : NoStart cmds) : workersOf cmds = [] := by
  apply List.eq_nil_iff_forall_not_mem.mpr
  intro k hk; exact h _ _ _ (mem_workersOf.mp hk)

/-! ### `addOrEnqueue`, `drain`, `resolveLoop` -/

/-- a (state, commands) pair of one step extends `ss` by exactly the rows it starts,
and starts nothing for other steps -/
def Ext (step : Nat) (ss : StepState) (r : StepState × List Cmd) : Prop :=
  keys r.1 = keys ss ++ startK step r.2 ∧ ∀ s, s ≠ step → startK s r.2 = []

theorem addOrEnqueue_ext (att : Attempt) (step : Nat) (ss : StepState) (nw : Nat) (now : Int) :
    Ext step ss (addOrEnqueue att step ss nw now) := by
  unfold addOrEnqueue Ext
  split
  · split
    · refine ⟨?_, ?_⟩
      · simp [keys, startK, startOf, InProg.key]
      · intro s hs
        have : ¬ step = s := fun h => hs h.symm
        simp [startK, startOf, this]
    · exact ⟨by simp [startK, startOf], fun s _ => by simp [startK, startOf]⟩
  · exact ⟨by simp [keys, startK, startOf], fun s _ => by simp [startK, startOf]⟩

theorem Ext.trans {step : Nat} {ss : StepState} {r1 r2 : StepState × List Cmd}
    (h1 : Ext step ss r1) (h2 : Ext step r1.1 r2) : Ext step ss (r2.1, r1.2 ++ r2.2) := by
  refine ⟨?_, ?_⟩
  · simp only [startK_append]
    rw [h2.1, h1.1, List.append_assoc]
  · intro s hs
    simp only [startK_append, h1.2 s hs, h2.2 s hs, List.append_nil]

theorem Ext.refl (step : Nat) (ss : StepState) : Ext step ss (ss, []) :=
  ⟨by simp [startK], fun _ _ => rfl⟩

theorem drain_ext (step nw : Nat) (now : Int) :
    ∀ (fuel : Nat) (ss : StepState), Ext step ss (drain step nw now fuel ss)
  | 0, ss => by simp only [drain]; exact Ext.refl step ss
  | fuel + 1, ss => by
    unfold drain
    split
    · exact Ext.refl step ss
    · rename_i a q hq
      split
      · have h1 : Ext step ss (addOrEnqueue a step { ss with queue := q } nw now) :=
          addOrEnqueue_ext a step { ss with queue := q } nw now
        exact Ext.trans h1 (drain_ext step nw now fuel _)
      · exact Ext.refl step ss

theorem resolveLoop_ext (ev : Ev) (step nw : Nat) (now : Int) :
    ∀ (rest done : List Waiter) (ss ss0 : StepState) (cmds : List Cmd) (hd : Bool),
      Ext step ss0 (ss, cmds) →
      Ext step ss0 ((resolveLoop ev step nw now done rest ss cmds hd).1,
        (resolveLoop ev step nw now done rest ss cmds hd).2.1)
  | [], done, ss, ss0, cmds, hd, h => by
    simp only [resolveLoop]; exact h
  | w :: rest, done, ss, ss0, cmds, hd, h => by
    unfold resolveLoop
    split
    · apply resolveLoop_ext
      have h2 := addOrEnqueue_ext w.replay step
        { ss with waiters := done ++ { w with resolved := some ev } :: rest } nw now
      exact Ext.trans (r1 := (ss, cmds)) h h2
    · exact resolveLoop_ext ev step nw now rest _ ss ss0 cmds hd h

/-! ### tracking a whole state -/

/-- `Track base st cmds`: every step's rows are `base` followed by what `cmds` starts for it -/
def Track (base : Nat → List (Nat × Ev)) (st : State) (cmds : List Cmd) : Prop :=
  ∀ s, keys (st.workers s) = base s ++ startK s cmds

theorem Track.set {base : Nat → List (Nat × Ev)} {st : State} {cmds : List Cmd} (h : Track base st cmds)
    {step : Nat} {r : StepState × List Cmd} (he : Ext step (st.workers step) r) :
    Track base (st.set step r.1) (cmds ++ r.2) := by
  intro s
  simp only [State.set, startK_append]
  split
  · rename_i hs; subst hs
    rw [he.1, h s, List.append_assoc]
  · rename_i hs
    rw [he.2 s hs, List.append_nil]; exact h s

theorem Track.of_inProg_eq {base : Nat → List (Nat × Ev)} {st st' : State} {cmds : List Cmd}
    (h : Track base st cmds) (heq : ∀ s, (st'.workers s).inProg = (st.workers s).inProg) :
    Track base st' cmds := by
  intro s
  have := h s
  simpa [keys, heq s] using this

/-- commands only ever start workers of configured steps -/
def CfgStarts (cfg : Cfg) (cmds : List Cmd) : Prop :=
  ∀ s ev w, Cmd.runWorker s ev w ∈ cmds → s ∈ cfg.names

theorem CfgStarts.append {cfg : Cfg} {a b : List Cmd} (ha : CfgStarts cfg a) (hb : CfgStarts cfg b) :
    CfgStarts cfg (a ++ b) := by
  intro s ev w h
  rcases List.mem_append.mp h with h | h
  · exact ha s ev w h
  · exact hb s ev w h

theorem CfgStarts.of_ext {cfg : Cfg} {step : Nat} {ss : StepState} {r : StepState × List Cmd}
    (he : Ext step ss r) (hs : step ∈ cfg.names) : CfgStarts cfg r.2 := by
  intro s ev w h
  by_cases hst : s = step
  · subst hst; exact hs
  · have := he.2 s hst
    have hm : (w, ev) ∈ startK s r.2 := mem_startK.mpr h
    rw [this] at hm; cases hm

theorem CfgStarts.of_noStart {cfg : Cfg} {cmds : List Cmd} (h : NoStart cmds) : CfgStarts cfg cmds :=
  fun s ev w hm => absurd hm (h s ev w)

/-! ### add-event -/

theorem addEventWaiters_track (cfg : Cfg) (ev : Ev) (target : Option Nat) (now : Int)
    (base : Nat → List (Nat × Ev)) :
    ∀ (cs : List StepCfg) (acc : AddAcc), (∀ c ∈ cs, c ∈ cfg.steps) →
      Track base acc.st acc.cmds → CfgStarts cfg acc.cmds →
      Track base (addEventWaiters cfg ev target now cs acc).st (addEventWaiters cfg ev target now cs acc).cmds ∧
        CfgStarts cfg (addEventWaiters cfg ev target now cs acc).cmds
  | [], acc, _, h, hc => by simp only [addEventWaiters]; exact ⟨h, hc⟩
  | c :: cs, acc, hsub, h, hc => by
    have hcm : c.name ∈ cfg.names := List.mem_map_of_mem (hsub c (by simp))
    have hsub' : ∀ d ∈ cs, d ∈ cfg.steps := fun d hd => hsub d (by simp [hd])
    unfold addEventWaiters
    split
    · exact addEventWaiters_track cfg ev target now base cs acc hsub' h hc
    · have he := resolveLoop_ext ev c.name c.numWorkers now (acc.st.workers c.name).waiters []
        (acc.st.workers c.name) (acc.st.workers c.name) [] false (Ext.refl _ _)
      simp only
      by_cases hr : (resolveLoop ev c.name c.numWorkers now [] (acc.st.workers c.name).waiters
          (acc.st.workers c.name) [] false).2.2 = true
      · rw [if_pos hr]
        apply addEventWaiters_track cfg ev target now base cs _ hsub'
        · exact Track.set h he
        · exact hc.append (CfgStarts.of_ext he hcm)
      · rw [if_neg hr]
        exact addEventWaiters_track cfg ev target now base cs acc hsub' h hc

theorem addEventRoute_track (cfg : Cfg) (att : Attempt) (target : Option Nat) (now : Int)
    (base : Nat → List (Nat × Ev)) :
    ∀ (cs : List StepCfg) (acc : AddAcc), (∀ c ∈ cs, c ∈ cfg.steps) →
      Track base acc.st acc.cmds → CfgStarts cfg acc.cmds →
      Track base (addEventRoute att target now cs acc).st (addEventRoute att target now cs acc).cmds ∧
        CfgStarts cfg (addEventRoute att target now cs acc).cmds
  | [], acc, _, h, hc => by simp only [addEventRoute]; exact ⟨h, hc⟩
  | c :: cs, acc, hsub, h, hc => by
    have hcm : c.name ∈ cfg.names := List.mem_map_of_mem (hsub c (by simp))
    have hsub' : ∀ d ∈ cs, d ∈ cfg.steps := fun d hd => hsub d (by simp [hd])
    unfold addEventRoute
    split
    · exact addEventRoute_track cfg att target now base cs acc hsub' h hc
    · split
      · have he := addOrEnqueue_ext att c.name (acc.st.workers c.name) c.numWorkers now
        apply addEventRoute_track cfg att target now base cs _ hsub'
        · exact Track.set h he
        · exact hc.append (CfgStarts.of_ext he hcm)
      · exact addEventRoute_track cfg att target now base cs acc hsub' h hc

theorem unhandledCmds_noStart (cfg : Cfg) (att : Attempt) (target : Option Nat) (a : AddAcc) :
    NoStart (unhandledCmds cfg att target a) := by
  intro s ev w
  unfold unhandledCmds
  split
  · simp
  · split <;> simp

theorem Track.append_noStart {base : Nat → List (Nat × Ev)} {st : State} {cmds extra : List Cmd}
    (h : Track base st cmds) (hn : NoStart extra) : Track base st (cmds ++ extra) := by
  intro s
  rw [startK_append, hn.startK s, List.append_nil]; exact h s

theorem processAddEvent_track (cfg : Cfg) (att : Attempt) (target : Option Nat) (st : State) (now : Int) :
    Track (fun s => keys (st.workers s)) (processAddEvent cfg att target st now).1
        (processAddEvent cfg att target st now).2 ∧
      CfgStarts cfg (processAddEvent cfg att target st now).2 := by
  have h0 : Track (fun s => keys (st.workers s)) (addEventStart att st) [] := by
    intro s
    unfold addEventStart
    split <;> simp [startK]
  have h1 := addEventWaiters_track cfg att.ev target now _ cfg.steps
    { st := addEventStart att st } (fun _ hc => hc) h0 (fun _ _ _ h => by cases h)
  have h2 := addEventRoute_track cfg att target now _ cfg.steps _ (fun _ hc => hc) h1.1 h1.2
  have hn := unhandledCmds_noStart cfg att target
    (addEventRoute att target now cfg.steps
      (addEventWaiters cfg att.ev target now cfg.steps { st := addEventStart att st }))
  exact ⟨h2.1.append_noStart hn, h2.2.append (CfgStarts.of_noStart hn)⟩

/-! ### step results: at most one collect re-run per tick -/

/-- what results do to the re-run flag and the started workers: nothing, or the one re-run of
the tick (the flag goes up, `runWorker` is re-issued for the invocation's own slot) -/
def RerunStep (step : Nat) (acc acc' : ResAcc) (rs : List Res) : Prop :=
  (acc'.stillInProgress = acc.stillInProgress ∧ workersOf acc'.cmds = workersOf acc.cmds) ∨
  (acc.stillInProgress = false ∧ acc'.stillInProgress = true ∧
    ∃ b e, Res.addCollected b e ∈ rs ∧
      workersOf acc'.cmds = workersOf acc.cmds ++ [{ step := step, wid := acc.exec.wid, ev := e }])

theorem workersOf_snoc_noStart (cmds extra : List Cmd) (h : NoStart extra) :
    workersOf (cmds ++ extra) = workersOf cmds := by
  rw [workersOf_append, h.workersOf, List.append_nil]

theorem applyRes_rerun (cfg : Cfg) (pol : Policy) (step : Nat) (tickEv : Ev) (dc : Bool)
    (acc : ResAcc) (r : Res) :
    RerunStep step acc (applyRes cfg pol step tickEv dc acc r) [r] ∧
      (applyRes cfg pol step tickEv dc acc r).exec.ev = acc.exec.ev := by
  cases r with
  | result r =>
    cases r with
    | none => exact ⟨Or.inl ⟨rfl, rfl⟩, rfl⟩
    | some ev =>
      simp only [applyRes]
      split
      · refine ⟨Or.inl ⟨rfl, ?_⟩, rfl⟩
        apply workersOf_snoc_noStart
        intro s e w; simp
      · refine ⟨Or.inl ⟨rfl, ?_⟩, rfl⟩
        rw [List.append_assoc]
        apply workersOf_snoc_noStart
        intro s e w
        split <;> simp
  | failed exc failedAt =>
    simp only [applyRes]
    split
    · -- a re-run is already scheduled: the failure is skipped
      exact ⟨Or.inl ⟨rfl, rfl⟩, rfl⟩
    split
    · exact ⟨Or.inl ⟨rfl, workersOf_snoc_noStart _ _ (by intro s e w; simp)⟩, rfl⟩
    all_goals
      split
      · split
        · exact ⟨Or.inl ⟨rfl, workersOf_snoc_noStart _ _ (by intro s e w; simp)⟩, rfl⟩
        · exact ⟨Or.inl ⟨rfl, workersOf_snoc_noStart _ _ (by intro s e w; simp)⟩, rfl⟩
      · exact ⟨Or.inl ⟨rfl, workersOf_snoc_noStart _ _ (by intro s e w; simp)⟩, rfl⟩
  | addCollected buf ev =>
    simp only [applyRes]
    split
    · -- a re-run is already scheduled: skipped
      exact ⟨Or.inl ⟨rfl, rfl⟩, rfl⟩
    · rename_i hsip
      have hsip' : acc.stillInProgress = false := by simpa using hsip
      split
      · refine ⟨Or.inr ⟨hsip', rfl, buf, ev, by simp, ?_⟩, rfl⟩
        simp [workersOf_append, workersOf, workerOf]
      · exact ⟨Or.inl ⟨rfl, rfl⟩, rfl⟩
  | deleteCollected buf =>
    simp only [applyRes]
    split <;> exact ⟨Or.inl ⟨rfl, rfl⟩, rfl⟩
  | addWaiter wid waiterEv req timeout ty =>
    simp only [applyRes]
    split
    · exact ⟨Or.inl ⟨rfl, rfl⟩, rfl⟩
    · refine ⟨Or.inl ⟨rfl, ?_⟩, rfl⟩
      rw [List.append_assoc]
      apply workersOf_snoc_noStart
      intro s e w
      cases waiterEv <;> cases timeout <;> simp
  | deleteWaiter wid =>
    simp only [applyRes]
    split <;> exact ⟨Or.inl ⟨rfl, rfl⟩, rfl⟩

/-- **one tick, at most one re-run** — for every result list -/
theorem foldl_applyRes_rerun (cfg : Cfg) (pol : Policy) (step : Nat) (tickEv : Ev) (dc : Bool) :
    ∀ (res : List Res) (acc : ResAcc),
      RerunStep step acc (res.foldl (applyRes cfg pol step tickEv dc) acc) res ∧
        (res.foldl (applyRes cfg pol step tickEv dc) acc).exec.ev = acc.exec.ev
  | [], acc => ⟨Or.inl ⟨rfl, rfl⟩, rfl⟩
  | r :: rs, acc => by
    simp only [List.foldl_cons]
    obtain ⟨h1r, h1e⟩ := applyRes_rerun cfg pol step tickEv dc acc r
    have hwid := (applyRes_inProg cfg pol step tickEv dc acc r).2
    obtain ⟨h2r, h2e⟩ := foldl_applyRes_rerun cfg pol step tickEv dc rs
      (applyRes cfg pol step tickEv dc acc r)
    refine ⟨?_, h2e.trans h1e⟩
    rcases h1r with ⟨a1, a2⟩ | ⟨a1, a2, b, e, a3, a4⟩
    · rcases h2r with ⟨b1, b2⟩ | ⟨b1, b2, b', e', b3, b4⟩
      · exact Or.inl ⟨b1.trans a1, b2.trans a2⟩
      · refine Or.inr ⟨a1 ▸ b1, b2, b', e', List.mem_cons_of_mem _ b3, ?_⟩
        rw [b4, a2, hwid]
    · rcases h2r with ⟨b1, b2⟩ | ⟨b1, b2, b', e', b3, b4⟩
      · refine Or.inr ⟨a1, b1.trans a2, b, e, ?_, b2.trans a4⟩
        simp only [List.mem_singleton] at a3
        rw [a3]; simp
      · rw [a2] at b1; cases b1

/-! ### frames: what a tick does to the in-progress rows, as far as live workers can tell -/

/-- `Frame cfg P freed st st' cmds`: going from `st` to `st'` while emitting `cmds`
* keeps every in-progress row whose slot is not `freed`,
* backs every started worker by a row of `st'` (with the same event, under `P`),
* starts pairwise distinct slots,
* and starts only slots that were unused in `st`, or `freed`. -/
structure Frame (cfg : Cfg) (P : Prop) (freed : Nat → Nat → Prop) (st st' : State) (cmds : List Cmd) :
    Prop where
  survive : ∀ s ip, ip ∈ (st.workers s).inProg → ¬ freed s ip.wid →
    ∃ ip' ∈ (st'.workers s).inProg, ip'.wid = ip.wid ∧ ip'.ev = ip.ev
  started : ∀ n ∈ workersOf cmds, n.step ∈ cfg.names ∧
    ∃ ip ∈ (st'.workers n.step).inProg, ip.wid = n.wid ∧ (P → ip.ev = n.ev)
  nodup : ((workersOf cmds).map Worker.slot).Nodup
  fresh : ∀ n ∈ workersOf cmds, n.wid ∈ usedIds (st.workers n.step) → freed n.step n.wid

theorem mem_keys {ss : StepState} {k : Nat × Ev} :
    k ∈ keys ss ↔ ∃ ip ∈ ss.inProg, ip.wid = k.1 ∧ ip.ev = k.2 := by
  simp only [keys, List.mem_map, InProg.key]
  constructor
  · rintro ⟨ip, h, rfl⟩; exact ⟨ip, h, rfl, rfl⟩
  · rintro ⟨ip, h, h1, h2⟩; exact ⟨ip, h, by rw [h1, h2]⟩

theorem mem_usedIds {ss : StepState} {w : Nat} : w ∈ usedIds ss ↔ ∃ ip ∈ ss.inProg, ip.wid = w := by
  simp [usedIds]

theorem Frame.of_noStart {cfg : Cfg} {P : Prop} {freed : Nat → Nat → Prop} {st st' : State}
    {cmds : List Cmd} (heq : ∀ s, (st'.workers s).inProg = (st.workers s).inProg) (hn : NoStart cmds) :
    Frame cfg P freed st st' cmds where
  survive := fun s ip h _ => ⟨ip, by rw [heq s]; exact h, rfl, rfl⟩
  started := by rw [hn.workersOf]; intro n h; cases h
  nodup := by rw [hn.workersOf]; exact List.nodup_nil
  fresh := by rw [hn.workersOf]; intro n h; cases h

theorem workersOf_filter_startK (s : Nat) :
    ∀ cmds : List Cmd,
      ((workersOf cmds).filter (fun w => w.step == s)).map (fun w => (w.wid, w.ev)) = startK s cmds
  | [] => rfl
  | c :: cs => by
    have ih := workersOf_filter_startK s cs
    cases c with
    | runWorker s' ev w =>
      simp only [workersOf, startK, List.filterMap_cons, workerOf, startOf] at ih ⊢
      by_cases hs : s' = s
      · simp [hs, List.filter_cons, ih]
      · have : (s' == s) = false := by simpa using hs
        simp [hs, List.filter_cons, this, ih]
    | _ => simpa [workersOf, startK, List.filterMap_cons, workerOf, startOf] using ih

theorem workersOf_filter_wids (s : Nat) (cmds : List Cmd) :
    ((workersOf cmds).filter (fun w => w.step == s)).map (·.wid) = (startK s cmds).map (·.1) := by
  rw [← workersOf_filter_startK s cmds, List.map_map]; rfl

/-- slots are distinct as soon as the worker ids of each step are -/
theorem nodup_slots : ∀ l : List Worker,
    (∀ s, ((l.filter (fun w => w.step == s)).map (·.wid)).Nodup) → (l.map Worker.slot).Nodup
  | [], _ => List.nodup_nil
  | x :: xs, h => by
    simp only [List.map_cons, List.nodup_cons]
    refine ⟨?_, nodup_slots xs ?_⟩
    · intro hm
      obtain ⟨y, hy, hxy⟩ := List.mem_map.mp hm
      simp only [Worker.slot, Prod.mk.injEq] at hxy
      have := h x.step
      simp only [List.filter_cons, beq_self_eq_true, ↓reduceIte, List.map_cons, List.nodup_cons] at this
      apply this.1
      apply List.mem_map.mpr
      exact ⟨y, List.mem_filter.mpr ⟨hy, by simp [hxy.1]⟩, hxy.2⟩
    · intro s
      have := h s
      simp only [List.filter_cons] at this
      split at this
      · simp only [List.map_cons, List.nodup_cons] at this; exact this.2
      · exact this

/-- what a tracked command list starts, read off the state it comes with -/
theorem track_starts {cfg : Cfg} {base : Nat → List (Nat × Ev)} {st' : State} {dcmds : List Cmd}
    (hids : IdsInv cfg st') (ht : Track base st' dcmds) (hc : CfgStarts cfg dcmds) :
    (∀ n ∈ workersOf dcmds, n.step ∈ cfg.names ∧ (n.wid, n.ev) ∈ keys (st'.workers n.step) ∧
        n.wid ∉ (base n.step).map (·.1)) ∧
      ((workersOf dcmds).map Worker.slot).Nodup := by
  have hnd : ∀ s, s ∈ cfg.names → ((base s).map (·.1) ++ (startK s dcmds).map (·.1)).Nodup := by
    intro s hs
    obtain ⟨c, hc1, hc2⟩ := List.mem_map.mp hs
    have := (hids c hc1).1
    rw [← keys_fst, hc2, ht s, List.map_append] at this
    exact this
  refine ⟨?_, ?_⟩
  · intro n hn
    have hcmd := mem_workersOf.mp hn
    have hname := hc _ _ _ hcmd
    have hk : (n.wid, n.ev) ∈ startK n.step dcmds := mem_startK.mpr hcmd
    refine ⟨hname, ?_, ?_⟩
    · rw [ht n.step]; exact List.mem_append_right _ hk
    · intro hb
      have := (List.nodup_append.mp (hnd n.step hname)).2.2 n.wid hb n.wid
        (List.mem_map.mpr ⟨_, hk, rfl⟩)
      exact this rfl
  · apply nodup_slots
    intro s
    rw [workersOf_filter_wids]
    by_cases hs : s ∈ cfg.names
    · exact (List.nodup_append.mp (hnd s hs)).2.1
    · have : startK s dcmds = [] := by
        apply List.eq_nil_iff_forall_not_mem.mpr
        intro k hk
        exact hs (hc _ _ _ (mem_startK.mp hk))
      rw [this]; exact List.nodup_nil

/-- a tick that only appends rows (every tick but `stepResult`) -/
theorem Frame.of_track {cfg : Cfg} {P : Prop} {freed : Nat → Nat → Prop} {st st' : State} {cmds : List Cmd}
    (hids : IdsInv cfg st') (ht : Track (fun s => keys (st.workers s)) st' cmds)
    (hc : CfgStarts cfg cmds) : Frame cfg P freed st st' cmds := by
  obtain ⟨h1, h2⟩ := track_starts hids ht hc
  refine ⟨?_, ?_, h2, ?_⟩
  · intro s ip hip _
    have : ip.key ∈ keys (st'.workers s) := by
      rw [ht s]; exact List.mem_append_left _ (List.mem_map_of_mem hip)
    obtain ⟨ip', h, hw, he⟩ := mem_keys.mp this
    exact ⟨ip', h, hw, he⟩
  · intro n hn
    obtain ⟨ha, hb, _⟩ := h1 n hn
    obtain ⟨ip, h, hw, he⟩ := mem_keys.mp hb
    exact ⟨ha, ip, h, hw, fun _ => he⟩
  · intro n hn hu
    obtain ⟨_, _, hc⟩ := h1 n hn
    exact absurd (by rw [keys_fst]; exact hu) hc

/-! ### the `stepResult` tick -/

theorem map_key_modifyFirst (worker : Nat) (e x : InProg) (he : e.key = x.key) :
    ∀ l : List InProg, l.find? (fun w => w.wid == worker) = some x →
      (modifyFirst (fun w => w.wid == worker) (fun _ => e) l).map InProg.key = l.map InProg.key
  | [], h => by cases h
  | y :: ys, h => by
    simp only [modifyFirst]
    simp only [List.find?_cons] at h
    split
    · rename_i hy
      rw [hy] at h
      simp only [Option.some.injEq] at h
      simp [he, h]
    · rename_i hy
      have hy' : (y.wid == worker) = false := by simpa using hy
      rw [hy'] at h
      simp [map_key_modifyFirst worker e x he ys h]

/-- the common tail of `processStepResult`: `ss1` is the step after `settle`, `(ssF, dcmds)`
what the drain (if any) makes of it, `c1` the commands before the drain -/
theorem frame_step_tail {cfg : Cfg} {P : Prop} {step worker : Nat} {st st' : State}
    {ss1 ssF : StepState} {c1 dcmds : List Cmd} {nw : Nat}
    (hstF : ∀ s, (st'.workers s).inProg = if s = step then ssF.inProg else (st.workers s).inProg)
    (hext : Ext step ss1 (ssF, dcmds))
    (hok : IdsOk ssF nw)
    (hname : step ∈ cfg.names)
    (hkeep : ∀ ip ∈ (st.workers step).inProg, ip.wid ≠ worker → ip.key ∈ keys ss1)
    (hW1 : workersOf c1 = [] ∨ ∃ e, workersOf c1 = [{ step := step, wid := worker, ev := e }] ∧
      ∃ ip ∈ ss1.inProg, ip.wid = worker ∧ (P → ip.ev = e)) :
    Frame cfg P (fun s w => s = step ∧ w = worker) st st' (c1 ++ dcmds) := by
  obtain ⟨hk, hother⟩ := hext
  simp only at hk hother
  have hstep : (st'.workers step).inProg = ssF.inProg := by rw [hstF step]; simp
  -- everything the drain starts is a fresh row of `step`
  have hd : ∀ n ∈ workersOf dcmds, n.step = step ∧ (n.wid, n.ev) ∈ startK step dcmds := by
    intro n hn
    have hcmd := mem_workersOf.mp hn
    have hm : (n.wid, n.ev) ∈ startK n.step dcmds := mem_startK.mpr hcmd
    by_cases hs : n.step = step
    · exact ⟨hs, hs ▸ hm⟩
    · rw [hother _ hs] at hm; cases hm
  have hnd : (usedIds ss1 ++ (startK step dcmds).map (·.1)).Nodup := by
    have := hok.1
    rw [← keys_fst, hk, List.map_append, keys_fst] at this
    exact this
  have hnd' := List.nodup_append.mp hnd
  have hdfresh : ∀ n ∈ workersOf dcmds, n.wid ∉ usedIds ss1 := by
    intro n hn hu
    exact hnd'.2.2 n.wid hu n.wid (List.mem_map.mpr ⟨_, (hd n hn).2, rfl⟩) rfl
  have hdrow : ∀ n ∈ workersOf dcmds, n.step ∈ cfg.names ∧
      ∃ ip ∈ (st'.workers n.step).inProg, ip.wid = n.wid ∧ (P → ip.ev = n.ev) := by
    intro n hn
    obtain ⟨hs, hm⟩ := hd n hn
    have : (n.wid, n.ev) ∈ keys ssF := by rw [hk]; exact List.mem_append_right _ hm
    obtain ⟨ip, h, hw, he⟩ := mem_keys.mp this
    rw [hs]
    exact ⟨hname, ip, by rw [hstep]; exact h, hw, fun _ => he⟩
  have hdnodup : ((workersOf dcmds).map Worker.slot).Nodup := by
    apply nodup_slots
    intro s
    rw [workersOf_filter_wids]
    by_cases hs : s = step
    · rw [hs]; exact hnd'.2.1
    · rw [hother s hs]; exact List.nodup_nil
  have hdfree : ∀ n ∈ workersOf dcmds, n.wid ∈ usedIds (st.workers n.step) →
      n.step = step ∧ n.wid = worker := by
    intro n hn hu
    obtain ⟨hs, _⟩ := hd n hn
    refine ⟨hs, ?_⟩
    rw [hs] at hu
    obtain ⟨ip, hip, hw⟩ := mem_usedIds.mp hu
    apply Decidable.byContradiction
    intro hne
    have := hkeep ip hip (by rw [hw]; exact hne)
    apply hdfresh n hn
    rw [← keys_fst]
    exact List.mem_map.mpr ⟨_, this, by simp [InProg.key, hw]⟩
  have hsurv : ∀ s ip, ip ∈ (st.workers s).inProg → ¬ (s = step ∧ ip.wid = worker) →
      ∃ ip' ∈ (st'.workers s).inProg, ip'.wid = ip.wid ∧ ip'.ev = ip.ev := by
    intro s ip hip hfree
    by_cases hs : s = step
    · subst hs
      have hne : ip.wid ≠ worker := fun h => hfree ⟨rfl, h⟩
      have : ip.key ∈ keys ssF := by rw [hk]; exact List.mem_append_left _ (hkeep ip hip hne)
      obtain ⟨ip', h, hw, he⟩ := mem_keys.mp this
      exact ⟨ip', by rw [hstep]; exact h, hw, he⟩
    · refine ⟨ip, ?_, rfl, rfl⟩
      rw [hstF s]; simp [hs, hip]
  have hwo := workersOf_append c1 dcmds
  rcases hW1 with hW | ⟨e, hW, ip1, hip1, hw1, he1⟩
  · rw [hW, List.nil_append] at hwo
    refine ⟨hsurv, ?_, ?_, ?_⟩ <;> rw [hwo]
    · exact hdrow
    · exact hdnodup
    · exact hdfree
  · rw [hW] at hwo
    refine ⟨hsurv, ?_, ?_, ?_⟩ <;> rw [hwo]
    · intro n hn
      rcases List.mem_append.mp hn with h | h
      · simp only [List.mem_singleton] at h
        subst h
        have : ip1.key ∈ keys ssF := by rw [hk]; exact List.mem_append_left _ (List.mem_map_of_mem hip1)
        obtain ⟨ip', h', hw, he⟩ := mem_keys.mp this
        refine ⟨hname, ip', by rw [hstep]; exact h', by simpa [InProg.key, hw1] using hw, ?_⟩
        intro hp
        simp only [InProg.key] at he
        rw [he]; exact he1 hp
      · exact hdrow n h
    · simp only [List.singleton_append, List.map_cons, List.nodup_cons]
      refine ⟨?_, hdnodup⟩
      intro hm
      obtain ⟨n, hn, hslot⟩ := List.mem_map.mp hm
      simp only [Worker.slot, Prod.mk.injEq] at hslot
      apply hdfresh n hn
      rw [hslot.2]
      exact mem_usedIds.mpr ⟨ip1, hip1, hw1⟩
    · intro n hn hu
      rcases List.mem_append.mp hn with h | h
      · simp only [List.mem_singleton] at h
        subst h; exact ⟨rfl, rfl⟩
      · exact hdfree n h hu

theorem processStepResult_frame (cfg : Cfg) (hwf : cfg.WF) (pol : Policy) (P : Prop) (step worker : Nat)
    (tickEv : Ev) (res : List Res) (st : State) (now : Int) (hids : IdsInv cfg st)
    (hP : P → (∀ ip ∈ (st.workers step).inProg, ip.wid = worker → ip.ev = tickEv) ∧
      ∀ b e, Res.addCollected b e ∈ res → e = tickEv) :
    Frame cfg P (fun s w => s = step ∧ w = worker) st
      (processStepResult cfg pol step worker tickEv res st now).1
      (processStepResult cfg pol step worker tickEv res st now).2 := by
  unfold processStepResult
  split
  · exact Frame.of_noStart (fun _ => rfl) (by intro s e w; simp)
  · rename_i hhas
    split
    · exact Frame.of_noStart (fun _ => rfl) (by intro s e w; simp)
    · rename_i exec hfind
      obtain ⟨c, hc⟩ := hasStep_find hhas
      obtain ⟨hcmem, hcname⟩ := Cfg.mem_of_find hc
      subst hcname
      have hname : c.name ∈ cfg.names := List.mem_map_of_mem hcmem
      have hnw : cfg.nw c.name = c.numWorkers := Cfg.nw_of_mem hwf hcmem
      have hexecmem : exec ∈ (st.workers c.name).inProg := List.mem_of_find?_eq_some hfind
      have hexecwid : exec.wid = worker := find?_wid hfind
      have hfold := foldl_applyRes_inProg cfg pol c.name tickEv (res.any isResult) res
        { st := st, exec := exec }
      have hrr := foldl_applyRes_rerun cfg pol c.name tickEv (res.any isResult) res
        { st := st, exec := exec }
      have hinv : IdsInv cfg (res.foldl (applyRes cfg pol c.name tickEv (res.any isResult))
          { st := st, exec := exec }).st := IdsInv.of_inProg_eq hids hfold.1
      simp only [RerunStep, workersOf, List.filterMap_nil, List.nil_append] at hrr
      simp only at hfold
      generalize (res.foldl (applyRes cfg pol c.name tickEv (res.any isResult))
          { st := st, exec := exec }) = acc at hinv hfold hrr ⊢
      obtain ⟨hfold1, hfold2⟩ := hfold
      obtain ⟨hrr1, hrr2⟩ := hrr
      have hwid : acc.exec.wid = worker := hfold2.trans hexecwid
      have hss1ok := settle_idsOk acc c.name worker tickEv c.numWorkers hwid (hinv c hcmem)
      have hkey : acc.exec.key = exec.key := by simp [InProg.key, hwid, hexecwid, hrr2]
      have hfind' : (acc.st.workers c.name).inProg.find? (fun w => w.wid == worker) = some exec := by
        rw [hfold1]; exact hfind
      -- facts about `settle`
      have hsettle : (∀ ip ∈ (st.workers c.name).inProg, ip.wid ≠ worker →
            ip.key ∈ keys (settle acc c.name worker tickEv).1) ∧
          (workersOf (settle acc c.name worker tickEv).2 = [] ∨
            ∃ e, workersOf (settle acc c.name worker tickEv).2
                = [{ step := c.name, wid := worker, ev := e }] ∧
              ∃ ip ∈ (settle acc c.name worker tickEv).1.inProg, ip.wid = worker ∧ (P → ip.ev = e)) := by
        unfold settle
        simp only
        cases hs : acc.stillInProgress with
        | true =>
          simp only [↓reduceIte]
          have hk : keys { (acc.st.workers c.name) with
              inProg := modifyFirst (fun w => w.wid == worker) (fun _ => acc.exec)
                (acc.st.workers c.name).inProg } = keys (st.workers c.name) := by
            simp only [keys]
            rw [map_key_modifyFirst worker acc.exec exec hkey _ hfind', hfold1]
          refine ⟨?_, Or.inr ?_⟩
          · intro ip hip _
            rw [hk]; exact List.mem_map_of_mem hip
          · rcases hrr1 with ⟨h1, _⟩ | ⟨_, _, b, e, hmem, hw⟩
            · rw [hs] at h1; cases h1
            · refine ⟨e, by simpa [workersOf, hexecwid] using hw, ?_⟩
              have : exec.key ∈ keys { (acc.st.workers c.name) with
                  inProg := modifyFirst (fun w => w.wid == worker) (fun _ => acc.exec)
                    (acc.st.workers c.name).inProg } := by
                rw [hk]; exact List.mem_map_of_mem hexecmem
              obtain ⟨ip, hip, hw', he'⟩ := mem_keys.mp this
              refine ⟨ip, hip, by simpa [InProg.key, hexecwid] using hw', ?_⟩
              intro hp
              obtain ⟨hp1, hp2⟩ := hP hp
              simp only [InProg.key] at he'
              rw [he', hp1 exec hexecmem hexecwid, hp2 b e hmem]
        | false =>
          simp only [Bool.false_eq_true, ↓reduceIte]
          refine ⟨?_, Or.inl ?_⟩
          · intro ip hip hne
            simp only [keys]
            apply List.mem_map_of_mem
            rw [List.mem_eraseP_of_neg (by simpa using hne), hfold1]
            exact hip
          · rcases hrr1 with ⟨_, h2⟩ | ⟨_, h2, _⟩
            · simpa [workersOf, List.filterMap_cons, workerOf] using h2
            · rw [hs] at h2; cases h2
      obtain ⟨hkeep, hW1⟩ := hsettle
      have hstF : ∀ (ssF : StepState) (s : Nat), ((acc.st.set c.name ssF).workers s).inProg
          = if s = c.name then ssF.inProg else (st.workers s).inProg := by
        intro ssF s
        simp only [State.set]
        split
        · rfl
        · exact hfold1 s
      simp only
      split
      · have := frame_step_tail (P := P) (hstF _) (Ext.refl c.name _) hss1ok hname hkeep hW1
        rw [List.append_nil] at this
        exact this
      · refine frame_step_tail (P := P) (nw := c.numWorkers) (hstF _) (drain_ext c.name _ now _ _) ?_
          hname hkeep hW1
        rw [hnw]
        exact drain_idsOk _ _ _ _ _ hss1ok

/-! ### the other ticks, and `reduce` -/

theorem processWaiterTimeout_track (cfg : Cfg) (step waiter : Nat) (st : State) (now : Int) :
    Track (fun s => keys (st.workers s)) (processWaiterTimeout cfg step waiter st now).1
        (processWaiterTimeout cfg step waiter st now).2 ∧
      CfgStarts cfg (processWaiterTimeout cfg step waiter st now).2 := by
  have h0 : Track (fun s => keys (st.workers s)) st [] := fun s => by simp [startK]
  have hc0 : CfgStarts cfg [] := fun _ _ _ h => by cases h
  unfold processWaiterTimeout
  split
  · exact ⟨h0, hc0⟩
  · rename_i hhas
    simp only
    split
    · exact ⟨h0, hc0⟩
    · split
      · exact ⟨h0, hc0⟩
      · rename_i w hw hres
        obtain ⟨c, hc⟩ := hasStep_find hhas
        obtain ⟨hcmem, hcname⟩ := Cfg.mem_of_find hc
        have hname : step ∈ cfg.names := hcname ▸ List.mem_map_of_mem hcmem
        have he : Ext step (st.workers step)
            (addOrEnqueue w.replay step
              { (st.workers step) with
                waiters := modifyFirst (fun x => x.wid == waiter) (fun x => { x with timedOut := true })
                  (st.workers step).waiters } (cfg.nw step) now) :=
          addOrEnqueue_ext _ _ _ _ _
        have := Track.set h0 he
        rw [List.nil_append] at this
        exact ⟨this, CfgStarts.of_ext he hname⟩

/-- the slot a tick releases: its own, for a `stepResult` tick -/
def Tick.freed : Tick → Nat → Nat → Prop
  | .stepResult s w _ _ => fun s' w' => s' = s ∧ w' = w
  | _ => fun _ _ => False

/-- what is required of a `stepResult` tick — only for the event clause `P`: it carries the
event of its in-progress row and re-runs with it -/
def TickOk (P : Prop) (st : State) : Tick → Prop
  | .stepResult s w ev res =>
      P → (∀ ip ∈ (st.workers s).inProg, ip.wid = w → ip.ev = ev) ∧
        ∀ b e, Res.addCollected b e ∈ res → e = ev
  | _ => True

theorem Frame.append_noStart {cfg : Cfg} {P : Prop} {freed : Nat → Nat → Prop} {st st' : State}
    {cmds extra : List Cmd} (h : Frame cfg P freed st st' cmds) (hn : NoStart extra) :
    Frame cfg P freed st st' (cmds ++ extra) := by
  have hw := workersOf_snoc_noStart cmds extra hn
  exact ⟨h.survive, by rw [hw]; exact h.started, by rw [hw]; exact h.nodup, by rw [hw]; exact h.fresh⟩

theorem Frame.withIdle {cfg : Cfg} {P : Prop} {freed : Nat → Nat → Prop} {st : State}
    {r : State × List Cmd} (h : Frame cfg P freed st r.1 r.2) :
    Frame cfg P freed st
      (if checkIdle cfg r.1 then (r.1, r.2 ++ [Cmd.scheduleIdleCheck]) else r).1
      (if checkIdle cfg r.1 then (r.1, r.2 ++ [Cmd.scheduleIdleCheck]) else r).2 := by
  split
  · exact h.append_noStart (by intro s e w; simp)
  · exact h

/-- **frame of one tick**, for every tick, policy and clock value -/
theorem reduce_frame (cfg : Cfg) (hwf : cfg.WF) (pol : Policy) (P : Prop) (tick : Tick) (st : State)
    (now : Int) (hids : IdsInv cfg st) (hok : TickOk P st tick) :
    Frame cfg P tick.freed st (reduce cfg pol tick st now).1 (reduce cfg pol tick st now).2 := by
  unfold reduce
  cases tick with
  | stepResult step worker ev res =>
    simp only [Tick.freed]
    exact Frame.withIdle (processStepResult_frame cfg hwf pol P step worker ev res st now hids hok)
  | addEvent att target =>
    simp only [Tick.freed]
    have ht := processAddEvent_track cfg att target st now
    exact Frame.withIdle (Frame.of_track (processAddEvent_idsInv cfg hwf att target st now hids) ht.1 ht.2)
  | cancelRun =>
    simp only [Tick.freed]
    exact Frame.withIdle (r := (st, _)) (Frame.of_noStart (fun _ => rfl) (by intro s e w; simp))
  | idleRelease =>
    exact Frame.of_noStart (fun _ => rfl) (by intro s e w; simp)
  | publish ev =>
    simp only [Tick.freed]
    exact Frame.withIdle (r := (st, _)) (Frame.of_noStart (fun _ => rfl) (by intro s e w; simp))
  | timeout t =>
    simp only [Tick.freed]
    exact Frame.withIdle (r := ({ st with isRunning := false }, _))
      (Frame.of_noStart (fun _ => rfl) (by intro s e w; simp))
  | waiterTimeout step waiter =>
    simp only [Tick.freed]
    have ht := processWaiterTimeout_track cfg step waiter st now
    exact Frame.withIdle (Frame.of_track (processWaiterTimeout_idsInv cfg hwf step waiter st now hids) ht.1 ht.2)
  | idleCheck =>
    simp only [Tick.freed]
    split
    · exact Frame.of_noStart (fun _ => rfl) (by intro s e w; simp)
    · exact Frame.of_noStart (fun _ => rfl) (by intro s e w; simp)

/-! ### rewind -/

theorem rewindStep_ext (c : StepCfg) (ss : StepState) (now : Int) :
    keys (rewindStep c ss now).1 = startK c.name (rewindStep c ss now).2 ∧
      ∀ s, s ≠ c.name → startK s (rewindStep c ss now).2 = [] := by
  unfold rewindStep
  have := drain_ext c.name c.numWorkers now
    ((ss.inProg.map inProgToAttempt).reverse ++ ss.queue).length
    { ss with queue := (ss.inProg.map inProgToAttempt).reverse ++ ss.queue, inProg := [] }
  obtain ⟨h1, h2⟩ := this
  refine ⟨?_, h2⟩
  rw [h1]; simp [keys]

theorem rewindLoop_track (cfg : Cfg) (now : Int) :
    ∀ (cs : List StepCfg) (st : State) (cmds : List Cmd), (cs.map (·.name)).Nodup →
      (∀ c ∈ cs, c ∈ cfg.steps) →
      ∃ new, (rewindLoop now cs st cmds).2 = cmds ++ new ∧ CfgStarts cfg new ∧
        ∀ s, keys ((rewindLoop now cs st cmds).1.workers s)
          = (if s ∈ cs.map (·.name) then [] else keys (st.workers s)) ++ startK s new
  | [], st, cmds, _, _ => by
    refine ⟨[], by simp [rewindLoop], ?_, ?_⟩
    · intro _ _ _ h; cases h
    · intro s; simp [rewindLoop, startK]
  | c :: cs, st, cmds, hnd, hsub => by
    simp only [List.map_cons, List.nodup_cons] at hnd
    unfold rewindLoop
    obtain ⟨new', h1, h2, h3⟩ := rewindLoop_track cfg now cs
      (st.set c.name (rewindStep c (st.workers c.name) now).1)
      (cmds ++ (rewindStep c (st.workers c.name) now).2) hnd.2 (fun d hd => hsub d (by simp [hd]))
    obtain ⟨e1, e2⟩ := rewindStep_ext c (st.workers c.name) now
    have hname : c.name ∈ cfg.names := List.mem_map_of_mem (hsub c (by simp))
    refine ⟨(rewindStep c (st.workers c.name) now).2 ++ new', ?_, ?_, ?_⟩
    · simp only; rw [h1, List.append_assoc]
    · apply CfgStarts.append _ h2
      intro s ev w hm
      by_cases hs : s = c.name
      · rw [hs]; exact hname
      · have := e2 s hs
        have hk : (w, ev) ∈ startK s (rewindStep c (st.workers c.name) now).2 := mem_startK.mpr hm
        rw [this] at hk; cases hk
    · intro s
      simp only
      rw [h3 s, startK_append]
      by_cases hs : s = c.name
      · subst hs
        simp only [hnd.1, ↓reduceIte, List.map_cons, List.mem_cons, true_or, List.nil_append]
        simp only [State.set, ↓reduceIte]
        rw [e1]
      · rw [e2 s hs]
        simp only [List.map_cons, List.mem_cons, hs, false_or, List.nil_append]
        simp only [State.set, hs, ↓reduceIte]

/-- after the rewind, the rows of every configured step are exactly the workers it starts -/
theorem rewind_starts (cfg : Cfg) (hwf : cfg.WF) (st : State) (now : Int) (hids : IdsInv cfg st) :
    (∀ n ∈ workersOf (rewind cfg st now).2, n.step ∈ cfg.names ∧
        (n.wid, n.ev) ∈ keys ((rewind cfg st now).1.workers n.step)) ∧
      ((workersOf (rewind cfg st now).2).map Worker.slot).Nodup := by
  have hnd : ((sortedSteps cfg).map (·.name)).Nodup := (sortedSteps_names_perm cfg).nodup_iff.mpr hwf
  have hids' := rewind_idsInv cfg hwf st now hids
  unfold rewind at hids' ⊢
  obtain ⟨new, h1, h2, h3⟩ := rewindLoop_track cfg now (sortedSteps cfg) st [] hnd
    (fun c hc => mem_sortedSteps hc)
  rw [List.nil_append] at h1
  rw [h1]
  have ht : Track (fun s => if s ∈ (sortedSteps cfg).map (·.name) then [] else keys (st.workers s))
      (rewindLoop now (sortedSteps cfg) st []).1 new := h3
  obtain ⟨t1, t2⟩ := track_starts hids' ht h2
  exact ⟨fun n hn => ⟨(t1 n hn).1, (t1 n hn).2.1⟩, t2⟩

/-! ## Part 2 — the runner -/

def Tick.isStepResult : Tick → Bool
  | .stepResult _ _ _ _ => true
  | _ => false

def NoSR (l : List Tick) : Prop := ∀ t ∈ l, t.isStepResult = false

theorem NoSR.snoc {l : List Tick} {t : Tick} (h : NoSR l) (ht : t.isStepResult = false) : NoSR (l ++ [t]) := by
  intro x hx
  rcases List.mem_append.mp hx with hx | hx
  · exact h x hx
  · simp only [List.mem_singleton] at hx; subst hx; exact ht

def HeapNoSR (l : List Timer) : Prop := ∀ tm ∈ l, tm.tick.isStepResult = false

/-- the guard of the event clause: a `workerDone` re-runs only with the worker's own event -/
def Res.evIs (e0 : Ev) : Res → Bool
  | .addCollected _ e => e == e0
  | _ => true

def Act.sameEventAt (r : Runner) : Act → Bool
  | .workerDone s w res =>
    r.running.all (fun x => !(x.step == s && x.wid == w) || res.all (Res.evIs x.ev))
  | _ => true

/-- the runner invariant.  `P` switches the event clause on. -/
structure RunInv (cfg : Cfg) (P : Prop) (r : Runner) : Prop where
  ids : IdsInv cfg r.st
  sub : ∀ w ∈ r.running, w.step ∈ cfg.names ∧
    ∃ ip ∈ (r.st.workers w.step).inProg, ip.wid = w.wid ∧ (P → ip.ev = w.ev)
  nodup : (r.running.map Worker.slot).Nodup
  mbox : NoSR r.mailbox
  heap : HeapNoSR r.heap
  buf : NoSR r.buf ∨ ∃ s w ev res, r.buf = [.stepResult s w ev res] ∧
    (∀ x ∈ r.running, ¬ (x.step = s ∧ x.wid = w)) ∧
    (P → (∀ ip ∈ (r.st.workers s).inProg, ip.wid = w → ip.ev = ev) ∧
      ∀ b e, Res.addCollected b e ∈ res → e = ev) ∧
    -- the slot the tick reports on is a configured step's and is in progress: the reducer's
    -- `Worker N not found in in_progress` (and its `KeyError` for an unknown step) cannot happen
    (s ∈ cfg.names ∧ ∃ ip ∈ (r.st.workers s).inProg, ip.wid = w)

/-! ### `execCmds` -/

theorem execCmd_st (r : Runner) (c : Cmd) : (execCmd r c).st = r.st := by
  cases c <;> simp only [execCmd, Runner.finish, Runner.push]
  · rename_i att step delay
    cases delay with
    | none => rfl
    | some d => simp only; split <;> rfl
  · split <;> rfl

theorem execCmd_mailbox (r : Runner) (c : Cmd) : (execCmd r c).mailbox = r.mailbox := by
  cases c <;> simp only [execCmd, Runner.finish, Runner.push]
  · rename_i att step delay
    cases delay with
    | none => rfl
    | some d => simp only; split <;> rfl
  · split <;> rfl

theorem execCmd_running (r : Runner) (c : Cmd) :
    (execCmd r c).running = [] ∨ (execCmd r c).running = r.running ++ (workerOf c).toList := by
  cases c with
  | queueEvent att step delay =>
    simp only [execCmd, Runner.push, workerOf, Option.toList, List.append_nil]
    cases delay with
    | none => exact Or.inr rfl
    | some d => simp only; split <;> exact Or.inr rfl
  | runWorker s ev w => exact Or.inr rfl
  | halt k => exact Or.inl rfl
  | completeRun p => exact Or.inl rfl
  | failWorkflow s x => exact Or.inl rfl
  | publish p => exact Or.inr (by simp [execCmd, workerOf])
  | scheduleIdleCheck =>
    simp only [execCmd, workerOf, Option.toList, List.append_nil]
    split <;> exact Or.inr rfl
  | scheduleWaiterTimeout s w t => exact Or.inr (by simp [execCmd, Runner.push, workerOf])
  | crash => exact Or.inl rfl

theorem execCmd_quiet (r : Runner) (c : Cmd) (hb : NoSR r.buf) (hh : HeapNoSR r.heap) :
    NoSR (execCmd r c).buf ∧ HeapNoSR (execCmd r c).heap := by
  have hpush : ∀ (t : Tick) (a : Int), t.isStepResult = false → HeapNoSR (r.push t a).heap := by
    intro t a ht tm htm
    simp only [Runner.push] at htm
    rcases List.mem_append.mp htm with h | h
    · exact hh tm h
    · simp only [List.mem_singleton] at h; subst h; exact ht
  cases c with
  | queueEvent att step delay =>
    simp only [execCmd]
    cases delay with
    | none => exact ⟨hb.snoc rfl, hh⟩
    | some d =>
      simp only
      split
      · exact ⟨hb, hpush _ _ rfl⟩
      · exact ⟨hb.snoc rfl, hh⟩
  | runWorker s ev w => exact ⟨hb, hh⟩
  | halt k => exact ⟨hb, hh⟩
  | completeRun p => exact ⟨hb, hh⟩
  | failWorkflow s x => exact ⟨hb, hh⟩
  | publish p => exact ⟨hb, hh⟩
  | scheduleIdleCheck =>
    simp only [execCmd]
    split
    · exact ⟨hb, hh⟩
    · exact ⟨hb.snoc rfl, hh⟩
  | scheduleWaiterTimeout s w t => exact ⟨hb, hpush _ _ rfl⟩
  | crash => exact ⟨hb, hh⟩

theorem workersOf_cons (c : Cmd) (cs : List Cmd) : workersOf (c :: cs) = (workerOf c).toList ++ workersOf cs := by
  unfold workersOf
  cases h : workerOf c <;> simp [List.filterMap_cons, h]

theorem execCmds_spec' : ∀ (cmds : List Cmd) (r : Runner), NoSR r.buf → HeapNoSR r.heap →
    (execCmds r cmds).st = r.st ∧ (execCmds r cmds).mailbox = r.mailbox ∧
      (execCmds r cmds).running.Sublist (r.running ++ workersOf cmds) ∧
      NoSR (execCmds r cmds).buf ∧ HeapNoSR (execCmds r cmds).heap
  | [], r, hb, hh => by
    simp only [execCmds, workersOf, List.filterMap_nil, List.append_nil]
    exact ⟨trivial, trivial, List.Sublist.refl _, hb, hh⟩
  | c :: cs, r, hb, hh => by
    obtain ⟨hq1, hq2⟩ := execCmd_quiet r c hb hh
    have hrun := execCmd_running r c
    simp only [execCmds]
    rw [workersOf_cons]
    split
    · refine ⟨execCmd_st r c, execCmd_mailbox r c, ?_, hq1, hq2⟩
      rcases hrun with h | h
      · rw [h]; exact List.nil_sublist _
      · rw [h, ← List.append_assoc]; exact List.sublist_append_left _ _
    · obtain ⟨i1, i2, i3, i4, i5⟩ := execCmds_spec' cs (execCmd r c) hq1 hq2
      refine ⟨i1.trans (execCmd_st r c), i2.trans (execCmd_mailbox r c), ?_, i4, i5⟩
      rcases hrun with h | h
      · rw [h, List.nil_append] at i3
        exact i3.trans ((List.sublist_append_right _ _).trans (List.sublist_append_right _ _))
      · rw [h, List.append_assoc] at i3; exact i3

/-! ### combining a frame with the live workers -/

theorem frame_running {cfg : Cfg} {P : Prop} {freed : Nat → Nat → Prop} {st st' : State}
    {cmds : List Cmd} {R : List Worker} (hf : Frame cfg P freed st st' cmds)
    (hsub : ∀ w ∈ R, w.step ∈ cfg.names ∧
      ∃ ip ∈ (st.workers w.step).inProg, ip.wid = w.wid ∧ (P → ip.ev = w.ev))
    (hnd : (R.map Worker.slot).Nodup) (hfree : ∀ x ∈ R, ¬ freed x.step x.wid) :
    (∀ w ∈ R ++ workersOf cmds, w.step ∈ cfg.names ∧
      ∃ ip ∈ (st'.workers w.step).inProg, ip.wid = w.wid ∧ (P → ip.ev = w.ev)) ∧
    ((R ++ workersOf cmds).map Worker.slot).Nodup := by
  refine ⟨?_, ?_⟩
  · intro w hw
    rcases List.mem_append.mp hw with h | h
    · obtain ⟨h1, ip, hip, hwid, hev⟩ := hsub w h
      obtain ⟨ip', hip', hw', he'⟩ := hf.survive w.step ip hip (by rw [hwid]; exact hfree w h)
      exact ⟨h1, ip', hip', hw'.trans hwid, fun hp => he'.trans (hev hp)⟩
    · exact hf.started w h
  · rw [List.map_append, List.nodup_append]
    refine ⟨hnd, hf.nodup, ?_⟩
    intro a ha b hb hab
    subst hab
    obtain ⟨x, hx, hxa⟩ := List.mem_map.mp ha
    obtain ⟨n, hn, hna⟩ := List.mem_map.mp hb
    rw [← hna] at hxa
    simp only [Worker.slot, Prod.mk.injEq] at hxa
    obtain ⟨_, ip, hip, hwid, _⟩ := hsub x hx
    have hused : n.wid ∈ usedIds (st.workers n.step) := by
      rw [← hxa.1, ← hxa.2]; exact mem_usedIds.mpr ⟨ip, hip, hwid⟩
    have := hf.fresh n hn hused
    rw [← hxa.1, ← hxa.2] at this
    exact hfree x hx this

theorem sub_of_sublist {cfg : Cfg} {P : Prop} {st : State} {R R' : List Worker} (hs : R'.Sublist R)
    (h : (∀ w ∈ R, w.step ∈ cfg.names ∧
      ∃ ip ∈ (st.workers w.step).inProg, ip.wid = w.wid ∧ (P → ip.ev = w.ev)) ∧
      (R.map Worker.slot).Nodup) :
    (∀ w ∈ R', w.step ∈ cfg.names ∧
      ∃ ip ∈ (st.workers w.step).inProg, ip.wid = w.wid ∧ (P → ip.ev = w.ev)) ∧
      (R'.map Worker.slot).Nodup :=
  ⟨fun w hw => h.1 w (hs.subset hw), (hs.map _).nodup h.2⟩

/-- erasing the first worker of a slot from a duplicate-free table leaves none of that slot -/
theorem eraseP_slot_gone (s w : Nat) : ∀ (l : List Worker), (l.map Worker.slot).Nodup →
    ∀ y ∈ l.eraseP (fun y => y.step == s && y.wid == w), ¬ (y.step = s ∧ y.wid = w)
  | [], _, y, hy => by cases hy
  | x :: xs, hnd, y, hy => by
    simp only [List.map_cons, List.nodup_cons] at hnd
    simp only [List.eraseP_cons] at hy
    by_cases hx : (x.step == s && x.wid == w) = true
    · rw [hx, cond_true] at hy
      simp only [Bool.and_eq_true, beq_iff_eq] at hx
      intro hyk
      apply hnd.1
      apply List.mem_map.mpr
      exact ⟨y, hy, by simp [Worker.slot, hx.1, hx.2, hyk.1, hyk.2]⟩
    · have hx' : (x.step == s && x.wid == w) = false := by simpa using hx
      rw [hx', cond_false] at hy
      rcases List.mem_cons.mp hy with h | h
      · subst h
        simpa using hx
      · exact eraseP_slot_gone s w xs hnd.2 y h

theorem eq_of_nodup_wid : ∀ (l : List InProg), (l.map (·.wid)).Nodup →
    ∀ a ∈ l, ∀ b ∈ l, a.wid = b.wid → a = b
  | [], _, a, ha, _, _, _ => by cases ha
  | x :: xs, hnd, a, ha, b, hb, hab => by
    simp only [List.map_cons, List.nodup_cons] at hnd
    rcases List.mem_cons.mp ha with ha | ha <;> rcases List.mem_cons.mp hb with hb | hb
    · rw [ha, hb]
    · rw [ha] at hab
      exact absurd (List.mem_map.mpr ⟨b, hb, hab.symm⟩) hnd.1
    · rw [hb] at hab
      exact absurd (List.mem_map.mpr ⟨a, ha, hab⟩) hnd.1
    · exact eq_of_nodup_wid xs hnd.2 a ha b hb hab

/-! ### one action -/

/-- what is asked of an action — only for the event clause: its collect re-runs carry the
finishing worker's own event -/
def Act.Guard (P : Prop) (r : Runner) (a : Act) : Prop := P → a.sameEventAt r = true

theorem isStepResult_of_external {t : Tick} (h : t.isExternal = true) : t.isStepResult = false := by
  cases t <;> simp_all [Tick.isExternal, Tick.isStepResult]

theorem step_runInv (cfg : Cfg) (hwf : cfg.WF) (pol : Policy) (P : Prop) (r : Runner) (a : Act)
    (hg : Act.Guard P r a) (h : RunInv cfg P r) : RunInv cfg P (r.step cfg pol a) := by
  unfold Runner.step
  split
  · exact h
  cases a with
  | drain =>
    simp only
    cases hbuf : r.buf with
    | nil => simp only; exact h
    | cons t rest =>
      simp only
      have hrest : NoSR rest := by
        rcases h.buf with hn | ⟨s, w, ev, res, hb, _⟩
        · intro x hx; exact hn x (by rw [hbuf]; simp [hx])
        · rw [hbuf] at hb
          simp only [List.cons.injEq] at hb
          rw [hb.2]; intro x hx; cases hx
      have hTick : TickOk P r.st t ∧ ∀ x ∈ r.running, ¬ t.freed x.step x.wid := by
        rcases h.buf with hn | ⟨s, w, ev, res, hb, hfree, hp, _⟩
        · have ht := hn t (by rw [hbuf]; simp)
          cases t <;> first
            | exact ⟨trivial, fun _ _ hf => hf⟩
            | (simp [Tick.isStepResult] at ht)
        · rw [hbuf] at hb
          simp only [List.cons.injEq] at hb
          rw [hb.1]
          exact ⟨hp, hfree⟩
      split
      · exact ⟨h.ids, fun w hw => (by cases hw), List.nodup_nil, h.mbox, h.heap, Or.inl hrest⟩
      · obtain ⟨e1, e2, e3, e4, e5⟩ := execCmds_spec' (reduce cfg pol t r.st r.now).2
          { r with
            buf := rest
            idlePending := (if t = Tick.idleCheck then false else r.idlePending)
            st := (reduce cfg pol t r.st r.now).1
            log := r.log ++ [(t, r.now)] } hrest h.heap
        have hf := reduce_frame cfg hwf pol P t r.st r.now h.ids hTick.1
        have hfr := sub_of_sublist e3 (frame_running hf h.sub h.nodup hTick.2)
        refine ⟨?_, ?_, hfr.2, ?_, e5, Or.inl e4⟩
        · rw [e1]; exact reduce_idsInv cfg hwf pol t r.st r.now h.ids
        · rw [e1]; exact hfr.1
        · rw [e2]; exact h.mbox
  | workerDone s w res =>
    simp only
    split
    · exact h
    · split
      · exact h
      · rename_i x hfind
        have hx : x ∈ r.running := List.mem_of_find?_eq_some hfind
        have hxp := List.find?_some hfind
        simp only [Bool.and_eq_true, beq_iff_eq] at hxp
        have hsl : (if hasStopResult res then []
            else r.running.eraseP (fun y => y.step == s && y.wid == w)).Sublist r.running := by
          split
          · exact List.nil_sublist _
          · exact List.eraseP_sublist
        have hss := sub_of_sublist hsl ⟨h.sub, h.nodup⟩
        refine ⟨h.ids, hss.1, hss.2, h.mbox, h.heap, Or.inr ⟨s, w, x.ev, res, rfl, ?_, ?_, ?_⟩⟩
        · intro y hy
          simp only at hy
          split at hy
          · cases hy
          · exact eraseP_slot_gone s w r.running h.nodup y hy
        · intro hp
          obtain ⟨hname, ip0, hip0, hw0, he0⟩ := h.sub x hx
          refine ⟨?_, ?_⟩
          · intro ip hip hipw
            obtain ⟨c, hc, hcn⟩ := List.mem_map.mp hname
            have hnd := (h.ids c hc).1
            simp only [usedIds] at hnd
            rw [hcn, hxp.1] at hnd
            rw [hxp.1] at hip0
            have := eq_of_nodup_wid _ hnd ip hip ip0 hip0 (by rw [hipw, hw0, hxp.2])
            rw [this]; exact he0 hp
          · intro b e hmem
            have hall := hg hp
            simp only [Act.sameEventAt, List.all_eq_true] at hall
            have := hall x hx
            simp only [hxp.1, hxp.2, beq_self_eq_true, Bool.and_self, Bool.not_true, Bool.false_or,
              List.all_eq_true] at this
            have := this _ hmem
            simpa [Res.evIs] using this
        · obtain ⟨hname, ip0, hip0, hw0, _⟩ := h.sub x hx
          rw [hxp.1] at hname hip0
          exact ⟨hname, ip0, hip0, hw0.trans hxp.2⟩
  | pull =>
    simp only
    split
    · exact h
    · split
      · exact h
      · rename_i t m hmb
        refine ⟨h.ids, h.sub, h.nodup, ?_, h.heap, Or.inl ?_⟩
        · intro x hx; exact h.mbox x (by rw [hmb]; simp [hx])
        · intro x hx
          simp only [List.mem_singleton] at hx
          subst hx
          exact h.mbox x (by rw [hmb]; simp)
  | timer =>
    simp only
    split
    · exact h
    · refine ⟨h.ids, h.sub, h.nodup, h.mbox, ?_, Or.inl ?_⟩
      · intro x hx
        exact h.heap x (List.mem_filter.mp hx).1
      · intro x hx
        simp only [List.mem_map] at hx
        obtain ⟨tm, htm, rfl⟩ := hx
        exact h.heap tm (List.mem_filter.mp (mem_sortTimers htm)).1
  | advance dt => exact ⟨h.ids, h.sub, h.nodup, h.mbox, h.heap, h.buf⟩
  | external t =>
    simp only
    split
    · rename_i hext
      exact ⟨h.ids, h.sub, h.nodup, h.mbox.snoc (isStepResult_of_external hext), h.heap, h.buf⟩
    · exact h
  | stepWrite p => exact ⟨h.ids, h.sub, h.nodup, h.mbox, h.heap, h.buf⟩

/-! ### whole runs -/

/-- the guard along a run: evaluated at the state each action is taken in -/
def Runner.Guarded (cfg : Cfg) (pol : Policy) (P : Prop) : Runner → List Act → Prop
  | _, [] => True
  | r, a :: as => Act.Guard P r a ∧ Runner.Guarded cfg pol P (r.step cfg pol a) as

theorem run_runInv (cfg : Cfg) (hwf : cfg.WF) (pol : Policy) (P : Prop) :
    ∀ (acts : List Act) (r : Runner), Runner.Guarded cfg pol P r acts → RunInv cfg P r →
      RunInv cfg P (Runner.run cfg pol r acts)
  | [], r, _, h => h
  | a :: as, r, hg, h => by
    simp only [Runner.run, List.foldl_cons]
    exact run_runInv cfg hwf pol P as _ hg.2 (step_runInv cfg hwf pol P r a hg.1 h)

/-- without the event clause nothing is asked of the schedule -/
theorem guarded_false (cfg : Cfg) (pol : Policy) :
    ∀ (acts : List Act) (r : Runner), Runner.Guarded cfg pol False r acts
  | [], _ => trivial
  | a :: as, r => ⟨fun hf => hf.elim, guarded_false cfg pol as _⟩

/-! ### the start of a run -/

theorem rehydrateTicks_noSR (cfg : Cfg) (st : State) : NoSR (rehydrateTicks cfg st) := by
  intro t ht
  simp only [rehydrateTicks, List.mem_flatMap, List.mem_map] at ht
  obtain ⟨c, _, w, _, rfl⟩ := ht
  rfl

theorem init_aux (cfg : Cfg) (hwf : cfg.WF) (P : Prop) (st0 : State) (h0 : IdsInv cfg st0) (now : Int)
    (r : Runner) (hst : r.st = (rewind cfg st0 now).1) (hrun : r.running = []) (hb : NoSR r.buf)
    (hh : HeapNoSR r.heap) (hm : r.mailbox = []) :
    RunInv cfg P (execCmds r (rewind cfg st0 now).2) := by
  obtain ⟨s1, s2⟩ := rewind_starts cfg hwf st0 now h0
  obtain ⟨e1, e2, e3, e4, e5⟩ := execCmds_spec' (rewind cfg st0 now).2 r hb hh
  rw [hrun, List.nil_append] at e3
  refine ⟨?_, ?_, (e3.map _).nodup s2, ?_, e5, Or.inl e4⟩
  · rw [e1, hst]; exact rewind_idsInv cfg hwf st0 now h0
  · intro w hw
    obtain ⟨a, b⟩ := s1 w (e3.subset hw)
    obtain ⟨ip, hip, hw', he'⟩ := mem_keys.mp b
    rw [e1, hst]
    exact ⟨a, ip, hip, hw', fun _ => he'⟩
  · rw [e2, hm]; intro t ht; cases ht

theorem init_runInv (cfg : Cfg) (hwf : cfg.WF) (P : Prop) (st0 : State) (h0 : IdsInv cfg st0) (now : Int)
    (start : Option Ev) (timeout : Option Nat) : RunInv cfg P (Runner.init cfg st0 now start timeout) := by
  unfold Runner.init
  simp only
  apply init_aux cfg hwf P st0 h0 now
  · rfl
  · cases timeout <;> rfl
  · cases timeout <;>
    · intro t ht
      simp only [Runner.push] at ht
      rcases List.mem_append.mp ht with h | h
      · exact rehydrateTicks_noSR cfg st0 t h
      · cases start with
        | none => cases h
        | some e => simp only [List.mem_singleton] at h; subst h; rfl
  · cases timeout with
    | none => intro tm h; cases h
    | some t =>
      intro tm h
      simp only [Runner.push, List.nil_append, List.mem_singleton] at h
      subst h; rfl
  · cases timeout <;> rfl

/-! ### consequences: the worker limit on live tasks -/

theorem nodup_wids_of_slots (s : Nat) : ∀ l : List Worker, (l.map Worker.slot).Nodup →
    ((l.filter (fun w => w.step == s)).map (·.wid)).Nodup
  | [], _ => List.nodup_nil
  | x :: xs, h => by
    simp only [List.map_cons, List.nodup_cons] at h
    have ih := nodup_wids_of_slots s xs h.2
    simp only [List.filter_cons]
    split
    · rename_i hx
      simp only [beq_iff_eq] at hx
      simp only [List.map_cons, List.nodup_cons]
      refine ⟨?_, ih⟩
      intro hm
      obtain ⟨y, hy, hyw⟩ := List.mem_map.mp hm
      obtain ⟨hy1, hy2⟩ := List.mem_filter.mp hy
      simp only [beq_iff_eq] at hy2
      apply h.1
      exact List.mem_map.mpr ⟨y, hy1, by simp [Worker.slot, hy2, hx, hyw]⟩
    · exact ih

/-- live workers of a step: at most `num_workers`, each on a slot below `num_workers` -/
theorem RunInv.bounded {cfg : Cfg} {P : Prop} {r : Runner} (hwf : cfg.WF) (h : RunInv cfg P r) :
    (∀ c ∈ cfg.steps, (r.running.filter (fun w => w.step == c.name)).length ≤ c.numWorkers) ∧
      ∀ w ∈ r.running, w.wid < cfg.nw w.step := by
  have hlt : ∀ w ∈ r.running, ∀ c ∈ cfg.steps, c.name = w.step → w.wid < c.numWorkers := by
    intro w hw c hc hcn
    obtain ⟨_, ip, hip, hwid, _⟩ := h.sub w hw
    rw [← hcn] at hip
    exact (h.ids c hc).2 w.wid (mem_usedIds.mpr ⟨ip, hip, hwid⟩)
  refine ⟨?_, ?_⟩
  · intro c hc
    have hnd := nodup_wids_of_slots c.name r.running h.nodup
    have hsub : (r.running.filter (fun w => w.step == c.name)).map (·.wid) ⊆ List.range c.numWorkers := by
      intro i hi
      obtain ⟨w, hw, rfl⟩ := List.mem_map.mp hi
      obtain ⟨hw1, hw2⟩ := List.mem_filter.mp hw
      simp only [beq_iff_eq] at hw2
      exact List.mem_range.mpr (hlt w hw1 c hc hw2.symm)
    have := List.Nodup.length_le_of_subset hnd hsub
    simpa using this
  · intro w hw
    obtain ⟨hname, _⟩ := h.sub w hw
    obtain ⟨c, hc, hcn⟩ := List.mem_map.mp hname
    rw [← hcn, Cfg.nw_of_mem hwf hc]
    exact hlt w hw c hc hcn

/-- the event guard along a run, as a computable check -/
def Runner.sameEvent (cfg : Cfg) (pol : Policy) : Runner → List Act → Bool
  | _, [] => true
  | r, a :: as => a.sameEventAt r && Runner.sameEvent cfg pol (r.step cfg pol a) as

theorem guarded_of_sameEvent (cfg : Cfg) (pol : Policy) :
    ∀ (acts : List Act) (r : Runner),
      Runner.sameEvent cfg pol r acts = true → Runner.Guarded cfg pol True r acts
  | [], _, _ => trivial
  | a :: as, r, hs => by
    simp only [Runner.sameEvent, Bool.and_eq_true] at hs
    exact ⟨fun _ => hs.1, guarded_of_sameEvent cfg pol as _ hs.2⟩

end Engine
