/-!
M10 (part) — `@catch_error` handler tables: `validate_catch_error_handlers` and
`_collect_catch_error_handlers` (`representation/validate.py`).
Step names are `Nat`s; a handler declares `for_steps` (`none` = wildcard) and `max_recoveries`.
-/
namespace Handlers

structure Decl where
  name : Nat
  forSteps : Option (List Nat)
  maxRec : Nat
deriving Repr, DecidableEq

def names (hs : List Decl) : List Nat := hs.map (·.name)

/-- scoped claims `(target, handler)` in the order the code visits them -/
def claims (hs : List Decl) : List (Nat × Nat) :=
  hs.flatMap fun h => (h.forSteps.getD []).map fun t => (t, h.name)

def wildcards (hs : List Decl) : List Decl := hs.filter (·.forSteps.isNone)

/-- no error from `validate_catch_error_handlers`, and every `max_recoveries ≥ 1` -/
def valid (steps : List Nat) (hs : List Decl) : Bool :=
  decide ((wildcards hs).length ≤ 1) &&
  (claims hs).all (fun c => steps.contains c.1 && !(names hs).contains c.1) &&
  decide ((claims hs).map (·.1)).Nodup &&
  hs.all (fun h => decide (1 ≤ h.maxRec))

/-- `handler_for_step.get(s)`: scoped claims first (a dict: the last assignment wins), then the
wildcard fills every step that is neither a handler nor claimed -/
def handlerFor (steps : List Nat) (hs : List Decl) (s : Nat) : Option Nat :=
  match (claims hs).reverse.find? (fun c => c.1 == s) with
  | some c => some c.2
  | none =>
    match (wildcards hs).head? with
    | some w => if steps.contains s && !(names hs).contains s then some w.name else none
    | none => none

end Handlers
