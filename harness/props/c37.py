"""C37 — llamactl never activates a profile the user did not pick in that environment."""
from __future__ import annotations

import json
import os
from typing import Any

from ..boot import VERIF
from ..cliconfig import RealConfig, decode_line, load_impl, op_line
from ..runner import Divergence, Driver, Env, Outcome, Violation, diff_streams

THEOREMS = [
    "C37_source_shape",
    "C37_source_shape_sql",
    "C37_source_shape_binding",
    "C37_invariant",
    "C37_active_was_picked_here",
    "C37_pick_is_last_pick_event",
    "C37_unique_keys",
    "C37_switch_clears",
    "C37_add_clears",
    "C37_delete_current_clears",
    "C37_each_clear_needed",
    # whole-history statements (extension)
    "C37_unique_ids",
    "C37_active_continuously_since_pick",
    "C37_kept_means",
    "C37_current_environment_real",
    # AuthService objects held across environment changes (model M16b)
    "C37_held_extends_fresh",
    "C37_pickedHere_means",
    "C37_statement_fresh_services",
    "C37_held_services_refuted",
    "C37_held_services_partial",
]
EXPLANATION = (
    "Lean model M16 of llamactl's SQLite configuration: tables environments/profiles (profiles keyed by (name, api_url)), "
    "settings current_environment_api_url/current_profile (a name only), the service operations of "
    "EnvService/AuthService/ConfigManager that change them with their error branches, and a ghost field recording the "
    "latest select/create event together with the environment current at that moment. C37_invariant (induction over op "
    "lists): after every operation sequence the current environment is known or the default and the active profile is "
    "none or a stored profile of the current environment whose name is the latest pick, made while this environment was "
    "current; C37_active_was_picked_here restates it in the property's words (the history contains an operation that "
    "selected/created that name while the now-current environment was current); C37_pick_is_last_pick_event defines the "
    "ghost from the history alone; C37_each_clear_needed shows each of the three clearings is necessary (the delete one is "
    "the repair of F26). Tie: constants and the three 'clears current_profile' facts are regenerated from the sources "
    "(C37_source_shape); random op sequences run on the real services over a real SQLite file in a temp dir and on the "
    "compiled model, comparing result, current environment, pointer, active profile, ghost and both tables after every op. "
    "Search: after every op on the real services - current environment stored or default; active profile belongs to the "
    "current environment, is a stored row, the latest select/create event was made while the current environment was "
    "current, and this profile was itself picked at some time (the harness keeps its own record of the events). "
    "Extension: (T) C37_unique_ids (profile ids pairwise different after every history); C37_active_continuously_since_pick "
    "(the active profile is the very row - same id - that the latest select/create event designated, that event happened while "
    "its environment was current, and in every state since then this environment was current, this row was active and no "
    "further select/create happened; C37_kept_means spells the recursive predicate out); C37_current_environment_real "
    "(get_current_environment() never fabricates an environment: stored row or built-in default, third branch dead on all "
    "reachable configurations); the token-refresh path refresh_to_db (update by id in any environment) is an operation of the "
    "model; model M16b makes the binding of an AuthService a parameter (stepHeld; the fresh model is its diagonal, "
    "C37_held_extends_fresh): C37_held_services_refuted (a witness with two operations through services bound to a "
    "non-current environment activates a profile nobody picked there; replayed on the real services on every run), "
    "C37_held_services_partial (if every select/create goes through a service of the then-current environment - stale services "
    "only delete/update - the property holds, in the property's own words via pickedHere / C37_pickedHere_means; "
    "C37_statement_fresh_services: for fresh services this is the statement already proved). (tie) C37_source_shape_sql: all 24 "
    "SQL statements of ConfigManager as (method, verb, table, WHERE columns, SET/ORDER/LIMIT/literal key), regenerated; the "
    "settings row of the current environment is never deleted; profiles are never addressed by name alone; ids unique "
    "(migration 0002). C37_source_shape_binding: every AuthService call into an environment-taking ConfigManager method passes "
    "self.env.api_url, current_auth_service() binds to the store's current environment read on every call, delete_profile "
    "clears on the bare name. (K) new op kinds refresh|PID|UID|TOK and held|URL|<op>; held-service sequences. (S) new rules "
    "from the harness's own event log: a profile becomes active only by a select/create event, a non-pick operation never "
    "changes which row is active, and some event named the active profile through a service of its environment while current."
)
LEVEL_TEXT = "proof (invariant over all operation sequences) + per-op correspondence on the real SQLite-backed services"
ASSUMPTIONS = [
    "the property theorems (C37_invariant, ...) are about histories in which every profile operation runs on a fresh "
    "EnvService.current_auth_service() (an AuthService bound to the environment current when the operation starts), as every "
    "CLI command does; AuthService objects bound to another environment are modelled (M16b): with them the statement is "
    "refuted (C37_held_services_refuted) unless they are used for delete/update only (C37_held_services_partial)",
    "update_profile is exercised with changes that keep (id, name, api_url) (api_key/api_key_id/device_oidc), the only "
    "use in the CLI; renaming or moving a profile through the raw ConfigManager API is outside the model",
    "one process at a time on the database (no concurrent llamactl invocations); each operation's SQLite transactions "
    "are taken as atomic",
    "the settings row current_environment_api_url always exists: seeded by migration 0001 (C37_source_shape) and no statement "
    "of ConfigManager deletes it (C37_source_shape_sql); a database edited by other tools is outside the model",
    "SQLite TEXT equality and ORDER BY name (BINARY collation) are modelled as code-point equality/order of the strings; "
    "strings with NUL or lone surrogates are not generated",
    "network side of the services (probe/auto_update_env version fetch, remote API-key revocation in delete_profile, "
    "token validation) is stubbed: it does not touch the configuration tables",
    "uuid4 ids are modelled by a creation counter (collisions ignored)",
]
TRUSTED_EXTRA = [
    "harness/cliconfig.py: name-only stubs for llama_agents.cli.auth.client, llama_agents.core.client.manage_client, "
    "llama_agents.core.schema(.projects) (network clients absent from the sandbox); LLAMACTL_CONFIG_DIR temp dirs",
    "harness/gen/cliconfig.py (AST/SQL extraction into WfModel/GenCliConfig.lean)",
    "harness/gen/cliconfig_sql.py (SQL statement shapes and AuthService call shapes into WfModel/GenCliConfigSql.lean)",
    "sqlite3 module / SQLite library of the runtime",
]

CORPUS = os.path.join(VERIF, "harness", "corpus", "c37_delete_current_env.json")

B, C_, STG, NOWHERE = "http://b", "http://c", "https://stg.example/api", "http://nowhere"
KEYS = [None, None, None, "sk-aaaaaa1111zzzz", "sk-aaaaaa2222zzzz", "abc", "k e y", " ", "", "llx-Ünïcode-key-9", "sk-bbbbbbbbbb"]
EMAILS = ["a@x.io", "b@x.io", "default", "", "Zoë@x.io"]
UIDS = ["u1", "u2", "u3"]
PROJECTS = ["p1", "p1", "p2", "p2", "proj-3", "proj-3", "x", "x", "y", "z", "", " ", "\t\n", "\u00a0", "\u200b", " p ", "\u2003\u3000"]
MINVERS = [None, None, "0.3.0", "1.0"]
WEIGHTS = [("env-add", 10), ("env-upsert", 4), ("env-switch", 13), ("env-del", 10), ("create-token", 18), ("create-oidc", 8),
           ("select", 10), ("select-any", 6), ("delete", 8), ("set-project", 3), ("update-key", 4), ("destroy", 1), ("probe", 7),
           ("refresh", 5)]
PICK_KINDS = ("create-token", "create-oidc", "select", "select-any")
AUTH_KINDS = PICK_KINDS + ("delete", "set-project", "update-key")
MALFORMED = ["", "select", "select|1|2", "select|x", "env-add|104|2|~", "env-add|104|1", "create-token|112", "nonsense|1|2",
             "select-any|1", "env-switch|1,,2", "update-key|1|~", "destroy|", "create-oidc|1|2|3", "delete|-1", "env-del|1.2",
             "refresh|x|1|2", "refresh|1|2", "held", "held|104", "held|104|nonsense", "held|1,,2|select-any", "held|104|held|104|select-any"]


def _pools() -> tuple[list[str], list[str]]:
    impl = load_impl()
    urls = [impl["DEFAULT_URL"], B, C_, STG]
    names = ["default", "nope", ""] + [impl["redact"](k) for k in KEYS if k] + [e for e in EMAILS if e]
    return urls, sorted(set(names))


class Shadow:
    """Rough guess of the configuration while generating (steers the generator only; never used for checking)."""

    def __init__(self, default_url: str):
        self.default = default_url
        self.reset()

    def reset(self) -> None:
        self.cur = self.default
        self.envs = {self.default}
        self.names: dict[str, set[str]] = {}
        self.created = getattr(self, "created", 0)  # upper bound of the creation counter (survives destroy, like the ids)

    def note(self, op: list) -> None:
        k = op[0]
        if k == "held":
            inner = op[2]
            if inner[0] in AUTH_KINDS:
                cur, self.cur = self.cur, op[1]  # names land in the environment the service is bound to
                try:
                    self.note(inner)
                finally:
                    self.cur = cur
            else:
                self.note(inner)
            return
        if k in ("create-token", "create-oidc"):
            self.created += 1
        if k == "env-add":
            self.envs.add(op[1])
            self.cur = op[1]
        elif k == "env-upsert":
            self.envs.add(op[1])
        elif k == "env-switch" and op[1] in self.envs:
            self.cur = op[1]
        elif k == "env-del" and op[1] in self.envs:
            self.envs.discard(op[1])
            self.names.pop(op[1], None)
            if self.cur == op[1]:
                self.cur = self.default
        elif k == "create-token":
            self.names.setdefault(self.cur, set()).add(load_impl()["redact"](op[2]) if op[2] else "default")
        elif k == "create-oidc":
            self.names.setdefault(self.cur, set()).add(op[3])
        elif k == "destroy":
            self.reset()


def gen_op(rng, urls: list[str], names: list[str], sh: Shadow) -> list:
    r = rng.random() * sum(w for _, w in WEIGHTS)
    kind = WEIGHTS[-1][0]
    for k, w in WEIGHTS:
        if r < w:
            kind = k
            break
        r -= w
    u = rng.random()
    if u < (0.55 if kind == "env-del" else 0.3):
        url = sh.cur
    elif u < 0.6 and sh.envs:
        url = rng.choice(sorted(sh.envs))
    elif u < 0.94:
        url = rng.choice(urls)
    else:
        url = NOWHERE
    here = sorted(sh.names.get(sh.cur, ()))
    anywhere = sorted({n for v in sh.names.values() for n in v})
    u = rng.random()
    if u < 0.45 and here:
        name = rng.choice(here)
    elif u < 0.75 and anywhere:
        name = rng.choice(anywhere)
    else:
        name = rng.choice(names)
    if kind in ("env-add", "env-upsert"):
        return [kind, url, rng.random() < 0.5, rng.choice(MINVERS)]
    if kind in ("env-switch", "env-del"):
        return [kind, url]
    if kind == "create-token":
        return [kind, rng.choice(PROJECTS), rng.choice(KEYS)]
    if kind == "create-oidc":
        return [kind, rng.choice(PROJECTS), rng.choice(UIDS), rng.choice(EMAILS), "t%d" % rng.randrange(4)]
    if kind in ("select", "delete"):
        return [kind, name]
    if kind == "set-project":
        return [kind, name, rng.choice(PROJECTS)]
    if kind == "update-key":
        return [kind, name, rng.choice(KEYS), rng.choice([None, "kid-1", "kid-2"])]
    if kind == "probe":
        return [kind, rng.random() < 0.5, rng.choice(MINVERS)]
    if kind == "refresh":
        # mostly an id that was handed out (the profile may be gone, or live in another environment), sometimes one never used
        pid = rng.randrange(sh.created + 1) if rng.random() < 0.9 else sh.created + rng.randrange(1, 4)
        return [kind, pid, rng.choice(UIDS), "r%d" % rng.randrange(4)]
    return [kind]


def gen_held_case(rng, urls: list[str], names: list[str], stale_picks: bool) -> dict:
    """Like gen_case, but profile operations go through AuthService objects bound to an environment that need not be the
    current one.  stale_picks=False: only delete / set-project / update-key use a stale binding (the guard of
    C37_held_services_partial); True: selecting and creating too (the statement is refuted there: K only)."""
    n = rng.randint(6, 30)
    sh = Shadow(urls[0])
    ops: list[list] = [["env-upsert", rng.choice(urls[1:]), rng.random() < 0.5, None]]
    sh.note(ops[0])
    if rng.random() < 0.5:
        ops += [["create-token", "p1", None], ["env-add", rng.choice(urls[1:]), False, None], ["create-token", "p2", None]]
        for op in ops[1:]:
            sh.note(op)
    while len(ops) < n:
        op = gen_op(rng, urls, names, sh)
        if op[0] in AUTH_KINDS and rng.random() < 0.7 and (stale_picks or op[0] not in PICK_KINDS or rng.random() < 0.3):
            others = sorted(sh.envs - {sh.cur}) or [NOWHERE]
            u = rng.random()
            if op[0] in PICK_KINDS and not stale_picks:
                bound = sh.cur  # a second service object for the current environment: same as fresh
            else:
                bound = sh.cur if u < 0.2 else (rng.choice(others) if u < 0.9 else rng.choice(urls + [NOWHERE]))
            op = ["held", bound, op]
        sh.note(op)
        ops.append(op)
    return {"ops": ops, "held": "any" if stale_picks else "safe"}


def gen_case(rng, urls: list[str], names: list[str]) -> dict:
    n = rng.randint(6, 40)
    ops: list[list] = []
    sh = Shadow(urls[0])
    if rng.random() < 0.3:
        # same-named profiles in two environments, then whatever follows
        e1, e2 = rng.sample(urls, 2)
        if rng.random() < 0.4:
            e1, e2 = urls[0], rng.choice(urls[1:])
        key = rng.choice(KEYS)
        ops += [["env-add", e1, False, None], ["create-token", "p1", key], ["env-add", e2, rng.random() < 0.5, None],
                ["create-token", "p2", key]]
        if rng.random() < 0.5:
            ops.append(["env-upsert", e1, True, None])
        for op in ops:
            sh.note(op)
    while len(ops) < n:
        op = gen_op(rng, urls, names, sh)
        sh.note(op)
        ops.append(op)
    return {"ops": ops}


def run_case(case: dict, out: Outcome, final: dict | None = None) -> tuple[list[str], list[str], list[Violation]]:
    """Run one op sequence on the real services.  Returns (op lines, implementation output lines, violations);
    `final`, when given, receives the last observation (active profile, current environment) and the event log."""
    impl = load_impl()
    default_url = impl["DEFAULT_URL"]
    real = RealConfig()
    lines, impl_out, viols = ["reset"], ["reset"], []
    cur_before = default_url
    bad_before: set[str] = set()  # rules already violated after the previous op: report a violation where it first appears
    act_before: str | None = None  # uuid of the profile that was active after the previous op
    stale_pick_seen = False        # a select/create went through a service bound to a non-current environment (held cases only)
    try:
        for i, op in enumerate(case["ops"]):
            lines.append(op_line(op))
            if op[0] == "raw":
                impl_out.append("bad-op")
                out.count("op:malformed")
                continue
            picks_before = real.n_picks
            res = real.apply(op)
            out.evaluations += 1
            if op[0] == "held":
                stale = op[1] != cur_before
                out.count(f"op:held:{op[2][0]}:{'stale' if stale else 'same-env'}")
                if stale and op[2][0] in PICK_KINDS:
                    stale_pick_seen = True
            out.count("op:" + op[0])
            out.count("res:" + res.split(" ")[0].split(":")[0])
            obs = real.observe()
            impl_out.append(res + ";" + real.state_line(obs))
            # ---- (S) the property, stated on the real services' answers
            cur, act, env_rows, prof_rows = obs["cur"], obs["active"], obs["env_rows"], obs["prof_rows"]
            if op[0] == "env-del" and res == "true" and op[1] == cur_before:
                out.count("event:deleted-current-env")
            if op[0] == "delete" and res == "true" and obs["ptr"] is None:
                out.count("event:deleted-selected-profile")
            if len({r[1] for r in prof_rows}) < len(prof_rows):
                out.count("state:same-name-in-several-envs")
            if act is not None and sum(1 for r in prof_rows if r[1] == act.name) > 1:
                out.count("state:active-name-also-in-other-env")
            cur_before = cur.api_url
            known = {r[0] for r in env_rows}
            prefix = {"ops": case["ops"][: i + 1]}

            bad_now: set[str] = set()

            def flag(sig: str, what: str) -> None:
                rule = sig.split(":")[0]
                bad_now.add(rule)
                if rule not in bad_before:
                    viols.append(Violation(sig, what + f" (after op #{i} {op!r})", prefix))

            if cur.api_url not in known and cur.api_url != default_url:
                flag(f"C37/current_env_unknown:after={op[0]}",
                     f"current environment {cur.api_url!r} is neither a stored environment nor the default")
            if act is not None:
                out.count("active:some")
                if act.api_url != cur.api_url:
                    flag(f"C37/active_profile_of_other_env:after={op[0]}",
                         f"active profile {act.name!r} belongs to {act.api_url!r}, current environment is {cur.api_url!r}")
                elif not any(r[0] == act.id and r[1] == act.name and r[2] == act.api_url for r in prof_rows):
                    flag(f"C37/active_profile_not_stored:after={op[0]}", f"active profile {act.name!r} is not a stored profile row")
                elif stale_pick_seen:
                    out.count("held:pick-rules-off-after-stale-pick")
                elif real.pick is None or real.pick[1] != cur.api_url:
                    flag(f"C37/selection_from_other_env:after={op[0]}",
                         f"active profile {act.name!r} of {cur.api_url!r}: the latest select/create event {real.pick!r} was made while "
                         f"another environment was current, so this profile was not picked here")
                elif act.id not in real.picked_ids and (act.name, act.api_url) not in real.picked_dangling:
                    flag(f"C37/active_profile_never_picked:after={op[0]}",
                         f"active profile {act.name!r} of {cur.api_url!r} was never selected or created while that environment was current")
            else:
                out.count("active:none")
            # ---- (S) whole-history rules (C37_active_continuously_since_pick / C37_held_services_partial), from the
            # harness's own event log: a profile can only *become* active by a select/create event, an operation that is
            # not such an event changes neither the active profile's identity nor the current environment under it, and
            # (while every select/create went through a service of the then-current environment) some event named this
            # profile through a service of its environment while that environment was current
            was_pick = real.n_picks > picks_before
            kind = op[2][0] if op[0] == "held" else op[0]
            if act is not None and not was_pick:
                if act_before is None:
                    flag(f"C37/active_without_pick_event:after={kind}",
                         f"profile {act.name!r} of {act.api_url!r} became active by an operation that neither selects nor creates")
                elif act_before != act.id:
                    flag(f"C37/active_identity_changed:after={kind}",
                         f"the active profile changed to {act.name!r} of {act.api_url!r} (another row) without a select/create event")
                else:
                    out.count("history:active-kept-by-non-pick-op")
            if act is not None and not stale_pick_seen and (act.name, act.api_url, act.api_url) not in real.events:
                flag(f"C37/no_pick_event_here:after={kind}",
                     f"active profile {act.name!r} of {act.api_url!r}: no operation selected or created that name through a service of "
                     f"this environment while it was current")
            act_before = None if act is None else act.id
            bad_before = bad_now
            if final is not None:
                final.update(active=None if act is None else (act.name, act.api_url), cur=cur.api_url, events=list(real.events))
        if any(o.startswith("profile ") for o in impl_out) and any(o[0] in ("env-switch", "env-del", "env-add") for o in case["ops"]):
            out.nontrivial(json.dumps(case["ops"], sort_keys=True))
    finally:
        real.close()
    return lines, impl_out, viols


def run(env: Env) -> Outcome:
    out = Outcome()
    out.rule = ("op sequences (6-40 ops) over 4+1 environment URLs, token/OIDC/keyless profile creation with colliding names, "
                "select/select-any/delete/update/set-project/destroy, server probes of the current environment (auto_update_env), 30% seeded with same-named profiles in two environments; "
                "token refresh by profile id (refresh_to_db; ids of live, deleted, other-environment and never-issued profiles); "
                "plus held-service sequences (6-30 ops, half of the profile operations through an AuthService bound to the current, "
                "another stored, or an unknown environment; 'safe' = stale bindings only on delete/set-project/update-key, all monitors on; "
                "'any' = also on select/create, pick-based monitors off after the first stale pick, correspondence only); "
                "non-trivial = at least one profile created and at least one environment change; distinct by op list")
    urls, names = _pools()
    cases: list[dict] = []
    if env.replay is not None:
        cases.append(env.replay["payload"]["case"])
    d = urls[0]
    corpus = [
        json.load(open(CORPUS))["case"],  # F26
        {"ops": [["env-upsert", B, False, None], ["create-token", "p", None], ["env-switch", B], ["create-token", "q", None],
                 ["env-switch", d], ["env-switch", NOWHERE], ["select-any"], ["env-switch", B], ["select", "default"]]},
        {"ops": [["create-token", "p", None], ["env-add", B, False, "0.3.0"], ["create-token", "q", None], ["env-add", d, True, None],
                 ["select-any"], ["delete", "default"], ["delete", "default"], ["env-del", d], ["create-token", "r", None],
                 ["env-add", d, True, None], ["select", "default"]]},
        {"ops": [["create-token", "p", "sk-aaaaaa1111zzzz"], ["create-token", "p", "sk-aaaaaa2222zzzz"], ["create-token", " ", "abc"],
                 ["create-token", "", None], ["create-token", "p", " "], ["create-token", "p", ""], ["select", ""], ["select", "nope"],
                 ["create-oidc", "p", "u1", "", "t0"], ["create-oidc", "p2", "u1", "other@x.io", "t1"], ["select-any"]]},
        {"ops": [["create-oidc", "p", "u1", "a@x.io", "t0"], ["env-add", B, True, None], ["create-oidc", "p", "u1", "a@x.io", "t1"],
                 ["update-key", "a@x.io", "tok", "kid-1"], ["delete", "a@x.io"], ["env-del", B], ["select", "a@x.io"],
                 ["set-project", "a@x.io", ""], ["update-key", "nope", None, None], ["destroy"], ["select-any"],
                 ["create-oidc", "p", "u2", "default", "t2"], ["create-token", "p", None]]},
        {"ops": [["env-del", NOWHERE], ["env-del", d], ["create-token", "p", None], ["env-del", d], ["env-upsert", d, False, "1.0"],
                 ["select", "default"], ["env-del", d], ["env-del", B], ["env-add", B, False, None], ["env-del", B], ["select-any"]]},
        # the built-in default environment without a stored row: log in there, log in to another environment under the same
        # profile name, go back to the default by URL (refused while it has no row; must never keep the other environment's pick)
        {"ops": [["env-del", d], ["create-token", "p1", "sk-aaaaaa1111zzzz"], ["env-add", B, False, None], ["create-token", "p2", "sk-aaaaaa1111zzzz"],
                 ["env-switch", d], ["select-any"], ["env-switch", B], ["env-del", B], ["env-switch", d], ["probe", False, None], ["env-switch", d]]},
        # a stored profile name that resolves to nothing in the current environment, a same-named profile in the default one,
        # then the current environment is deleted: nothing may be active afterwards
        {"ops": [["create-oidc", "p1", "u1", "a@x.io", "t0"], ["env-add", B, False, None], ["select", "a@x.io"], ["env-del", B], ["select-any"],
                 ["env-add", B, True, None], ["create-oidc", "p2", "u2", "b@x.io", "t1"], ["select", "a@x.io"], ["env-switch", d], ["env-switch", B],
                 ["select", "a@x.io"], ["env-del", B]]},
        {"ops": [["raw", m] for m in MALFORMED[:5]] + [["create-token", "p", None]] + [["raw", m] for m in MALFORMED[5:]] + [["select-any"]]},
        # token refresh by id (refresh_to_db): the selected profile, a profile of another environment, a deleted one, an id never
        # handed out; changing the user id so that a later login finds the other row
        {"ops": [["create-oidc", "p", "u1", "a@x.io", "t0"], ["refresh", 0, "u1", "r1"], ["env-add", B, True, None],
                 ["create-oidc", "p", "u2", "a@x.io", "t0"], ["refresh", 0, "u1", "r2"], ["refresh", 1, "u1", "r3"], ["refresh", 7, "u1", "r0"],
                 ["create-oidc", "p", "u1", "b@x.io", "t1"], ["delete", "a@x.io"], ["refresh", 1, "u3", "r1"], ["env-switch", d],
                 ["refresh", 0, "u2", "r2"], ["select-any"], ["create-oidc", "q", "u2", "c@x.io", "t2"], ["destroy"], ["refresh", 0, "u1", "r3"]]},
        # services bound to another environment used for deleting and updating only (guard of C37_held_services_partial):
        # a b-bound service deletes/updates b's profiles while the default environment is current; deleting the *name* that is
        # selected here clears the selection although the deleted row belongs to b
        {"held": "safe",
         "ops": [["create-token", "p1", None], ["env-add", B, False, None], ["create-token", "p2", "abc"], ["create-token", "p3", None],
                 ["env-switch", d], ["select", "default"], ["held", B, ["set-project", "abc****bc", "p9"]],
                 ["held", B, ["update-key", "default", "k", "kid-1"]], ["held", B, ["delete", "abc****bc"]], ["held", d, ["select", "default"]],
                 ["held", NOWHERE, ["delete", "nope"]], ["held", B, ["delete", "default"]], ["select-any"], ["held", d, ["create-token", "p4", "abc"]]]},
    ]
    # the witness of C37_held_services_refuted, replayed on the real services (K compares it like every case; the selection
    # rules are off after its first stale pick; what the theorem says is checked below on the real answers)
    witness = {"held": "any",
               "ops": [["env-upsert", B, False, None], ["held", B, ["create-token", "q", None]], ["env-switch", B], ["held", d, ["select", "default"]]]}
    corpus.append(witness)
    cases += corpus
    n = env.budget(220, 5000)
    nh = env.budget(32, 700)
    if env.deep:
        n = min(n, 2500)  # widened search after a broken proof/correspondence: bounded
        nh = min(nh, 300)
    cases += [gen_case(env.rng, urls, names) for _ in range(n)]
    cases += [gen_held_case(env.rng, urls, names, stale_picks=(j % 2 == 1)) for j in range(nh)]
    all_lines: list[str] = []
    all_impl: list[str] = []
    owner: list[int] = []
    for ci, case in enumerate(cases):
        final: dict | None = {} if case is witness else None
        lines, impl_out, viols = run_case(case, out, final)
        out.violations += viols
        out.count("case:" + ("fresh-services" if "held" not in case else "held-services-" + case["held"]))
        if final is not None:
            # C37_held_services_refuted on the real code: b's profile is active, and no operation selected or created its
            # name through a service of b while b was current
            act = final.get("active")
            ok = act == ("default", B) and final.get("cur") == B and (act[0], B, B) not in final.get("events", [])
            out.count("witness:held-services-refutation-" + ("reproduced" if ok else "NOT-reproduced"))
            out.sample({"held_witness": case["ops"], "active": act, "events(name,bound,current)": final.get("events"), "reproduced": ok})
        all_lines += lines
        all_impl += impl_out
        owner += [ci] * len(lines)
        if ci < 3:
            out.sample({"ops": case["ops"][:8], "last": decode_line(impl_out[-1])[:300]})
    try:
        model_out = Driver("cliconfig").run(all_lines)
    except Exception as e:  # model unavailable: correspondence cannot be established
        out.divergences.append(Divergence("cliconfig", 0, "<driver>", repr(e), ""))
        return out
    out.traces_validated = len(cases)
    out.disagreements_checked = len(all_lines)
    dv = diff_streams("cliconfig", all_lines, model_out, all_impl)
    if dv is not None:
        ci = owner[dv.index] if dv.index < len(owner) else -1
        dv.context = {"case": cases[ci] if ci >= 0 else None, "model": decode_line(dv.model_out), "impl": decode_line(dv.impl_out)}
        out.divergences.append(dv)
    return out
