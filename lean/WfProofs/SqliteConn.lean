import WfModel.SqliteConn
/-!
Simulation between the single-connection and the per-call run of the same
history.  Key invariant: *the shared connection is open and has nothing
uncommitted*; it is preserved by every section whose table row satisfies
`secOk`.
-/
namespace SqliteConn

variable {C V : Type}

@[simp] theorem perCall_beq_single : (Mode.perCall == Mode.single) = false := rfl
@[simp] theorem single_beq_single : (Mode.single == Mode.single) = true := rfl

/-- single-connection state `s1` simulates per-call state `s2` -/
structure Sim (s1 s2 : St C) : Prop where
  committed : s1.committed = s2.committed
  isOpen : s1.sharedOpen = true
  clean : s1.pending = none
  objs : s1.stores.length = s2.stores.length

theorem secOk_iff (sec : Sec) :
    secOk sec = true ↔
      sec.shared.closeOk = false ∧ sec.shared.closeErr = false ∧ (sec.writes = true → sec.shared.commitOk = true) ∧
      sec.shared.pendingOnErr = false ∧ (sec.writes = true → sec.fresh.commitOk = true) ∧
      sec.fresh.pendingOnErr = false ∧ sec.acquire ≠ .unknown := by
  unfold secOk
  cases sec.shared.closeOk <;> cases sec.shared.closeErr <;> cases sec.writes <;> cases sec.shared.commitOk <;>
    cases sec.shared.pendingOnErr <;> cases sec.fresh.commitOk <;> cases sec.fresh.pendingOnErr <;>
    cases sec.acquire <;> simp

/-- A well-behaved section leaves the shared connection open and clean, and its
effect on the committed content is the one of a per-call connection. -/
theorem sharedAfter_sim (sec : Sec) (h : secOk sec = true) (o : Out C V) (s1 s2 : St C) (hs : Sim s1 s2) :
    Sim (sharedAfter sec o s1.committed s1) (freshAfter sec o s2) := by
  obtain ⟨h1, h2, h3, h4, h5, h6, _⟩ := (secOk_iff sec).1 h
  obtain ⟨hc, ho, hp, hl⟩ := hs
  unfold sharedAfter freshAfter
  simp only [h1, h2, h4, h6, Bool.or_false, hp]
  cases hok : o.ok <;> cases hw : o.wrote <;> cases hwr : sec.writes <;>
    cases hce : sec.shared.commitErr <;> cases hfe : sec.fresh.commitErr <;>
    simp_all <;> (constructor <;> simp_all)

/-- Two per-call connections that start from the same committed content leave the same committed content. -/
theorem freshAfter_sim (sec : Sec) (o : Out C V) (s1 s2 : St C) (hs : Sim s1 s2) :
    Sim (freshAfter sec (V := V) o s1) (freshAfter sec o s2) := by
  obtain ⟨hc, ho, hp, hl⟩ := hs
  unfold freshAfter
  constructor <;> simp_all

theorem freshAfter_committed_eq (sec : Sec) (o o' : Out C V) (s1 s2 : St C) (hc : s1.committed = s2.committed)
    (ho : o = o') : (freshAfter sec o s1).committed = (freshAfter sec o' s2).committed := by
  subst ho; unfold freshAfter; simp [hc]

theorem onShared_perCall (t : Table) (sec : Sec) (obj : Option Nat) (stores : List Bool) :
    onShared t .perCall sec obj stores = none ∨ onShared t .perCall sec obj stores = some false := by
  unfold onShared
  cases obj with
  | none => right; simp
  | some i => cases h : stores[i]? <;> simp [h]

theorem onShared_none_iff (t : Table) (m m' : Mode) (sec : Sec) (obj : Option Nat) (st st' : List Bool)
    (hl : st.length = st'.length) :
    onShared t m sec obj st = none ↔ onShared t m' sec obj st' = none := by
  unfold onShared
  cases obj with
  | none => simp
  | some i =>
    by_cases hi : i < st.length
    · have hi' : i < st'.length := hl ▸ hi
      simp [List.getElem?_eq_getElem hi, List.getElem?_eq_getElem hi']
    · have hi' : ¬ i < st'.length := hl ▸ hi
      simp [List.getElem?_eq_none (Nat.le_of_not_lt hi), List.getElem?_eq_none (Nat.le_of_not_lt hi')]

/-- One section: same result in both modes, simulation preserved. -/
theorem secStep_sim (t : Table) (sem : Sem C V) (obj : Option Nat) (s : Nat) (a : V) (s1 s2 : St C)
    (hok : secOkAt t s = true) (hs : Sim s1 s2) :
    (secStep t .single sem obj s a s1).2 = (secStep t .perCall sem obj s a s2).2 ∧
    Sim (secStep t .single sem obj s a s1).1 (secStep t .perCall sem obj s a s2).1 := by
  unfold secStep
  unfold secOkAt at hok
  cases hsec : t.secs[s]? with
  | none => exact ⟨rfl, hs⟩
  | some sec =>
    simp only [hsec] at hok ⊢
    have hnone := onShared_none_iff t .single .perCall sec obj s1.stores s2.stores hs.objs
    rcases onShared_perCall t sec obj s2.stores with h2 | h2
    · have h1 := hnone.2 h2
      simp only [h1, h2]; exact ⟨trivial, hs⟩
    · cases h1 : onShared t .single sec obj s1.stores with
      | none => have := hnone.1 h1; simp [h2] at this
      | some b =>
        cases b with
        | true =>
          simp only [h2, hs.isOpen, if_true, hs.clean, Option.getD_none, hs.committed]
          refine ⟨trivial, ?_⟩
          have := sharedAfter_sim sec hok (sem s a s2.committed) s1 s2 hs
          rw [hs.committed] at this
          exact this
        | false =>
          simp only [h2, hs.committed]
          exact ⟨trivial, freshAfter_sim sec _ s1 s2 hs⟩

/-- One operation. -/
theorem runProg_sim (t : Table) (sem : Sem C V) (p : Prog V) :
    ∀ (s1 s2 : St C), Uses (fun s => secOkAt t s = true) (fun _ => True) p → Sim s1 s2 →
      (runProg t .single sem p s1).2 = (runProg t .perCall sem p s2).2 ∧
      Sim (runProg t .single sem p s1).1 (runProg t .perCall sem p s2).1 := by
  induction p with
  | ret v => intro s1 s2 _ hs; exact ⟨rfl, hs⟩
  | call o s a k ih =>
    intro s1 s2 hu hs
    cases hu with
    | call _ _ _ _ hP hk =>
      have h := secStep_sim t sem o s a s1 s2 hP hs
      simp only [runProg]
      rw [h.1]
      exact ih _ _ _ (hk _) h.2
  | newStore b k ih =>
    intro s1 s2 hu hs
    cases hu with
    | newStore _ _ _ hk =>
      simp only [runProg]
      rw [hs.objs]
      apply ih _ _ _ (hk _)
      exact ⟨hs.committed, hs.isOpen, hs.clean, by simp [hs.objs]⟩

/-- A history. -/
theorem runAll_sim (t : Table) (sem : Sem C V) (ps : List (Prog V)) :
    ∀ (s1 s2 : St C), (∀ p ∈ ps, Uses (fun s => secOkAt t s = true) (fun _ => True) p) → Sim s1 s2 →
      (runAll t .single sem ps s1).2 = (runAll t .perCall sem ps s2).2 ∧
      Sim (runAll t .single sem ps s1).1 (runAll t .perCall sem ps s2).1 := by
  induction ps with
  | nil => intro s1 s2 _ hs; exact ⟨rfl, hs⟩
  | cons p ps ih =>
    intro s1 s2 hu hs
    have h := runProg_sim t sem p s1 s2 (hu p (by simp)) hs
    have h' := ih _ _ (fun q hq => hu q (by simp [hq])) h.2
    simp only [runAll]
    exact ⟨by rw [h.1, h'.1], h'.2⟩

theorem init_sim (t : Table) (hctor : t.ctorOpensShared = true) (c0 : C) :
    Sim (init t .single c0) (init t .perCall c0) := by
  constructor <;> simp [init, hctor]

/-- every program uses only well-behaved sections when every row of the table is well-behaved -/
theorem uses_of_all (t : Table) (h : t.secs.all secOk = true) (p : Prog V) :
    Uses (fun s => secOkAt t s = true) (fun _ => True) p := by
  induction p with
  | ret v => exact .ret v
  | call o s a k ih =>
    refine .call o s a k ?_ ih
    unfold secOkAt
    cases hs : t.secs[s]? with
    | none => rfl
    | some sec =>
      simp only
      exact List.all_eq_true.1 h sec (List.mem_of_getElem? hs)
  | newStore b k ih => exact .newStore b k trivial ih

theorem tableOk_parts (t : Table) (h : tableOk t = true) :
    t.ctorOpensShared = true ∧ t.wsShared = true ∧ t.ssShared = true ∧ t.createPassesShared = true ∧
    t.unknowns = 0 ∧ t.secs.all secOk = true ∧ opsClosed t = true := by
  unfold tableOk at h
  simp only [Bool.and_eq_true, beq_iff_eq] at h
  obtain ⟨⟨⟨⟨⟨⟨⟨a, b⟩, c⟩, d⟩, e⟩, f⟩, g⟩, _⟩ := h
  exact ⟨a, b, c, d, e, f, g⟩

/-- The table check implies the property, together with the invariant. -/
theorem modes_agree_of_tableOk (t : Table) (h : tableOk t = true) (sem : Sem C V) (ps : List (Prog V)) (c0 : C) :
    (runAll t .single sem ps (init t .single c0)).2 = (runAll t .perCall sem ps (init t .perCall c0)).2 ∧
    Sim (runAll t .single sem ps (init t .single c0)).1 (runAll t .perCall sem ps (init t .perCall c0)).1 := by
  obtain ⟨hctor, _, _, _, _, hall, _⟩ := tableOk_parts t h
  exact runAll_sim t sem ps _ _ (fun p _ => uses_of_all t hall p) (init_sim t hctor c0)

/-! ## connections opened and closed -/

theorem freshAfter_counts (sec : Sec) (h : secNoLeak sec = true) (o : Out C V) (st : St C)
    (hb : st.opened = st.closed) : (freshAfter sec o st).opened = (freshAfter sec o st).closed := by
  unfold secNoLeak at h
  simp only [Bool.and_eq_true] at h
  unfold freshAfter
  cases o.ok <;> simp [h.1, h.2, hb]

theorem sharedAfter_counts (sec : Sec) (o : Out C V) (view : C) (st : St C) :
    (sharedAfter sec o view st).opened = st.opened ∧ (sharedAfter sec o view st).closed = st.closed := by
  unfold sharedAfter
  dsimp only
  constructor <;> (repeat' split) <;> rfl

theorem secStep_balanced (t : Table) (m : Mode) (sem : Sem C V) (obj : Option Nat) (s : Nat) (a : V) (st : St C)
    (hok : secNoLeakAt t s = true) (hb : st.opened = st.closed) :
    (secStep t m sem obj s a st).1.opened = (secStep t m sem obj s a st).1.closed := by
  unfold secStep
  unfold secNoLeakAt at hok
  cases hsec : t.secs[s]? with
  | none => exact hb
  | some sec =>
    simp only [hsec] at hok ⊢
    cases h1 : onShared t m sec obj st.stores with
    | none => exact hb
    | some b =>
      cases b with
      | true =>
        simp only
        split
        · have := sharedAfter_counts sec (sem s a (st.pending.getD st.committed)) (st.pending.getD st.committed) st
          simp only [this.1, this.2, hb]
        · exact hb
      | false => exact freshAfter_counts sec hok _ st hb

theorem runProg_balanced (t : Table) (m : Mode) (sem : Sem C V) (p : Prog V) :
    ∀ (st : St C), Uses (fun s => secNoLeakAt t s = true) (fun _ => True) p → st.opened = st.closed →
      (runProg t m sem p st).1.opened = (runProg t m sem p st).1.closed := by
  induction p with
  | ret v => intro st _ hb; exact hb
  | call o s a k ih =>
    intro st hu hb
    cases hu with
    | call _ _ _ _ hP hk =>
      simp only [runProg]
      exact ih _ _ (hk _) (secStep_balanced t m sem o s a st hP hb)
  | newStore b k ih =>
    intro st hu hb
    cases hu with
    | newStore _ _ _ hk =>
      simp only [runProg]
      exact ih _ _ (hk _) hb

theorem runAll_balanced (t : Table) (m : Mode) (sem : Sem C V) (ps : List (Prog V)) :
    ∀ (st : St C), (∀ p ∈ ps, Uses (fun s => secNoLeakAt t s = true) (fun _ => True) p) → st.opened = st.closed →
      (runAll t m sem ps st).1.opened = (runAll t m sem ps st).1.closed := by
  induction ps with
  | nil => intro st _ hb; exact hb
  | cons p ps ih =>
    intro st hu hb
    simp only [runAll]
    exact ih _ (fun q hq => hu q (by simp [hq])) (runProg_balanced t m sem p st (hu p (by simp)) hb)

theorem uses_noLeak_of_all (t : Table) (h : tableNoLeak t = true) (p : Prog V) :
    Uses (fun s => secNoLeakAt t s = true) (fun _ => True) p := by
  induction p with
  | ret v => exact .ret v
  | call o s a k ih =>
    refine .call o s a k ?_ ih
    unfold secNoLeakAt
    cases hs : t.secs[s]? with
    | none => rfl
    | some sec =>
      simp only
      exact List.all_eq_true.1 h sec (List.mem_of_getElem? hs)
  | newStore b k ih => exact .newStore b k trivial ih

/-! ## in single-connection mode there is one connection -/

/-- all state store objects were handed the shared connection -/
def AllGiven (st : St C) : Prop := ∀ b ∈ st.stores, b = true

theorem secStep_single_opens_nothing (t : Table) (hws : t.wsShared = true) (hss : t.ssShared = true)
    (sem : Sem C V) (obj : Option Nat) (s : Nat) (a : V) (st : St C)
    (hp : secProviderAt t s = true) (hg : AllGiven st) :
    (secStep t .single sem obj s a st).1.opened = st.opened ∧ AllGiven (secStep t .single sem obj s a st).1 := by
  unfold secStep
  unfold secProviderAt at hp
  cases hsec : t.secs[s]? with
  | none => exact ⟨rfl, hg⟩
  | some sec =>
    simp only [hsec, beq_iff_eq] at hp ⊢
    have hon : onShared t .single sec obj st.stores = none ∨ onShared t .single sec obj st.stores = some true := by
      unfold onShared
      cases obj with
      | none => right; simp [hp, hws]
      | some i =>
        cases hi : st.stores[i]? with
        | none => left; simp [hi]
        | some g =>
          right
          have : g = true := hg g (List.mem_of_getElem? hi)
          simp [hp, hss, this, hi]
    rcases hon with h | h
    · simp only [h]; exact ⟨trivial, hg⟩
    · simp only [h]
      split
      · have hc := sharedAfter_counts sec (sem s a (st.pending.getD st.committed)) (st.pending.getD st.committed) st
        refine ⟨hc.1, ?_⟩
        intro b hb
        apply hg b
        have : (sharedAfter sec (sem s a (st.pending.getD st.committed)) (st.pending.getD st.committed) st).stores
            = st.stores := by
          unfold sharedAfter; dsimp only; (repeat' split) <;> rfl
        rw [this] at hb; exact hb
      · exact ⟨rfl, hg⟩

theorem runProg_single_opens_nothing (t : Table) (hctor : t.ctorOpensShared = true) (hws : t.wsShared = true)
    (hss : t.ssShared = true) (hcr : t.createPassesShared = true) (sem : Sem C V) (p : Prog V) :
    ∀ (st : St C), Uses (fun s => secProviderAt t s = true) (fun b => b = true) p → AllGiven st →
      (runProg t .single sem p st).1.opened = st.opened ∧ AllGiven (runProg t .single sem p st).1 := by
  induction p with
  | ret v => intro st _ hg; exact ⟨rfl, hg⟩
  | call o s a k ih =>
    intro st hu hg
    cases hu with
    | call _ _ _ _ hP hk =>
      have h := secStep_single_opens_nothing t hws hss sem o s a st hP hg
      simp only [runProg]
      have h' := ih (secStep t .single sem o s a st).2 (secStep t .single sem o s a st).1 (hk _) h.2
      exact ⟨h'.1.trans h.1, h'.2⟩
  | newStore b k ih =>
    intro st hu hg
    cases hu with
    | newStore _ _ hb hk =>
      simp only [runProg]
      have hg' : AllGiven ({ st with stores := st.stores ++ [b && t.createPassesShared && (Mode.single == .single) && t.ctorOpensShared] } : St C) := by
        intro x hx
        simp only [List.mem_append, List.mem_singleton] at hx
        rcases hx with hx | hx
        · exact hg x hx
        · subst hx; simp [hb, hcr, hctor]
      have h' := ih st.stores.length _ (hk _) hg'
      exact ⟨h'.1, h'.2⟩

theorem runAll_single_opens_nothing (t : Table) (hctor : t.ctorOpensShared = true) (hws : t.wsShared = true)
    (hss : t.ssShared = true) (hcr : t.createPassesShared = true) (sem : Sem C V) (ps : List (Prog V)) :
    ∀ (st : St C), (∀ p ∈ ps, Uses (fun s => secProviderAt t s = true) (fun b => b = true) p) → AllGiven st →
      (runAll t .single sem ps st).1.opened = st.opened ∧ AllGiven (runAll t .single sem ps st).1 := by
  induction ps with
  | nil => intro st _ hg; exact ⟨rfl, hg⟩
  | cons p ps ih =>
    intro st hu hg
    have h := runProg_single_opens_nothing t hctor hws hss hcr sem p st (hu p (by simp)) hg
    have h' := ih _ (fun q hq => hu q (by simp [hq])) h.2
    simp only [runAll]
    exact ⟨h'.1.trans h.1, h'.2⟩

end SqliteConn
