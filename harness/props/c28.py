"""C28 — SQLite schema migrations converge from any earlier schema."""
from __future__ import annotations

import importlib
import json
import os
import random
import re
import shutil
import sqlite3
import sys
import tempfile
from typing import Any

from ..boot import boot, repo_path
from ..gen.migrate import MIGRATIONS_DIR, parse_sql
from ..runner import Divergence, Driver, Env, Outcome, Violation, diff_streams

THEOREMS = [
    "C28_source_shape",
    "C28_shipped_table",
    "C28_shipped_contiguous",
    "C28_converges",
    "C28_same_schema",
    "C28_each_version_once",
    "C28_rows_exact",
    "C28_same_final_state",
    "C28_idempotent",
    "C28_listing_order_irrelevant",
    "C28_failed_not_recorded",
    "C28_shipped_converges",
    "C28_shipped_same_final_state",
    "C28_close_without_commit",
    "C28_restart_converges",
    "C28_shipped_restart_converges",
    "C28_kill_points",
    "C28_killed_run_recovers",
    "C28_seed_window_witness",
    "C28_run_refines_trace",
    "C28_never_recorded_twice",
    "C28_any_sources_each_version_once",
    "C28_failed_run_in_full",
    "C28_failed_run_is_fixed_point",
    "C28_second_package_converges",
    "C28_production_shape",
    "C28_production_table",
    "C28_production_converges",
    "C28_start_states_consistent",
]
LEAN_TARGETS = ["WfProps.C28"]
EXPLANATION = (
    "Lean model M11 (WfModel/Migrate.lean) of parse_target_version, iter_migration_files, "
    "_bootstrap_schema_migrations and run_migrations over an abstract database (schema_migrations present?, its rows, "
    "user_version, sqlite_master as an ordered object list) with an abstract DDL semantics (CREATE TABLE / ALTER TABLE "
    "ADD COLUMN / CREATE [UNIQUE] INDEX, IF NOT EXISTS, SQLite's error cases, per-script rollback). Generic theorems: for "
    "every migration list that is WellFormed (versions positive, strictly increasing in file order, scripts apply to the "
    "empty schema) and every database reachable from the fresh file or a legacy user_version=k file (any k) by any "
    "number of runs of earlier releases (any prefixes), the run succeeds with the one final schema, every version is "
    "recorded exactly once, rows are exactly seeds 1..k then the versions above k, and (LegacyAligned, k<=N) the whole "
    "final state is the same; idempotence is proved unconditionally for any sources and any database. The hypotheses are "
    "discharged by decide on the table regenerated from the current migration files (versions parsed by the model of the "
    "header regex, file order by the model of the loader) and C28_source_shape pins the constants the model transcribes. "
    "Tie (K): real run_migrations on real sqlite3 connections (:memory: and files) against the compiled model, op by op, "
    "for every start state of the shipped list and for seeded synthetic migration packages (importable temp packages: "
    "malformed/misplaced/Unicode headers, duplicate and zero versions, unpadded names, non-.sql entries, failing and "
    "fault-injected scripts, second package); loader/regex correspondence incl. the Unicode tables. Monitors (S): "
    "converge / each-version-once / idempotent / no-raise directly on real databases, independent of the model. "
    "Connection level (WfModel/MigrateConn.lean): one sqlite3 connection in Python's default transaction mode (durable "
    "file vs the connection's own view; implicit BEGIN before DML, executescript commits what is pending, close "
    "discards it) and run_migrations as the trace of its write calls; C28_close_without_commit: a process start that "
    "commits nothing itself (connect / run / close, as DBOSRuntime.run_migrations does) leaves in the file exactly what "
    "the abstract run computes, nothing pending, for any sources and database; C28_restart_converges states the "
    "property on the re-opened file; C28_kill_points / C28_killed_run_recovers classify every file a killed run can "
    "leave. K: ops session / durables / pick (every run a process start on a file, observed through a new connection; "
    "all kill points of a run enumerated on copies of the file). S: after run_migrations returned and the connection was "
    "closed without commit the RE-OPENED file has the fresh schema and every version once, and the next process start "
    "changes nothing; a restart after a kill at any point converges (one classified window excepted, see notes). "
    "Whole runs for ANY sources and ANY database (WfProofs/MigrateHist.lean): a run, returned or raised, is a trace of "
    "(package, script) pairs applied in order whose keys are exactly the new rows (C28_run_refines_trace); no duplicate row is "
    "ever created (C28_never_recorded_twice: the INSERT never meets the primary key); success records every non-zero version "
    "of every source exactly once (C28_any_sources_each_version_once); a failed run names a file of a source whose version "
    "is not recorded and is a fixed point of re-running (C28_failed_run_in_full, C28_failed_run_is_fixed_point). Two packages: "
    "C28_second_package_converges (generic) and C28_production_converges for the call DBOSRuntime.run_migrations makes "
    "(sources=_SQLITE_SOURCES: server then dbos), over the regenerated dbos directory and the regenerated sources list "
    "(C28_production_shape / C28_production_table); K ops c28prodtable / c28prodrun / c28prodsession against the real "
    "run_migrations with the real source tuples and the real packaged directories; S production_* monitors."
)
LEVEL_TEXT = "proof (generic theorems + decide on the regenerated table) + op-by-op correspondence + direct monitors"
ASSUMPTIONS = [
    "SQLite's DDL semantics are modelled abstractly (tables with ordered columns, indexes; name clashes, missing "
    "table/column, duplicate column, IF NOT EXISTS, transactional rollback of a failed script); the model is tied to "
    "the real library only through the statements exercised by the correspondence runs",
    "harness/gen/migrate.py:parse_sql (text -> abstract statements) is trusted; every run compares the model's schema "
    "after the parsed statements with sqlite_master/PRAGMA table_info of the real database",
    "row data is not modelled: statements whose outcome depends on existing rows (ADD COLUMN NOT NULL without default, "
    "UNIQUE index over duplicates) are outside the model; the shipped scripts contain none (the generator would mark "
    "them 'not modelled' and C28_shipped_table would stop compiling)",
    "a legacy database at user_version=k is one on which the scripts with version <= k were run (what the pre-"
    "schema_migrations runner did); versions are < 2^63; SQLite's internal objects (sqlite_sequence, autoindexes) and "
    "PRAGMA journal_mode are outside the model but inside the monitors' raw sqlite_master comparison",
    "a migration script does not itself contain COMMIT/ROLLBACK/BEGIN or create an object named schema_migrations",
    "concurrent migrators (two processes) are not covered: SQLite's file lock serialises them, not modelled",
    "a process start is connect / run_migrations / close on one file (the DBOSRuntime.run_migrations pattern; the dbos "
    "package itself is not importable here); a killed process is modelled by raising a BaseException at the chosen write "
    "call (or between two statements of a script) and closing the connection: SQLite's recovery of a hot journal / WAL "
    "after a real kill is trusted to give the same file; PRAGMA journal_mode is outside the model",
    "killed runs are outside the property's stated quantifier: the one window in which the unchanged code does not "
    "recover (legacy user_version>=2, kill between the autocommitted CREATE TABLE schema_migrations and the commit of "
    "the seed rows; C28_seed_window_witness) is classified under its own signature and reported as a note "
    "(REPORT_KILL_WINDOW=False), every other kill point must recover (C28_killed_run_recovers)",
]
TRUSTED_EXTRA = [
    "CPython sqlite3 + SQLite 3.40 as the execution engine of the real side",
    "temporary importable packages under $TMPDIR stand in for the packaged migrations directory (importlib.resources)",
]

SERVER = "server"
WORDS = ["init", "extend", "add_idx", "ticks", "state", "more", "x", "fix"]
TABLES = ["t1", "t2", "Handlers", "ticks", "Evt_Log", "j_state"]
COLS = ["a", "b", "c", "run_id", "Id", "status", "seq", "ts"]
TYPES = ["TEXT", "INTEGER", "REAL", "BLOB", "", "text", "INT"]
INDEXES = ["i1", "idx_a", "Idx_B", "ix_run", "t1"]


# --------------------------------------------------------------------------
# encoding for the model driver


def enc(s: str) -> str:
    return "s" + ",".join(str(ord(c)) for c in s)


def enc_stmt(s: tuple) -> str:
    if s[0] == "ct":
        cols = " ".join(f"{enc(c)} {enc(d)}" for c, d in s[3])
        return f"ct {int(s[1])} {enc(s[2])} {len(s[3])} {cols}".rstrip()
    if s[0] == "ac":
        return f"ac {enc(s[1])} {enc(s[2][0])} {enc(s[2][1])}"
    if s[0] == "ci":
        return f"ci {int(s[1])} {int(s[2])} {enc(s[3])} {enc(s[4])} {len(s[5])} {' '.join(enc(c) for c in s[5])}".rstrip()
    return "inv"


def enc_stmts(stmts: list[tuple]) -> str:
    return (f"{len(stmts)} " + " ".join(enc_stmt(s) for s in stmts)).rstrip()


def enc_files(files: list[tuple[str, str]]) -> str:
    return (f"{len(files)} " + " ".join(f"{enc(n)} {enc(t)} {enc_stmts(parse_sql(t))}" for n, t in files)).rstrip()


def enc_sources(srcs: list[tuple[str, list[tuple[str, str]]]]) -> str:
    return (f"{len(srcs)} " + " ".join(f"{enc(p)} {enc_files(fs)}" for p, fs in srcs)).rstrip()


def show_stmt(s: tuple) -> str:
    if s[0] == "ct":
        return f"ct {int(s[1])} {s[2]}({','.join(c + '/' + d for c, d in s[3])})"
    if s[0] == "ac":
        return f"ac {s[1]} {s[2][0]}/{s[2][1]}"
    if s[0] == "ci":
        return f"ci {int(s[1])} {int(s[2])} {s[3]} on {s[4]} ({','.join(s[5])})"
    return "inv"


# --------------------------------------------------------------------------
# real side


class Conn(sqlite3.Connection):
    """A genuine sqlite3 connection that remembers which script is executing and can fail one script
    half-way (some statements executed inside the transaction, then an OperationalError)."""

    script_in_flight: str | None = None
    fault_text: str | None = None
    fault_hits = 0

    def cursor(self, factory: Any = None) -> Any:  # type: ignore[override]
        return super().cursor(Cur)


class Cur(sqlite3.Cursor):
    def executescript(self, script: str) -> Any:  # type: ignore[override]
        conn: Conn = self.connection  # type: ignore[assignment]
        conn.script_in_flight = script
        f = conn.fault_text
        if f is not None and f and script.endswith(f):
            conn.fault_hits += 1
            cut = script.find(";", len(script) - len(f) + len(f) // 2)
            part = script if cut < 0 else script[: cut + 1]
            super().executescript(part)
            raise sqlite3.OperationalError("injected fault: disk I/O error")
        r = super().executescript(script)
        conn.script_in_flight = None
        return r


def canon(conn: sqlite3.Connection) -> str:
    sm = conn.execute("SELECT 1 FROM sqlite_master WHERE type='table' AND name='schema_migrations'").fetchone() is not None
    uv = conn.execute("PRAGMA user_version").fetchone()[0]
    rows = conn.execute("SELECT package, version FROM schema_migrations ORDER BY rowid").fetchall() if sm else []
    objs = []
    for typ, name, tbl in conn.execute("SELECT type, name, tbl_name FROM sqlite_master ORDER BY rowid").fetchall():
        if name.startswith("sqlite_") or name.lower() == "schema_migrations" or tbl.lower() == "schema_migrations":
            continue
        if typ == "table":
            cols = conn.execute('PRAGMA table_info("%s")' % name.replace('"', '""')).fetchall()
            objs.append("T %s(%s)" % (name.lower(), ",".join(
                "%s/%s|%d|%s|%d" % (c[1].lower(), c[2].upper(), c[3], c[4] if c[4] is not None else "", 1 if c[5] else 0) for c in cols)))
        elif typ == "index":
            uniq = {r[1]: r[2] for r in conn.execute('PRAGMA index_list("%s")' % tbl.replace('"', '""'))}.get(name, "?")
            cols = [(r[2] or "?").lower() for r in conn.execute('PRAGMA index_info("%s")' % name.replace('"', '""'))]
            objs.append(f"I {name.lower()} on {tbl.lower()} u={uniq} ({','.join(cols)})")
        else:
            objs.append(f"? {typ} {name}")
    return "sm=%d uv=%d rows=[%s] schema=[%s]" % (int(sm), uv, ",".join(f"{p}:{v}" for p, v in rows), ";".join(objs))


def raw_dump(conn: sqlite3.Connection) -> dict:
    """What the property observes: sqlite_master (user objects in creation order; bookkeeping objects apart),
    schema_migrations rows, user_version."""
    master = conn.execute("SELECT type, name, tbl_name, sql FROM sqlite_master ORDER BY rowid").fetchall()
    user = [list(r) for r in master if r[2].lower() != "schema_migrations"]
    book = sorted(list(r) for r in master if r[2].lower() == "schema_migrations")
    has = any(r[1] == "schema_migrations" and r[0] == "table" for r in master)
    rows = [list(r) for r in conn.execute("SELECT package, version, applied_at FROM schema_migrations ORDER BY rowid")] if has else []
    return {"user": user, "book": book, "rows": rows, "uv": conn.execute("PRAGMA user_version").fetchone()[0]}


class Pkgs:
    """Temporary importable migration packages (what `iter_migration_files(source_pkg)` is given)."""

    def __init__(self) -> None:
        self.base = tempfile.mkdtemp(prefix="c28_")
        shm = "/dev/shm" if os.path.isdir("/dev/shm") and os.access("/dev/shm", os.W_OK) else None
        self.fast = tempfile.mkdtemp(prefix="c28db_", dir=shm)  # lifecycle files: every commit is an fsync
        sys.path.insert(0, self.base)
        self.n = 0
        self.mods: list[str] = []

    def make(self, files: list[tuple[str, str]]) -> str:
        name = f"c28pkg_{os.getpid()}_{self.n}"
        self.n += 1
        d = os.path.join(self.base, name)
        os.mkdir(d)
        names = set()
        for fname, text in files:
            with open(os.path.join(d, fname), "w", encoding="utf-8", newline="") as f:
                f.write(text)
            names.add(fname)
        if "__init__.py" not in names:
            open(os.path.join(d, "__init__.py"), "w").close()
        importlib.invalidate_caches()
        self.mods.append(name)
        return name

    def listing(self, mod: str) -> list[tuple[str, str]]:
        """directory entries as Python's text mode reads them (the real loader uses Path.read_text)"""
        d = os.path.join(self.base, mod)
        out = []
        for fname in os.listdir(d):
            p = os.path.join(d, fname)
            if os.path.isfile(p):
                with open(p, encoding="utf-8") as f:
                    out.append((fname, f.read()))
        return out

    def db_path(self, life: bool = False) -> str:
        self.n += 1
        return os.path.join(self.fast if life else self.base, f"db_{self.n}.sqlite")

    def close(self) -> None:
        for m in self.mods:
            sys.modules.pop(m, None)
        if self.base in sys.path:
            sys.path.remove(self.base)
        shutil.rmtree(self.base, ignore_errors=True)
        shutil.rmtree(self.fast, ignore_errors=True)


class Ctx:
    def __init__(self, env: Env, out: Outcome):
        boot()
        from llama_agents.server._store import migration_utils
        from llama_agents.server._store.sqlite import migrate

        self.env, self.out = env, out
        self.migrate, self.utils = migrate, migration_utils
        try:  # the server's own entry points (SqliteWorkflowStore.run_migrations / constructor auto_migrate)
            from llama_agents.server._store.sqlite.sqlite_workflow_store import SqliteWorkflowStore

            self.store: Any = SqliteWorkflowStore
        except Exception as e:  # noqa: BLE001
            self.store = None
            out.notes.append(f"SqliteWorkflowStore not importable here ({e!r}); store entry points not exercised")
        self.pkgs = Pkgs()
        self.ops: list[str] = []
        self.exp: list[str] = []
        self.ctxs: list[Any] = []
        self.sampled: set = set()

    def op(self, line: str, expected: str, context: Any) -> None:
        self.ops.append(line)
        self.exp.append(expected)
        self.ctxs.append(context)


def real_run(ctx: Ctx, conn: Conn, sources: list[tuple[str, str]] | None, texts: dict[str, str], fault: str | None) -> tuple[str, bool]:
    """`texts`: script text -> file name.  -> (canonical outcome, raised?)"""
    conn.fault_text = fault
    conn.script_in_flight = None
    try:
        if sources is None:
            ctx.migrate.run_migrations(conn)
        else:
            ctx.migrate.run_migrations(conn, sources=sources)
        conn.commit()  # as SqliteWorkflowStore.run_migrations does
        return "ok " + canon(conn), False
    except Exception as e:  # noqa: BLE001
        s = conn.script_in_flight
        try:
            conn.rollback()  # the callers close the connection
        except sqlite3.Error:
            pass
        name = None
        if s is not None:
            name = texts.get(s[len("BEGIN;\n"):]) if s.startswith("BEGIN;\n") else None
        if name is None:
            return f"raised {type(e).__name__} " + canon(conn), True
        return f"failed {name} " + canon(conn), True
    finally:
        conn.fault_text = None


def real_ddl(conn: sqlite3.Connection, sql: str) -> str:
    try:
        sqlite3.Cursor.executescript(conn.cursor(), "BEGIN;\n" + sql)
        conn.commit()
        return "ok " + canon(conn)
    except sqlite3.Error:
        conn.rollback()
        return "err " + canon(conn)


# --------------------------------------------------------------------------
# connection lifecycles: every run is its own process start (connect / run_migrations / close, no commit by the
# caller -- what DBOSRuntime.run_migrations and the package's test helpers do); the database "at a schema version" is
# the FILE, i.e. what a new connection reads after the previous one was closed.  A killed process = the connection
# closed at that point with whatever transaction was open.

# An input outside C28's stated quantifier ("all starting schema versions and repeated runs": no killed runs), observed
# on the unchanged code (DESIGN.md 14.3): a legacy user_version>=2 database whose migrating process dies between the
# autocommitted CREATE TABLE schema_migrations and the commit of the seed rows keeps an EMPTY schema_migrations table,
# and every later run fails on 0002.  Classified under its own signature; reported as a note unless this is flipped.
REPORT_KILL_WINDOW = False
KILL_WINDOW_SIG = "C28/killed_run_blocks_restart/empty_bookkeeping_on_legacy/legacy"


class Kill(BaseException):
    """the migrating process dies here (not an `Exception`: no handler of the code under test runs)"""


def split_script(script: str) -> list[str]:
    parts, buf = [], ""
    for piece in script.split(";")[:-1]:
        buf += piece + ";"
        if sqlite3.complete_statement(buf):
            parts.append(buf)
            buf = ""
    tail = buf + script.split(";")[-1]
    if tail.strip():
        parts.append(tail)
    elif parts:
        parts[-1] += tail
    return parts or [script]


def _is_read(sql: str) -> bool:
    return sql.lstrip().split(None, 1)[0].lower() in ("select", "pragma") if sql.strip() else True


class LifeConn(sqlite3.Connection):
    """A genuine connection that counts the *write calls* made on it (executescript, executemany, execute of
    anything but SELECT/PRAGMA, commit(), rollback()) and can die before the n-th one, or inside an executescript
    after j of its statements."""

    writes = 0
    kill_at: tuple[int, int] | None = None
    calls: list = []
    script_in_flight: str | None = None

    def arm(self, kill_at: tuple[int, int] | None) -> None:
        self.writes, self.kill_at, self.calls, self.script_in_flight = 0, kill_at, [], None

    def gate(self, label: str, nst: int = 1) -> int:
        n = self.writes
        if self.kill_at is not None and tuple(self.kill_at) == (n, 0):
            raise Kill()
        self.writes = n + 1
        self.calls.append([label, nst])
        return n

    def run_script(self, runner: Any, script: str) -> Any:
        parts = split_script(script)
        n = self.gate("executescript", len(parts))
        self.script_in_flight = script
        k = self.kill_at
        if k is not None and k[0] == n and 0 < k[1] < len(parts):
            runner("".join(parts[: k[1]]))
            raise Kill()
        r = runner(script)
        self.script_in_flight = None
        return r

    def execute(self, sql: str, *a: Any) -> Any:  # type: ignore[override]
        if not _is_read(sql):
            self.gate(sql.split(None, 1)[0].upper())
        return super().execute(sql, *a)

    def executemany(self, sql: str, *a: Any) -> Any:  # type: ignore[override]
        self.gate("executemany")
        return super().executemany(sql, *a)

    def executescript(self, script: str) -> Any:  # type: ignore[override]
        return self.run_script(super().executescript, script)

    def commit(self) -> None:
        self.gate("commit()")
        super().commit()

    def rollback(self) -> None:
        self.gate("rollback()")
        super().rollback()

    def cursor(self, factory: Any = None) -> Any:  # type: ignore[override]
        return super().cursor(LifeCur)


class LifeCur(sqlite3.Cursor):
    def execute(self, sql: str, *a: Any) -> Any:  # type: ignore[override]
        if not _is_read(sql):
            self.connection.gate(sql.split(None, 1)[0].upper())  # type: ignore[attr-defined]
        return super().execute(sql, *a)

    def executemany(self, sql: str, *a: Any) -> Any:  # type: ignore[override]
        self.connection.gate("executemany")  # type: ignore[attr-defined]
        return super().executemany(sql, *a)

    def executescript(self, script: str) -> Any:  # type: ignore[override]
        return self.connection.run_script(super().executescript, script)  # type: ignore[attr-defined]


def life_session(ctx: "Ctx", path: str, sources: list[tuple[str, str]] | None, texts: dict[str, str],
                 kill_at: tuple[int, int] | None = None, stock: bool = False) -> dict:
    """One process start on the file: connect, run_migrations, close -- the caller commits nothing."""
    conn: Any = sqlite3.connect(path) if stock else sqlite3.connect(path, factory=LifeConn)
    if not stock:
        conn.arm(kill_at)
    res: dict = {"status": "ok", "calls": []}
    try:
        try:
            if sources is None:
                ctx.migrate.run_migrations(conn)
            else:
                ctx.migrate.run_migrations(conn, sources=sources)
        except Kill:
            res["status"] = "killed"
        except Exception as e:  # noqa: BLE001
            s_ = None if stock else conn.script_in_flight
            name = texts.get(s_[len("BEGIN;\n"):]) if (s_ is not None and s_.startswith("BEGIN;\n")) else None
            res["status"] = f"failed {name}" if name is not None else f"raised {type(e).__name__}"
            res["error"] = repr(e)[:200]
        res["pending"] = bool(conn.in_transaction)
        if not stock:
            res["calls"] = conn.calls
    finally:
        conn.close()
    return res


def observe(path: str) -> tuple[str, dict]:
    """the file as the next process start finds it"""
    conn = sqlite3.connect(path)
    try:
        return canon(conn), raw_dump(conn)
    finally:
        conn.close()


def copy_db(src: str, dst: str) -> None:
    for suffix in ("", "-wal", "-shm", "-journal"):
        if os.path.exists(src + suffix):
            shutil.copyfile(src + suffix, dst + suffix)
        elif os.path.exists(dst + suffix):
            os.remove(dst + suffix)


def kill_points(ctx: "Ctx", path: str, sources: Any, texts: dict[str, str]) -> list[dict]:
    """Every point at which the process can die during one run on (a copy of) this file: before each write call and
    between the statements of each script; for each the file it leaves behind."""
    probe = ctx.pkgs.db_path(life=True)
    copy_db(path, probe)
    calls = life_session(ctx, probe, sources, texts)["calls"]
    points: list[tuple[int, int]] = []
    for n, (_label, nst) in enumerate(calls):
        points.append((n, 0))
        points += [(n, j) for j in range(1, nst)]
    out = []
    for pt in points:
        f = ctx.pkgs.db_path(life=True)
        copy_db(path, f)
        r = life_session(ctx, f, sources, texts, kill_at=pt)
        c, d = observe(f)
        out.append({"at": list(pt), "before": calls[pt[0]][0], "file": f, "canon": c, "dump": d, "status": r["status"]})
    c, d = observe(probe)
    out.append({"at": [len(calls), 0], "before": "close", "file": probe, "canon": c, "dump": d, "status": "completed"})
    return out


def kill_phase(start: dict, at_kill: dict) -> str:
    """classified from the two file contents only"""
    if at_kill == start:
        return "nothing_durable"
    had = any(r[0] == "table" and r[1] == "schema_migrations" for r in start["book"])
    has = any(r[0] == "table" and r[1] == "schema_migrations" for r in at_kill["book"])
    if not had and has and start["uv"] > 0 and not at_kill["rows"] and at_kill["user"] == start["user"]:
        return "empty_bookkeeping_on_legacy"
    return "partly_migrated"


# --------------------------------------------------------------------------
# families: one migration directory (+ optional second package) and a list of start states


def shipped_dir() -> list[tuple[str, str]]:
    d = repo_path(MIGRATIONS_DIR)
    out = []
    for n in sorted(os.listdir(d)):
        p = os.path.join(d, n)
        if os.path.isfile(p):
            with open(p, encoding="utf-8") as f:
                out.append((n, f.read()))
    return out


def kw(rng: random.Random, s: str) -> str:
    r = rng.random()
    return s if r < 0.6 else (s.lower() if r < 0.85 else s.title())


def qn(rng: random.Random, name: str) -> str:
    r = rng.random()
    if r < 0.75:
        return name
    if r < 0.85:
        return '"' + name + '"'
    if r < 0.93:
        return "[" + name + "]"
    return "`" + name + "`"


def render_col(rng: random.Random, c: tuple[str, str, int, str, int], alter: bool) -> str:
    name, typ, nn, dflt, pk = c
    s = qn(rng, name)
    if typ:
        s += " " + typ
    parts = []
    if pk:
        parts.append(kw(rng, "PRIMARY KEY") + (" " + kw(rng, "AUTOINCREMENT") if typ.upper() == "INTEGER" and rng.random() < 0.4 else ""))
    if nn:
        parts.append(kw(rng, "NOT NULL"))
    if dflt:
        parts.append(kw(rng, "DEFAULT") + " " + dflt)
    if not pk:
        rng.shuffle(parts)
    return (s + " " + " ".join(parts)).rstrip()


def gen_col(rng: random.Random, name: str, alter: bool, first: bool) -> tuple[str, str, int, str, int]:
    typ = rng.choice(TYPES)
    pk = 1 if (first and not alter and rng.random() < 0.5) else 0
    nn = 1 if rng.random() < 0.3 else 0
    dflt = rng.choice(["", "", "'x'", "0", "-1", "'{}'", "1.5", "'a b'"])
    if alter and nn and not dflt:
        dflt = "'d'"
    if pk:
        nn = 0 if rng.random() < 0.8 else nn
    return (name, typ, nn, dflt, pk)


def gen_stmt(rng: random.Random, sim: dict, wild: bool, prefix: str = "") -> str:
    """one SQL statement; `sim` tracks the schema assuming every earlier statement was applied"""
    tables, indexes = sim["t"], sim["i"]
    pool_t = [prefix + t for t in TABLES]
    kinds = ["ct"] * 3 + ["ct_again"] + ["ac"] * 4 + ["ci"] * 3 + ["ci_again"] + (["bad"] * 3 if wild else [])
    kind = rng.choice(kinds)
    free = [t for t in pool_t if t.lower() not in tables and t.lower() not in indexes]
    if not tables:
        kind = "ct"
    if kind == "ct" and not free:
        kind = "ac"
    sp = rng.choice([" ", "  ", "\n  ", " /* c */ "])
    if kind == "ct":
        t = rng.choice(free)
        names = rng.sample(COLS, rng.randint(1, 4))
        cols = [gen_col(rng, n, False, i == 0) for i, n in enumerate(names)]
        tables[t.lower()] = [n.lower() for n in names]
        ine = kw(rng, "IF NOT EXISTS") + " " if rng.random() < 0.6 else ""
        return f"{kw(rng, 'CREATE TABLE')} {ine}{qn(rng, t)}{sp}({', '.join(render_col(rng, c, False) for c in cols)})"
    if kind == "ct_again":
        t = rng.choice(sorted(tables))
        return f"{kw(rng, 'CREATE TABLE')} {kw(rng, 'IF NOT EXISTS')} {t.upper() if rng.random() < 0.3 else t} (zz TEXT, {rng.choice(COLS)} INTEGER)"
    if kind == "ac":
        t = rng.choice(sorted(tables))
        freec = [c for c in COLS + ["x1", "x2", "x3", "x4", "x5", "x6"] if c.lower() not in tables[t]]
        if not freec:
            return gen_stmt(rng, sim, wild, prefix)
        c = rng.choice(freec)
        tables[t].append(c.lower())
        return f"{kw(rng, 'ALTER TABLE')} {qn(rng, t)} {kw(rng, 'ADD')}{' ' + kw(rng, 'COLUMN') if rng.random() < 0.8 else ''} {render_col(rng, gen_col(rng, c, True, False), True)}"
    if kind == "ci":
        t = rng.choice(sorted(tables))
        freei = [prefix + i for i in INDEXES if (prefix + i).lower() not in indexes and (prefix + i).lower() not in tables]
        if not freei:
            return gen_stmt(rng, sim, wild, prefix)
        i = rng.choice(freei)
        cols = rng.sample(tables[t], rng.randint(1, min(2, len(tables[t]))))
        indexes.add(i.lower())
        ine = kw(rng, "IF NOT EXISTS") + " " if rng.random() < 0.6 else ""
        uq = kw(rng, "UNIQUE") + " " if rng.random() < 0.2 else ""
        return f"{kw(rng, 'CREATE')} {uq}{kw(rng, 'INDEX')} {ine}{qn(rng, i)} {kw(rng, 'ON')} {qn(rng, t)}{sp}({', '.join(cols)})"
    if kind == "ci_again":
        if not indexes:
            return gen_stmt(rng, sim, wild, prefix)
        i = rng.choice(sorted(indexes))
        t = rng.choice(sorted(tables))
        return f"CREATE INDEX IF NOT EXISTS {i} ON {t} ({rng.choice(tables[t] + ['nonexistent'])})"
    # bad statements (wild only)
    t = rng.choice(sorted(tables))
    bad = rng.choice(["ac_missing_table", "ac_dup", "ct_dup", "ci_missing_col", "ci_named_as_table", "ct_named_as_index",
                      "syntax", "incomplete", "ci_dup", "ci_missing_table", "ct_dupcol", "ct_empty"])
    if bad == "ac_missing_table":
        return "ALTER TABLE no_such_table ADD COLUMN q TEXT"
    if bad == "ac_dup":
        return f"ALTER TABLE {t} ADD COLUMN {rng.choice(tables[t]).upper()} TEXT"
    if bad == "ct_dup":
        return f"CREATE TABLE {t} (a TEXT)"
    if bad == "ci_missing_col":
        return f"CREATE INDEX {prefix}i_bad ON {t} (no_such_col)"
    if bad == "ci_named_as_table":
        return f"CREATE INDEX IF NOT EXISTS {t} ON {t} ({tables[t][0]})"
    if bad == "ct_named_as_index":
        if not indexes:
            return "CREATE TABL x (a TEXT)"
        return f"CREATE TABLE IF NOT EXISTS {rng.choice(sorted(indexes))} (a TEXT)"
    if bad == "syntax":
        return "CREATE TABL x (a TEXT)"
    if bad == "incomplete":
        return f"ALTER TABLE {t} ADD COLUMN"
    if bad == "ci_dup":
        if not indexes:
            return "CREATE INDEX ON"
        return f"CREATE INDEX {rng.choice(sorted(indexes))} ON {t} ({tables[t][0]})"
    if bad == "ci_missing_table":
        return "CREATE INDEX IF NOT EXISTS i_zz ON no_such_table (a)"
    if bad == "ct_dupcol":
        return f"CREATE TABLE {prefix}dupcols (a TEXT, A INTEGER)"
    return f"CREATE TABLE {prefix}empty ()"


GOOD_HEADERS = ["-- migration: {v}", "--migration:{v}", "--  migration:\t{v}  trailing words", "-- migration: {v} -- migration: 99",
                "---- migration: {v}", "/* h */ -- migration:  {v}", "-- x -- migration: {v}", "-- migration: {v}",
                "-- migration:\x1f{v}", "-- migration: 00{v}", "--　migration: {v}"]
BAD_HEADERS = ["", "\n-- migration: {v}", "-- Migration: {v}", "-- migration {v}", "-- migration: x{v}", "-- migration: -{v}",
               "- - migration: {v}", "-- migration: {v}", "-- migration:\x0b{v}", "-- migration: 0", "-- migration:\x85{v}",
               "-- migration:\r{v}", "-- migration:", "-- migration :{v}", "--\nmigration: {v}", "-- migration: ٣",
               "-- migration: {v}٥", "-- migration: \U0001d7d8{v}", "-- migrations: {v}"]


def gen_dir(rng: random.Random, wild: bool, prefix: str = "", intended: dict | None = None) -> list[tuple[str, str]]:
    """`intended` (regular directories only) receives name -> the version its conventional header declares"""
    n = rng.randint(1, 5)
    v = 1 if rng.random() < 0.8 else rng.randint(2, 9)
    versions = []
    for _ in range(n):
        versions.append(v)
        v += 1 if rng.random() < 0.8 else rng.randint(2, 4)
    pad = rng.choice([4, 4, 3, 2])
    style = "pad"
    if wild:
        style = rng.choice(["pad", "pad", "unpadded", "dupversion", "letters", "upper_suffix"])
        if style == "unpadded":
            versions = [x + rng.choice([7, 8, 9]) for x in versions]
    sim: dict = {"t": {}, "i": set()}
    files: list[tuple[str, str]] = [("__init__.py", "")]
    for k, ver in enumerate(versions):
        word = rng.choice(WORDS)
        if style == "unpadded":
            name = f"{ver}_{word}.sql"
        elif style == "letters":
            name = f"{rng.choice('AbCdE')}{k}_{word}.sql"
        else:
            name = f"{ver:0{pad}d}_{word}.sql"
        if style == "upper_suffix" and rng.random() < 0.4:
            name = name[:-4] + ".SQL"
        hv = ver
        if style == "dupversion" and k > 0 and rng.random() < 0.5:
            hv = versions[k - 1]
        if wild and rng.random() < 0.3:
            header = rng.choice(BAD_HEADERS).replace("{v}", str(hv))
        else:
            header = rng.choice(GOOD_HEADERS if rng.random() < 0.5 else GOOD_HEADERS[:2]).replace("{v}", str(hv))
        body = [gen_stmt(rng, sim, wild, prefix) for _ in range(rng.randint(1, 4))]
        # (no comment after an unterminated last statement: SQLite's ALTER TABLE ADD COLUMN keeps the tail of the
        # statement text and then rejects the table definition it rebuilt -- a library quirk outside the property)
        text = header + f"\n-- file {k}\n\n" + "".join(
            ("-- " + rng.choice(WORDS) + "\n" if rng.random() < 0.3 else "") + s + (";\n" if i < len(body) - 1 or rng.random() < 0.9 else "\n")
            for i, s in enumerate(body))
        if any(name == f[0] for f in files):
            name = f"{k}{name}"
        files.append((name, text))
        if intended is not None and not wild:
            intended[name] = hv
    if rng.random() < (0.5 if wild else 0.2):
        extra = rng.choice([("README.md", "notes"), ("0002_x.sql.bak", "-- migration: 2\nCREATE TABLE bak (a TEXT);"),
                            ("notes.sql.txt", "-- migration: 3\nDROP TABLE t1;"), (".sql", "-- migration: 77\nCREATE TABLE dot (a TEXT);\n"),
                            ("sql", "-- migration: 5\nCREATE TABLE nosuffix (a TEXT);"), ("x.sqlite", "")])
        if wild or not extra[0].endswith(".sql"):
            files.append(extra)
    rng.shuffle(files)
    return files


def gen_starts(rng: random.Random, nfiles: int, maxv: int, n: int, with_fault: bool) -> list[dict]:
    starts: list[dict] = [{"legacy": None, "prefixes": [], "fault": None}]
    for _ in range(n):
        st: dict = {"legacy": None, "prefixes": [], "fault": None}
        r = rng.random()
        if r < 0.45:
            st["legacy"] = rng.choice([rng.randint(0, maxv + 1), rng.randint(1, max(1, maxv)), -1 if rng.random() < 0.3 else maxv])
        if rng.random() < 0.55:
            st["prefixes"] = sorted(rng.sample(range(0, nfiles + 1), rng.randint(1, min(2, nfiles + 1))))
        if with_fault and rng.random() < 0.3:
            st["fault"] = rng.randrange(max(1, nfiles))
        if rng.random() < 0.25:
            st["file_db"] = True
        if rng.random() < 0.3:
            # every run of this history is a process start of its own; sometimes with killed runs in between
            st["fault"] = None
            st["life"] = {"kills": [{"pick": rng.randrange(64)} for _ in range(rng.choice([0, 0, 0, 1, 1, 2]))]}
        starts.append(st)
    return starts


def gen_family(rng: random.Random, wild: bool, nstarts: int) -> dict:
    intended: dict = {}
    main = gen_dir(rng, wild, intended=intended)
    pkg = SERVER if rng.random() < (0.85 if wild else 1.0) else rng.choice(["Server", "srv", "dbos"])
    sources = [[pkg, main]]
    if rng.random() < 0.25:
        sources.append([rng.choice(["dbos", "dbos", "extra", SERVER if wild else "dbos"]), gen_dir(rng, wild, prefix="j_")])
    nsql = sum(1 for f in main if f[0].endswith(".sql"))
    fam = {"kind": "synthetic", "wild": wild, "sources": sources, "starts": gen_starts(rng, nsql, 12, nstarts, True)}
    if not wild:
        fam["intended"] = intended
    return fam


def shipped_family() -> dict:
    files = shipped_dir()
    n = sum(1 for f in files if f[0].endswith(".sql"))
    starts: list[dict] = [{"legacy": None, "prefixes": [], "fault": None},
                          {"legacy": None, "prefixes": [], "fault": None, "bare": True},
                          {"legacy": None, "prefixes": [], "fault": None, "file_db": True}]
    for k in [-1] + list(range(0, n + 3)):
        starts.append({"legacy": k, "prefixes": [], "fault": None, "data": k % 2 == 1, "file_db": k == 2})
    for j in range(0, n + 1):
        starts.append({"legacy": None, "prefixes": [j], "fault": None, "data": j % 2 == 0})
    for k in range(1, n):
        for j in range(k, n + 1):
            starts.append({"legacy": k, "prefixes": [j], "fault": None})
    starts.append({"legacy": None, "prefixes": [1, 2, 3], "fault": None, "data": True})
    for fl in range(n):
        starts.append({"legacy": None, "prefixes": [], "fault": fl})
        starts.append({"legacy": min(fl, 2), "prefixes": [], "fault": fl, "data": True})
    for entry in ("store_static", "store_ctor", "store_single"):
        starts.append({"legacy": None, "prefixes": [], "fault": None, "file_db": True, "entry": entry})
        starts.append({"legacy": 2, "prefixes": [], "fault": None, "file_db": True, "entry": entry, "data": True})
        if entry != "store_single":
            # (a file already switched to WAL by an ordinary connection cannot be opened at all through the lock-free
            # `unix-none` VFS that single_connection uses -- a deployment-mode matter, not a schema-version one)
            starts.append({"legacy": None, "prefixes": [1], "fault": None, "file_db": True, "entry": entry})
    # connection lifecycles: each run a process start of its own on the file (connect / run / close, the caller commits
    # nothing), from every start state; for some, every point at which the migrating process can be killed
    starts.append({"legacy": None, "prefixes": [], "fault": None, "life": {"kills": [{"pick": 5}]}})
    for k in range(-1, n + 2):
        starts.append({"legacy": k, "prefixes": [], "fault": None, "data": k % 2 == 0, "life": {"stock": k % 2 == 1}})
    for j in range(0, n + 1):
        starts.append({"legacy": None, "prefixes": [j], "fault": None, "data": j % 2 == 1, "life": {"stock": j % 2 == 0}})
    for k in range(1, n):
        starts.append({"legacy": k, "prefixes": [k + 1], "fault": None, "life": {}})
    starts.append({"legacy": None, "prefixes": [1, 3], "fault": None, "life": {"kills": [{"pick": 2}]}})
    starts.append({"legacy": 1, "prefixes": [], "fault": None, "life": {"kills": [{"pick": 3}]}})
    starts.append({"legacy": n, "prefixes": [], "fault": None, "life": {"kills": [{"pick": 0}]}})
    starts.append({"legacy": 2, "prefixes": [3], "fault": None, "life": {"kills": [{"pick": 1}, {"pick": 1}]}})
    # the legacy layout of the package's own tests: one consolidated CREATE TABLE
    starts.append({"legacy": 1, "prefixes": [], "fault": None, "normalized": True, "legacy_sql":
                   "CREATE TABLE IF NOT EXISTS handlers (handler_id TEXT PRIMARY KEY, workflow_name TEXT, status TEXT, ctx TEXT);"})
    starts.append({"legacy": 3, "prefixes": [], "fault": None, "normalized": True, "legacy_sql":
                   "CREATE TABLE IF NOT EXISTS handlers (handler_id TEXT PRIMARY KEY, workflow_name TEXT, status TEXT, ctx TEXT, "
                   "run_id TEXT, error TEXT, result TEXT, started_at TEXT, updated_at TEXT, completed_at TEXT, idle_since TEXT);"})
    return {"kind": "shipped", "wild": False, "sources": [[SERVER, files]], "starts": starts}


CORPUS_DIRS: list[tuple[str, list[tuple[str, str]]]] = [
    ("unpadded_names", [("9_a.sql", "-- migration: 9\nCREATE TABLE t1 (a TEXT);\n"),
                        ("10_b.sql", "-- migration: 10\nALTER TABLE t1 ADD COLUMN b TEXT;\n")]),
    ("header_on_second_line", [("0001_a.sql", "-- migration: 1\nCREATE TABLE t1 (a TEXT);\n"),
                               ("0002_b.sql", "-- add b\n-- migration: 2\nALTER TABLE t1 ADD COLUMN b TEXT;\n")]),
    ("duplicate_version", [("0001_a.sql", "-- migration: 1\nCREATE TABLE t1 (a TEXT);\n"),
                           ("0002_b.sql", "-- migration: 1\nALTER TABLE t1 ADD COLUMN b TEXT;\n"),
                           ("0003_c.sql", "-- migration: 3\nCREATE INDEX i1 ON t1 (a);\n")]),
    ("gap_in_versions", [("0001_a.sql", "-- migration: 2\nCREATE TABLE t1 (a TEXT);\n"),
                         ("0002_b.sql", "-- migration: 5\nALTER TABLE t1 ADD COLUMN b TEXT;\n")]),
    ("failing_middle", [("0001_a.sql", "-- migration: 1\nCREATE TABLE t1 (a TEXT);\n"),
                        ("0002_b.sql", "-- migration: 2\nALTER TABLE t1 ADD COLUMN b TEXT;\nALTER TABLE t1 ADD COLUMN a TEXT;\n"),
                        ("0003_c.sql", "-- migration: 3\nCREATE INDEX i1 ON t1 (a);\n")]),
    ("unicode_header", [("0001_a.sql", "-- migration: ١٢ x\nCREATE TABLE t1 (a TEXT);\n"),
                        ("0002_b.sql", "-- migration: 13 -- migration: 14\nALTER TABLE t1 ADD COLUMN b TEXT;\n")]),
    ("non_sql_entries", [("0001_a.sql", "-- migration: 1\nCREATE TABLE t1 (a TEXT);\n"), ("0002_b.SQL", "-- migration: 2\nDROP TABLE t1;\n"),
                         ("0003_c.sql.bak", "-- migration: 3\nDROP TABLE t1;\n"), (".sql", "-- migration: 4\nCREATE TABLE t2 (a TEXT);\n")]),
]


def corpus_families() -> list[dict]:
    fams = []
    for label, files in CORPUS_DIRS:
        n = len(files)
        starts = [{"legacy": None, "prefixes": [], "fault": None}, {"legacy": 1, "prefixes": [], "fault": None},
                  {"legacy": None, "prefixes": [1], "fault": None}, {"legacy": None, "prefixes": [], "fault": min(1, n - 1)},
                  {"legacy": 9, "prefixes": [1], "fault": None}]
        fams.append({"kind": "synthetic", "label": label, "wild": True,
                     "sources": [[SERVER, [("__init__.py", "")] + files]], "starts": starts})
    two = {"kind": "synthetic", "label": "two_packages", "wild": False, "sources": [
        [SERVER, [("__init__.py", ""), ("0001_a.sql", "-- migration: 1\nCREATE TABLE t1 (a TEXT);\n"),
                  ("0002_b.sql", "-- migration: 2\nALTER TABLE t1 ADD COLUMN b TEXT;\n")]],
        ["dbos", [("__init__.py", ""), ("0001_j.sql", "-- migration: 1\nCREATE TABLE j_t (x TEXT);\nCREATE INDEX j_i ON t1 (b);\n")]]],
        "starts": [{"legacy": None, "prefixes": [], "fault": None}, {"legacy": 1, "prefixes": [], "fault": None},
                   {"legacy": None, "prefixes": [1], "fault": None}, {"legacy": 2, "prefixes": [], "fault": None}]}
    fams.append(two)
    for fam in fams:
        fam["starts"] = fam["starts"] + [{"legacy": None, "prefixes": [], "fault": None, "life": {"kills": [{"pick": 1}]}},
                                          {"legacy": 1, "prefixes": [], "fault": None, "life": {}},
                                          {"legacy": None, "prefixes": [1], "fault": None, "life": {"kills": [{"pick": 2}]}}]
    # hand-picked lifecycles on the shipped directory (harness/corpus/c28_lifecycles.json); "head" = newest version
    files = shipped_dir()
    n = sum(1 for f in files if f[0].endswith(".sql"))
    with open(os.path.join(os.path.dirname(os.path.dirname(os.path.abspath(__file__))), "corpus", "c28_lifecycles.json"), encoding="utf-8") as f:
        for item in json.load(f)["cases"]:
            st = dict(item["start"])
            if st.get("legacy") == "head":
                st["legacy"] = n
            fams.append({"kind": "shipped", "label": item["label"], "wild": False, "sources": [[SERVER, files]], "starts": [st]})
    return fams


# --------------------------------------------------------------------------
# running one family: correspondence ops + monitors


def start_kind(st: dict) -> str:
    k = []
    if st.get("legacy") is not None:
        k.append("legacy")
    if st.get("prefixes"):
        k.append("prefix")
    if st.get("fault") is not None:
        k.append("after_failed_run")
    return "+".join(k) or "fresh"


def run_family(ctx: Ctx, fam: dict) -> None:
    out = ctx.out
    utils = ctx.utils
    shipped = fam["kind"] == "shipped"
    src_specs = [(p, [tuple(f) for f in files]) for p, files in fam["sources"]]
    mods = [ctx.pkgs.make(files) for _p, files in src_specs]
    listings = [ctx.pkgs.listing(m) for m in mods]  # text as the loader will read it
    main_pkg, _ = src_specs[0]

    # --- loader / header parser, real code, per source
    orders: list[list[tuple[str, str, int]]] = []
    for (p, _files), mod, listing in zip(src_specs, mods, listings):
        paths = utils.iter_migration_files(mod)
        order = []
        for path in paths:
            text = path.read_text()
            order.append((path.name, text, utils.parse_target_version(text) or 0))
        orders.append(order)
        ctx.op("load " + enc_files(listing), " ".join(f"{n}:{v}" for n, _t, v in order), {"family": fam, "what": "loader"})
        for n, t in listing:
            pv = utils.parse_target_version(t)
            ctx.op("parse " + enc(t), "none" if pv is None else f"some {pv}", {"family": fam, "what": "parse", "file": n})
            out.count("header:" + ("none" if pv is None else ("zero" if pv == 0 else "version")))
            out.evaluations += 1
    order0 = orders[0]
    vers0 = [v for _n, _t, v in order0]
    if shipped:
        ctx.op("shipped", " ".join(f"{n}:{v}:<{';'.join(show_stmt(s) for s in parse_sql(t))}>" for n, t, v in order0),
               {"family": fam, "what": "generated table vs current files"})

    # --- regular generated directories: every header follows the documented `-- migration: N` convention and the
    # generator knows N; the loader must read exactly that (else "every version recorded" is about the wrong numbers)
    if fam.get("intended"):
        got = {n: v for n, _t, v in order0}
        bad = [(n, v, got.get(n)) for n, v in sorted(fam["intended"].items()) if got.get(n) != v]
        if bad:
            out.violations.append(Violation("C28/declared_version_misread",
                                            f"(file, declared, read by the loader) = {bad[:3]}",
                                            {"family": dict(fam, starts=fam["starts"][:1]), "start": fam["starts"][0]}))

    # --- is the list one the property speaks about?  decided by the real loader and real SQLite only
    wellformed = all(p == SERVER or i > 0 for i, (p, _f) in enumerate(src_specs)) and main_pkg == SERVER
    for order in orders:
        vs = [v for _n, _t, v in order]
        if not (all(v > 0 for v in vs) and all(a < b for a, b in zip(vs, vs[1:]))):
            wellformed = False
    if len({p for p, _ in src_specs}) != len(src_specs):
        wellformed = False
    if wellformed:
        scratch = sqlite3.connect(":memory:")
        try:
            for order in orders:
                for _n, t, _v in order:
                    scratch.executescript("BEGIN;\n" + t + "\n;COMMIT;")
        except sqlite3.Error:
            wellformed = False
        scratch.close()
    out.count("family:" + fam["kind"] + (":wellformed" if wellformed else ":irregular"))
    if shipped and not wellformed:
        # the shipped list itself is in the property's scope whatever it looks like
        out.violations.append(Violation("C28/shipped_list_malformed",
                                        f"the loader reads the shipped migrations as {[(n, v) for n, _t, v in order0]}: versions must be positive and "
                                        "strictly increasing in file order and the scripts must apply to an empty database",
                                        {"family": dict(fam, starts=fam["starts"][:1]), "start": fam["starts"][0]}))
        wellformed = True  # keep the converge / once / idempotent monitors on

    # the shipped directory read by the harness itself, by the documented convention (first line is exactly
    # `-- migration: N`): an oracle that does not go through the code's own header parser or loader
    declared: list[tuple[str, int, list[str]]] = []
    if shipped:
        for n, t in sorted(src_specs[0][1]):
            m = re.fullmatch(r"-- migration: (\d+)", t.split("\n", 1)[0].rstrip()) if n.endswith(".sql") else None
            if m:
                declared.append((n, int(m.group(1)), [s_[2] for s_ in parse_sql(t) if s_[0] == "ct"]))

    real_sources = None if shipped else [(p, m) for (p, _f), m in zip(src_specs, mods)]
    model_full = "runshipped" if shipped else "run " + enc_sources([(p, l) for (p, _f), l in zip(src_specs, listings)])
    texts_full = {t: n for order in orders for n, t, _v in order}

    # reference final state: a plain sqlite3 connection, fresh database
    ref = None
    if wellformed:
        c0 = sqlite3.connect(":memory:")
        try:
            if shipped:
                ctx.migrate.run_migrations(c0)
            else:
                ctx.migrate.run_migrations(c0, sources=real_sources)
            c0.commit()
            ref = (raw_dump(c0), canon(c0))
        except Exception as e:  # noqa: BLE001
            out.violations.append(Violation("C28/run_raises/fresh", f"run_migrations raised {e!r} on an empty database", {"family": fam, "start": fam["starts"][0]}))
        c0.close()

    extras = [f for f in src_specs[0][1] if not any(f[0] == n for n, _t, _v in order0)]
    F = {"shipped": shipped, "wellformed": wellformed, "ref": ref, "declared": declared, "order0": order0, "orders": orders,
         "src_specs": src_specs, "main_pkg": main_pkg, "extras": extras, "real_sources": real_sources, "texts_full": texts_full,
         "m_session": "sessionshipped" if shipped else "session" + model_full[len("run"):],
         "m_durables": "durablesshipped" if shipped else "durables" + model_full[len("run"):]}
    for st in fam["starts"]:
        if st.get("life") is not None:
            run_life(ctx, fam, st, F)
            continue
        kind = start_kind(st)
        case = {"family": dict(fam, starts=[st]), "start": st}
        out.count("start:" + kind)
        if st.get("entry"):
            out.count("entry:" + st["entry"])
        path = ctx.pkgs.db_path() if st.get("file_db") else ":memory:"
        conn: Any = sqlite3.connect(path) if st.get("bare") else sqlite3.connect(path, factory=Conn)
        ctx.op("fresh", canon(conn), case)
        sess_ok = True
        legacy = st.get("legacy")
        if legacy is not None:
            # what the pre-schema_migrations runner left behind: each script with version <= k, one by one
            scripts = [st["legacy_sql"]] if st.get("legacy_sql") is not None else [t for _n, t, v in order0 if 0 < v <= legacy]
            for sql in scripts:
                ctx.op("ddl " + enc_stmts(parse_sql(sql)), real_ddl(conn, sql), case)
            conn.execute(f"PRAGMA user_version={int(legacy)}")
            conn.commit()
            ctx.op(f"setuv {int(legacy)}", canon(conn), case)
        for j in st.get("prefixes", []):
            pre = [(n, t) for n, t, _v in order0[:j]] + [("__init__.py", "")] + [e for e in extras if e[0] != "__init__.py" and not e[0].endswith(".sql")]
            mod_j = ctx.pkgs.make(pre)
            lst = ctx.pkgs.listing(mod_j)
            r, raised = real_run(ctx, conn, [(main_pkg, mod_j)], {t: n for n, t in lst}, None)
            ctx.op("run " + enc_sources([(main_pkg, lst)]), r, case)
            out.evaluations += 1
            if raised:
                sess_ok = False
                if wellformed:
                    out.violations.append(Violation(f"C28/run_raises/{kind}", f"run of the first {j} migrations raised: {r[:160]}", case))
        if st.get("data"):
            try:
                if conn.execute("SELECT 1 FROM sqlite_master WHERE name='handlers'").fetchone():
                    conn.execute("INSERT OR IGNORE INTO handlers (handler_id, workflow_name, status, ctx) VALUES ('h1','w','running','{}')")
                    conn.execute("INSERT OR IGNORE INTO handlers (handler_id) VALUES ('h2')")
                    conn.commit()
            except sqlite3.Error:
                conn.rollback()
        fault = st.get("fault")
        if fault is not None and order0 and not st.get("bare"):
            fname, ftext, _fv = order0[fault % len(order0)]
            # model: the same directory with that script replaced by one SQLite rejects (same header line)
            broken = ftext.split("\n", 1)[0] + "\nCREATE TABL x"
            mline = "run " + enc_sources([(p, [(n, broken if (n == fname and i == 0) else t) for n, t in l])
                                          for i, ((p, _f), l) in enumerate(zip(src_specs, listings))])
            header_line_ok = utils.parse_target_version(broken) == utils.parse_target_version(ftext)
            if header_line_ok:
                r, raised = real_run(ctx, conn, real_sources, texts_full, ftext)
                ctx.op(mline, r, case)
                out.evaluations += 1
                out.count("fault:" + ("hit" if conn.fault_hits else "not_reached"))
                conn.fault_hits = 0
        # the run under test, then once more
        entry = st.get("entry")
        if entry and (ctx.store is None or not shipped):
            conn.close()
            continue
        if path != ":memory:":  # a restart: what is on disk is what counts
            conn.close()
            conn = sqlite3.connect(path) if st.get("bare") else sqlite3.connect(path, factory=Conn)

        def final_run() -> tuple[str, bool]:
            nonlocal conn
            if entry:
                conn.close()
                exc = None
                try:
                    if entry == "store_static":
                        ctx.store.run_migrations(path)
                    elif entry == "store_ctor":
                        ctx.store(path)
                    else:
                        import time as _time

                        real_sleep = _time.sleep
                        _time.sleep = lambda _s: None  # the WAL retry loop sleeps 1.5 s under the lock-free VFS
                        try:
                            s_ = ctx.store(path, single_connection=True)
                            s_._persistent_conn.close()
                        finally:
                            _time.sleep = real_sleep
                except Exception as e:  # noqa: BLE001
                    exc = e
                conn = sqlite3.connect(path, factory=Conn)
                return (f"raised {type(exc).__name__} " if exc is not None else "ok ") + canon(conn), exc is not None
            if st.get("bare"):
                return bare_run(ctx, conn, real_sources)
            return real_run(ctx, conn, real_sources, texts_full, None)

        r1, raised1 = final_run()
        ctx.op(model_full, r1, case)
        out.evaluations += 1
        out.count("final:" + ("raised" if raised1 else "ok"))
        if not raised1:
            out.nontrivial((kind, r1))
        if raised1:
            if wellformed and sess_ok:
                out.violations.append(Violation(f"C28/run_raises/{kind}", f"run_migrations raised from start {st}: {r1[:200]}", case))
        else:
            d1 = raw_dump(conn)
            if wellformed and ref is not None and sess_ok:
                same = (r1.split(" schema=", 1)[1] == ("ok " + ref[1]).split(" schema=", 1)[1]) if st.get("normalized") else (d1["user"] == ref[0]["user"] and d1["book"] == ref[0]["book"])
                if not same:
                    out.violations.append(Violation(f"C28/schema_differs/{kind}", f"final sqlite_master from start {st_brief(st)} differs from a fresh database's", case))
                for p, order in zip([p for p, _ in src_specs], orders):
                    for _n, _t, v in order:
                        cnt = sum(1 for row in d1["rows"] if row[0] == p and row[1] == v)
                        if cnt != 1:
                            out.violations.append(Violation(f"C28/version_count/{kind}", f"version {p}:{v} recorded {cnt} times from start {st_brief(st)}", case))
                            break
            if declared and sess_ok:
                tables = {r_[1].lower() for r_ in d1["user"] if r_[0] == "table"}
                for n_, v_, made in declared:
                    cnt = sum(1 for row in d1["rows"] if row[0] == SERVER and row[1] == v_)
                    if cnt != 1:
                        out.violations.append(Violation(f"C28/declared_version_count/{kind}", f"{n_} declares migration {v_}; recorded {cnt} times after run_migrations from start {st_brief(st)}", case))
                        break
                    if any(t_ not in tables for t_ in made):
                        out.violations.append(Violation(f"C28/declared_table_missing/{kind}", f"{n_} (migration {v_}) creates {made}; missing after run_migrations from start {st_brief(st)}", case))
                        break
            r2, raised2 = final_run()
            ctx.op(model_full, r2, case)
            out.evaluations += 1
            d2 = raw_dump(conn)
            if raised2 or d2 != d1:
                out.violations.append(Violation(f"C28/second_run_changes/{kind if wellformed else 'irregular'}",
                                                f"a second run {'raised' if raised2 else 'changed the database'} (start {st_brief(st)})", case))
        key = (fam["kind"], fam.get("wild"), kind)
        if key not in ctx.sampled:
            ctx.sampled.add(key)
            out.sample({"family": fam.get("label", fam["kind"]), "start": st_brief(st), "versions": vers0, "result": r1[:160]}, cap=12)
        conn.close()


def st_brief(st: dict) -> str:
    return f"legacy={st.get('legacy')} prefixes={st.get('prefixes')} fault={st.get('fault')}"


def file_problems(F: dict, d: dict) -> list[tuple[str, str]]:
    """(rule, what) for a database FILE (read through a new connection) that should be fully migrated; the expected
    content is recomputed from the inputs: the schema of a freshly migrated database, and one row per version the
    loader reads / per version the shipped files declare"""
    probs: list[tuple[str, str]] = []
    ref = F["ref"]
    if F["wellformed"] and ref is not None:
        if not (d["user"] == ref[0]["user"] and d["book"] == ref[0]["book"]):
            probs.append(("reopened_schema_differs", "sqlite_master of the re-opened file differs from a freshly migrated database's"))
        for p, order in zip([p for p, _ in F["src_specs"]], F["orders"]):
            for _n, _t, v in order:
                cnt = sum(1 for row in d["rows"] if row[0] == p and row[1] == v)
                if cnt != 1:
                    probs.append(("reopened_version_count", f"version {p}:{v} is recorded {cnt} times in the re-opened file "
                                  f"(rows: {[(r[0], r[1]) for r in d['rows']]})"))
                    break
    if F["declared"]:
        tables = {r_[1].lower() for r_ in d["user"] if r_[0] == "table"}
        for n_, v_, made in F["declared"]:
            cnt = sum(1 for row in d["rows"] if row[0] == SERVER and row[1] == v_)
            if cnt != 1:
                probs.append(("reopened_declared_version_count", f"{n_} declares migration {v_}; recorded {cnt} times in the re-opened file"))
                break
            if any(t_ not in tables for t_ in made):
                probs.append(("reopened_declared_table_missing", f"{n_} (migration {v_}) creates {made}; missing in the re-opened file"))
                break
    return probs


def run_life(ctx: Ctx, fam: dict, st: dict, F: dict) -> None:
    """A start state whose whole history consists of separate process starts on one database file."""
    out = ctx.out
    life = st["life"]
    kind = start_kind(st)
    case = {"family": dict(fam, starts=[st]), "start": st}
    wellformed, order0, main_pkg = F["wellformed"], F["order0"], F["main_pkg"]
    real_sources, texts_full = F["real_sources"], F["texts_full"]
    stock = bool(life.get("stock")) and not life.get("kills")
    out.count("start:" + kind)
    out.count("life:" + ("kills" if life.get("kills") else "sessions") + (":stock_connection" if stock else ""))
    path = ctx.pkgs.db_path(life=True)
    conn = sqlite3.connect(path)
    ctx.op("fresh", canon(conn), case)
    legacy = st.get("legacy")
    if legacy is not None:
        for sql in [t for _n, t, v in order0 if 0 < v <= legacy]:
            ctx.op("ddl " + enc_stmts(parse_sql(sql)), real_ddl(conn, sql), case)
        conn.execute(f"PRAGMA user_version={int(legacy)}")
        conn.commit()
        ctx.op(f"setuv {int(legacy)}", canon(conn), case)
    conn.close()
    sess_ok = True

    def line(res: dict, c: str) -> str:
        return f"{res['status']} {c} pending={int(res['pending'])}"

    for j in st.get("prefixes", []):
        pre = [(n, t) for n, t, _v in order0[:j]] + [("__init__.py", "")] + [e for e in F["extras"] if e[0] != "__init__.py" and not e[0].endswith(".sql")]
        mod_j = ctx.pkgs.make(pre)
        lst = ctx.pkgs.listing(mod_j)
        res = life_session(ctx, path, [(main_pkg, mod_j)], {t: n for n, t in lst})
        c, _d = observe(path)
        ctx.op("session " + enc_sources([(main_pkg, lst)]), line(res, c), case)
        out.evaluations += 1
        if res["status"] != "ok":
            sess_ok = False
            if wellformed:
                out.violations.append(Violation(f"C28/restart_raises/{kind}", f"a process start running the first {j} migrations: {res['status']} {res.get('error', '')}", case))
    if st.get("data"):
        conn = sqlite3.connect(path)
        try:
            if conn.execute("SELECT 1 FROM sqlite_master WHERE name='handlers'").fetchone():
                conn.execute("INSERT OR IGNORE INTO handlers (handler_id, workflow_name, status, ctx) VALUES ('h1','w','running','{}')")
                conn.commit()
        except sqlite3.Error:
            conn.rollback()
        conn.close()

    # ---- killed runs: every point of one run on this file; then the history continues from one of the files left
    for ks in life.get("kills", []):
        c_start, d_start = observe(path)
        pts = kill_points(ctx, path, real_sources, texts_full)
        out.count("kill_points", len(pts))
        out.evaluations += len(pts)
        seq, reps = [c_start], [None]
        for p_ in pts:
            if p_["canon"] != seq[-1]:
                seq.append(p_["canon"])
                reps.append(p_)
        ctx.op(F["m_durables"], " ## ".join(seq), case)
        bad: set = set()
        for p_ in reps[1:]:
            if p_["status"] == "completed":
                continue  # the ordinary run, examined below
            phase = kill_phase(d_start, p_["dump"])
            out.count("killed:" + phase)
            if not (wellformed and F["ref"] is not None and sess_ok):
                continue
            f_ = ctx.pkgs.db_path(life=True)
            copy_db(p_["file"], f_)
            r_ = life_session(ctx, f_, real_sources, texts_full)
            probs = [("restart_raises", f"{r_['status']} {r_.get('error', '')}")] if r_["status"] != "ok" else file_problems(F, observe(f_)[1])
            out.evaluations += 1
            if probs:
                bad.add(p_["canon"])
                sig = f"C28/killed_run_blocks_restart/{phase}/{kind}"
                what = (f"run_migrations from start {st_brief(st)} killed before write call #{p_['at'][0]} ({p_['before']})"
                        + (f", after {p_['at'][1]} statements of that script" if p_["at"][1] else "")
                        + f"; the file then holds rows {[(r[0], r[1]) for r in p_['dump']['rows']]}; the next process start: {probs[0][0]}: {probs[0][1]}")
                if sig == KILL_WINDOW_SIG and not REPORT_KILL_WINDOW:
                    out.count("observation_outside_quantifier:" + sig)
                    note = "observation outside C28's quantifier (killed runs; no claim): " + sig + " -- " + what
                    if not any(n_.startswith("observation outside C28's quantifier") for n_ in out.notes):
                        out.notes.append(note[:600])
                else:
                    out.violations.append(Violation(sig, what, case))
        idx = int(ks.get("pick", 0)) % len(seq)
        if idx > 0:
            copy_db(reps[idx]["file"], path)
            if seq[idx] in bad:
                sess_ok = False  # reported (or noted) above under the kill's own signature
        ctx.op(f"pick {idx}", observe(path)[0], case)

    # ---- the run under test: a process start; then another one
    res1 = life_session(ctx, path, real_sources, texts_full, stock=stock)
    c1, d1 = observe(path)
    ctx.op(F["m_session"], line(res1, c1), case)
    out.evaluations += 1
    out.count("final:" + ("ok" if res1["status"] == "ok" else "raised"))
    if res1["status"] != "ok":
        if wellformed and sess_ok:
            out.violations.append(Violation(f"C28/restart_raises/{kind}", f"run_migrations on a new connection, start {st_brief(st)}: {res1['status']} {res1.get('error', '')}", case))
    else:
        out.nontrivial((kind, "life", c1))
        if sess_ok:
            for rule, what in file_problems(F, d1):
                out.violations.append(Violation(f"C28/{rule}/{kind}", f"run_migrations returned, the connection was closed (no commit by the caller): {what}; start {st_brief(st)}", case))
        res2 = life_session(ctx, path, real_sources, texts_full, stock=stock)
        c2, d2 = observe(path)
        ctx.op(F["m_session"], line(res2, c2), case)
        out.evaluations += 1
        if res2["status"] != "ok" or d2 != d1:
            out.violations.append(Violation(f"C28/restart_changes/{kind if wellformed else 'irregular'}",
                                            f"after a completed run, the next process start {'raised: ' + res2['status'] + ' ' + res2.get('error', '') if res2['status'] != 'ok' else 'changed the database file'} (start {st_brief(st)})", case))
    key = (fam["kind"], fam.get("wild"), kind, "life")
    if key not in ctx.sampled:
        ctx.sampled.add(key)
        out.sample({"family": fam.get("label", fam["kind"]), "start": st_brief(st), "life": life, "result": line(res1, c1)[:160]}, cap=12)


# --------------------------------------------------------------------------
# the production call with two sources: DBOSRuntime.run_migrations passes sources=_SQLITE_SOURCES (server, dbos)


def production_sources(ctx: Ctx) -> tuple[list[tuple[str, str]], list[list[tuple[str, str]]]] | None:
    """-> ([(package, module)] exactly as runtime.py lists them, each the REAL tuple object's value imported from the
    real store `__init__`; [directory listing of each module])"""
    from ..gen.migrate import DBOS_MIGRATIONS_DIR, extract_production_sources

    notes: list[str] = []
    prod = extract_production_sources(notes)
    if notes or not prod["passed"]:
        ctx.out.notes.append("production sources not resolvable from runtime.py: " + "; ".join(notes))
        return None
    real: list[tuple[str, str]] = []
    for mod_name in prod["modules"]:
        store = importlib.import_module(mod_name.rsplit(".", 2)[0])  # ...._store
        tup = tuple(store.SQLITE_MIGRATION_SOURCE)
        if tup[1] != mod_name:
            ctx.out.notes.append(f"production source {mod_name}: store constant says {tup!r}")
            return None
        real.append((tup[0], tup[1]))
    dirs = []
    for rel in (MIGRATIONS_DIR, DBOS_MIGRATIONS_DIR):
        d = repo_path(rel)
        lst = []
        for n in sorted(os.listdir(d)):
            q = os.path.join(d, n)
            if os.path.isfile(q):
                with open(q, encoding="utf-8") as f:
                    lst.append((n, f.read()))
        dirs.append(lst)
    return real, dirs


def run_production(ctx: Ctx, rng: random.Random, nrandom: int) -> None:
    out = ctx.out
    got = production_sources(ctx)
    if got is None:
        out.violations.append(Violation("C28/production_sources_unresolved",
                                        "the sources= list of DBOSRuntime.run_migrations could not be resolved", {"production": True}))
        return
    real, dirs = got
    utils = ctx.utils
    orders = []
    for (_p, mod) in real:
        order = []
        for path in utils.iter_migration_files(mod):  # the REAL packaged directories, through importlib.resources
            t = path.read_text()
            order.append((path.name, t, utils.parse_target_version(t) or 0))
        orders.append(order)
    table = " | ".join(p + "=" + " ".join(f"{n}:{v}:<{';'.join(show_stmt(s_) for s_ in parse_sql(t))}>" for n, t, v in order)
                       for (p, _m), order in zip(real, orders))
    ctx.op("c28prodtable", table, {"production": True, "what": "generated production table vs current files"})
    order0 = orders[0]
    n = len(order0)
    texts = {t: nm for order in orders for nm, t, _v in order}
    starts: list[dict] = [{"legacy": None, "prefixes": []}]
    starts += [{"legacy": k, "prefixes": []} for k in range(0, n + 2)]
    starts += [{"legacy": None, "prefixes": [j]} for j in range(0, n + 1)]
    starts += [{"legacy": k, "prefixes": [j]} for k in range(1, n) for j in (k, n)]
    starts += [{"legacy": None, "prefixes": [], "server_first": True}, {"legacy": 2, "prefixes": [3], "server_first": True},
               {"legacy": None, "prefixes": [1, 2], "file": True}, {"legacy": 1, "prefixes": [], "file": True},
               {"legacy": None, "prefixes": [], "file": True, "server_after": True}]
    for _ in range(nrandom):
        k = rng.choice([None, None] + list(range(0, n + 2)))
        pre = sorted(rng.sample(range(0, n + 1), rng.randint(0, 2)))
        if k is not None:
            pre = [j for j in pre if j >= k]
        starts.append({"legacy": k, "prefixes": pre, "file": rng.random() < 0.3, "server_first": rng.random() < 0.3,
                       "server_after": rng.random() < 0.3})
    ref = None
    for st in starts:
        case = {"production": True, "start": st}
        kind = start_kind(st)
        out.count("production_start:" + kind + (":file" if st.get("file") else ""))
        path = ctx.pkgs.db_path(life=True) if st.get("file") else ":memory:"
        conn: Any = sqlite3.connect(path, factory=Conn)
        ctx.op("fresh", canon(conn), case)
        if st["legacy"] is not None:
            for sql in [t for _n, t, v in order0 if 0 < v <= st["legacy"]]:
                ctx.op("ddl " + enc_stmts(parse_sql(sql)), real_ddl(conn, sql), case)
            conn.execute(f"PRAGMA user_version={int(st['legacy'])}")
            conn.commit()
            ctx.op(f"setuv {int(st['legacy'])}", canon(conn), case)
        bad = False
        for j in st["prefixes"]:
            mod_j = ctx.pkgs.make([(nm, t) for nm, t, _v in order0[:j]] + [("__init__.py", "")])
            lst = ctx.pkgs.listing(mod_j)
            r, raised = real_run(ctx, conn, [(real[0][0], mod_j)], {t: nm for nm, t in lst}, None)
            ctx.op("run " + enc_sources([(real[0][0], lst)]), r, case)
            bad = bad or raised
        if st.get("server_first"):  # a plain server start (default sources) before DBOS is switched on
            r, raised = real_run(ctx, conn, None, texts, None)
            ctx.op("runshipped", r, case)
            bad = bad or raised
        finals = []
        for _rep in range(2):
            if st.get("file"):  # a process start: connect / run / close, nothing committed by the caller, re-open
                conn.close()
                res = life_session(ctx, path, real, texts, stock=True)
                conn = sqlite3.connect(path, factory=Conn)
                r = ("ok " if res["status"] == "ok" else res["status"] + " ") + canon(conn) + f" pending={int(res['pending'])}"
                ctx.op("c28prodsession", r, case)
                raised = res["status"] != "ok"
            else:
                r, raised = real_run(ctx, conn, real, texts, None)
                ctx.op("c28prodrun", r, case)
            out.evaluations += 1
            finals.append((r, raised, raw_dump(conn)))
        if st.get("server_after"):  # the server's own default run afterwards must not disturb anything
            r, raised = real_run(ctx, conn, None, texts, None)
            ctx.op("runshipped", r, case)
            finals.append((r, raised, raw_dump(conn)))
        conn.close()
        (r1, raised1, d1) = finals[0]
        if raised1:
            if not bad:
                out.violations.append(Violation(f"C28/production_run_raises/{kind}", f"run_migrations(sources=_SQLITE_SOURCES) raised from start {st_brief(st)}: {r1[:200]}", case))
            continue
        out.nontrivial(("production", kind, r1.split(" pending=")[0]))
        key = (sorted(map(tuple, d1["user"])), d1["book"])
        if ref is None:
            ref = key
        elif key != ref:
            out.violations.append(Violation(f"C28/production_schema_differs/{kind}", f"final sqlite_master of the two-package run from start {st_brief(st)} differs from a fresh database's", case))
        for (p, _m), order in zip(real, orders):
            for _n, _t, v in order:
                cnt = sum(1 for row in d1["rows"] if row[0] == p and row[1] == v)
                if cnt != 1:
                    out.violations.append(Violation(f"C28/production_version_count/{kind}", f"version {p}:{v} recorded {cnt} times by the two-package run from start {st_brief(st)}", case))
                    break
        for (r2, raised2, d2) in finals[1:]:
            if raised2 or d2 != d1:
                out.violations.append(Violation(f"C28/production_second_run_changes/{kind}", f"a further run {'raised' if raised2 else 'changed the database'} after the two-package run (start {st_brief(st)})", case))
                break
    out.sample({"family": "production", "sources": real, "versions": [[v for _n, _t, v in o] for o in orders]}, cap=12)



def bare_run(ctx: Ctx, conn: sqlite3.Connection, sources: Any) -> tuple[str, bool]:
    try:
        if sources is None:
            ctx.migrate.run_migrations(conn)
        else:
            ctx.migrate.run_migrations(conn, sources=sources)
        conn.commit()
        return "ok " + canon(conn), False
    except Exception as e:  # noqa: BLE001
        conn.rollback()
        return f"raised {type(e).__name__} " + canon(conn), True


def unicode_tables() -> str:
    allc = "".join(map(chr, range(0x110000)))
    spaces = [ord(c) for c in re.findall(r"\s", allc)]
    digits = re.findall(r"\d", allc)
    zeros = [ord(c) for c in digits if int(c) == 0]
    ok = len(zeros) * 10 == len(digits) and all(int(chr(z + i)) == i for z in zeros for i in range(10))
    breaks = [cp for cp in range(0x110000) if len(("a" + chr(cp) + "b").splitlines()) == 2]
    return f"breaks={breaks} spaces={spaces} zeros={zeros if ok else 'irregular digit blocks'}".replace("'", "")


def gen_header_text(rng: random.Random) -> str:
    """first lines around the header grammar: mostly near-valid, mutated; some pure noise"""
    sp = [" ", " ", "\t", "", "  ", "\x1f", "\xa0", "\u3000", "\u2003", "\x0c", "\x1c", "\x85", "\n", "\r", "\x0b", "\u2028"]
    dg = ["1", "2", "7", "0", "12", "007", "\u0663", "\u0969", "\uff15", "4\u0665", "\U0001d7d8", "\u00b2", "\u2167", "", "-3", "x"]
    noise = ["-", "--", "---", "x ", "/* c */ ", "-- migration: ", "migration:", "-- Migration: 5 ", "#", ""]
    if rng.random() < 0.2:
        alphabet = ["-", "-", " ", "\t", "m", "migration:", "migration", ":", "1", "2", "0", "\n", "\x1f", "\x85", "\u00a0", "\u0663", "x", "--"]
        return "".join(rng.choice(alphabet) for _ in range(rng.randint(0, 14)))
    parts = [rng.choice(noise) if rng.random() < 0.4 else "", "--", rng.choice(sp) * rng.randint(0, 2), "migration:", rng.choice(sp) * rng.randint(0, 2),
             rng.choice(dg), rng.choice(["", "", " tail", "\n-- migration: 9", "9", " -- migration: 8", "\u0661"])]
    r = rng.random()
    if r < 0.35:
        i = rng.randrange(len(parts))
        m = rng.random()
        if m < 0.3:
            parts[i] = ""
        elif m < 0.6 and parts[i]:
            j = rng.randrange(len(parts[i]))
            parts[i] = parts[i][:j] + parts[i][j + 1:]
        elif m < 0.8:
            parts[i] = parts[i].upper()
        else:
            parts.insert(i, rng.choice(sp + ["\n", "x"]))
    return "".join(parts)


def run(env: Env) -> Outcome:
    out = Outcome()
    out.rule = ("family = migration directory (+ optional second package) x start states {fresh, legacy user_version=k, "
                "run of a prefix, legacy then prefix, injected failure then retry} x {:memory:, file}; each start: ops "
                "fresh/ddl/setuv/run*/run/run compared with the model; lifecycle starts: every run a process start "
                "(connect/run/close without commit) on a file, optionally all kill points of a run and a continuation from "
                "one of the files left: ops session*/durables/pick/session/session; non-trivial = a final run that "
                "succeeded; distinct by (start kind, final state)")
    ctx = Ctx(env, out)
    try:
        fams: list[dict] = []
        if env.replay is not None:
            case = env.replay["payload"].get("case") or {}
            if isinstance(case, dict) and "family" in case:
                fams.append(case["family"])
        fams.append(shipped_family())
        fams += corpus_families()
        rng = random.Random(env.rng.randrange(1 << 30))
        n = min(env.budget(50, 1500), 4000)  # (deep mode multiplies by 10: keep the widened search inside the time limit)
        for i in range(n):
            fams.append(gen_family(rng, wild=(i % 2 == 1), nstarts=3 if env.tier == "quick" else 4))
        # header parser on its own: random first lines
        ctx.op("classes", unicode_tables(), {"what": "unicode tables used by the header regex"})
        for _ in range(min(env.budget(1000, 20000), 60000)):
            t = gen_header_text(rng)
            pv = ctx.utils.parse_target_version(t)
            ctx.op("parse " + enc(t), "none" if pv is None else f"some {pv}", {"what": "parse", "text": t})
            out.count("header_fuzz:" + ("none" if pv is None else "version"))
            out.evaluations += 1
        for fam in fams:
            run_family(ctx, fam)
        run_production(ctx, rng, min(env.budget(12, 200), 600))
        try:
            model_out = Driver("migrate").run(ctx.ops)
        except Exception as e:  # model unavailable
            out.divergences.append(Divergence("migrate", 0, "<driver>", repr(e), ""))
            return out
        out.traces_validated = len(ctx.ops)
        out.disagreements_checked = len(ctx.ops)
        d = diff_streams("migrate", [o[:300] for o in ctx.ops], model_out, ctx.exp)
        if d is not None:
            c = ctx.ctxs[d.index] if d.index < len(ctx.ctxs) else None
            d.context = c
            d.model_out, d.impl_out = d.model_out[:1500], d.impl_out[:1500]
            out.divergences.append(d)
            if isinstance(c, dict) and "family" in c:
                # make the disagreement replayable as a case
                out.notes.append("first divergence at op %d (%s)" % (d.index, ctx.ops[d.index][:60]))
        return out
    finally:
        ctx.pkgs.close()
