"""Name-only import-surface shim for `sqlalchemy` (absent from the sandbox).

`llama_agents.dbos.runtime` imports `sqlalchemy.engine.URL` / `Engine` for type
annotations and reads `engine.dialect.name`, `engine.url.database` from the engine
DBOS hands it.  The stand-in `dbos` module (harness/dbos_standin) supplies an
object with exactly those attributes; no SQLAlchemy behaviour is relied upon.
"""
from . import engine  # noqa: F401
