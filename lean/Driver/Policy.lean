import WfModel.Policy
import Driver.Engine
/-! Line protocol for the retry-policy model: rationals are `p/q` tokens. -/
open Policy Drv.Engine

namespace Drv.Policy

def rat : P Rat := fun ts =>
  match ts with
  | t :: r =>
    match t.splitOn "/" with
    | [p, q] => match p.toInt?, q.toNat? with
      | some pi, some qn => if qn = 0 then none else some ((pi : Rat) / (qn : Rat), r)
      | _, _ => none
    | [p] => (p.toInt?).map (fun pi => ((pi : Rat), r))
    | _ => none
  | [] => none

def sRat (q : Rat) : String := s!"{q.num}/{q.den}"

def wleaf : P WLeaf := do
  match ← tok with
  | "fixed" => do let w ← rat; pure (.fixed w)
  | "exp" => do let m ← rat; let b ← rat; let mx ← rat; let mn ← rat; pure (.exponential m b mx mn)
  | "inc" => do
    let s ← rat; let i ← rat
    let mx ← (fun ts => match ts with | "inf" :: r => some (none, r) | _ => (rat ts).map (fun (q, r) => (some q, r)))
    pure (.incrementing s i mx)
  | "rand" => do let mn ← rat; let mx ← rat; pure (.random mn mx)
  | "jit" => do let i ← rat; let b ← rat; let mx ← rat; let j ← rat; pure (.expJitter i b mx j)
  | "rexp" => do let m ← rat; let b ← rat; let mx ← rat; let mn ← rat; pure (.randomExp m b mx mn)
  | _ => fun _ => none

def wspec : P WSpec := do
  match ← tok with
  | "WL" => do let l ← wleaf; pure (.leaf l)
  | "WC" => do let ls ← counted wleaf; pure (.chain ls)
  | "WS" => do let ls ← counted wleaf; pure (.combine ls)
  | _ => fun _ => none

def sleaf : P SLeaf := do
  match ← tok with
  | "att" => do let n ← rat; pure (.afterAttempt n)
  | "del" => do let d ← rat; pure (.afterDelay d)
  | "bef" => do let d ← rat; pure (.beforeDelay d)
  | "never" => pure .never
  | _ => fun _ => none

def sspec : P SSpec := do
  match ← tok with
  | "SL" => do let l ← sleaf; pure (.leaf l)
  | "SA" => do let ls ← counted sleaf; pure (.any ls)
  | "SB" => do let ls ← counted sleaf; pure (.all ls)
  | _ => fun _ => none

def cleaf : P CLeaf := do
  match ← tok with
  | "always" => pure .always
  | "never" => pure .never
  | "in" => do let ids ← counted nat; pure (.excIn ids)
  | "notin" => do let ids ← counted nat; pure (.excNotIn ids)
  | _ => fun _ => none

def cspec : P CSpec := do
  match ← tok with
  | "CN" => pure .none_
  | "CL" => do let l ← cleaf; pure (.leaf l)
  | "CA" => do let ls ← counted cleaf; pure (.any ls)
  | "CB" => do let ls ← counted cleaf; pure (.all ls)
  | _ => fun _ => none

def step (_ : Unit) (line : String) : Unit × String :=
  match tokens line with
  | "next" :: ts =>
    match (do let c ← cspec; let w ← wspec; let s ← sspec; let el ← rat; let k ← nat; let e ← nat; let u ← rat
              pure (({ retry := c, wait := w, stop := s } : PSpec), el, k, e, u)) ts with
    | some ((p, el, k, e, u), []) =>
      match p.eval.next el k e u with
      | some d => ((), "some " ++ sRat d)
      | none => ((), "none")
    | _ => ((), "bad-op")
  | "wait" :: ts =>
    match (do let w ← wspec; let k ← nat; let u ← rat; pure (w, k, u)) ts with
    | some ((w, k, u), []) => ((), sRat (w.eval k u))
    | _ => ((), "bad-op")
  | "stop" :: ts =>
    match (do let s ← sspec; let k ← nat; let el ← rat; let up ← rat; pure (s, k, el, up)) ts with
    | some ((s, k, el, up), []) => ((), sBool (s.eval k el up))
    | _ => ((), "bad-op")
  | "cond" :: ts =>
    match (do let c ← cspec; let e ← nat; pure (c, e)) ts with
    | some ((c, e), []) => ((), match c.eval with | some f => sBool (f e) | none => "none")
    | _ => ((), "bad-op")
  | _ => ((), "bad-op")

end Drv.Policy
