import WfModel.RpTree
import WfProofs.PolicyLemmas
/-! Helper lemmas for the nested part of C07 (trees of combinators, bounds of wait trees, `sum()`). -/
set_option linter.unusedVariables false
namespace Policy
open Gen.RP Gen.RPC

/-! ### lists of sub-trees -/

theorem WTree.evalList_eq_map (ls : List WTree) : WTree.evalList ls = ls.map WTree.eval := by
  induction ls with
  | nil => simp [WTree.evalList]
  | cons t ts ih => simp [WTree.evalList, ih]

theorem RSTree.evalList_eq_map (ls : List RSTree) : RSTree.evalList ls = ls.map RSTree.eval := by
  induction ls with
  | nil => simp [RSTree.evalList]
  | cons t ts ih => simp [RSTree.evalList, ih]

theorem RCTree.evalList_eq_map (ls : List RCTree) : RCTree.evalList ls = ls.map RCTree.eval := by
  induction ls with
  | nil => simp [RCTree.evalList]
  | cons t ts ih => simp [RCTree.evalList, ih]

theorem WTree.loList_eq_map (ls : List WTree) : WTree.loList ls = ls.map WTree.lo := by
  induction ls with
  | nil => simp [WTree.loList]
  | cons t ts ih => simp [WTree.loList, ih]

theorem WTree.hiList_eq_map (ls : List WTree) : WTree.hiList ls = ls.map WTree.hi := by
  induction ls with
  | nil => simp [WTree.hiList]
  | cons t ts ih => simp [WTree.hiList, ih]

theorem WTree.wfList_iff (ls : List WTree) : WTree.wfList ls = true ↔ ∀ t ∈ ls, t.wf = true := by
  induction ls with
  | nil => simp [WTree.wfList]
  | cons t ts ih => simp [WTree.wfList, ih]

theorem WTree.jitterFreeList_iff (ls : List WTree) : WTree.jitterFreeList ls = true ↔ ∀ t ∈ ls, t.jitterFree = true := by
  induction ls with
  | nil => simp [WTree.jitterFreeList]
  | cons t ts ih => simp [WTree.jitterFreeList, ih]

theorem RCTree.someHolds_iff (ls : List RCTree) (e : Nat) : RCTree.SomeHolds ls e ↔ ∃ t ∈ ls, t.Holds e := by
  induction ls with
  | nil => simp [RCTree.SomeHolds]
  | cons t ts ih => simp [RCTree.SomeHolds, ih]

theorem RCTree.everyHolds_iff (ls : List RCTree) (e : Nat) : RCTree.EveryHolds ls e ↔ ∀ t ∈ ls, t.Holds e := by
  induction ls with
  | nil => simp [RCTree.EveryHolds]
  | cons t ts ih => simp [RCTree.EveryHolds, ih]

theorem RSTree.someHolds_iff (ls : List RSTree) (a : Nat) (el up : Rat) :
    RSTree.SomeHolds ls a el up ↔ ∃ t ∈ ls, t.Holds a el up := by
  induction ls with
  | nil => simp [RSTree.SomeHolds]
  | cons t ts ih => simp [RSTree.SomeHolds, ih]

theorem RSTree.everyHolds_iff (ls : List RSTree) (a : Nat) (el up : Rat) :
    RSTree.EveryHolds ls a el up ↔ ∀ t ∈ ls, t.Holds a el up := by
  induction ls with
  | nil => simp [RSTree.EveryHolds]
  | cons t ts ih => simp [RSTree.EveryHolds, ih]

/-! ### trees of conditions are Boolean formulas -/

mutual
theorem RCTree.eval_iff_holds : ∀ (t : RCTree) (e : Nat), t.eval e = true ↔ t.Holds e
  | .leaf l, e => by simp [RCTree.eval, RCTree.Holds]
  | .any ls, e => by
    have ih := RCTree.evalList_iff_holds ls
    rw [RCTree.eval, RCTree.Holds, RCTree.someHolds_iff, RCTree.evalList_eq_map]
    simp only [retryAny, List.any_map, List.any_eq_true, Function.comp]
    constructor
    · rintro ⟨t, ht, h⟩; exact ⟨t, ht, (ih t ht e).1 h⟩
    · rintro ⟨t, ht, h⟩; exact ⟨t, ht, (ih t ht e).2 h⟩
  | .all ls, e => by
    have ih := RCTree.evalList_iff_holds ls
    rw [RCTree.eval, RCTree.Holds, RCTree.everyHolds_iff, RCTree.evalList_eq_map]
    simp only [retryAll, List.all_map, List.all_eq_true, Function.comp]
    constructor
    · intro h t ht; exact (ih t ht e).1 (h t ht)
    · intro h t ht; exact (ih t ht e).2 (h t ht)
theorem RCTree.evalList_iff_holds : ∀ (ls : List RCTree), ∀ t ∈ ls, ∀ e, t.eval e = true ↔ t.Holds e
  | [], _, h, _ => by simp at h
  | x :: xs, t, h, e => by
    cases List.mem_cons.1 h with
    | inl hx => rw [hx] at *; exact RCTree.eval_iff_holds x e
    | inr h' => exact RCTree.evalList_iff_holds xs t h' e
end

mutual
theorem RSTree.eval_iff_holds : ∀ (t : RSTree) (a : Nat) (el up : Rat), t.eval a el up = true ↔ t.Holds a el up
  | .leaf l, a, el, up => by simp [RSTree.eval, RSTree.Holds]
  | .any ls, a, el, up => by
    have ih := RSTree.evalList_iff_holds ls
    rw [RSTree.eval, RSTree.Holds, RSTree.someHolds_iff, RSTree.evalList_eq_map]
    simp only [stopAny, List.any_map, List.any_eq_true, Function.comp]
    constructor
    · rintro ⟨t, ht, h⟩; exact ⟨t, ht, (ih t ht a el up).1 h⟩
    · rintro ⟨t, ht, h⟩; exact ⟨t, ht, (ih t ht a el up).2 h⟩
  | .all ls, a, el, up => by
    have ih := RSTree.evalList_iff_holds ls
    rw [RSTree.eval, RSTree.Holds, RSTree.everyHolds_iff, RSTree.evalList_eq_map]
    simp only [stopAll, List.all_map, List.all_eq_true, Function.comp]
    constructor
    · intro h t ht; exact (ih t ht a el up).1 (h t ht)
    · intro h t ht; exact (ih t ht a el up).2 (h t ht)
theorem RSTree.evalList_iff_holds : ∀ (ls : List RSTree), ∀ t ∈ ls, ∀ a el up, t.eval a el up = true ↔ t.Holds a el up
  | [], _, h, _, _, _ => by simp at h
  | x :: xs, t, h, a, el, up => by
    cases List.mem_cons.1 h with
    | inl hx => rw [hx] at *; exact RSTree.eval_iff_holds x a el up
    | inr h' => exact RSTree.evalList_iff_holds xs t h' a el up
end

/-! ### sums -/

theorem c07_foldl_add (l : List Rat) (x : Rat) : l.foldl (· + ·) x = x + l.foldl (· + ·) 0 := by
  induction l generalizing x with
  | nil => simp only [List.foldl_nil]; grind
  | cons a as ih => simp only [List.foldl_cons]; rw [ih (x + a), ih (0 + a)]; grind

theorem ratSum_nil : ratSum [] = 0 := rfl

theorem ratSum_cons (x : Rat) (l : List Rat) : ratSum (x :: l) = x + ratSum l := by
  unfold ratSum; simp only [List.foldl_cons]; rw [c07_foldl_add]; grind

theorem ratSum_append (l₁ l₂ : List Rat) : ratSum (l₁ ++ l₂) = ratSum l₁ + ratSum l₂ := by
  induction l₁ with
  | nil => simp only [List.nil_append, ratSum_nil]; grind
  | cons x xs ih => simp only [List.cons_append, ratSum_cons, ih]; grind

theorem ratSum_perm {l₁ l₂ : List Rat} (h : l₁.Perm l₂) : ratSum l₁ = ratSum l₂ := by
  induction h with
  | nil => rfl
  | cons x _ ih => simp only [ratSum_cons, ih]
  | swap x y l => simp only [ratSum_cons]; grind
  | trans _ _ ih₁ ih₂ => exact ih₁.trans ih₂

theorem ratSum_map_le {α : Type} (l : List α) (f g : α → Rat) (h : ∀ x ∈ l, f x ≤ g x) :
    ratSum (l.map f) ≤ ratSum (l.map g) := by
  induction l with
  | nil => simp only [List.map_nil, ratSum_nil]; grind
  | cons x xs ih =>
    simp only [List.map_cons, ratSum_cons]
    have h1 := h x (by simp)
    have h2 := ih (fun y hy => h y (by simp [hy]))
    grind

theorem ratSum_map_nonneg {α : Type} (l : List α) (f : α → Rat) (h : ∀ x ∈ l, 0 ≤ f x) : 0 ≤ ratSum (l.map f) := by
  induction l with
  | nil => simp only [List.map_nil, ratSum_nil]; grind
  | cons x xs ih =>
    simp only [List.map_cons, ratSum_cons]
    have h1 := h x (by simp)
    have h2 := ih (fun y hy => h y (by simp [hy]))
    grind

theorem waitCombine_eq_ratSum (fs : List Wait) (a : Nat) (u : Rat) :
    waitCombine fs a u = ratSum (fs.map (fun f => f a u)) := rfl

/-! ### bounds -/

theorem c07_leaf_bounds (l : WLeaf) (a : Nat) (u : Rat) (hw : l.wf = true) (h0 : 0 ≤ u) (h1 : u ≤ 1) :
    0 ≤ l.lo ∧ l.lo ≤ l.eval a u ∧ l.eval a u ≤ l.hi a := by
  cases l with
  | fixed w =>
    simp only [WLeaf.wf, decide_eq_true_eq] at hw
    simp only [WLeaf.lo, WLeaf.hi, WLeaf.eval, waitFixed]; grind
  | exponential m b mx mn =>
    have := capped_le m b a mx
    simp only [WLeaf.lo, WLeaf.hi, WLeaf.eval, waitExponential]; grind
  | incrementing s i mx =>
    cases mx with
    | some mx =>
      simp only [WLeaf.wf, decide_eq_true_eq] at hw
      simp only [WLeaf.lo, WLeaf.hi, WLeaf.eval, waitIncrementing]; grind
    | none =>
      simp only [WLeaf.lo, WLeaf.hi, WLeaf.eval, waitIncrementing]; grind
  | random mn mx =>
    simp only [WLeaf.wf, Bool.and_eq_true, decide_eq_true_eq] at hw
    have := uniform_bounds mn mx u hw.2 h0 h1
    simp only [WLeaf.lo, WLeaf.hi, WLeaf.eval, waitRandom]; grind
  | expJitter i b mx j =>
    simp only [WLeaf.wf, Bool.and_eq_true, decide_eq_true_eq] at hw
    have hc := capped_nonneg i b a mx hw.1.1.1 hw.1.1.2 hw.1.2
    have hu := (uniform_bounds 0 j u hw.2 h0 h1).1
    simp only [WLeaf.lo, WLeaf.hi, WLeaf.eval, waitExponentialJitter]; grind
  | randomExp m b mx mn =>
    simp only [WLeaf.wf, decide_eq_true_eq] at hw
    have hc := capped_le m b a mx
    have hle : mn ≤ max (max 0 mn) (cappedExponential m b a mx) := by grind
    have := uniform_bounds mn (max (max 0 mn) (cappedExponential m b a mx)) u hle h0 h1
    simp only [WLeaf.lo, WLeaf.hi, WLeaf.eval, waitRandomExponential]; grind

theorem chainPick_map {α β : Type} (f : α → β) (l : List α) (a : Nat) :
    chainPick (l.map f) a = (chainPick l a).map f := by
  simp [chainPick]

theorem chainPick_mem {α : Type} (l : List α) (a : Nat) (x : α) (h : chainPick l a = some x) : x ∈ l := by
  unfold chainPick at h
  exact List.mem_of_getElem? h

theorem chainPick_isSome {α : Type} (l : List α) (a : Nat) (h : l ≠ []) : ∃ x, chainPick l a = some x := by
  unfold chainPick
  have : 0 < l.length := List.length_pos_iff.mpr h
  have hlt : min a (l.length - 1) < l.length := by omega
  exact ⟨_, List.getElem?_eq_getElem hlt⟩

theorem waitChain_eq_pick (l : List Wait) (a : Nat) (u : Rat) :
    waitChain l a u = match chainPick l a with | some f => f a u | none => 0 := rfl

mutual
theorem WTree.bounds : ∀ (t : WTree) (a : Nat) (u : Rat), t.wf = true → 0 ≤ u → u ≤ 1 →
    0 ≤ t.lo a ∧ t.lo a ≤ t.eval a u ∧ t.eval a u ≤ t.hi a
  | .leaf l, a, u, hw, h0, h1 => by
    simpa [WTree.lo, WTree.hi, WTree.eval] using c07_leaf_bounds l a u (by simpa [WTree.wf] using hw) h0 h1
  | .chain ls, a, u, hw, h0, h1 => by
    have ih := WTree.boundsList ls
    simp only [WTree.wf, Bool.and_eq_true, Bool.not_eq_true', List.isEmpty_eq_false_iff] at hw
    have hall := (WTree.wfList_iff ls).1 hw.2
    obtain ⟨t, ht⟩ := chainPick_isSome ls a hw.1
    have hmem := chainPick_mem ls a t ht
    have hb := ih t hmem a u (hall t hmem) h0 h1
    simp only [WTree.lo, WTree.hi, WTree.eval, waitChain_eq_pick, WTree.loList_eq_map, WTree.hiList_eq_map,
      WTree.evalList_eq_map, chainPick_map, ht, Option.map_some]
    exact hb
  | .combine ls, a, u, hw, h0, h1 => by
    have ih := WTree.boundsList ls
    have hall := (WTree.wfList_iff ls).1 (by simpa [WTree.wf] using hw)
    simp only [WTree.lo, WTree.hi, WTree.eval, waitCombine_eq_ratSum, WTree.loList_eq_map, WTree.hiList_eq_map,
      WTree.evalList_eq_map, List.map_map, Function.comp_def]
    refine ⟨ratSum_map_nonneg ls _ (fun t ht => (ih t ht a u (hall t ht) h0 h1).1),
      ratSum_map_le ls _ _ (fun t ht => (ih t ht a u (hall t ht) h0 h1).2.1),
      ratSum_map_le ls _ _ (fun t ht => (ih t ht a u (hall t ht) h0 h1).2.2)⟩
theorem WTree.boundsList : ∀ (ls : List WTree), ∀ t ∈ ls, ∀ (a : Nat) (u : Rat), t.wf = true → 0 ≤ u → u ≤ 1 →
    0 ≤ t.lo a ∧ t.lo a ≤ t.eval a u ∧ t.eval a u ≤ t.hi a
  | [], _, h, _, _, _, _, _ => by simp at h
  | x :: xs, t, h, a, u, hw, h0, h1 => by
    cases List.mem_cons.1 h with
    | inl hx => rw [hx] at hw ⊢; exact WTree.bounds x a u hw h0 h1
    | inr h' => exact WTree.boundsList xs t h' a u hw h0 h1
end

/-! ### jitter-free trees ignore the draw -/

theorem c07_leaf_jitterFree (l : WLeaf) (a : Nat) (u u' : Rat) (h : l.jitterFree = true) : l.eval a u = l.eval a u' := by
  cases l with
  | fixed w => rfl
  | exponential m b mx mn => rfl
  | incrementing s i mx => cases mx <;> rfl
  | random mn mx => simp [WLeaf.jitterFree] at h
  | expJitter i b mx j => simp [WLeaf.jitterFree] at h
  | randomExp m b mx mn => simp [WLeaf.jitterFree] at h

mutual
theorem WTree.jitterFree_eval : ∀ (t : WTree) (a : Nat) (u u' : Rat), t.jitterFree = true → t.eval a u = t.eval a u'
  | .leaf l, a, u, u', h => by
    simpa [WTree.eval] using c07_leaf_jitterFree l a u u' (by simpa [WTree.jitterFree] using h)
  | .chain ls, a, u, u', h => by
    have ih := WTree.jitterFree_evalList ls
    have hall := (WTree.jitterFreeList_iff ls).1 (by simpa [WTree.jitterFree] using h)
    simp only [WTree.eval, waitChain_eq_pick, WTree.evalList_eq_map, chainPick_map]
    cases hp : chainPick ls a with
    | none => rfl
    | some t =>
      have hmem := chainPick_mem ls a t hp
      simpa using ih t hmem a u u' (hall t hmem)
  | .combine ls, a, u, u', h => by
    have ih := WTree.jitterFree_evalList ls
    have hall := (WTree.jitterFreeList_iff ls).1 (by simpa [WTree.jitterFree] using h)
    simp only [WTree.eval, waitCombine_eq_ratSum, WTree.evalList_eq_map, List.map_map, Function.comp_def]
    congr 1
    exact List.map_congr_left (fun t ht => ih t ht a u u' (hall t ht))
theorem WTree.jitterFree_evalList : ∀ (ls : List WTree), ∀ t ∈ ls, ∀ (a : Nat) (u u' : Rat),
    t.jitterFree = true → t.eval a u = t.eval a u'
  | [], _, h, _, _, _, _ => by simp at h
  | x :: xs, t, h, a, u, u', hj => by
    cases List.mem_cons.1 h with
    | inl hx => rw [hx] at hj ⊢; exact WTree.jitterFree_eval x a u u' hj
    | inr h' => exact WTree.jitterFree_evalList xs t h' a u u' hj
end

end Policy
