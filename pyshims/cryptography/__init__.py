"""STAND-IN for the `cryptography` package (absent from the sandbox; cannot be installed).

THIS IS NOT AES-GCM AND NOT A REAL PBKDF2.  It implements only the *interface*
that `llama_agents/control_plane/backup/encryption.py` imports:

  cryptography.exceptions.InvalidTag
  cryptography.hazmat.primitives.hashes.SHA256
  cryptography.hazmat.primitives.ciphers.aead.AESGCM(key).encrypt/decrypt(nonce, data, aad)
  cryptography.hazmat.primitives.kdf.pbkdf2.PBKDF2HMAC(algorithm, length, salt, iterations).derive(pw)

with an HMAC-SHA256-authenticated SHA-256 counter-mode stream built from
`hashlib`/`hmac` (see `_standin.py`).  It exists so that the *framing* code of
encryption.py (salt/nonce sizes, header slicing, minimum-length check, error
mapping) and archive.py's use of it can be executed by the verification harness
(property C33).  The cipher itself is trusted, not verified; see DESIGN.md
section 8 and the TRUSTED_EXTRA / ASSUMPTIONS of harness/props/c33.py.
"""
STANDIN = True
