"""C11 — replaying the recorded tick log reproduces the live run state."""
from __future__ import annotations

from ..engine import monitors, suite
from ..runner import Env, Outcome

THEOREMS = ["C11_replay_invariant", "C11_rebuilt_wellformed", "C11_log_grows_only_by_drain"]
LEAN_TARGETS = ["WfProps.C11"]
EXPLANATION = (
    "Runner LTS: at every point of every run (any schedule, results, external ticks) the live reducer state equals "
    "the replay of the logged (tick, time) pairs from the rewound initial state; the log grows by exactly the processed "
    "tick in drain and by nothing else; the rebuilt state satisfies the slot invariant. Tie: runner correspondence. "
    "Search (this is where the real rebuild_state_from_ticks, which replays with the *current* clock, is exercised): "
    "after every tick of every generated run the state rebuilt by the real function from the adapter's tick log is "
    "compared with the live state, timestamps erased; ctx.to_dict() snapshots are compared with the live state."
)
ASSUMPTIONS = suite.ENGINE_ASSUMPTIONS + [
    "replay with a different clock equals the live state only 'timestamps aside' and only for policies that do not depend on elapsed time: "
    "stated as C11_time_erasure_statement, not proved; generated policies are attempt-based",
]


def run(env: Env) -> Outcome:
    out = Outcome()
    out.rule = ("live scripted workflows incl. snapshots; after every processed tick the real rebuild_state_from_ticks is compared with the live state; "
                "non-trivial = more than 2 ticks; distinct by (spec, schedule)")
    suite.direct_corr(env, out, env.budget(1500, 30000))
    suite.live_runs(env, out, env.budget(250, 5000), [monitors.mon_c11], extra_specs=suite.load_corpus("C11"))

    def many_snapshots(spec: dict, rng) -> dict:
        # several ctx.to_dict() calls on one live handler, at different quiet points (work in flight in between)
        for st in spec["steps"]:
            if (st.get("retry") or {}).get("kind") == "delay":
                # elapsed-time policies are outside the stated guard (replay runs on a later clock)
                st["retry"] = {"kind": "attempts", "n": 3, "wait": st["retry"].get("wait", 0)}
        for _ in range(rng.randint(2, 4)):
            spec.setdefault("externals", []).append({"op": "snapshot", "after_quiet": rng.randint(0, 6)})
        return spec

    suite.live_runs(env, out, env.budget(120, 2400), [monitors.mon_c11], gen_kwargs={"family": "fanin"}, mutate_spec=many_snapshots)
    suite.live_runs(env, out, env.budget(80, 1600), [monitors.mon_c11], gen_kwargs={"family": "retry"}, mutate_spec=many_snapshots)
    return out
