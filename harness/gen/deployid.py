"""Control shape of find_deployment_id / _append_random_suffix / create_deployment's id choice
-> lean/WfModel/GenDeployId.lean.

Complements `translate.gen_c32` (constants, regexes, alphabets -> `Gen.C32`): here the retry
loop's bounds, the truncation arithmetic, the tests that pick a branch, the reserved-id table
and the way `create_deployment` computes `force_suffix` are re-read from /repo's current
`k8s_client.py` on every run.  `WfModel/DeployId.lean` computes with `loopStart`, `loopStop`
and `reservedIds`; `C32_source_shape_control` pins the rest.
"""
from __future__ import annotations

import ast

from ..boot import repo_path

LEAN_MODULE = "GenDeployId"
SRC = "packages/llama-agents-control-plane/src/llama_agents/control_plane/k8s_client.py"
MISSING = "<missing>"


def _lean_str(s: str) -> str:
    out = ['"']
    for ch in s:
        if ch == '"':
            out.append('\\"')
        elif ch == "\\":
            out.append("\\\\")
        elif ch == "\n":
            out.append("\\n")
        elif ch == "\t":
            out.append("\\t")
        elif 32 <= ord(ch) < 127:
            out.append(ch)
        else:
            out.append("\\u{%x}" % ord(ch))
    out.append('"')
    return "".join(out)


def _fn(tree: ast.AST, name: str):
    for n in ast.walk(tree):
        if isinstance(n, (ast.FunctionDef, ast.AsyncFunctionDef)) and n.name == name:
            return n
    return None


def _int(n: ast.AST):
    if isinstance(n, ast.Constant) and isinstance(n.value, int) and not isinstance(n.value, bool) and n.value >= 0:
        return n.value
    return None


class _Norm(ast.NodeTransformer):
    """Make an extracted expression independent of how locals are spelt: parameters become
    p0, p1, … (by position), locals assigned exactly once to an integer literal become that
    literal, other locals become v0, v1, … in order of first occurrence in the expression.
    Globals, attribute names and literals stay."""

    def __init__(self, fn: ast.AST):
        args = fn.args  # type: ignore[attr-defined]
        self.params = {a.arg: f"p{i}" for i, a in enumerate(args.posonlyargs + args.args + args.kwonlyargs)}
        assigned: dict[str, list] = {}
        for n in ast.walk(fn):
            tgts = []
            if isinstance(n, ast.Assign):
                tgts = [(t, n.value) for t in n.targets]
            elif isinstance(n, (ast.AnnAssign, ast.AugAssign)):
                tgts = [(n.target, n.value)]
            elif isinstance(n, (ast.For, ast.AsyncFor)):
                tgts = [(n.target, None)]
            for t, v in tgts:
                for x in ast.walk(t):
                    if isinstance(x, ast.Name):
                        assigned.setdefault(x.id, []).append(v)
        self.consts = {k: v[0].value for k, v in assigned.items()
                       if len(v) == 1 and isinstance(v[0], ast.Constant) and isinstance(v[0].value, int)
                       and not isinstance(v[0].value, bool) and k not in self.params}
        self.locals = set(assigned) - set(self.consts) - set(self.params)
        self.seen: dict[str, str] = {}

    def visit_Name(self, node: ast.Name):  # noqa: N802
        if node.id in self.params:
            return ast.copy_location(ast.Name(id=self.params[node.id], ctx=node.ctx), node)
        if node.id in self.consts:
            return ast.copy_location(ast.Constant(value=self.consts[node.id]), node)
        if node.id in self.locals:
            if node.id not in self.seen:
                self.seen[node.id] = f"v{len(self.seen)}"
            return ast.copy_location(ast.Name(id=self.seen[node.id], ctx=node.ctx), node)
        return node


def _show(node: ast.AST, fn: ast.AST) -> str:
    import copy
    t = _Norm(fn).visit(copy.deepcopy(node))
    return " ".join(ast.unparse(ast.fix_missing_locations(t)).split())


def _show_stmts(stmts: list, fn: ast.AST) -> str:
    import copy
    nm = _Norm(fn)  # one numbering across the statements
    return " ; ".join(" ".join(ast.unparse(ast.fix_missing_locations(nm.visit(copy.deepcopy(st)))).split()) for st in stmts)


def extract(notes: list[str]) -> dict:
    res: dict = {
        "loopStart": 0, "loopStop": 0, "loopArgs": 0, "loopHasElse": True, "loopBody": MISSING,
        "toTake": MISSING, "suffixFormat": MISSING, "truncate": MISSING, "prefixTest": MISSING,
        "suffixTest": MISSING, "emptyTest": MISSING, "digitTest": MISSING, "digitFix": MISSING,
        "choicesK": MISSING, "lowerExpr": MISSING, "reservedIds": [MISSING], "forceExpr": MISSING,
        "forceCall": MISSING, "raiseAfterLoop": False, "baseIsTruncated": False, "retryUsesBase": False,
    }
    try:
        tree = ast.parse(open(repo_path(SRC)).read())
    except (OSError, SyntaxError) as e:
        notes.append(f"gen/deployid: cannot parse {SRC}: {e!r}")
        return res
    find = _fn(tree, "find_deployment_id")
    suf = _fn(tree, "_append_random_suffix")
    create = _fn(tree, "create_deployment")
    if find is None or suf is None:
        notes.append("gen/deployid: find_deployment_id/_append_random_suffix not found")
        return res
    # ---- the retry loop: `for i in range(a, b): if await validate(id): return id; id = suffix(base)`
    loops = [n for n in ast.walk(find) if isinstance(n, (ast.For, ast.AsyncFor, ast.While))]
    if len(loops) == 1 and isinstance(loops[0], ast.For):
        lp = loops[0]
        it = lp.iter
        if isinstance(it, ast.Call) and isinstance(it.func, ast.Name) and it.func.id == "range" and not it.keywords:
            res["loopArgs"] = len(it.args)
            if len(it.args) == 2 and _int(it.args[0]) is not None and _int(it.args[1]) is not None:
                res["loopStart"], res["loopStop"] = _int(it.args[0]), _int(it.args[1])
            elif len(it.args) == 1 and _int(it.args[0]) is not None:
                res["loopStart"], res["loopStop"] = 0, _int(it.args[0])
            else:
                notes.append("gen/deployid: range() bounds of the retry loop are not integer literals")
        else:
            notes.append("gen/deployid: the retry loop does not iterate over range(...)")
        res["loopHasElse"] = bool(lp.orelse)
        res["loopBody"] = _show_stmts(lp.body, find)
        # what follows the loop
        idx = find.body.index(lp) if lp in find.body else -1
        after = find.body[idx + 1:] if idx >= 0 else []
        res["raiseAfterLoop"] = len(after) == 1 and isinstance(after[0], ast.Raise)
    else:
        notes.append(f"gen/deployid: expected exactly one for-loop in find_deployment_id, found {len(loops)}")
    # ---- statements of find_deployment_id outside the loop
    for n in ast.walk(find):
        if isinstance(n, ast.Assign) and len(n.targets) == 1 and isinstance(n.targets[0], ast.Name):
            tgt, val = n.targets[0].id, n.value
            if isinstance(val, ast.Call) and isinstance(val.func, ast.Attribute) and val.func.attr == "rstrip":
                res["truncate"] = _show(val, find)
            if isinstance(val, ast.Call) and isinstance(val.func, ast.Attribute) and val.func.attr == "lower" and res["lowerExpr"] == MISSING:
                res["lowerExpr"] = _show(val, find)
        if isinstance(n, ast.If):
            has_prefix = any(isinstance(x, ast.BinOp) and isinstance(x.op, ast.Add) and isinstance(x.left, ast.Constant)
                             and isinstance(x.left.value, str) for b in n.body for x in ast.walk(b))
            if has_prefix:
                res["prefixTest"] = _show(n.test, find)
            calls_suffix = any(isinstance(x, ast.Call) and isinstance(x.func, ast.Name) and x.func.id == "_append_random_suffix"
                               for b in n.body for x in ast.walk(b))
            if calls_suffix and not isinstance(n.test, ast.Await):
                res["suffixTest"] = _show(n.test, find)
    # ---- the id the retries re-suffix is the truncated, stripped one: `base = id` directly after `id = id[:max].rstrip(..)`
    for i, st in enumerate(find.body[:-1]):
        nxt = find.body[i + 1]
        if isinstance(st, ast.Assign) and len(st.targets) == 1 and isinstance(st.targets[0], ast.Name) \
                and isinstance(st.value, ast.Call) and isinstance(st.value.func, ast.Attribute) and st.value.func.attr == "rstrip" \
                and isinstance(nxt, ast.Assign) and len(nxt.targets) == 1 and isinstance(nxt.targets[0], ast.Name) \
                and isinstance(nxt.value, ast.Name) and nxt.value.id == st.targets[0].id:
            base_name = nxt.targets[0].id
            writes = [n for n in ast.walk(find) if isinstance(n, ast.Name) and n.id == base_name and isinstance(n.ctx, ast.Store)]
            res["baseIsTruncated"] = len(writes) == 1
            if len(loops) == 1:
                res["retryUsesBase"] = any(
                    isinstance(x, ast.Call) and isinstance(x.func, ast.Name) and x.func.id == "_append_random_suffix"
                    and x.args and isinstance(x.args[0], ast.Name) and x.args[0].id == base_name
                    for b in loops[0].body for x in ast.walk(b))
    # ---- _append_random_suffix
    for n in ast.walk(suf):
        if isinstance(n, ast.Return) and isinstance(n.value, ast.JoinedStr):
            res["suffixFormat"] = _show(n.value, suf)
            # the bound of the slice inside the f-string, resolved to the expression it was assigned
            bounds = [x.slice.upper for x in ast.walk(n.value) if isinstance(x, ast.Subscript) and isinstance(x.slice, ast.Slice)
                      and x.slice.lower is None and x.slice.upper is not None]
            if len(bounds) == 1:
                b = bounds[0]
                if isinstance(b, ast.Name):
                    defs = [m.value for m in ast.walk(suf) if isinstance(m, ast.Assign) and len(m.targets) == 1
                            and isinstance(m.targets[0], ast.Name) and m.targets[0].id == b.id]
                    if len(defs) == 1:
                        res["toTake"] = _show(defs[0], suf)
                else:
                    res["toTake"] = _show(b, suf)
        if isinstance(n, ast.Call) and isinstance(n.func, ast.Attribute) and n.func.attr == "choices":
            ks = [k for k in n.keywords if k.arg == "k"]
            res["choicesK"] = _show(ks[0].value, suf) if ks else MISSING
        if isinstance(n, ast.If):
            inner = [x for x in n.body if isinstance(x, ast.If)]
            if inner:  # outer `if not deployment_id:` with the digit test nested
                res["emptyTest"] = _show(n.test, suf)
                res["digitTest"] = _show(inner[0].test, suf)
                if len(inner[0].body) == 1 and isinstance(inner[0].body[0], ast.Assign):
                    res["digitFix"] = _show(inner[0].body[0].value, suf)
    # ---- reserved ids and how create_deployment asks for a suffix
    for n in tree.body:
        if isinstance(n, ast.Assign) and len(n.targets) == 1 and isinstance(n.targets[0], ast.Name) \
                and n.targets[0].id == "reserved_deployment_ids":
            if isinstance(n.value, (ast.List, ast.Tuple, ast.Set)) and all(
                    isinstance(e, ast.Constant) and isinstance(e.value, str) for e in n.value.elts):
                res["reservedIds"] = [e.value for e in n.value.elts]
            else:
                notes.append("gen/deployid: reserved_deployment_ids is not a literal list of strings")
    if res["reservedIds"] == [MISSING]:
        notes.append("gen/deployid: reserved_deployment_ids not found")
    if create is not None:
        calls = [n for n in ast.walk(create) if isinstance(n, ast.Call) and isinstance(n.func, ast.Name)
                 and n.func.id == "find_deployment_id"]
        if len(calls) == 1:
            c = calls[0]
            res["forceCall"] = _show(c, create)
            kw = [k for k in c.keywords if k.arg == "force_suffix"]
            val = kw[0].value if kw else (c.args[1] if len(c.args) > 1 else None)
            if isinstance(val, ast.Name):
                for m in ast.walk(create):
                    if isinstance(m, ast.Assign) and len(m.targets) == 1 and isinstance(m.targets[0], ast.Name) \
                            and m.targets[0].id == val.id:
                        val = m.value
                        break
            if val is not None:
                res["forceExpr"] = _show(val, create)
        else:
            notes.append(f"gen/deployid: expected one find_deployment_id call in create_deployment, found {len(calls)}")
    else:
        notes.append("gen/deployid: create_deployment not found")
    return res


SCHEMA = "packages/llama-agents-core/src/llama_agents/core/schema/deployments.py"

RX_TYPE = [
    "/-- the part of Python's regular-expression syntax the label pattern uses, as `re._parser` parses it -/",
    "inductive Rx where",
    "  | cls (ranges : List (Nat × Nat))   -- `[...]`: ranges of code points (a literal is a one-point range)",
    "  | eps",
    "  | seq (a b : Rx)",
    "  | rep (lo hi : Nat) (a : Rx)        -- `{lo,hi}`, `?`",
    "  | unsupported",
]


def _rx(items: list, notes: list[str]) -> str:
    """Python's own parse of the pattern (`re._parser`) -> a Lean term of type Rx."""
    import re as _re
    C = _re._constants  # type: ignore[attr-defined]

    def one(op, av) -> str:
        if op is C.IN:
            rs = []
            for o, a in av:
                if o is C.RANGE:
                    rs.append(f"({a[0]}, {a[1]})")
                elif o is C.LITERAL:
                    rs.append(f"({a}, {a})")
                else:
                    notes.append(f"gen/deployid: unsupported item {o} in a character class of _DNS_1035_RE")
                    return ".unsupported"
            return f"(.cls [{', '.join(rs)}])"
        if op is C.LITERAL:
            return f"(.cls [({av}, {av})])"
        if op is C.MAX_REPEAT:
            lo, hi, sub = av
            if hi is C.MAXREPEAT:
                notes.append("gen/deployid: unbounded repetition in _DNS_1035_RE")
                return ".unsupported"
            return f"(.rep {lo} {hi} {_rx(list(sub), notes)})"
        if op is C.SUBPATTERN:
            _group, add_flags, del_flags, sub = av
            if add_flags or del_flags:
                notes.append("gen/deployid: inline flags in _DNS_1035_RE")
                return ".unsupported"
            return _rx(list(sub), notes)
        notes.append(f"gen/deployid: unsupported construct {op} in _DNS_1035_RE")
        return ".unsupported"

    if not items:
        return ".eps"
    terms = [one(op, av) for op, av in items]
    acc = terms[-1]
    for t in reversed(terms[:-1]):
        acc = f"(.seq {t} {acc})"
    return acc


def extract_regex(notes: list[str]) -> dict:
    import re as _re
    res = {"anchStart": False, "anchEnd": False, "flags": 999, "rx": ".unsupported", "method": MISSING}
    try:
        tree = ast.parse(open(repo_path(SCHEMA)).read())
    except (OSError, SyntaxError) as e:
        notes.append(f"gen/deployid: cannot parse {SCHEMA}: {e!r}")
        return res
    pat = None
    nflagargs = 0
    for n in ast.walk(tree):
        if isinstance(n, ast.Assign) and len(n.targets) == 1 and isinstance(n.targets[0], ast.Name) and n.targets[0].id == "_DNS_1035_RE":
            v = n.value
            if isinstance(v, ast.Call) and v.args and isinstance(v.args[0], ast.Constant) and isinstance(v.args[0].value, str):
                pat = v.args[0].value
                nflagargs = len(v.args) - 1 + len(v.keywords)
    fn = _fn(tree, "validate_dns_1035_label")
    if fn is not None:
        for n in ast.walk(fn):
            if isinstance(n, ast.Call) and isinstance(n.func, ast.Attribute) and isinstance(n.func.value, ast.Name) \
                    and n.func.value.id == "_DNS_1035_RE":
                res["method"] = n.func.attr
    if pat is None:
        notes.append("gen/deployid: _DNS_1035_RE = re.compile(<literal>) not found")
        return res
    C = _re._constants  # type: ignore[attr-defined]
    try:
        parsed = _re._parser.parse(pat)  # type: ignore[attr-defined]
    except Exception as e:  # noqa: BLE001
        notes.append(f"gen/deployid: _DNS_1035_RE does not parse: {e!r}")
        return res
    items = list(parsed)
    if items and items[0] == (C.AT, C.AT_BEGINNING):
        res["anchStart"] = True
        items = items[1:]
    if items and items[-1] == (C.AT, C.AT_END):
        res["anchEnd"] = True
        items = items[:-1]
    # flags that change what the pattern means (IGNORECASE, MULTILINE, DOTALL, VERBOSE, ASCII, LOCALE); UNICODE is the default
    res["flags"] = (parsed.state.flags & ~_re.UNICODE.value) + 1000 * nflagargs
    res["rx"] = _rx(items, notes)
    return res


def generate(notes: list[str]) -> list[str]:
    r = extract(notes)
    x = extract_regex(notes)
    L = ["namespace Gen.DeployId"]
    L += RX_TYPE
    L.append(f"def dnsRx : Rx := {x['rx']}")
    L.append(f"def dnsAnchoredStart : Bool := {'true' if x['anchStart'] else 'false'}")
    L.append(f"def dnsAnchoredEnd : Bool := {'true' if x['anchEnd'] else 'false'}")
    L.append(f"def dnsFlags : Nat := {x['flags']}")
    L.append(f"def dnsMethod : String := {_lean_str(x['method'])}")
    L.append(f"def loopStart : Nat := {r['loopStart']}")
    L.append(f"def loopStop : Nat := {r['loopStop']}")
    L.append(f"def loopArgs : Nat := {r['loopArgs']}")
    L.append(f"def loopHasElse : Bool := {'true' if r['loopHasElse'] else 'false'}")
    L.append(f"def raiseAfterLoop : Bool := {'true' if r['raiseAfterLoop'] else 'false'}")
    L.append(f"def baseIsTruncated : Bool := {'true' if r['baseIsTruncated'] else 'false'}")
    L.append(f"def retryUsesBase : Bool := {'true' if r['retryUsesBase'] else 'false'}")
    for k in ("loopBody", "toTake", "suffixFormat", "truncate", "prefixTest", "suffixTest", "emptyTest", "digitTest",
              "digitFix", "choicesK", "lowerExpr", "forceExpr", "forceCall"):
        L.append(f"def {k} : String := {_lean_str(r[k])}")
    L.append("def reservedIds : List String := [" + ", ".join(_lean_str(x) for x in r["reservedIds"]) + "]")
    L.append("end Gen.DeployId")
    return L
