import WfModel.Archive
import WfModel.ArchiveClean
import Driver.Util
open Archive Drv

/-! Line protocol for the backup-archive model (`wfdriver archive`), instantiated with the
ideal AEAD (`idealAead`, length-exact) and the token codec (`tokenCodec`).

* `dns|<name>`                         → `true` / `false`
* `classify|<name>`                    → `ignored` | `<cat> <deploy name>`
* `enc|<pw>|<salt>|<nonce>|<m>`        → blob
* `dec|<pw>|<blob>`                    → `ok <m>` | `err <kind>`
* `write|<pw?>|<rnd>|<ts>|<ns>|<gens?>|<secrets>|<deps>` → members
* `read|<pw?>|<members>`               → `ok v=.. ts=.. ns=.. n=.. enc=.. entries=..` | `err <kind>`
* `clean|crd|<top>|<meta?>|<anns?>` / `clean|secret|…` → `<top>|<meta?>|<anns?>` (`clean_crd_metadata` /
  `clean_secret_metadata`; `top`, `meta`, `anns` = `key:tok;…`, keys as code points, `meta` = the metadata keys
  other than the annotations key, `-` = key absent)

Lists of naturals / code points are comma separated; optional values are `-` (None) or `=<value>`;
`rnd` = `salt:nonce;…`; `gens` = `=name:int;…`; `secrets` = `name:tok;…`; `deps` = `<name?>:tok;…`;
members = `name=bytes` separated by blanks. -/
namespace Drv.Archive

def parseOpt? (f : String → Option α) (s : String) : Option (Option α) :=
  if s == "-" then some none
  else match s.splitOn "=" with
    | ["", v] => (f v).map some
    | _ => none

def parseList? (sep : String) (f : String → Option α) (s : String) : Option (List α) :=
  if s.isEmpty then some [] else (s.splitOn sep).mapM f

def parsePair? (sep : String) (f : String → Option α) (g : String → Option β) (s : String) : Option (α × β) :=
  match s.splitOn sep with
  | [a, b] => do let x ← f a; let y ← g b; pure (x, y)
  | _ => none

def parseName? (s : String) : Option Name := parseChars? s

def showNats (l : List Nat) : String := ",".intercalate (l.map toString)

def showErr : Err → String
  | .badJson => "badJson" | .badYaml => "badYaml" | .noPassword => "noPassword" | .tooShort => "tooShort"
  | .invalidTag => "invalidTag" | .missingManifest => "missingManifest" | .badVersion => "badVersion"
  | .missingField => "missingField"

def showCat : Cat → String
  | .manifest => "manifest" | .secEnc => "secEnc" | .gmeta => "meta" | .secClear => "secClear" | .cr => "cr"

def showMember (m : Member) : String := showChars m.1 ++ "=" ++ showNats m.2

def showOpt (f : α → String) : Option α → String
  | none => "-"
  | some a => f a

def showEntry (e : Entry Nat) : String :=
  showChars e.name ++ ":" ++ toString e.cr ++ ":" ++ showOpt toString e.secret ++ ":" ++ showOpt toString e.generation

def showContents (r : Contents Nat) : String :=
  "ok v=" ++ toString r.manifest.version ++ " ts=" ++ showNats r.manifest.timestamp ++ " ns=" ++
    showNats r.manifest.namespace ++ " n=" ++ toString r.manifest.count ++ " enc=" ++
    (if r.manifest.encrypted then "1" else "0") ++ " entries=" ++ ";".intercalate (r.entries.map showEntry)

def showKvs (l : List (Name × Nat)) : String := ";".intercalate (l.map fun kv => showChars kv.1 ++ ":" ++ toString kv.2)

def showDoc (d : ArchiveClean.Doc Nat) : String :=
  showKvs d.top ++ "|" ++
    (match d.meta with
     | none => "-|-"
     | some m => "=" ++ showKvs m.fields ++ "|" ++ (match m.anns with | none => "-" | some a => "=" ++ showKvs a))

def rndOf (l : List (Bytes × Bytes)) : Nat → Bytes × Bytes := fun k => l.getD k ([], [])

def step (_ : Unit) (line : String) : Unit × String :=
  match line.splitOn "|" with
  | ["dns", name] =>
    match parseName? name with
    | some n => ((), toString (validName n))
    | none => ((), "bad-op")
  | ["classify", name] =>
    match parseName? name with
    | some n =>
      match classify n with
      | some (c, dn) => ((), showCat c ++ " " ++ showChars dn)
      | none => ((), "ignored")
    | none => ((), "bad-op")
  | ["enc", pw, salt, nonce, m] =>
    match parseNats? pw, parseNats? salt, parseNats? nonce, parseNats? m with
    | some p, some s, some n, some m => ((), showNats (encrypt idealAead p s n m))
    | _, _, _, _ => ((), "bad-op")
  | ["dec", pw, blob] =>
    match parseNats? pw, parseNats? blob with
    | some p, some b =>
      match decrypt idealAead p b with
      | .ok m => ((), "ok " ++ showNats m)
      | .error e => ((), "err " ++ showErr e)
    | _, _ => ((), "bad-op")
  | ["write", pw, rnd, ts, ns, gens, secrets, deps] =>
    match parseOpt? parseNats? pw, parseList? ";" (parsePair? ":" parseNats? parseNats?) rnd, parseNats? ts,
        parseNats? ns, parseOpt? (parseList? ";" (parsePair? ":" parseName? String.toInt?)) gens,
        parseList? ";" (parsePair? ":" parseName? String.toNat?) secrets,
        parseList? ";" (parsePair? ":" (parseOpt? parseName?) String.toNat?) deps with
    | some pw, some rnd, some ts, some ns, some gens, some secrets, some deps =>
      let b : Backup Nat := { deps := deps, secrets := secrets, gens := gens, «namespace» := ns, timestamp := ts }
      ((), " ".intercalate ((write idealAead tokenCodec pw (rndOf rnd) b).map showMember))
    | _, _, _, _, _, _, _ => ((), "bad-op")
  | ["read", pw, ms] =>
    match parseOpt? parseNats? pw, parseList? " " (parsePair? "=" parseName? parseNats?) ms with
    | some pw, some ms =>
      match read idealAead tokenCodec pw ms with
      | .ok r => ((), showContents r)
      | .error e => ((), "err " ++ showErr e)
    | _, _ => ((), "bad-op")
  | ["clean", which, top, mta, anns] =>
    let kvs? := parseList? ";" (parsePair? ":" parseName? String.toNat?)
    match kvs? top, parseOpt? kvs? mta, parseOpt? kvs? anns with
    | some top, some mta, some anns =>
      let d : ArchiveClean.Doc Nat := { top := top, «meta» := mta.map fun f => { fields := f, anns := anns } }
      if which == "crd" then ((), showDoc (ArchiveClean.cleanCrd d))
      else if which == "secret" then ((), showDoc (ArchiveClean.cleanSecret d))
      else ((), "bad-op")
    | _, _, _ => ((), "bad-op")
  | _ => ((), "bad-op")

end Drv.Archive
