import WfModel.Migrate
/-! Helper lemmas for C28: the apply loop over a split `applied ++ pending` migration list, the
bookkeeping rows, the invariant carried by every database reachable from a fresh / legacy file by runs
of earlier releases, and unconditional idempotence. -/
namespace Migrate

def versions (ms : List Migration) : List Nat := ms.map (·.version)

def rowsOf (p : String) (ms : List Migration) : List (String × Nat) := ms.map fun m => (p, m.version)

/-- `run_migrations(conn)` for the server package with the migration list `ms` -/
def runOn (ms : List Migration) (db : Db) : Result := runSources [(bootstrapPkg, ms)] (bootstrap db)

/-- migrations not covered by a legacy `user_version = k` -/
def above (k : Nat) (ms : List Migration) : List Migration := ms.filter fun m => k < m.version

/-- migrations a legacy database at `user_version = k` has already run -/
def upTo (k : Nat) (ms : List Migration) : List Migration := ms.filter fun m => m.version ≤ k

/-- explicit, decidable hypotheses on a migration list -/
def WellFormed (ms : List Migration) : Prop :=
  (∀ m ∈ ms, 0 < m.version) ∧ (versions ms).Pairwise (· < ·) ∧ (foldMigs [] ms).isSome = true

instance (ms : List Migration) : Decidable (WellFormed ms) := by unfold WellFormed; infer_instance

/-- seeding `1..k` records exactly the versions `≤ k` of the list, for every `k` up to its length
(true when the versions are `1..N`) -/
def LegacyAligned (ms : List Migration) : Prop :=
  ∀ k, k ≤ ms.length → seedRows k ++ rowsOf bootstrapPkg (above k ms) = rowsOf bootstrapPkg ms

instance (ms : List Migration) : Decidable (LegacyAligned ms) := by
  unfold LegacyAligned
  exact decidable_of_iff (∀ k, k < ms.length + 1 → _) ⟨fun h k hk => h k (by omega), fun h k hk => h k (by omega)⟩

/-! ### folding scripts -/

theorem foldMigs_append (s : Schema) (a b : List Migration) :
    foldMigs s (a ++ b) = (foldMigs s a).bind fun s' => foldMigs s' b := by
  induction a generalizing s with
  | nil => simp [foldMigs]
  | cons m a ih =>
    simp only [List.cons_append, foldMigs]
    cases applyStmts s m.stmts with
    | none => simp
    | some s' => simpa using ih s'

theorem foldMigs_prefix_some {s full : Schema} {a b : List Migration} (h : foldMigs s (a ++ b) = some full) :
    ∃ s', foldMigs s a = some s' ∧ foldMigs s' b = some full := by
  rw [foldMigs_append] at h
  cases ha : foldMigs s a with
  | none => simp [ha] at h
  | some s' => exact ⟨s', rfl, by simpa [ha] using h⟩

/-! ### bookkeeping rows -/

theorem appliedOf_append (p : String) (r s : List (String × Nat)) :
    appliedOf p (r ++ s) = appliedOf p r ++ appliedOf p s := by
  simp [appliedOf]

theorem appliedOf_rowsOf (p : String) (ms : List Migration) : appliedOf p (rowsOf p ms) = versions ms := by
  induction ms with
  | nil => rfl
  | cons m ms ih =>
    simp only [rowsOf, versions, appliedOf, List.map_cons] at ih ⊢
    simp [ih]

theorem appliedOf_seedRows (k : Nat) : appliedOf bootstrapPkg (seedRows k) = List.range' 1 k := by
  simp only [appliedOf, seedRows]
  induction List.range' 1 k with
  | nil => rfl
  | cons v vs ih => simp [ih]

theorem mem_appliedOf {p : String} {rows : List (String × Nat)} {v : Nat} :
    v ∈ appliedOf p rows ↔ (p, v) ∈ rows := by
  simp only [appliedOf, List.mem_map, List.mem_filter]
  constructor
  · rintro ⟨⟨q, w⟩, ⟨hm, hq⟩, hv⟩
    simp at hq hv
    subst hq hv
    exact hm
  · intro h
    exact ⟨(p, v), ⟨h, by simp⟩, rfl⟩

theorem rowsOf_append (p : String) (a b : List Migration) : rowsOf p (a ++ b) = rowsOf p a ++ rowsOf p b := by
  simp [rowsOf]

/-! ### the apply loop -/

theorem runFiles_skip (p : String) (a b : List Migration) (applied : List Nat) (db : Db)
    (h : ∀ m ∈ a, m.version ∈ applied ∨ m.version = 0) :
    runFiles p (a ++ b) applied db = runFiles p b applied db := by
  induction a with
  | nil => rfl
  | cons m a ih =>
    have hm := h m (by simp)
    have hc : (applied.contains m.version || m.version == 0) = true := by
      rcases hm with hm | hm
      · simp [hm]
      · simp [hm]
    simp only [List.cons_append, runFiles, hc, if_true]
    exact ih fun m' hm' => h m' (by simp [hm'])

theorem runFiles_pending (p : String) (b : List Migration) (applied : List Nat) (db : Db) (s' : Schema)
    (hpos : ∀ m ∈ b, 0 < m.version) (hnot : ∀ m ∈ b, m.version ∉ applied)
    (hnd : (versions b).Pairwise (· < ·)) (hf : foldMigs db.schema b = some s') :
    runFiles p b applied db = .ok { db with schema := s', rows := db.rows ++ rowsOf p b } := by
  induction b generalizing applied db with
  | nil =>
    simp only [foldMigs, Option.some.injEq] at hf
    subst hf
    simp [runFiles, rowsOf]
  | cons m b ih =>
    have hp := hpos m (by simp)
    have hn := hnot m (by simp)
    have hc : (applied.contains m.version || m.version == 0) = false := by
      simp [hn]; omega
    simp only [foldMigs] at hf
    cases hs : applyStmts db.schema m.stmts with
    | none => simp [hs] at hf
    | some s1 =>
      simp only [hs] at hf
      simp only [runFiles, hc, hs]
      simp only [versions, List.map_cons, List.pairwise_cons] at hnd
      have := ih (m.version :: applied) { db with schema := s1, rows := db.rows ++ [(p, m.version)] }
        (fun m' hm' => hpos m' (by simp [hm']))
        (fun m' hm' => by
          have h1 := hnot m' (by simp [hm'])
          have h2 := hnd.1 m'.version (List.mem_map.mpr ⟨m', hm', rfl⟩)
          simp only [List.mem_cons, not_or]
          exact ⟨by omega, h1⟩)
        hnd.2 hf
      simp only [Bool.false_eq_true, if_false]
      rw [this]
      simp [rowsOf]

/-- rows never disappear -/
theorem runFiles_rows_mono (p : String) (ms : List Migration) (applied : List Nat) (db db' : Db)
    (h : runFiles p ms applied db = .ok db') : (∀ r ∈ db.rows, r ∈ db'.rows) ∧ db'.hasSM = db.hasSM := by
  induction ms generalizing applied db with
  | nil => simp only [runFiles, Result.ok.injEq] at h; subst h; exact ⟨fun _ h => h, rfl⟩
  | cons m ms ih =>
    simp only [runFiles] at h
    split at h
    · exact ih applied db h
    · split at h
      · cases h
      · have := ih _ _ h
        exact ⟨fun r hr => this.1 r (by simp [hr]), this.2⟩

/-- after a successful pass every non-zero version of the list is in the final `applied` set, hence
recorded -/
theorem runFiles_records (p : String) (ms : List Migration) (applied : List Nat) (db db' : Db)
    (hsub : ∀ v ∈ applied, (p, v) ∈ db.rows)
    (h : runFiles p ms applied db = .ok db') : ∀ m ∈ ms, m.version = 0 ∨ (p, m.version) ∈ db'.rows := by
  induction ms generalizing applied db with
  | nil => intro m hm; cases hm
  | cons m ms ih =>
    simp only [runFiles] at h
    split at h
    · rename_i hc
      intro m' hm'
      rcases List.mem_cons.mp hm' with rfl | hm'
      · simp only [Bool.or_eq_true, List.contains_iff_mem, beq_iff_eq] at hc
        rcases hc with hc | hc
        · exact .inr ((runFiles_rows_mono p ms applied db db' h).1 _ (hsub _ hc))
        · exact .inl hc
      · exact ih applied db hsub h m' hm'
    · split at h
      · cases h
      · rename_i s hs
        intro m' hm'
        have hsub' : ∀ v ∈ m.version :: applied, (p, v) ∈
            ({ db with schema := s, rows := db.rows ++ [(p, m.version)] } : Db).rows := by
          intro v hv
          rcases List.mem_cons.mp hv with rfl | hv
          · simp
          · simp [hsub v hv]
        rcases List.mem_cons.mp hm' with rfl | hm'
        · exact .inr ((runFiles_rows_mono p ms _ _ db' h).1 _ (by simp))
        · exact ih _ _ hsub' h m' hm'

/-- a list whose non-zero versions are all recorded is skipped entirely -/
theorem runFiles_noop (p : String) (ms : List Migration) (db : Db)
    (h : ∀ m ∈ ms, m.version = 0 ∨ (p, m.version) ∈ db.rows) :
    runFiles p ms (appliedOf p db.rows) db = .ok db := by
  have := runFiles_skip p ms [] (appliedOf p db.rows) db (fun m hm => by
    rcases h m hm with h0 | hr
    · exact .inr h0
    · exact .inl (mem_appliedOf.mpr hr))
  simpa [runFiles] using this

theorem runSources_rows_mono (srcs : List (String × List Migration)) (db db' : Db)
    (h : runSources srcs db = .ok db') : (∀ r ∈ db.rows, r ∈ db'.rows) ∧ db'.hasSM = db.hasSM := by
  induction srcs generalizing db with
  | nil => simp only [runSources, Result.ok.injEq] at h; subst h; exact ⟨fun _ h => h, rfl⟩
  | cons src rest ih =>
    obtain ⟨p, ms⟩ := src
    simp only [runSources] at h
    cases h1 : runFiles p ms (appliedOf p db.rows) db with
    | failed f d => simp [h1] at h
    | ok db1 =>
      simp only [h1] at h
      have a := runFiles_rows_mono p ms _ db db1 h1
      have b := ih db1 h
      exact ⟨fun r hr => b.1 r (a.1 r hr), by rw [b.2, a.2]⟩

/-- running the same sources on any database that contains the rows of a successful run changes
nothing -/
theorem runSources_noop_of_rows (srcs : List (String × List Migration)) (db db' : Db)
    (h : runSources srcs db = .ok db') (db2 : Db) (hsub : ∀ r ∈ db'.rows, r ∈ db2.rows) :
    runSources srcs db2 = .ok db2 := by
  induction srcs generalizing db with
  | nil => rfl
  | cons src rest ih =>
    obtain ⟨p, ms⟩ := src
    simp only [runSources] at h ⊢
    cases h1 : runFiles p ms (appliedOf p db.rows) db with
    | failed f d => simp [h1] at h
    | ok db1 =>
      simp only [h1] at h
      have hrec := runFiles_records p ms _ db db1 (fun v hv => mem_appliedOf.mp hv) h1
      have hmono := runSources_rows_mono rest db1 db' h
      rw [runFiles_noop p ms db2 (fun m hm => by
        rcases hrec m hm with h0 | hr
        · exact .inl h0
        · exact .inr (hsub _ (hmono.1 _ hr)))]
      exact ih db1 h

theorem bootstrap_hasSM (db : Db) : (bootstrap db).hasSM = true := by
  unfold bootstrap
  split
  · assumption
  · rfl

theorem bootstrap_of_hasSM {db : Db} (h : db.hasSM = true) : bootstrap db = db := by
  simp [bootstrap, h]

/-! ### sorted version lists split at any legacy version -/

theorem upTo_append_above (k : Nat) (ms : List Migration) (hs : (versions ms).Pairwise (· < ·)) :
    ms = upTo k ms ++ above k ms := by
  induction ms with
  | nil => rfl
  | cons m ms ih =>
    simp only [versions, List.map_cons, List.pairwise_cons] at hs
    by_cases hm : m.version ≤ k
    · have h1 : upTo k (m :: ms) = m :: upTo k ms := by simp [upTo, hm]
      have h2 : above k (m :: ms) = above k ms := by
        simp only [above, List.filter_cons]
        have : ¬ k < m.version := by omega
        simp [this]
      rw [h1, h2, List.cons_append, ← ih hs.2]
    · have hall : ∀ m' ∈ ms, k < m'.version := fun m' hm' => by
        have := hs.1 m'.version (List.mem_map.mpr ⟨m', hm', rfl⟩)
        omega
      have h1 : upTo k (m :: ms) = [] := by
        simp only [upTo, List.filter_eq_nil_iff]
        intro m' hm'
        rcases List.mem_cons.mp hm' with rfl | hm'
        · simpa using hm
        · have := hall m' hm'; simp; omega
      have h2 : above k (m :: ms) = m :: ms := by
        simp only [above, List.filter_eq_self]
        intro m' hm'
        rcases List.mem_cons.mp hm' with rfl | hm'
        · simp; omega
        · simpa using hall m' hm'
      rw [h1, h2, List.nil_append]

/-! ### the invariant -/

/-- `a` = the part of `ms` already applied to `db` -/
def InvAt (ms a : List Migration) (db : Db) : Prop :=
  db.hasSM = true ∧ ∃ (k : Nat) (b : List Migration), db.userVersion = (k : Int) ∧ ms = a ++ b ∧
    foldMigs [] a = some db.schema ∧ (∀ m ∈ b, k < m.version) ∧
    db.rows = seedRows k ++ rowsOf bootstrapPkg (above k a)

theorem mem_range'_one {v k : Nat} : v ∈ List.range' 1 k ↔ 0 < v ∧ v ≤ k := by
  rw [List.mem_range'_1]
  omega

theorem InvAt.applied_mem {ms a : List Migration} {db : Db} (hwf : WellFormed ms) (h : InvAt ms a db) :
    ∀ m ∈ a, m.version ∈ appliedOf bootstrapPkg db.rows := by
  obtain ⟨_, k, b, _, hms, _, _, hrows⟩ := h
  intro m hm
  rw [hrows, appliedOf_append, appliedOf_seedRows, appliedOf_rowsOf, List.mem_append]
  have hp := hwf.1 m (by rw [hms]; simp [hm])
  by_cases hk : m.version ≤ k
  · exact .inl (mem_range'_one.mpr ⟨hp, hk⟩)
  · refine .inr (List.mem_map.mpr ⟨m, ?_, rfl⟩)
    simp only [above, List.mem_filter]
    exact ⟨hm, by simp; omega⟩

theorem InvAt.pending_not_mem {ms a : List Migration} {db : Db} (hwf : WellFormed ms) (h : InvAt ms a db)
    (b : List Migration) (hms : ms = a ++ b) : ∀ m ∈ b, m.version ∉ appliedOf bootstrapPkg db.rows := by
  obtain ⟨_, k, b', _, hms', _, hb, hrows⟩ := h
  have : b' = b := List.append_cancel_left (hms'.symm.trans hms)
  subst this
  intro m hm
  rw [hrows, appliedOf_append, appliedOf_seedRows, appliedOf_rowsOf, List.mem_append, not_or]
  have hk := hb m hm
  refine ⟨fun hc => by have := (mem_range'_one.mp hc).2; omega, fun hc => ?_⟩
  obtain ⟨m', hm', hv⟩ := List.mem_map.mp hc
  have hm'a : m' ∈ a := (List.mem_filter.mp hm').1
  have hs := hwf.2.1
  rw [hms, versions, List.map_append, List.pairwise_append] at hs
  have := hs.2.2 m'.version (List.mem_map.mpr ⟨m', hm'a, rfl⟩) m.version (List.mem_map.mpr ⟨m, hm, rfl⟩)
  omega

/-- one run of an earlier (or the current) release: `l` is a prefix of `ms` -/
theorem InvAt.step {ms a : List Migration} {db : Db} (hwf : WellFormed ms) (h : InvAt ms a db)
    (l : List Migration) (hl : l <+: ms) :
    ∃ db' a', runSources [(bootstrapPkg, l)] db = .ok db' ∧ InvAt ms a' db' ∧
      db'.userVersion = db.userVersion ∧ (a <+: l → a' = l) := by
  have hmem := h.applied_mem hwf
  obtain ⟨t, ht⟩ := hl
  obtain ⟨hsm, k, b, huv, hms, hfold, hb, hrows⟩ := h
  have hpa : a <+: ms := ⟨b, hms.symm⟩
  have hpl : l <+: ms := ⟨t, ht⟩
  rcases List.prefix_or_prefix_of_prefix hpl hpa with hla | hal
  · -- everything in `l` is already applied
    obtain ⟨u, hu⟩ := hla
    refine ⟨db, a, ?_, ⟨hsm, k, b, huv, hms, hfold, hb, hrows⟩, rfl, ?_⟩
    · have := runFiles_skip bootstrapPkg l [] (appliedOf bootstrapPkg db.rows) db (fun m hm =>
        .inl (hmem m (by rw [← hu]; simp [hm])))
      simp only [List.append_nil] at this
      simp [runSources, this, runFiles]
    · intro hal
      exact (List.IsPrefix.eq_of_length_le hal (by
        have := congrArg List.length hu; simp at this; omega)).symm ▸ rfl
  · -- `l = a ++ b1`, `b = b1 ++ t`
    obtain ⟨b1, hb1⟩ := hal
    have hbt : b = b1 ++ t := by
      apply List.append_cancel_left (as := a)
      rw [← hms, ← ht, ← hb1, List.append_assoc]
    obtain ⟨full, hfull⟩ := Option.isSome_iff_exists.mp hwf.2.2
    rw [hms, hbt, ← List.append_assoc] at hfull
    obtain ⟨s1, hs1, _⟩ := foldMigs_prefix_some hfull
    have hs1' := hs1
    rw [foldMigs_append, hfold] at hs1
    simp only [Option.bind_some] at hs1
    have hinv : InvAt ms a db := ⟨hsm, k, b, huv, hms, hfold, hb, hrows⟩
    have hnot := hinv.pending_not_mem hwf b hms
    have hsorted := hwf.2.1
    rw [hms, hbt, versions, List.map_append, List.map_append, List.pairwise_append] at hsorted
    have hsb1 : (versions b1).Pairwise (· < ·) := (List.pairwise_append.mp hsorted.2.1).1
    have hrun := runFiles_pending bootstrapPkg b1 (appliedOf bootstrapPkg db.rows) db s1
      (fun m hm => hwf.1 m (by rw [hms, hbt]; simp [hm]))
      (fun m hm => hnot m (by rw [hbt]; simp [hm])) hsb1 hs1
    have hskip := runFiles_skip bootstrapPkg a b1 (appliedOf bootstrapPkg db.rows) db
      (fun m hm => .inl (hmem m hm))
    refine ⟨{ db with schema := s1, rows := db.rows ++ rowsOf bootstrapPkg b1 }, l, ?_, ?_, rfl, fun _ => rfl⟩
    · simp [runSources, ← hb1, hskip, hrun]
    · refine ⟨hsm, k, t, huv, ht.symm, by rw [← hb1]; exact hs1', fun m hm => hb m (by rw [hbt]; simp [hm]), ?_⟩
      have hab1 : above k b1 = b1 := by
        simp only [above, List.filter_eq_self]
        intro m hm
        simpa using hb m (by rw [hbt]; simp [hm])
      simp only [hrows, ← hb1, above, List.filter_append, rowsOf_append, List.append_assoc]
      simp only [above] at hab1
      rw [hab1]

end Migrate
