import WfModel.Runner
import WfProofs.EngineReduce
/-!
# C11 — replaying the recorded tick log reproduces the live run state

On the runner LTS the reducer state changes only inside `drain`, by
`reduce tick st now`, and the same action appends `(tick, now)` to the log (`on_tick`);
commands never touch either.  Hence, at every point of every run,
`st = replay (rewind st0) log`.  The rebuilt state also satisfies every reducer
invariant (C01), so `running_steps()`/`to_dict()` computed from it describe the run.

Replay in the real code (`rebuild_state_from_ticks`) uses the *current* clock instead of
each tick's recorded time.  The model keeps the recorded times; equality "timestamps
aside" for decisions that do not depend on elapsed time is checked on the implementation
by the monitor (every tick of every generated run), not proved here — stated below as
`C11_time_erasure_statement` and left open.
-/
set_option linter.unusedVariables false
open Engine

def C11.replay (cfg : Cfg) (pol : Policy) (st : State) (log : List (Tick × Int)) : State :=
  log.foldl (fun s tn => (reduce cfg pol tn.1 s tn.2).1) st

theorem C11.replay_snoc (cfg : Cfg) (pol : Policy) (st : State) (log : List (Tick × Int)) (t : Tick) (n : Int) :
    C11.replay cfg pol st (log ++ [(t, n)]) = (reduce cfg pol t (C11.replay cfg pol st log) n).1 := by
  simp [C11.replay, List.foldl_append]

theorem C11.execCmd_st_log (r : Runner) (c : Cmd) :
    (execCmd r c).st = r.st ∧ (execCmd r c).log = r.log := by
  cases c with
  | queueEvent att step delay =>
    cases delay with
    | none => exact ⟨rfl, rfl⟩
    | some d =>
      simp only [execCmd]
      split <;> exact ⟨rfl, rfl⟩
  | scheduleIdleCheck => simp only [execCmd]; split <;> exact ⟨rfl, rfl⟩
  | _ => exact ⟨rfl, rfl⟩

theorem C11.execCmds_st_log : ∀ (cmds : List Cmd) (r : Runner),
    (execCmds r cmds).st = r.st ∧ (execCmds r cmds).log = r.log
  | [], r => by simp [execCmds]
  | c :: cs, r => by
    simp only [execCmds]
    split
    · exact C11.execCmd_st_log r c
    · have h1 := C11.execCmd_st_log r c
      have h2 := C11.execCmds_st_log cs (execCmd r c)
      exact ⟨h2.1.trans h1.1, h2.2.trans h1.2⟩

/-- the invariant: live state = replay of the log from the rewound initial state -/
def C11.Inv (cfg : Cfg) (pol : Policy) (base : State) (r : Runner) : Prop :=
  r.st = C11.replay cfg pol base r.log

theorem C11.step_inv (cfg : Cfg) (pol : Policy) (base : State) (r : Runner) (a : Act)
    (h : C11.Inv cfg pol base r) : C11.Inv cfg pol base (r.step cfg pol a) := by
  unfold Runner.step
  split
  · exact h
  · cases a with
    | drain =>
      simp only
      cases hb : r.buf with
      | nil => simpa using h
      | cons t rest =>
        simp only
        split
        · simpa [C11.Inv, Runner.finish] using h
        · have hsl := C11.execCmds_st_log (reduce cfg pol t r.st r.now).2
            { r with
              buf := rest
              idlePending := (if t = Tick.idleCheck then false else r.idlePending)
              st := (reduce cfg pol t r.st r.now).1
              log := r.log ++ [(t, r.now)] }
          unfold C11.Inv
          rw [hsl.1, hsl.2]
          simp only
          rw [C11.replay_snoc, ← h]
    | workerDone s w res =>
      simp only
      split
      · exact h
      · split <;> exact h
    | pull =>
      simp only
      split
      · exact h
      · split <;> exact h
    | timer => simp only; split <;> exact h
    | advance dt => exact h
    | external t => simp only; split <;> exact h
    | stepWrite p => exact h

/-- **C11**: at every point of every run the live reducer state equals the state rebuilt
from the rewound initial state and the ticks logged so far (each with its recorded time). -/
theorem C11_replay_invariant (cfg : Cfg) (pol : Policy) (st0 : State) (now : Int) (start : Option Ev)
    (timeout : Option Nat) (acts : List Act) :
    let r := Runner.run cfg pol (Runner.init cfg st0 now start timeout) acts
    r.st = C11.replay cfg pol (rewind cfg st0 now).1 r.log := by
  have hform : ∃ r1 : Runner, r1.st = (rewind cfg st0 now).1 ∧ r1.log = [] ∧
      Runner.init cfg st0 now start timeout = execCmds r1 (rewind cfg st0 now).2 := by
    unfold Runner.init
    cases timeout with
    | none => exact ⟨_, rfl, rfl, rfl⟩
    | some t => exact ⟨_, rfl, rfl, rfl⟩
  have h0 : C11.Inv cfg pol (rewind cfg st0 now).1 (Runner.init cfg st0 now start timeout) := by
    obtain ⟨r1, hst, hlog, heq⟩ := hform
    unfold C11.Inv
    rw [heq, (C11.execCmds_st_log _ r1).1, (C11.execCmds_st_log _ r1).2, hst, hlog]
    rfl
  simp only [Runner.run]
  generalize Runner.init cfg st0 now start timeout = r0 at h0
  induction acts generalizing r0 with
  | nil => exact h0
  | cons a as ih => simp only [List.foldl_cons]; exact ih _ (C11.step_inv cfg pol _ r0 a h0)

/-- the rebuilt state satisfies the worker-slot invariant, so `running_steps()` (steps with a
non-empty in-progress table) and `to_dict()` computed from it are those of the live run -/
theorem C11_rebuilt_wellformed (cfg : Cfg) (hwf : cfg.WF) (pol : Policy) (st0 : State) (now : Int)
    (h0 : IdsInv cfg st0) (log : List (Tick × Int)) :
    IdsInv cfg (C11.replay cfg pol (rewind cfg st0 now).1 log) := by
  have hr := rewind_idsInv cfg hwf st0 now h0
  unfold C11.replay
  generalize (rewind cfg st0 now).1 = st at hr
  induction log generalizing st with
  | nil => simpa using hr
  | cons tn rest ih => simp only [List.foldl_cons]; exact ih _ (reduce_idsInv cfg hwf pol tn.1 st tn.2 hr)

/-- every processed tick is logged exactly once, in processing order: the log grows by one
entry per `drain` of a tick the reducer accepted and by nothing else -/
theorem C11_log_grows_only_by_drain (cfg : Cfg) (pol : Policy) (r : Runner) (a : Act) :
    (r.step cfg pol a).log = r.log ∨ ∃ t, (r.step cfg pol a).log = r.log ++ [(t, r.now)] ∧ r.buf.head? = some t := by
  unfold Runner.step
  split
  · exact Or.inl rfl
  · cases a with
    | drain =>
      simp only
      cases hb : r.buf with
      | nil => exact Or.inl rfl
      | cons t rest =>
        simp only
        split
        · left; simp [Runner.finish]
        · right
          refine ⟨t, ?_, by simp⟩
          exact (C11.execCmds_st_log _ _).2
    | workerDone s w res => simp only; split; · exact Or.inl rfl
                            split <;> exact Or.inl rfl
    | pull => simp only; split; · exact Or.inl rfl
              split <;> exact Or.inl rfl
    | timer => simp only; split <;> exact Or.inl rfl
    | advance dt => exact Or.inl rfl
    | external t => simp only; split <;> exact Or.inl rfl
    | stepWrite p => exact Or.inl rfl

/-- open: replay with a different clock gives the same state up to timestamps when the
policy does not look at elapsed time (checked on the implementation by the monitor) -/
def C11_time_erasure_statement : Prop :=
  ∀ (cfg : Cfg) (pol : Policy), (∀ s e e' f x, pol s e f x = pol s e' f x) →
    ∀ (st : State) (log : List (Tick × Int)) (clock : Int),
      (C11.replay cfg pol st log).isRunning = (C11.replay cfg pol st (log.map (fun tn => (tn.1, clock)))).isRunning

/-! Non-vacuity -/
def C11.exCfg : Cfg := { steps := [{ name := 0, accepted := [0], numWorkers := 1, hasRetry := false }] }
def C11.startEv : Ev := { ty := 0, kind := .start, uid := 1 }
example :
    let r := Runner.run C11.exCfg (fun _ _ _ _ => .stop) (Runner.init C11.exCfg initState 0 (some C11.startEv) none)
      [.drain, .advance 3, .workerDone 0 0 [.result none], .drain, .drain]
    (r.log.length, r.log.map (·.2)) = (3, [0, 3, 3]) := by decide
